import PV.Proofs.EqHash
import PV.Proofs.EqHashStock
import PV.Proofs.Pickle
import PV.Properties.C17
import PV.Generated.Classes
/-
  C01 — expression nodes: structural equality, consistent hashing, immutability.

  Model.  lean/PV/Model/Classes.lean: the class table (one record per `Expression` subclass; what
  the GENERATED source of `__eq__`, `__hash__`, `__getstate__`, `__setstate__`, `init_arg_names`,
  `__getinitargs__` of each decorated class mentions; frozen flag; mapper method), regenerated from
  the live classes on every check into `PV.Generated.classes`.
  lean/PV/Model/EqHash.lean: `eqGen tbl P` / `hashGen tbl P`, the generated methods written like
  the template and reading their field lists from the table; `step1` / `run1`: histories of
  hash / == / != / in / dict insert / dict lookup / copy / rebuild / identity mapper / pickle /
  unpickle / setattr / delattr over a pool of objects with per-instance `_hash_value` slots
  (extending lean/PV/Model/Pickle.lean).  Objects are `PV.Pickle.Obj`; `Obj.pyEq` is the property's
  notion of equality: same node class and pairwise `==` fields.

  Hypotheses and why:
    `tbl.Ok`         the decidable side condition on the class table (every generated method of
                     every decorated class mentions exactly the dataclass fields, in order; class
                     tested; frozen; hashable).  Discharged for the current tree by `ok_current`;
                     `eq_ignores_dropped_field_cex`, `eq_decided_by_hash_cex` show what happens
                     without it;
    `P.Ok`           CPython's hash contract (numbers by value, mappings order-independent);
    `o.wf`           no float nan CONSTANT inside (nan != nan), keyword names duplicate-free;
    `conforms tbl o` every instance in `o` is an instance of a class of the table, with one value
                     per field;
    `tbl.Immutable`  / "no operation rebound a field": see `hash_cache_inv`.
-/
namespace PV.C01
open PV PV.Pickle PV.EqHash

/-! ### T-gen: the class table of the current tree -/

/-- **ok_current.**  In the working tree the generated `__eq__`, `__hash__`, `__getstate__`,
`__setstate__`, `init_arg_names`, `__getinitargs__` of EVERY decorated class mention exactly the
dataclass fields of the class, in order; `__eq__` tests the class; the dataclass is frozen; it has
a `mapper_method`; every class is hashable and none defines `__eq__` without `__hash__`. -/
theorem ok_current : ClassTable.Ok Generated.classes = true := by decide

/-- the table is not empty and covers the stock classes (non-vacuity of `ok_current`) -/
example : (Generated.classes.find? "CallWithKwargs").map (·.eqFields)
    = some ["function", "parameters", "kw_parameters"] := by decide
example : (Generated.classes.find? "Comparison").map (·.hashFields)
    = some ["left", "operator", "right"] := by decide
example : 30 ≤ (Generated.classes.filter (·.kind == .dataclass)).length := by decide

/-- **stock_current.**  For the class table of the CURRENT tree and all nan-free stock trees
`a`, `b` (every stock node class, any depth): their objects are instances of the table's classes
(`ofExpr_conforms`), so the generated `__eq__` answers the field-wise `==` of the two objects; and
trees that are `==` in the sense of `Expr.pyEq` (the `==` used by every other property's model) are
equal under the generated `__eq__`, in both directions, and have equal generated hashes. -/
theorem stock_current {P : HashParams} (hP : P.Ok) (a b : Expr) (wa : a.wf = true)
    (wb : b.wf = true) :
    eqGen Generated.classes P (ofExpr a) (ofExpr b) = (ofExpr a).pyEq (ofExpr b) ∧
    (a.pyEq b = true →
      eqGen Generated.classes P (ofExpr a) (ofExpr b) = true ∧
      eqGen Generated.classes P (ofExpr b) (ofExpr a) = true ∧
      hashGen Generated.classes P (ofExpr a) = hashGen Generated.classes P (ofExpr b)) := by
  have ca := ofExpr_conforms a
  have cb := ofExpr_conforms b
  have wa' := ofExpr_wf a wa
  have wb' := ofExpr_wf b wb
  have e1 := eqGen_eq_pyEq ok_current hP _ _ wa' wb' ca cb
  refine ⟨e1, fun h => ?_⟩
  have h1 : (ofExpr a).pyEq (ofExpr b) = true := ofExpr_pyEq a b h
  have h2 := Obj.pyEq_symm _ _ wa' wb' h1
  refine ⟨by rw [e1]; exact h1, by rw [eqGen_eq_pyEq ok_current hP _ _ wb' wa' cb ca]; exact h2, ?_⟩
  rw [hashGen_eq_hash ok_current P _ ca, hashGen_eq_hash ok_current P _ cb]
  exact Obj.eq_hash hP _ _ wa' wb' h1

/-- non-vacuity: `f(x, k=1, j=y) == f(x, j=y, k=1.0)` under the generated method of the current
table; a comparison differing in its operator is not -/
example :
    let a := Expr.callKw (.var "f") [.var "x"] ["k", "j"] [.const (.int 1), .var "y"]
    let b := Expr.callKw (.var "f") [.var "x"] ["j", "k"] [.var "y", .const (.flt "1.0" 1 1)]
    a.pyEq b = true ∧ eqGen Generated.classes (C17.exP 0) (ofExpr a) (ofExpr b) = true ∧
    eqGen Generated.classes (C17.exP 0) (ofExpr (.cmp .lt (.var "x") (.var "y")))
      (ofExpr (.cmp .le (.var "x") (.var "y"))) = false := by decide

/-! ### a small table for examples: a decorated class, an undecorated alias, a legacy subclass
with an extra init arg, a legacy class -/

def exInfo (name : String) (fields : List String) : ClassInfo :=
  { name := name, module := "ex", kind := .dataclass, base := name, fields := fields,
    eqFields := fields, eqClassChecked := true, hashFields := fields, hashInstalled := true,
    getstateFields := fields, setstateFields := fields, initArgNames := fields,
    getinitargsFields := fields, frozen := true, mapperMethod := some "map_x", hashable := true,
    ownEq := false, ownHash := false }

def exSub (name base : String) (fields : List String) : ClassInfo :=
  { name := name, module := "ex", kind := .sub, base := base, fields := fields,
    eqFields := [], eqClassChecked := false, hashFields := [], hashInstalled := false,
    getstateFields := [], setstateFields := [], initArgNames := [],
    getinitargsFields := [], frozen := false, mapperMethod := some "map_x", hashable := true,
    ownEq := false, ownHash := false }

def exTbl : ClassTable :=
  [exInfo "Variable" ["name"], exInfo "Lookup" ["aggregate", "name"],
   exSub "Alias" "Lookup" ["aggregate", "name"], exSub "Tagged" "Variable" ["name", "tag"],
   { exSub "Pair" "" ["left", "right"] with kind := .legacy }]

theorem exTbl_ok : exTbl.Ok = true := by decide

def vx : Obj := .inst "Variable" .dataclass [strAtom "x"] none
def vy : Obj := .inst "Variable" .dataclass [strAtom "yy"] none
def lookup (a : Obj) (n : String) : Obj := .inst "Lookup" .dataclass [a, strAtom n] none

/-! ### 1. `==` is "same class and pairwise-equal fields" -/

/-- **eq_iff_structural.**  For every class table satisfying `Ok`, every hash function meeting
CPython's contract and all well-formed objects over the table: the generated `__eq__` — class test,
hash fast path, legacy branch, field-wise comparison of the fields the table lists, nested fields
through the same method — answers exactly "same class and pairwise `==` fields".  The content is
that the hash fast path (`if hash(self) != hash(other): return False`) can never answer False for
structurally equal objects, at any nesting depth. -/
theorem eq_iff_structural {tbl : ClassTable} (ok : tbl.Ok = true) {P : HashParams} (hP : P.Ok)
    (a b : Obj) (wa : a.wf = true) (wb : b.wf = true) (ca : conforms tbl a = true)
    (cb : conforms tbl b = true) : eqGen tbl P a b = a.pyEq b :=
  eqGen_eq_pyEq ok hP a b wa wb ca cb

/-- the same for two instances, spelled out: equal iff same class, same number of fields, and the
fields are pairwise `==` -/
theorem eq_iff_structural_inst {tbl : ClassTable} (ok : tbl.Ok = true) {P : HashParams} (hP : P.Ok)
    (c c' : String) (k k' : Kind) (fs fs' : List Obj) (h h' : Option Nat)
    (wa : (Obj.inst c k fs h).wf = true) (wb : (Obj.inst c' k' fs' h').wf = true)
    (ca : conforms tbl (.inst c k fs h) = true) (cb : conforms tbl (.inst c' k' fs' h') = true) :
    eqGen tbl P (.inst c k fs h) (.inst c' k' fs' h') = true ↔
      c = c' ∧ k = k' ∧ fs.length = fs'.length ∧ ∀ p ∈ fs.zip fs', p.1.pyEq p.2 = true := by
  rw [eq_iff_structural ok hP _ _ wa wb ca cb]
  simp only [Obj.pyEq, Bool.and_eq_true, beq_iff_eq, pyEqL_iff, and_assoc]

/-- non-vacuity: objects that differ in exactly one field, objects of different classes with the
same fields, the undecorated alias of a decorated class, `1 == 1.0 == True` inside a field -/
example :
    eqGen exTbl (C17.exP 0) (lookup vx "a") (lookup vx "a") = true ∧
    eqGen exTbl (C17.exP 0) (lookup vx "a") (lookup vx "b") = false ∧
    eqGen exTbl (C17.exP 0) (lookup vx "a") (lookup vy "a") = false ∧
    eqGen exTbl (C17.exP 0) (lookup vx "a") (.inst "Alias" .dataclass [vx, strAtom "a"] none) = false ∧
    eqGen exTbl (C17.exP 0) (lookup (.atom (.int 1)) "a") (lookup (.atom (.bool true)) "a") = true ∧
    conforms exTbl (.inst "Alias" .dataclass [vx, strAtom "a"] none) = true := by decide

/-- what a constructor call stores (`__post_init__`): a comparison operator given by name and
`scope=None` are normalised, so the two source forms build `==` objects -/
example :
    eqGen Generated.classes (C17.exP 0)
      (postInit (.inst "Comparison" .dataclass [vx, strAtom "lt", vy] none))
      (postInit (.inst "Comparison" .dataclass [vx, strAtom "<", vy] none)) = true ∧
    eqGen Generated.classes (C17.exP 0)
      (postInit (.inst "CommonSubexpression" .dataclass [vx, .atom .none, .atom .none] none))
      (postInit (.inst "CommonSubexpression" .dataclass [vx, .atom .none, strAtom "pymbolic_eval"] none))
        = true := by decide

/-! ### 2. equivalence relation; equal ⇒ equal hash -/

/-- **eq_refl.** -/
theorem eq_refl {tbl : ClassTable} (ok : tbl.Ok = true) {P : HashParams} (hP : P.Ok) (a : Obj)
    (wa : a.wf = true) (ca : conforms tbl a = true) : eqGen tbl P a a = true := by
  rw [eq_iff_structural ok hP a a wa wa ca ca]
  exact Obj.pyEq_refl a wa

/-- **eq_symm.** -/
theorem eq_symm {tbl : ClassTable} (ok : tbl.Ok = true) {P : HashParams} (hP : P.Ok) (a b : Obj)
    (wa : a.wf = true) (wb : b.wf = true) (ca : conforms tbl a = true) (cb : conforms tbl b = true)
    (h : eqGen tbl P a b = true) : eqGen tbl P b a = true := by
  rw [eq_iff_structural ok hP _ _ wa wb ca cb] at h
  rw [eq_iff_structural ok hP _ _ wb wa cb ca]
  exact Obj.pyEq_symm a b wa wb h

/-- **eq_trans.** -/
theorem eq_trans {tbl : ClassTable} (ok : tbl.Ok = true) {P : HashParams} (hP : P.Ok) (a b c : Obj)
    (wa : a.wf = true) (wb : b.wf = true) (wc : c.wf = true) (ca : conforms tbl a = true)
    (cb : conforms tbl b = true) (cc : conforms tbl c = true)
    (h1 : eqGen tbl P a b = true) (h2 : eqGen tbl P b c = true) : eqGen tbl P a c = true := by
  rw [eq_iff_structural ok hP _ _ wa wb ca cb] at h1
  rw [eq_iff_structural ok hP _ _ wb wc cb cc] at h2
  rw [eq_iff_structural ok hP _ _ wa wc ca cc]
  exact Obj.pyEq_trans a b c wa wb wc h1 h2

/-- **eq_hash.**  Equal objects have equal hashes — the generated `__hash__` of one and of the
other, for every hash function meeting CPython's contract — so each can stand in for the other as
a dict or set key. -/
theorem eq_hash {tbl : ClassTable} (ok : tbl.Ok = true) {P : HashParams} (hP : P.Ok) (a b : Obj)
    (wa : a.wf = true) (wb : b.wf = true) (ca : conforms tbl a = true) (cb : conforms tbl b = true)
    (h : eqGen tbl P a b = true) : hashGen tbl P a = hashGen tbl P b := by
  rw [eq_iff_structural ok hP _ _ wa wb ca cb] at h
  rw [hashGen_eq_hash ok P a ca, hashGen_eq_hash ok P b cb]
  exact Obj.eq_hash hP a b wa wb h

/-- the nan CONSTANT is the reason for `wf` (a `NaN` NODE is an ordinary instance and fine) -/
example : eqGen exTbl (C17.exP 0) (lookup (.atom (.flt "nan" 0 0)) "a")
    (lookup (.atom (.flt "nan" 0 0)) "a") = false := by decide

/-- **legacy_eq_hash.**  The same laws for instances of legacy classes (init-args protocol:
`Expression.__eq__` / `is_equal` / `get_hash`, or the legacy branch of the generated methods of a
decorated ancestor), the init args being the positional fields of the instance: the answer is
structural, symmetric, and equal instances hash equal. -/
theorem legacy_eq_hash {tbl : ClassTable} (ok : tbl.Ok = true) {P : HashParams} (hP : P.Ok)
    (c : String) (k : Kind) (fs : List Obj) (h : Option Nat) (_hk : k ≠ .dataclass) (b : Obj)
    (wa : (Obj.inst c k fs h).wf = true) (wb : b.wf = true)
    (ca : conforms tbl (.inst c k fs h) = true) (cb : conforms tbl b = true) :
    eqGen tbl P (.inst c k fs h) b = (Obj.inst c k fs h).pyEq b ∧
      (eqGen tbl P (.inst c k fs h) b = true →
        eqGen tbl P b (.inst c k fs h) = true ∧
        hashGen tbl P (.inst c k fs h) = hashGen tbl P b) :=
  ⟨eq_iff_structural ok hP _ _ wa wb ca cb,
   fun he => ⟨eq_symm ok hP _ _ wa wb ca cb he, eq_hash ok hP _ _ wa wb ca cb he⟩⟩

/-- non-vacuity: a legacy subclass with an extra init arg, a legacy class -/
example :
    let t1 : Obj := .inst "Tagged" .legacySub [strAtom "v", .atom (.int 1)] none
    let t2 : Obj := .inst "Tagged" .legacySub [strAtom "v", .atom (.int 2)] none
    let p1 : Obj := .inst "Pair" .legacy [vx, .atom (.int 1)] none
    conforms exTbl t1 = true ∧ conforms exTbl p1 = true ∧
    eqGen exTbl (C17.exP 0) t1 t1 = true ∧ eqGen exTbl (C17.exP 0) t1 t2 = false ∧
    eqGen exTbl (C17.exP 0) p1 p1 = true ∧
    eqGen exTbl (C17.exP 0) p1 (.inst "Pair" .legacy [vy, .atom (.int 1)] none) = false := by decide

/-! ### 3. why `Ok` is needed -/

/-- a template that forgot `name` in `__eq__` (and in `__hash__`) -/
def tblDropped : ClassTable :=
  [exInfo "Variable" ["name"],
   { exInfo "Lookup" ["aggregate", "name"] with
     eqFields := ["aggregate"], hashFields := ["aggregate"] }]

/-- **eq_ignores_dropped_field_cex.**  For a table whose `__eq__` (and `__hash__`) omit a field,
two nodes that differ in exactly that field compare equal: `Lookup(x, "a") == Lookup(x, "b")`. -/
theorem eq_ignores_dropped_field_cex :
    tblDropped.Ok = false ∧
    conforms tblDropped (lookup vx "a") = true ∧ conforms tblDropped (lookup vx "b") = true ∧
    (lookup vx "a").pyEq (lookup vx "b") = false ∧
    eqGen tblDropped (C17.exP 0) (lookup vx "a") (lookup vx "b") = true := by decide

/-- a template whose `__hash__` covers `name` while `__eq__` forgot it -/
def tblHashExtra : ClassTable :=
  [exInfo "Variable" ["name"],
   { exInfo "Lookup" ["aggregate", "name"] with eqFields := ["aggregate"] }]

/-- every string hashes to 0: allowed by the contract (`P.Ok`), all strings collide -/
def collideP : HashParams := { C17.exP 0 with str := fun _ => 0 }

theorem collideP_ok : collideP.Ok := ⟨fun _ _ _ _ _ _ _ => rfl, fun _ _ h => h.length_eq⟩

/-- **eq_decided_by_hash_cex.**  For a table whose `__hash__` covers a field that `__eq__`
ignores, whether two nodes differing in that field are `==` is decided by the hash function of the
process (the hash fast path is all that separates them): equal in a process where the two strings
collide, unequal in another.  (With the fast path in place "equal but different hash" cannot be
observed directly; what is lost is that `==` is a function of the fields.) -/
theorem eq_decided_by_hash_cex :
    tblHashExtra.Ok = false ∧
    eqGen tblHashExtra collideP (lookup vx "a") (lookup vx "bb") = true ∧
    eqGen tblHashExtra (C17.exP 0) (lookup vx "a") (lookup vx "bb") = false := by decide

/-! ### 4. fields cannot be rebound -/

/-- **frozen_rejects.**  `setattr` / `delattr` on an attribute that the class table protects
(`frozenFor`) answers `FrozenInstanceError` and changes nothing: not the fields, not a slot, not
the dict. -/
theorem frozen_rejects (tbl : ClassTable) (P : HashParams) (w : World1) (i : Nat) (c f : String)
    (k : Kind) (fs : List Obj) (h : Option Nat) (v : Obj)
    (hi : w.base.pool[i]? = some (.inst c k fs h)) (hf : tbl.frozenFor c f = true) :
    step1 tbl P w (.setattr i f v) = (w, .frozen) ∧ step1 tbl P w (.delattr i f) = (w, .frozen) := by
  simp only [step1, hi, hf, if_true, and_self]

/-- for a table satisfying `Ok`: EVERY attribute of an instance of a decorated class is protected
(`type(self) is cls` in the frozen dataclass's `__setattr__`) -/
theorem ok_frozen_dataclass {tbl : ClassTable} (ok : tbl.Ok = true) {c : String} {i : ClassInfo}
    (hi : tbl.find? c = some i) (hk : i.kind = .dataclass) (f : String) :
    tbl.frozenFor c f = true := by
  have hm := (find?_spec hi).1
  simp only [ClassTable.Ok, Bool.and_eq_true, List.all_eq_true] at ok
  have := ok.2 i hm
  simp only [ClassInfo.ok, hk] at this
  simp only [ClassTable.frozenFor, hi, hk, (okDataclass_spec this).2.2.2.2]

/-- … and every dataclass field inherited by an undecorated subclass is protected -/
theorem ok_frozen_sub {tbl : ClassTable} (ok : tbl.Ok = true) {c : String} {i b : ClassInfo}
    (hi : tbl.find? c = some i) (hk : i.kind = .sub) (hb : tbl.find? i.base = some b) (f : String)
    (hf : f ∈ b.fields) : tbl.frozenFor c f = true := by
  have hm := (find?_spec hi).1
  simp only [ClassTable.Ok, Bool.and_eq_true, List.all_eq_true] at ok
  have h1 := ok.2 i hm
  simp only [ClassInfo.ok, hk, hb, Bool.and_eq_true, beq_iff_eq] at h1
  have h2 := ok.2 b (find?_spec hb).1
  simp only [ClassInfo.ok, h1.2] at h2
  simp only [ClassTable.frozenFor, hi, hk, hb, (okDataclass_spec h2).2.2.2.2, Bool.true_and,
    List.contains_iff_mem, hf]

/-- non-vacuity, and the two kinds of attribute that are NOT protected: the extra init arg of a
legacy subclass of a decorated class, and every init arg of a legacy class -/
example :
    exTbl.frozenFor "Lookup" "name" = true ∧ exTbl.frozenFor "Lookup" "anything" = true ∧
    exTbl.frozenFor "Alias" "name" = true ∧ exTbl.frozenFor "Tagged" "name" = true ∧
    exTbl.frozenFor "Tagged" "tag" = false ∧ exTbl.frozenFor "Pair" "left" = false ∧
    exTbl.Immutable = false := by decide

/-! ### 5. the cached hash never goes stale -/

/-- **hash_cache_inv.**  From any coherent state (every `_hash_value` slot that is set holds the
hash of its object), any history of hash / == / != / `in` / dict insert / dict lookup / copy /
rebuild / identity mapper / pickle / unpickle / setattr / delattr operations in which no `setattr`
went through on a field
  (a) keeps every slot coherent, and
  (b) answers exactly as the slot-free reference semantics does, i.e. as the same operations on
      freshly built objects.
For the operations of Pickle.lean this is `PV.C17.history_refines` (via `step_sim`); the other
operations are treated in `PV.EqHash.step1_sim`. -/
theorem hash_cache_inv (tbl : ClassTable) {P : HashParams} (hP : P.Ok) (w : World1)
    (hc : w.base.coherent P) (hw : w.base.wf) (ops : List Op1)
    (hno : ∀ o ∈ (run1 tbl P w ops).2, o.rebound = false) :
    (run1 tbl P w ops).1.base.coherent P ∧
      (run1 tbl P w ops).2.map Out1.core = (run1Ref tbl w.erased ops).2 := by
  obtain ⟨h1, _, _, h4⟩ := run1_sim tbl hP ops w hc hw hno
  exact ⟨h1, h4⟩

/-- the histories of C17 are the special case (cited: `PV.C17.history_refines`) -/
theorem hash_cache_inv_base {P : HashParams} (hP : P.Ok) (w : World) (hc : w.coherent P)
    (hw : w.wf) (ops : List Op) :
    (run P w ops).1.coherent P ∧ (run P w ops).2.map Out.core = (runRef w.erased ops).2 :=
  C17.history_refines hP w hc hw ops

/-- **hash_cache_inv_frozen.**  When every declared field / init arg of every class of the table
is protected (`Immutable`), NO history rebinds a field, so the conclusion of `hash_cache_inv`
holds for all histories: equality class and hash of every object stay the same for its whole
lifetime, whatever copies, mappers, dict and set look-ups touch it. -/
theorem hash_cache_inv_frozen (tbl : ClassTable) (im : tbl.Immutable = true) {P : HashParams}
    (hP : P.Ok) (w : World1) (hc : w.base.coherent P) (hw : w.base.wf) (ops : List Op1) :
    (run1 tbl P w ops).1.base.coherent P ∧
      (run1 tbl P w ops).2.map Out1.core = (run1Ref tbl w.erased ops).2 :=
  hash_cache_inv tbl hP w hc hw ops (run1_not_rebound tbl im P ops w)

/-- a table of decorated classes and their undecorated aliases satisfying `Ok` is `Immutable`
(non-vacuity of `hash_cache_inv_frozen`) -/
example : ClassTable.Immutable [exInfo "Variable" ["name"], exInfo "Lookup" ["aggregate", "name"],
    exSub "Alias" "Lookup" ["aggregate", "name"]] = true := by decide

/-- the slot-aware `==` and `hash` answer like the table-driven generated methods -/
theorem cached_eq_is_generated {tbl : ClassTable} (ok : tbl.Ok = true) {P : HashParams} (hP : P.Ok)
    (a b : Obj) (ha : a.coherent P) (hb : b.coherent P) (wa : a.wf = true) (wb : b.wf = true)
    (ca : conforms tbl a = true) (cb : conforms tbl b = true) :
    (eqC P a b).1 = eqGen tbl P a b ∧ (a.hashC P).1 = hashGen tbl P a := by
  rw [(eqC_spec hP a b ha hb wa wb).ans, eq_iff_structural ok hP a b wa wb ca cb,
    (hashC_spec P a ha).1, hashGen_eq_hash ok P a ca]
  exact ⟨rfl, rfl⟩

/-- a decidable view of an output -/
def view : Out1 → Nat × Bool × List Bool × List Bool
  | .base (.hash f b) => (0, f, b, [])
  | .base (.eq r a b) => (1, r, a, b)
  | .base (.member r a b) => (2, r, a, b)
  | .base _ => (3, true, [], [])
  | .ne r a b => (4, r, a, b)
  | .copied b => (5, true, b, [])
  | .rebuilt b => (6, true, b, [])
  | .same => (7, true, [], [])
  | .dictSet r b => (8, r, b, [])
  | .dictGet v b => (9, v.isSome, b, [])
  | .frozen => (10, true, [], [])
  | .attrSet f b => (11, f, b, [])
  | .attrDeleted f => (12, f, [], [])
  | .bad => (13, false, [], [])

/-- non-vacuity of the histories: hash, copy, compare, use as dict key, try to rebind -/
example :
    ((run1 exTbl (C17.exP 0) ⟨⟨[lookup vx "a", lookup vx "a"], []⟩, []⟩
        [.base (.hash 0), .copy 0, .base (.eq 2 1), .dictSet 0 7, .dictGet 1,
         .setattr 0 "name" (strAtom "b"), .ne 0 1]).2).map view
      = [(0, true, [true, true], []), (5, true, [false, true], []),
         (1, true, [true, true], [true, true]), (8, false, [true, true], []),
         (9, true, [true, true], []), (10, true, [], []),
         (4, false, [true, true], [true, true])] := by decide

/-- **unfrozen_rebind_stale_cex** (known finding `legacy-fields-rebindable`).  What the frozen
flag prevents, on a class that does not have it: a legacy instance `Pair(x, 1)` is hashed, its init
arg `left` is rebound to `y` (the assignment goes through, the `_hash_value` slot stays), and now
it compares UNEQUAL to a freshly built `Pair(y, 1)` — same class, pairwise-equal fields — because
the stale hash makes the hash fast path fire; it is also not found in a set holding the fresh
object. -/
theorem unfrozen_rebind_stale_cex :
    let w : World1 := ⟨⟨[.inst "Pair" .legacy [vx, .atom (.int 1)] none,
                        .inst "Pair" .legacy [vy, .atom (.int 1)] none], []⟩, []⟩
    let r := run1 exTbl (C17.exP 0) w [.base (.hash 0), .setattr 0 "left" vy, .base (.eq 0 1),
                                       .base (.member 0 1)]
    r.2.map view = [(0, true, [true, true], []), (11, true, [true, false], []),
                    (1, false, [true, false], [true, true]), (2, false, [true, false], [true, true])] ∧
    (match r.1.base.pool with
     | [a, b] => a.pyEq b
     | _ => false) = true := by decide

end PV.C01
