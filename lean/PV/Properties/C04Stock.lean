import PV.Model.StockNodes
import PV.Proofs.WalkDispatch
import PV.Proofs.StockNodes
import PV.Generated.Traversal
/-
  C04, continued — two clauses on the parts of the stock traversals the expression model has no
  constructor for:

  * "a node type it does not handle is reported by raising, never silently skipped", for nodes of
    USER classes below the library's base classes (`unhandled_reported`,
    `user_node_unhandled_reported`) and for the handler tables regenerated from the current source
    (`base_handlers_report_current`, `user_node_below_base_reported_current`);
  * "the walk mapper calls visit once per node occurrence ..." on numpy arrays of every rank
    (`array_walk_ndindex`, `array_walk_skip`), for the `map_numpy_array` rows regenerated from the
    current source (`array_rows_current`, `array_walk_table_current`), with the witnesses of what
    Python's iteration protocol does instead (`array_walk_each_rank2_cex`,
    `array_walk_each_rank0_cex`).
-/
namespace PV.C04
open PV PV.Generated

/-! ## 7. Nodes of user classes that nothing handles -/

/-- **Reported by raising.**  A mapper with ANY handler table, a node class with ANY MRO: if every
handler name along the MRO is one the mapper reports (it has no such attribute, or the function
behind it raises `NotImplementedError`), then the call ends in an error — the unsupported-
expression hook or that `NotImplementedError`; no result is returned. -/
theorem unhandled_reported (tbl : List C04Handler) (mro : List (Option String))
    (h : ∀ m, some m ∈ mro → c04Reports tbl m = true) :
    c04Reported (c04ResolveMro tbl mro) = true := by
  unfold c04ResolveMro
  rcases dispatchExpr_cases (tbl.map (·.name)) mro with ⟨m, hd, _, hmem⟩ | hu
  · rw [hd]
    have hr := h m hmem
    unfold c04Reports at hr
    cases hf : c04FindHandler tbl m with
    | none => simp [c04BodyOf_none_of_find_none tbl 4 m hf, c04Reported]
    | some hd' =>
      rw [hf] at hr
      have hb : c04BodyOf tbl 4 m = some .raises := by simpa using hr
      simp [hb, c04Reported]
  · rw [hu]; rfl

/-- **... wherever the class sits in the user's hierarchy.**  A user class whose MRO is `own`
(the user's classes, most derived first) followed by `base` (the library class it hangs off and
that one's ancestors): if the mapper implements none of the user's names and reports every
library name, the node is reported. -/
theorem user_node_unhandled_reported (tbl : List C04Handler) (own base : List (Option String))
    (hown : ∀ m, some m ∈ own → c04FindHandler tbl m = none)
    (hbase : ∀ m, some m ∈ base → c04Reports tbl m = true) :
    c04Reported (c04ResolveMro tbl (own ++ base)) = true := by
  apply unhandled_reported
  intro m hm
  rcases List.mem_append.mp hm with h | h
  · simp [c04Reports, hown m h]
  · exact hbase m h

/-- the stock traversals of the current source: `Collector` is `CombineMapper` plus its leaf
handlers -/
def c04StockTables : List (String × List C04Handler) :=
  [("WalkMapper", c04WalkTable), ("IdentityMapper", c04IdentityTable),
   ("CombineMapper", c04CombineTable),
   ("Collector", c04WithLeaves c04CollectorLeaves c04CombineTable),
   ("CallbackMapper", c04CallbackTable)]

/-- **The base classes of the current primitives** — the classes other library classes derive
from — hand down exactly these handler names. -/
theorem base_class_names_current :
    c04InheritedNames c04Classes =
      ["map_algebraic_leaf", "map_leaf", "map_quotient_base", "map__shift_operator"] := by
  decide

/-- **No stock traversal of the current source answers for a base class**: under each of the
names the library's base classes hand down, `WalkMapper`, `IdentityMapper`, `CombineMapper`,
`Collector` and `CallbackMapper` have no handler, or `Mapper`'s stub that raises
`NotImplementedError`. -/
theorem base_handlers_report_current :
    c04StockTables.all (fun t => (c04InheritedNames c04Classes).all (c04Reports t.2)) = true := by
  decide

/-- **A user node type below a base class is reported by the stock traversals of the current
source**: for `WalkMapper`, `IdentityMapper`, `CombineMapper`, `Collector`, `CallbackMapper`, for
every library class all of whose handler names are base-class names (`AlgebraicLeaf`, `Leaf`,
`QuotientBase`, ...; `Expression` itself: the empty MRO), and every chain of user classes on top
of it whose names the traversal does not implement, the call raises. -/
theorem user_node_below_base_reported_current (t : String × List C04Handler)
    (ht : t ∈ c04StockTables) (own base : List (Option String))
    (hown : ∀ m, some m ∈ own → c04FindHandler t.2 m = none)
    (hbase : ∀ m, some m ∈ base → m ∈ c04InheritedNames c04Classes) :
    c04Reported (c04ResolveMro t.2 (own ++ base)) = true := by
  apply user_node_unhandled_reported _ _ _ hown
  intro m hm
  have hall := base_handlers_report_current
  rw [List.all_eq_true] at hall
  have h1 := hall t ht
  rw [List.all_eq_true] at h1
  exact h1 m (hbase m hm)

/-- a handler for a base-class name that answers — `map_leaf = map_constant` in a collector — makes
every user node type below `Leaf` vanish silently: the fold goes on with an empty contribution -/
theorem base_handler_answers_cex :
    c04Reported (c04ResolveMro (c04WithLeaves ("map_leaf" :: c04CollectorLeaves) c04CombineTable)
      [some "map_port", some "map_leaf", some "map_algebraic_leaf", none]) = false := by
  decide

section examples
example : c04ResolveMro c04CombineTable
    [some "map_tagged_port", some "map_port", some "map_leaf", some "map_algebraic_leaf", none]
      = .ok .raises := rfl
example : c04ResolveMro c04WalkTable [some "map_marker", none] = .error .unsupported := rfl
example : c04Reports c04WalkTable "map_leaf" = true ∧ c04Reports c04WalkTable "map_variable" = false := by
  decide
/-- the hypotheses of `user_node_below_base_reported_current` are satisfiable -/
example : c04Reported (c04ResolveMro (c04WithLeaves c04CollectorLeaves c04CombineTable)
    ([some "map_port"] ++ [some "map_leaf", some "map_algebraic_leaf", none])) = true :=
  user_node_below_base_reported_current ("Collector", _)
    (.tail _ (.tail _ (.tail _ (.head _)))) _ _
    (by intro m hm; simp at hm; subst hm; decide)
    (by intro m hm; simp at hm; rcases hm with h | h <;> subst h <;> decide)
end examples

/-! ## 8. Arrays of every rank under the walk mapper -/

/-- the row `WalkMapper.map_numpy_array` has in the current source -/
def c04ArrayWalkRow : C04Body := .walk .guard true [⟨"", .ndindex, true⟩] true true

/-- what the row would be with the entries enumerated by Python's iteration protocol
(`for child in expr`, the body of `map_list`) -/
def c04ArrayWalkRowEach : C04Body := .walk .guard true [⟨"", .each, true⟩] true true

/-- **Once per node occurrence, on arrays of EVERY rank.**  With the entries enumerated by index
(`numpy.ndindex(expr.shape)`), the walk of an array of any shape — rank 0, axes of length 0 and 1
included — is `visit` on the array, `visit` / `post_visit` on each entry once in index order,
`post_visit` on the array; all with the extra arguments. -/
theorem array_walk_ndindex (args : Bool) (fuel : Nat) (shape : List Nat) :
    aWalkObj c04ArrayWalkRow false args (fuel + 1) (.array shape 0) = .ok (aSpec args shape) := by
  have h := seqL_entries c04ArrayWalkRow false args fuel 0 (List.range (shapeSize shape))
  simp only [Nat.zero_add, c04ArrayWalkRow] at h
  simp only [aWalkObj, c04ArrayWalkRow, aSeqSites, aItems, Bool.and_true, Nat.zero_add, aSpec]
  simp [bind, Except.bind, pure, Except.pure, h]

/-- **`visit` returning `False` on the array skips its entries** (and the post-visit). -/
theorem array_walk_skip (args : Bool) (fuel : Nat) (shape : List Nat) :
    aWalkObj c04ArrayWalkRow true args (fuel + 1) (.array shape 0)
      = .ok [⟨false, .array shape 0, args⟩] := by
  simp [aWalkObj, c04ArrayWalkRow, pure, Except.pure]

/-- **The array rows of the current source**: `WalkMapper`, `CombineMapper` and `IdentityMapper`
enumerate the entries of an array by index (`numpy.ndindex(expr.shape)` / `expr.flat`), forward
the extra arguments, and the walk handler brackets them with `visit` (guard) and `post_visit`. -/
theorem array_rows_current :
    c04BodyOf c04WalkTable 4 "map_numpy_array" = some c04ArrayWalkRow ∧
    c04BodyOf c04CombineTable 4 "map_numpy_array" = some (.fold true [⟨"", .ndindex, true⟩]) ∧
    c04BodyOf c04IdentityTable 4 "map_numpy_array"
      = some (.rebuild [⟨"", .ndindex, true⟩] false [] false .container) := by
  decide

/-- **The walk of an array by the `WalkMapper` of the current source is the property's trace**, for
every shape and both answers of `visit`. -/
theorem array_walk_table_current (args : Bool) (shape : List Nat) :
    aWalkTable c04WalkTable false args shape = .ok (aSpec args shape) ∧
    aWalkTable c04WalkTable true args shape = .ok [⟨false, .array shape 0, args⟩] := by
  unfold aWalkTable
  rw [array_rows_current.1]
  exact ⟨array_walk_ndindex args _ shape, array_walk_skip args _ shape⟩

/-- on 1-d arrays Python's iteration protocol yields the entries: the two enumerations agree -/
theorem array_walk_each_rank1 (args : Bool) (fuel n : Nat) :
    aWalkObj c04ArrayWalkRowEach false args (fuel + 1) (.array [n] 0) = .ok (aSpec args [n]) := by
  have h := seqL_entries c04ArrayWalkRowEach false args fuel 0 (List.range n)
  simp only [Nat.zero_add, c04ArrayWalkRowEach] at h
  simp only [aWalkObj, c04ArrayWalkRowEach, aSeqSites, aItems, Bool.and_true, Nat.zero_add, aSpec,
    shapeSize, Nat.mul_one]
  simp [bind, Except.bind, pure, Except.pure, h]

/-- ... on a 2 x 2 array it yields the two ROWS — views that are no nodes of the tree — and each is
walked as an array again: 14 events instead of 10, `visit` on objects the tree does not contain -/
theorem array_walk_each_rank2_cex :
    aWalkObj c04ArrayWalkRowEach false true 4 (.array [2, 2] 0) ≠ .ok (aSpec true [2, 2]) ∧
    (∃ evs, aWalkObj c04ArrayWalkRowEach false true 4 (.array [2, 2] 0) = .ok evs ∧
      evs.length = 14 ∧ (aSpec true [2, 2]).length = 10 ∧
      (⟨false, .array [2] 2, true⟩ : AEvent) ∈ evs) := by
  refine ⟨?_, _, rfl, by decide, by decide, by decide⟩
  intro h
  have hl := congrArg (fun r => match r with
    | Except.ok l => l.length
    | Except.error _ => 0) h
  revert hl
  decide

/-- ... and a 0-d array cannot be iterated at all: the walk ends in an error instead of visiting
the entry -/
theorem array_walk_each_rank0_cex :
    aWalkObj c04ArrayWalkRowEach false true 4 (.array [] 0) = .error .foreign ∧
    aWalkObj c04ArrayWalkRow false true 4 (.array [] 0) = .ok (aSpec true []) :=
  ⟨rfl, rfl⟩

section examples
example : aSpec true [2, 1] =
    [⟨false, .array [2, 1] 0, true⟩, ⟨false, .entry 0, true⟩, ⟨true, .entry 0, true⟩,
     ⟨false, .entry 1, true⟩, ⟨true, .entry 1, true⟩, ⟨true, .array [2, 1] 0, true⟩] := by decide
example : aWalkTable c04WalkTable false true [2, 0, 3] =
    .ok [⟨false, .array [2, 0, 3] 0, true⟩, ⟨true, .array [2, 0, 3] 0, true⟩] := rfl
example : aItems .each [2, 3] 0 = some [.array [3] 0, .array [3] 3] := by decide
example : aItems .ndindex [2, 3] 0 = some [.entry 0, .entry 1, .entry 2, .entry 3, .entry 4, .entry 5] := by
  decide
end examples

end PV.C04
