import PV.Model.Stringify
import PV.Generated.Prec
import PV.Proofs.SyntaxStrFlatten
import PV.Proofs.SyntaxBEq
import PV.Proofs.SyntaxLexPrint
import PV.Generated.Lex
/-
  C06 — `parse(str(e))` gives `e` back.

  The property is violated by the code for a known list of (parent, child) shapes
  (`known_findings.C06.jsonl`).  What is proved here, about the executable models of the
  stringifier (`strE`, tied to `StringifyMapper`) and of the parser (`parseExpr …`, tied to
  `pymbolic.parser.Parser`), for ARBITRARY precedence tables `P`, `S`:

  * `roundtrip_partial`: on the fragment `InFragment P S` — a decidable predicate that checks, at
    every node and for every child, one local condition `okTriple P S position childClass` read
    off the two tables — the tree has a printed form, the printed form parses (the whole input,
    with the fuel `parseTop` really uses) to a tree that is equal to the original one once nested
    sums and products are flattened, and the reparsed tree prints to the same pieces;
  * `roundtrip_flat_partial`: the same for trees whose sums and products are nested in any way
    (the conditions are checked on the flattened tree), from `str_flatten_invariant`: the
    stringifier does not see that nesting;
  * `roundtrip_current` / `roundtrip_flat_current` / `bad_triples_current`: for the tables
    regenerated from /repo the local condition fails for exactly the listed (position, child
    class) pairs;
  * `…_cex`: each of the listed pairs that is a genuine defect, and each excluded shape, replayed
    on the models.

  * the LEXER is modelled (`PV/Model/Lexer.lean`, `Lexer.lex : String → Except LexErr (List Tok)`,
    run on the regenerated `Parser.lex_table`): `lex_table_current` (the regenerated table is the
    table the model was written against), `lex_render` (the lexer reads the STRING form of a
    lexically safe tree back as the printer's tokens), `roundtrip_string_partial` /
    `roundtrip_string_current` (the round trip as a statement about strings), and the two
    lexical defect `lookup_int_cex` (`1.u`); `true_prefix_fixed` / `true_prefix_old_cex` (`Truex`:
    repaired by `True\b` / `False\b`), `true_name_cex` (a variable literally named `True`).

  Not covered by theorems (correspondence and oracle only): `Min`/`Max`, common
  subexpressions, wildcards, `inf`/`nan`, strings; a conditional as the LAST argument / element
  / slice part (harmless, but the local condition does not distinguish the last position).

  "The same value in every environment" is proved in `PV/Properties/C06Value.lean`
  (`flatten_same_value`, `roundtrip_value_partial`, …: tree equality modulo flattening implies
  equal denotations `den`, `PV/Proofs/FlattenDen.lean`).
-/
namespace PV.C06
open PV PV.Syntax

/-- **Round trip, with the normal form.**  The token list of `str(e)` is parsed, completely and
with the fuel of `parseTop`, to the parser's normal form `pnf e` of the tree (sums spliced into a
left operand that is a sum, products right-nested). -/
theorem roundtrip_normal_form {P : ParserPrec} {S : PrintPrec} {e : Expr} {ps : Pieces}
    (h : InFragment P S e = true) (hs : strTop S e = .ok ps) :
    parseTop P 0 (toks ps) = .ok (pnf e) := by
  simp only [InFragment, Bool.and_eq_true] at h
  exact parseTop_str h.1 h.2 hs

/-- printing never fails on the fragment -/
theorem print_total {P : ParserPrec} {S : PrintPrec} {e : Expr} (h : InFragment P S e = true) :
    ∃ ps, strTop S e = .ok ps := by
  simp only [InFragment, Bool.and_eq_true] at h
  exact str_total h.1 S.none

/-- **C06 on the fragment.**  A tree of the fragment has a string form; parsing it (the whole
input, with the fuel `parseTop` really uses) yields a tree that is the same once nested sums and
products are flattened, and the printed form of the reparsed tree is the first printed form. -/
theorem roundtrip_partial {P : ParserPrec} {S : PrintPrec} {e : Expr}
    (h : InFragment P S e = true) :
    ∃ ps e', strTop S e = .ok ps ∧ parseTop P 0 (toks ps) = .ok e' ∧
      flattenAssoc e' = flattenAssoc e ∧ strTop S e' = .ok ps := by
  obtain ⟨ps, hs⟩ := print_total h
  refine ⟨ps, pnf e, hs, roundtrip_normal_form h hs, ?_, ?_⟩
  · simp only [InFragment, Bool.and_eq_true] at h
    exact flatten_pnf h.1
  · simp only [InFragment, Bool.and_eq_true] at h
    rw [← hs]
    exact str_pnf h.1 S.none

/-- **The printed form of the reparsed tree is the first printed form** (same pieces, hence the
same string), on the fragment. -/
theorem str_idempotent {P : ParserPrec} {S : PrintPrec} {e : Expr} {ps : Pieces}
    (h : InFragment P S e = true) (hs : strTop S e = .ok ps) :
    ∃ e', parseTop P 0 (toks ps) = .ok e' ∧ strTop S e' = .ok ps := by
  refine ⟨pnf e, roundtrip_normal_form h hs, ?_⟩
  simp only [InFragment, Bool.and_eq_true] at h
  rw [← hs]
  exact str_pnf h.1 S.none

/-- **the stringifier does not see the nesting of sums and products**: a tree without empty
n-ary nodes and its flattened form print to the same pieces -/
theorem str_flatten_invariant (S : PrintPrec) {e : Expr} (h : nonemptyNary e = true) :
    strTop S (flattenAssoc e) = strTop S e :=
  str_flatten S h S.none

/-- **C06 with arbitrarily nested sums and products.**  If the flattened tree is in the fragment,
the printed form of `e` parses to a tree that is equal to `e` once sums and products are
flattened, and that prints to the same pieces. -/
theorem roundtrip_flat_partial {P : ParserPrec} {S : PrintPrec} {e : Expr} {ps : Pieces}
    (h : InFragmentFlat P S e = true) (hs : strTop S e = .ok ps) :
    ∃ e', parseTop P 0 (toks ps) = .ok e' ∧ flattenAssoc e' = flattenAssoc e ∧
      strTop S e' = .ok ps := by
  simp only [InFragmentFlat, Bool.and_eq_true] at h
  obtain ⟨hne, hfr⟩ := h
  have hs' : strTop S (flattenAssoc e) = .ok ps := by rw [str_flatten_invariant S hne]; exact hs
  refine ⟨pnf (flattenAssoc e), roundtrip_normal_form hfr hs', ?_, ?_⟩
  · simp only [InFragment, Bool.and_eq_true] at hfr
    rw [flatten_pnf hfr.1, flattenAssoc_idem]
  · simp only [InFragment, Bool.and_eq_true] at hfr
    rw [← hs']
    exact str_pnf hfr.1 S.none

/-- the normal form of a tree without nested sums/products whose products have two operands is
the tree itself: the round trip is then the identity -/
example : pnf (.nary .sum [.var "a", .nary .prod [.const (.int 2), .var "b"], .var "c"])
    = .nary .sum [.var "a", .nary .prod [.const (.int 2), .var "b"], .var "c"] := by
  decide +kernel

/-! ### the tables of the current code -/

open PV.Generated in
/-- The local condition fails, for the precedence tables of the current code, for exactly these
(position, child class) pairs:
* a product as a non-last operand of a product, a sum as a non-first operand of a sum: NO
  defect — the reparsed tree is nested differently but flattens to the same tree; these two
  pairs cannot occur in a flattened tree and are covered by `roundtrip_flat_partial`;
* `|`/`^`/`&` nodes as operands of a comparison (`x & y < z` reparses as `x & (y < z)`);
* a bitwise/logical node as the right operand of the same operator (`a & (b & c)` prints
  `a & b & c` and reparses left-nested), and `^` as the right operand of `|`
  (`z | x ^ y` reparses as `(z | x) ^ y`);
* a power under `~` / `not` (`~x**y` reparses as `(~x)**y`);
* a conditional as an argument, a keyword value, or an element of a tuple / list / index tuple
  (its else-branch is read at the lowest level and swallows the following `, …`);
* a tuple as a non-tuple index or as the only element of a list (`[(a, b)]` is read as
  `[a, b]`);
* a conditional as a part of a slice (`v[x if c else y:z]`: the else-branch swallows `:z`; as
  the LAST part it is harmless when only `]` follows, but the local condition does not know what
  follows), and a slice as a part of a slice (`a:(b:c)` prints `a:b:c`). -/
theorem bad_triples_current : badTriples parserPrec printPrec =
    [(.left .times, .nary .prod),
     (.left (.cmp .eq), .nary .bor), (.left (.cmp .eq), .nary .bxor), (.left (.cmp .eq), .nary .band),
     (.right .plus, .nary .sum),
     (.right .band, .nary .band), (.right .bxor, .nary .bxor),
     (.right .bor, .nary .bor), (.right .bor, .nary .bxor),
     (.right .land, .nary .land), (.right .lor, .nary .lor),
     (.right (.cmp .eq), .nary .bor), (.right (.cmp .eq), .nary .bxor),
     (.right (.cmp .eq), .nary .band),
     (.unArg, .bin .pow),
     (.arg, .ite), (.index, .tuple), (.elemFirst, .ite), (.elemRest, .ite),
     (.slicePart, .ite), (.slicePart, .slice), (.sliceLast, .ite), (.sliceLast, .slice)] := by
  decide

/-- the local condition does not depend on which comparison operator it is -/
theorem okTriple_cmp (P : ParserPrec) (S : PrintPrec) (o : CmpOp) (k : Kind) :
    okTriple P S (.left (.cmp o)) k = okTriple P S (.left (.cmp .eq)) k ∧
    okTriple P S (.right (.cmp o)) k = okTriple P S (.right (.cmp .eq)) k := by
  constructor <;> rfl

open PV.Generated in
/-- **C06 for the current code**, on the fragment computed from the regenerated tables. -/
theorem roundtrip_current {e : Expr} (h : InFragment parserPrec printPrec e = true) :
    ∃ ps e', strTop printPrec e = .ok ps ∧ parseTop parserPrec 0 (toks ps) = .ok e' ∧
      flattenAssoc e' = flattenAssoc e ∧ strTop printPrec e' = .ok ps :=
  roundtrip_partial h

open PV.Generated in
/-- the same with arbitrarily nested sums and products -/
theorem roundtrip_flat_current {e : Expr} {ps : Pieces}
    (h : InFragmentFlat parserPrec printPrec e = true) (hs : strTop printPrec e = .ok ps) :
    ∃ e', parseTop parserPrec 0 (toks ps) = .ok e' ∧ flattenAssoc e' = flattenAssoc e ∧
      strTop printPrec e' = .ok ps :=
  roundtrip_flat_partial h hs

section examples
open PV.Generated

/-- a tree of the fragment that uses every covered shape -/
def sample : Expr :=
  .ite (.nary .bor [.var "x", .var "y"])
    (.nary .land
      [.cmp .lt (.bin .quot (.nary .sum [.var "a", .nary .prod [.var "b", .bin .pow (.var "c") (.const (.int 2))]])
          (.const (.int (-3)))) (.var "d"),
       .un .lnot (.callKw (.lookup (.var "o") "f") [.var "e", .tuple [.var "p", .var "q"],
           .subscript (.var "w") (.slice [.var "i", .const .none, .bin .floordiv (.var "n") (.const (.int 2))])]
         ["k", "l"] [.subscript (.var "v") (.tuple [.var "i", .const (.int 0)]), .list [.var "r"]])])
    (.bin .lshift (.un .bnot (.subscript (.call (.var "g") []) (.var "z"))) (.const (.int 1)))

example : InFragment parserPrec printPrec sample = true := by decide +kernel
example : (strTop printPrec sample).map render
    = .ok ("(a + b*c**2) / (-3) < d and not o.f(e, (p, q), w[i::n // 2], k=v[i, 0], l=[r]) " ++
        "if x | y else ~g()[z] << 1") := by decide +kernel
example : ∃ ps, strTop printPrec sample = .ok ps ∧ parseTop parserPrec 0 (toks ps) = .ok sample := by
  refine ⟨_, rfl, ?_⟩
  decide +kernel
/-- float constants: without sign, with a sign in the exponent, negative (the repr check of the
fragment is discharged on the concrete strings) -/
theorem flt_plain : fltKind "2.5" 2 = some .atom := by simp [fltKind]
theorem flt_exponent_sign : fltKind "1e-05" 100000 = some .sfloat := by simp [fltKind]
theorem flt_negative : fltKind "-2.5" 2 = some .neg := by
  have h1 : negFloatOk "-2.5" = true := by
    simp only [negFloatOk, Bool.and_eq_true, decide_eq_true_eq, Bool.not_eq_true']
    exact ⟨by decide +kernel, by decide +kernel⟩
  simp [fltKind, h1]

/-- `(-2.5) / (2.5 + 1e-05)` is in the fragment -/
example : InFragment parserPrec printPrec
    (.bin .quot (.const (.flt "-2.5" (-5) 2))
      (.nary .sum [.const (.flt "2.5" 5 2), .const (.flt "1e-05" 1 100000)])) = true := by
  simp only [InFragment, Printable, PrintableAll, okAt, kind, flt_plain, flt_exponent_sign,
    flt_negative, Option.isSome_some]
  decide
end examples


/-! ### the known violations, replayed on the models (current tables) -/

/-- `str(e)` parses to `e'` -/
def Reparses (P : ParserPrec) (S : PrintPrec) (e e' : Expr) : Prop :=
  ∃ ps, strTop S e = .ok ps ∧ parseTop P 0 (toks ps) = .ok e'

section cex
open PV.Generated
private abbrev x : Expr := .var "x"
private abbrev y : Expr := .var "y"
private abbrev z : Expr := .var "z"

/-- `~x**y` reparses as `(~x)**y` -/
theorem bnot_pow_cex :
    Reparses parserPrec printPrec (.un .bnot (.bin .pow x y)) (.bin .pow (.un .bnot x) y) ∧
    flattenAssoc (.bin .pow (.un .bnot x) y) ≠ flattenAssoc (.un .bnot (.bin .pow x y)) :=
  ⟨⟨_, rfl, by decide +kernel⟩, by decide +kernel⟩

/-- `not x**y` reparses as `(not x)**y` -/
theorem lnot_pow_cex :
    Reparses parserPrec printPrec (.un .lnot (.bin .pow x y)) (.bin .pow (.un .lnot x) y) ∧
    flattenAssoc (.bin .pow (.un .lnot x) y) ≠ flattenAssoc (.un .lnot (.bin .pow x y)) :=
  ⟨⟨_, rfl, by decide +kernel⟩, by decide +kernel⟩

/-- `z | x ^ y` reparses as `(z | x) ^ y` -/
theorem bor_bxor_cex :
    Reparses parserPrec printPrec (.nary .bor [z, .nary .bxor [x, y]])
      (.nary .bxor [.nary .bor [z, x], y]) ∧
    flattenAssoc (.nary .bxor [.nary .bor [z, x], y])
      ≠ flattenAssoc (.nary .bor [z, .nary .bxor [x, y]]) :=
  ⟨⟨_, rfl, by decide +kernel⟩, by decide +kernel⟩

/-- `x & y < z` reparses as `x & (y < z)` -/
theorem cmp_band_cex :
    Reparses parserPrec printPrec (.cmp .lt (.nary .band [x, y]) z)
      (.nary .band [x, .cmp .lt y z]) ∧
    flattenAssoc (.nary .band [x, .cmp .lt y z]) ≠ flattenAssoc (.cmp .lt (.nary .band [x, y]) z) :=
  ⟨⟨_, rfl, by decide +kernel⟩, by decide +kernel⟩

/-- `x | y < z` reparses as `x | (y < z)` -/
theorem cmp_bor_cex :
    Reparses parserPrec printPrec (.cmp .lt (.nary .bor [x, y]) z)
      (.nary .bor [x, .cmp .lt y z]) ∧
    flattenAssoc (.nary .bor [x, .cmp .lt y z]) ≠ flattenAssoc (.cmp .lt (.nary .bor [x, y]) z) :=
  ⟨⟨_, rfl, by decide +kernel⟩, by decide +kernel⟩

/-- `x ^ y < z` reparses as `x ^ (y < z)` -/
theorem cmp_bxor_cex :
    Reparses parserPrec printPrec (.cmp .lt (.nary .bxor [x, y]) z)
      (.nary .bxor [x, .cmp .lt y z]) ∧
    flattenAssoc (.nary .bxor [x, .cmp .lt y z]) ≠ flattenAssoc (.cmp .lt (.nary .bxor [x, y]) z) :=
  ⟨⟨_, rfl, by decide +kernel⟩, by decide +kernel⟩

/-- `z < x & y` reparses as `(z < x) & y` -/
theorem cmp_right_band_cex :
    Reparses parserPrec printPrec (.cmp .lt z (.nary .band [x, y]))
      (.nary .band [.cmp .lt z x, y]) ∧
    flattenAssoc (.nary .band [.cmp .lt z x, y]) ≠ flattenAssoc (.cmp .lt z (.nary .band [x, y])) :=
  ⟨⟨_, rfl, by decide +kernel⟩, by decide +kernel⟩

/-- a three-operand `|` node prints `z | x | y` and reparses left-nested -/
theorem nary_nested_cex :
    Reparses parserPrec printPrec (.nary .bor [z, x, y]) (.nary .bor [.nary .bor [z, x], y]) ∧
    flattenAssoc (.nary .bor [.nary .bor [z, x], y]) ≠ flattenAssoc (.nary .bor [z, x, y]) :=
  ⟨⟨_, rfl, by decide +kernel⟩, by decide +kernel⟩

/-- `z & (x & y)` prints `z & x & y` and reparses left-nested -/
theorem band_right_nested_cex :
    Reparses parserPrec printPrec (.nary .band [z, .nary .band [x, y]])
      (.nary .band [.nary .band [z, x], y]) ∧
    flattenAssoc (.nary .band [.nary .band [z, x], y])
      ≠ flattenAssoc (.nary .band [z, .nary .band [x, y]]) :=
  ⟨⟨_, rfl, by decide +kernel⟩, by decide +kernel⟩

/-- a one-operand sum prints as its operand -/
theorem single_operand_cex :
    Reparses parserPrec printPrec (.nary .sum [x]) x ∧
    flattenAssoc x ≠ flattenAssoc (.nary .sum [x]) :=
  ⟨⟨_, rfl, by decide +kernel⟩, by decide +kernel⟩

private abbrev f : Expr := .var "f"
private abbrev c : Expr := .var "c"

/-- `f(x if c else y, z)`: the else-branch swallows `, z` -/
theorem call_if_cex :
    Reparses parserPrec printPrec (.call f [.ite c x y, z]) (.call f [.ite c x (.tuple [y, z])]) ∧
    flattenAssoc (.call f [.ite c x (.tuple [y, z])]) ≠ flattenAssoc (.call f [.ite c x y, z]) :=
  ⟨⟨_, rfl, by decide +kernel⟩, by decide +kernel⟩

/-- `f(x if c else y, m=z)`: the swallowed keyword argument is a parse error -/
theorem callKw_if_cex :
    ∃ ps, strTop printPrec (.callKw f [.ite c x y] ["m"] [z]) = .ok ps ∧
      parseTop parserPrec 0 (toks ps) = .error .parse :=
  ⟨_, rfl, by decide +kernel⟩

/-- `(x if c else y, z)` -/
theorem tuple_if_cex :
    Reparses parserPrec printPrec (.tuple [.ite c x y, z]) (.ite c x (.tuple [y, z])) ∧
    flattenAssoc (.ite c x (.tuple [y, z])) ≠ flattenAssoc (.tuple [.ite c x y, z]) :=
  ⟨⟨_, rfl, by decide +kernel⟩, by decide +kernel⟩

/-- `[x if c else y, z]` -/
theorem list_if_cex :
    Reparses parserPrec printPrec (.list [.ite c x y, z]) (.list [.ite c x (.tuple [y, z])]) ∧
    flattenAssoc (.list [.ite c x (.tuple [y, z])]) ≠ flattenAssoc (.list [.ite c x y, z]) :=
  ⟨⟨_, rfl, by decide +kernel⟩, by decide +kernel⟩

/-- a one-element index tuple prints as `z[x]` -/
theorem one_tuple_index_cex :
    Reparses parserPrec printPrec (.subscript z (.tuple [x])) (.subscript z x) ∧
    flattenAssoc (.subscript z x) ≠ flattenAssoc (.subscript z (.tuple [x])) :=
  ⟨⟨_, rfl, by decide +kernel⟩, by decide +kernel⟩

/-- `z[x if c else y:z]`: the else-branch swallows `:z` -/
theorem slice_if_cex :
    Reparses parserPrec printPrec (.subscript z (.slice [.ite c x y, z]))
      (.subscript z (.ite c x (.slice [y, z]))) ∧
    flattenAssoc (.subscript z (.ite c x (.slice [y, z])))
      ≠ flattenAssoc (.subscript z (.slice [.ite c x y, z])) :=
  ⟨⟨_, rfl, by decide +kernel⟩, by decide +kernel⟩

/-- a one-element slice prints without a colon: `z[x]` -/
theorem one_element_slice_cex :
    Reparses parserPrec printPrec (.subscript z (.slice [x])) (.subscript z x) ∧
    flattenAssoc (.subscript z x) ≠ flattenAssoc (.subscript z (.slice [x])) :=
  ⟨⟨_, rfl, by decide +kernel⟩, by decide +kernel⟩

/-- a trailing omitted part is lost: `z[x::]` is read as `z[x:]`'s tree `Slice((x, None))` -/
theorem slice_trailing_omitted_cex :
    Reparses parserPrec printPrec (.subscript z (.slice [x, .const .none, .const .none]))
      (.subscript z (.slice [x, .const .none])) ∧
    flattenAssoc (.subscript z (.slice [x, .const .none]))
      ≠ flattenAssoc (.subscript z (.slice [x, .const .none, .const .none])) :=
  ⟨⟨_, rfl, by decide +kernel⟩, by decide +kernel⟩

/-- a slice as a part of a slice prints as one longer slice -/
theorem slice_in_slice_cex :
    Reparses parserPrec printPrec (.subscript z (.slice [x, .slice [y, c]]))
      (.subscript z (.slice [x, y, c])) ∧
    flattenAssoc (.subscript z (.slice [x, y, c]))
      ≠ flattenAssoc (.subscript z (.slice [x, .slice [y, c]])) :=
  ⟨⟨_, rfl, by decide +kernel⟩, by decide +kernel⟩

/-- NEW: a list whose only element is a tuple, `[(x, y)]`, is read as the list `[x, y]` -/
theorem list_of_tuple_cex :
    Reparses parserPrec printPrec (.list [.tuple [x, y]]) (.list [x, y]) ∧
    flattenAssoc (.list [x, y]) ≠ flattenAssoc (.list [.tuple [x, y]]) :=
  ⟨⟨_, rfl, by decide +kernel⟩, by decide +kernel⟩

/-- NEW: a call node with an empty keyword dictionary prints as a plain call -/
theorem callKw_empty_cex :
    Reparses parserPrec printPrec (.callKw f [x] [] []) (.call f [x]) ∧
    flattenAssoc (.call f [x]) ≠ flattenAssoc (.callKw f [x] [] []) :=
  ⟨⟨_, rfl, by decide +kernel⟩, by decide +kernel⟩

/-- the two pairs of `bad_triples_current` that are no defects are covered by
`roundtrip_flat_partial` -/
example : InFragmentFlat parserPrec printPrec
    (.nary .sum [x, .nary .sum [y, .nary .prod [.nary .prod [x, y], z]]]) = true := by
  decide +kernel

/-- a left-nested product and a right-nested sum reparse with another nesting, the flattened
trees agree -/
example :
    Reparses parserPrec printPrec (.nary .prod [.nary .prod [x, y], z])
      (.nary .prod [x, .nary .prod [y, z]]) ∧
    flattenAssoc (.nary .prod [x, .nary .prod [y, z]])
      = flattenAssoc (.nary .prod [.nary .prod [x, y], z]) :=
  ⟨⟨_, rfl, by decide +kernel⟩, by decide +kernel⟩
example :
    Reparses parserPrec printPrec (.nary .sum [x, .nary .sum [y, z]]) (.nary .sum [x, y, z]) ∧
    flattenAssoc (.nary .sum [x, y, z]) = flattenAssoc (.nary .sum [x, .nary .sum [y, z]]) :=
  ⟨⟨_, rfl, by decide +kernel⟩, by decide +kernel⟩
end cex


/-! ### the lexer: the round trip as a statement about STRINGS -/

section lexer
open PV.Lexer PV.Generated

/-- **T-gen for the lexer.**  The rule table regenerated from `Parser.lex_table` of the current
code (tags, rule shapes, regular-expression sources, in table order) is the table the lexer model
and its theorems were written against: any edited, added, removed or re-ordered rule breaks
this obligation. -/
theorem lex_table_current : lexTable = Lexer.table := by decide

/-- every source of the current table is one the model has a matcher for -/
theorem lex_table_supported_current : tableOk lexTable = true := by decide

/-- **The lexer on a rendered piece list**, under the decidable piece-level check `adjOk`
(every identifier piece is lexed as one identifier, every float piece has a `repr` spelling that
reads back as its own value, and no piece is followed by a character that would extend it or
change its rule): `lex (render ps) = toks ps`. -/
theorem lex_render_adj {ps : Pieces} (h : adjOk ps = true) :
    Lexer.lex (render ps) = .ok (toks ps) :=
  lex_render_of_adjOk h

/-- **`lex_render`.**  For every tree that is lexically safe for the printer table `S`
(`LexSafe S e`, decidable: names are lexed as single identifiers — they match the identifier rule,
are no keyword and are not `True`/`False` (nor one of these followed by `@`/`$`); float constants print with a `repr` spelling
`D+.D+`, `D+.D+e±D+`, `D+e±D+` that `float()`/`repr()` map back to the same constant; integers
have at most 4300 digits; n-ary nodes are non-empty, slices have two parts or more; the printed
aggregate of an attribute look-up does not end in an integer literal), the model lexer reads the
printed STRING back as exactly the token list of the printed pieces. -/
theorem lex_render {S : PrintPrec} {e : Expr} {ps : Pieces} (hs : LexSafe S e = true)
    (h : strTop S e = .ok ps) : Lexer.lex (render ps) = .ok (toks ps) :=
  lex_render_safe hs h

/-- **C06 on strings, on the fragment.**  A lexically safe tree of the fragment has a string
form; lexing and parsing that STRING (`parseString` = `Parser.__call__`: the table-driven lexer,
then the parser with its real fuel, whole input consumed) yields a tree that is the same once
nested sums and products are flattened, and that prints to the same pieces (hence the same
string). -/
theorem roundtrip_string_partial {P : ParserPrec} {S : PrintPrec} {e : Expr}
    (h : InFragment P S e = true) (hl : LexSafe S e = true) :
    ∃ ps e', strTop S e = .ok ps ∧ parseString P 0 (render ps) = .ok e' ∧
      flattenAssoc e' = flattenAssoc e ∧ strTop S e' = .ok ps := by
  obtain ⟨ps, e', hs, hp, hf, hs'⟩ := roundtrip_partial h
  refine ⟨ps, e', hs, ?_, hf, hs'⟩
  have hlex : lexWith Lexer.table (render ps) = .ok (toks ps) := lex_render hl hs
  simp only [parseString, parseStringWith, hlex, hp]

/-- the same with arbitrarily nested sums and products -/
theorem roundtrip_string_flat_partial {P : ParserPrec} {S : PrintPrec} {e : Expr} {ps : Pieces}
    (h : InFragmentFlat P S e = true) (hl : LexSafe S e = true) (hs : strTop S e = .ok ps) :
    ∃ e', parseString P 0 (render ps) = .ok e' ∧ flattenAssoc e' = flattenAssoc e ∧
      strTop S e' = .ok ps := by
  obtain ⟨e', hp, hf, hs'⟩ := roundtrip_flat_partial h hs
  refine ⟨e', ?_, hf, hs'⟩
  have hlex : lexWith Lexer.table (render ps) = .ok (toks ps) := lex_render hl hs
  simp only [parseString, parseStringWith, hlex, hp]

/-- **C06 on strings for the current code**: precedence tables AND lexer table regenerated from
/repo. -/
theorem roundtrip_string_current {e : Expr} (h : InFragment parserPrec printPrec e = true)
    (hl : LexSafe printPrec e = true) :
    ∃ ps e', strTop printPrec e = .ok ps ∧
      parseStringWith lexTable parserPrec 0 (render ps) = .ok e' ∧
      flattenAssoc e' = flattenAssoc e ∧ strTop printPrec e' = .ok ps := by
  rw [lex_table_current]
  exact roundtrip_string_partial h hl

/-- the same with arbitrarily nested sums and products -/
theorem roundtrip_string_flat_current {e : Expr} {ps : Pieces}
    (h : InFragmentFlat parserPrec printPrec e = true) (hl : LexSafe printPrec e = true)
    (hs : strTop printPrec e = .ok ps) :
    ∃ e', parseStringWith lexTable parserPrec 0 (render ps) = .ok e' ∧
      flattenAssoc e' = flattenAssoc e ∧ strTop printPrec e' = .ok ps := by
  rw [lex_table_current]
  exact roundtrip_string_flat_partial h hl hs

/-- the sample tree (every covered shape) is lexically safe, and its string is parsed back -/
example : LexSafe printPrec sample = true := by decide +kernel
example : parseStringWith lexTable parserPrec 0
    ("(a + b*c**2) / (-3) < d and not o.f(e, (p, q), w[i::n // 2], k=v[i, 0], l=[r]) " ++
      "if x | y else ~g()[z] << 1") = .ok sample := by
  -- through `Lexer.table`: if the regenerated table differs, only `lex_table_current` fails
  rw [lex_table_current]; decide +kernel
/-- float constants: the three `repr` spellings, and a negative one -/
example : LexSafe printPrec
    (.bin .quot (.const (.flt "-2.5" (-5) 2))
      (.nary .sum [.const (.flt "2.5" 5 2), .const (.flt "1e-05" 5902958103587057 590295810358705651712),
        .const (.flt "1.5e+300" 1500000000000000078757140382806630373056702871662238732373781173267703686983362293679557062620671796065556665749325817265413784853040645863467188277180060474272580801389863705606745350692182135089053429852456199917621678558451461320111979114170213741868888183230085264257173504208294580298189100810240 1),
        .var "order", .var "$t@1"])) = true := by decide +kernel
example : Lexer.lex "1.5e+300*order" = .ok [.flt "1.5e+300" 1500000000000000078757140382806630373056702871662238732373781173267703686983362293679557062620671796065556665749325817265413784853040645863467188277180060474272580801389863705606745350692182135089053429852456199917621678558451461320111979114170213741868888183230085264257173504208294580298189100810240 1, .sym "*", .ident "order"] := by
  decide +kernel
/-- exponent spellings the printer never produces are lexed (and valued) too -/
example : Lexer.lex "1E5+2.d-1 +.5" =
    .ok [.flt "100000.0" 100000 1, .sym "+", .flt "0.2" 3602879701896397 18014398509481984,
      .sym "+", .flt "0.5" 1 2] := by decide +kernel
example : Lexer.lex "a <= b<<2**c//d != e" =
    .ok [.ident "a", .sym "<=", .ident "b", .sym "<<", .int 2, .sym "**", .ident "c", .sym "//",
      .ident "d", .sym "!=", .ident "e"] := by decide +kernel
example : Lexer.lex "a ! b" = .error (.invalidToken 2) := by decide +kernel

/-- NEW (lexer): an attribute look-up on a non-negative integer literal prints `1.u`; the lexer
reads `1.u` as ONE float literal with a letter tag (first float form: digits, dot, letters),
`float("1.u")` raises ValueError.  The tree is inside the token-level fragment. -/
theorem lookup_int_cex :
    InFragment parserPrec printPrec (.lookup (.const (.int 1)) "u") = true ∧
    LexSafe printPrec (.lookup (.const (.int 1)) "u") = false ∧
    ∃ ps, strTop printPrec (.lookup (.const (.int 1)) "u") = .ok ps ∧ render ps = "1.u" ∧
      Lexer.lexRaw (render ps).toList = .ok [("float", ['1', '.', 'u'])] ∧
      parseStringWith lexTable parserPrec 0 (render ps) = .error (.lex .floatText) := by
  rw [lex_table_current]
  exact ⟨by decide +kernel, by decide +kernel, _, rfl, by decide +kernel, by decide +kernel,
    by decide +kernel⟩

/-- the rule table BEFORE the repair (`RE(r"True")`, `RE(r"False")`: no `\\b`), kept to replay
the repaired defect; it differs from `Lexer.table` in these two sources only -/
def lexTablePre : LexTable :=
  Lexer.table.map fun r =>
    if r.1 = "True" then ("True", .one (.re "True"))
    else if r.1 = "False" then ("False", .one (.re "False"))
    else r

/-- REPAIRED (`fix: True\\b / False\\b`), about the OLD table `lexTablePre`: without `\\b` a name
that starts with `True` or `False` was split (`Truex` ↦ `True`, `x`) and the string form of the
variable did not parse. -/
theorem true_prefix_old_cex :
    tableOk lexTablePre = true ∧
    lexWith lexTablePre "Truex" = .ok [.tTrue, .ident "x"] ∧
    parseStringWith lexTablePre parserPrec 0 "Truex" = .error (.parse .parse) :=
  ⟨by decide +kernel, by decide +kernel, by decide +kernel⟩

/-- with the current table (`True\\b`, `False\\b`) such names are lexically safe, are lexed as ONE
identifier and round-trip on strings -/
theorem true_prefix_fixed :
    LexSafe printPrec (.var "Truex") = true ∧
    LexSafe printPrec (.lookup (.var "x") "Falsey") = true ∧
    lexWith lexTable "Truex" = .ok [.ident "Truex"] ∧
    parseStringWith lexTable parserPrec 0 "f(True, Falsex)"
      = .ok (.call (.var "f") [.const (.bool true), .var "Falsex"]) ∧
    parseStringWith lexTable parserPrec 0 "x.Falsey" = .ok (.lookup (.var "x") "Falsey") := by
  rw [lex_table_current]
  exact ⟨by decide +kernel, by decide +kernel, by decide +kernel, by decide +kernel,
    by decide +kernel⟩

/-- a variable literally NAMED `True` (or `False`) prints as the constant's spelling and is read
back as the constant: outside `LexSafe` (as the keywords are), recorded as it behaves -/
theorem true_name_cex :
    InFragment parserPrec printPrec (.var "True") = true ∧
    LexSafe printPrec (.var "True") = false ∧
    ∃ ps, strTop printPrec (.var "True") = .ok ps ∧ render ps = "True" ∧
      parseStringWith lexTable parserPrec 0 (render ps) = .ok (.const (.bool true)) := by
  rw [lex_table_current]
  exact ⟨by decide +kernel, by decide +kernel, _, rfl, by decide +kernel, by decide +kernel⟩

end lexer

end PV.C06
