import PV.Model.Stringify
import PV.Generated.Prec
