import PV.Model.CCode
import PV.Generated.Prec
import PV.Proofs.CCodeInv
import PV.Proofs.CCodeValue
/-
  C14 — generated C code computes what the evaluator computes.

  Model: `PV/Model/CCode.lean` (`ccodeE` = `CCodeMapper.rec`, the allocator state `CSt`, operations
  `emit`/`copy`/`copyWithMappedCses`, the C reading `denC` of the printed structure).

  * `names_unique`, `assigned_once`, `known_wrapper_reuses_name`: ALL histories of calls on one
    mapper (any expressions, any prefixes, both sorting directions, any `cse_prefix`).
  * With `copy()` both statements are false: `names_unique_copy_cex`, `assigned_once_copy_cex`;
    they hold when every copy is made before anything is hoisted: `…_copy_partial`.
  * `assigned_before_use` holds for ALL histories, copies included.
  * `ccode_value_int_partial`: on the integer fragment the C value of the emitted structure is the
    evaluator's value; false for a remainder operand of a product and for `x**2` as a divisor:
    `ccode_value_int_cex`, `ccode_value_int_pow_cex`.
  * `ccode_value_c_partial`: the same for the enlarged fragment `cFrag` (comparisons, `?:`,
    `&&`/`||`/`!`, `&`/`^`/`|`/`~`, shifts, two-operand `min`/`max` on top of the arithmetic part),
    with Python's `True`/`False` read as C's 1/0; `ccode_parens_sufficient`: on that fragment C's
    grammar groups the emitted text exactly as the tree (`c_reading_of_wellformed`: then the C
    value is the tree's value).  False for a bitwise operand of a comparison
    (`ccode_value_c_cmp_bitwise_cex`) and for one-operand `and`/`or`
    (`ccode_value_c_one_operand_cex`).
-/
namespace PV.C14
open PV

variable (S : PrintPrec)

/-! ### one mapper, all histories -/

/-- **Every hoisted name is unique** (and generated names never collide when prefixes repeat):
after any sequence of expressions sent through one mapper, the names of `cse_name_list` are
pairwise distinct. -/
theorem names_unique (reverse : Bool) (pfx : String) (es : List Expr)
    (outs : List (String × List String)) (st : CSt)
    (h : emits S { reverse, pfx } es = .ok (outs, st)) : st.assigned.Nodup :=
  (emits_inv S es _ outs st (inv_init reverse pfx) h).nodup

/-- **A wrapped subexpression is assigned once**: every entry of `cse_name_list` was hoisted for a
wrapper child, `cse_to_name` lists these children entry by entry, `cse_names` is the set of
assigned names, and the children of different entries are different under Python `==` — however
often and in whatever order wrappers recur in the history. -/
theorem assigned_once (reverse : Bool) (pfx : String) (es : List Expr)
    (outs : List (String × List String)) (st : CSt)
    (h : emits S { reverse, pfx } es = .ok (outs, st)) :
    (st.nameList.map entryKey).Pairwise (fun a b => a.eq b = false) ∧
    (∀ e ∈ st.nameList, e.child.isSome = true) ∧
    st.toName = st.nameList.map (fun e => (entryKey e, e.name)) ∧
    st.names = st.nameList.map (fun e => CCKey.text e.name) := by
  have i := emits_inv S es _ outs st (inv_init reverse pfx) h
  exact ⟨i.once, i.hoisted, i.toNameEq, i.namesEq⟩

/-- … and a wrapper whose child is already known (under any prefix) gets the known name back and
adds no assignment, in ANY state. -/
theorem known_wrapper_reuses_name (st : CSt) (c : Expr) (p : Option String) (sc : String)
    (kv : CCKey × String) (hl : c.hasList = false)
    (hk : st.toName.find? (fun kv => kv.1.eq (.expr c)) = some kv) :
    ccode S st (.cse c p sc) = .ok (.var kv.2, [kv.2], st) := by
  simp [ccode, ccodeE, ccodeCse, hl, hk, pure, Except.pure]

/-- **Every hoisted name is assigned before any use** — for ALL histories on a pool of mappers,
`copy()` and `copy_with_mapped_cses` included: in every mapper each assignment refers only to names
assigned by earlier entries of its `cse_name_list`, and the names a returned text refers to are
assigned in the mapper that returned it (then and ever after). -/
theorem assigned_before_use (reverse : Bool) (pfx : String) (ops : List COpn)
    (outs : List CStepOut) (pool : List CSt)
    (h : runOps S [{ reverse, pfx }] ops = .ok (outs, pool)) :
    (∀ st ∈ pool, refsBefore [] st.nameList) ∧ OutsOK pool ops outs := by
  have hp : ∀ st ∈ [({ reverse, pfx } : CSt)], RefInv st := by
    intro st hst
    simp only [List.mem_singleton] at hst
    subst hst
    exact refInv_init reverse pfx
  obtain ⟨a, _, c⟩ := runOps_ref S ops _ outs pool hp h
  exact ⟨fun st hst => (a st hst).before, c⟩

/-- the single-mapper form: the names every returned text refers to are assigned -/
theorem assigned_before_use_emits (reverse : Bool) (pfx : String) (es : List Expr)
    (outs : List (String × List String)) (st : CSt)
    (h : emits S { reverse, pfx } es = .ok (outs, st)) :
    refsBefore [] st.nameList ∧ ∀ o ∈ outs, ∀ r ∈ o.2, r ∈ st.assigned := by
  obtain ⟨a, _, c⟩ := emits_ref S es _ outs st (refInv_init reverse pfx) h
  exact ⟨a.before, c⟩

/-! ### with `copy()` -/

def xPlus1 : Expr := .nary .sum [.var "x", .const (.int 1)]

/-- `m(CSE(x+1,"u")*2); m2 = m.copy(); m2(CSE(x+1,"u") + CSE(y,"u"))` -/
def copyHistory : List COpn :=
  [.emit 0 (.nary .prod [.cse xPlus1 (some "u") "s", .const (.int 2)]),
   .copy 0,
   .emit 1 (.nary .sum [.cse xPlus1 (some "u") "s", .cse (.var "y") (some "u") "s"])]

def poolNames (r : Except CErr (List CStepOut × List CSt)) : List (List String) :=
  match r with
  | .ok (_, pool) => pool.map (·.assigned)
  | .error _ => []

/-- number of assignments of the text `t` in `cse_name_list` -/
def countText (st : CSt) (t : String) : Nat :=
  (st.nameList.filter fun e => match e.val with
    | .text s => s == t
    | .expr _ => false).length

def poolCounts (t : String) (r : Except CErr (List CStepOut × List CSt)) : List Nat :=
  match r with
  | .ok (_, pool) => pool.map (countText · t)
  | .error _ => []

theorem copyHistory_names :
    poolNames (runOps Generated.printPrec [{}] copyHistory) =
      [["_cse_u"], ["_cse_u", "_cse_u", "_cse_u_2"]] := by decide

theorem copyHistory_counts :
    poolCounts "x + 1" (runOps Generated.printPrec [{}] copyHistory) = [1, 2] := by decide

/-- **`names_unique` is false with `copy()`**: the copy hands out `_cse_u` a second time. -/
theorem names_unique_copy_cex :
    ∃ (ops : List COpn) (outs : List CStepOut) (pool : List CSt),
      runOps Generated.printPrec [{}] ops = .ok (outs, pool) ∧ ∃ st ∈ pool, ¬ st.assigned.Nodup := by
  have h := copyHistory_names
  cases hr : runOps Generated.printPrec [{}] copyHistory with
  | error e => rw [hr] at h; simp [poolNames] at h
  | ok v =>
    obtain ⟨outs, pool⟩ := v
    rw [hr] at h
    simp only [poolNames] at h
    refine ⟨copyHistory, outs, pool, hr, ?_⟩
    match pool, h with
    | [a, b], h =>
      simp only [List.map_cons, List.map_nil, List.cons.injEq, and_true] at h
      refine ⟨b, by simp, ?_⟩
      rw [h.2]
      decide

/-- **`assigned_once` is false with `copy()`**: the copy has forgotten that `x + 1` is hoisted and
assigns the same text again (the dictionary of the copy is keyed by strings). -/
theorem assigned_once_copy_cex :
    ∃ (ops : List COpn) (outs : List CStepOut) (pool : List CSt),
      runOps Generated.printPrec [{}] ops = .ok (outs, pool) ∧
      ∃ st ∈ pool, ∃ t, countText st t = 2 := by
  have h := copyHistory_counts
  cases hr : runOps Generated.printPrec [{}] copyHistory with
  | error e => rw [hr] at h; simp [poolCounts] at h
  | ok v =>
    obtain ⟨outs, pool⟩ := v
    rw [hr] at h
    simp only [poolCounts] at h
    refine ⟨copyHistory, outs, pool, hr, ?_⟩
    match pool, h with
    | [a, b], h =>
      simp only [List.map_cons, List.map_nil, List.cons.injEq, and_true] at h
      exact ⟨b, by simp, "x + 1", h.2⟩

/-- `m(CSE(x+1,"u")); m2 = m.copy(); m2(CSE(y,"u"))` -/
def copyHistory2 : List COpn :=
  [.emit 0 (.cse xPlus1 (some "u") "s"), .copy 0, .emit 1 (.cse (.var "y") (some "u") "s")]

def poolAssignments (r : Except CErr (List CStepOut × List CSt)) : List (List (String × String)) :=
  match r with
  | .ok (_, pool) => pool.map fun st => st.nameList.map fun e => (e.name, match e.val with
    | .text s => s
    | .expr _ => "?")
  | .error _ => []

/-- … and the collision is real: in the copy ONE C variable is assigned two different
subexpressions, so although every used name "is assigned before its use" (`assigned_before_use`),
the program no longer says which value a use means. -/
theorem names_unique_copy_values_cex :
    poolAssignments (runOps Generated.printPrec [{}] copyHistory2) =
      [[("_cse_u", "x + 1")], [("_cse_u", "x + 1"), ("_cse_u", "y")]] := by decide

/-- **`names_unique` and `assigned_once` with copies made before anything is hoisted**: when every
`copy()` / `copy_with_mapped_cses([])` of the history precedes every call, all mappers of the pool
satisfy both statements. -/
theorem names_unique_copy_partial (reverse : Bool) (pfx : String) (cps ems : List COpn)
    (hc : ∀ op ∈ cps, isPlainCopy op = true) (he : ∀ op ∈ ems, isEmit op = true)
    (outs : List CStepOut) (pool : List CSt)
    (h : runOps S [{ reverse, pfx }] (cps ++ ems) = .ok (outs, pool)) :
    ∀ st ∈ pool, st.assigned.Nodup := by
  intro st hst
  refine (runOps_copies_first_inv S ems he cps _ outs pool hc ?_ h st hst).nodup
  intro s hs
  simp only [List.mem_singleton] at hs
  subst hs
  exact ⟨rfl, rfl, rfl⟩

theorem assigned_once_copy_partial (reverse : Bool) (pfx : String) (cps ems : List COpn)
    (hc : ∀ op ∈ cps, isPlainCopy op = true) (he : ∀ op ∈ ems, isEmit op = true)
    (outs : List CStepOut) (pool : List CSt)
    (h : runOps S [{ reverse, pfx }] (cps ++ ems) = .ok (outs, pool)) :
    ∀ st ∈ pool, (st.nameList.map entryKey).Pairwise (fun a b => a.eq b = false) ∧
      st.toName = st.nameList.map (fun e => (entryKey e, e.name)) := by
  intro st hst
  have i := runOps_copies_first_inv S ems he cps _ outs pool hc (by
    intro s hs
    simp only [List.mem_singleton] at hs
    subst hs
    exact ⟨rfl, rfl, rfl⟩) h st hst
  exact ⟨i.once, i.toNameEq⟩

/-! ### the value of the generated C on the integer fragment -/

/-- **Generated C computes the evaluator's value (integer fragment).**  Let `e` be in `intFrag`
(integer constants, variables, sums incl. the `a + -1*b ⇒ a - b` rewrite, products of at least two
factors none of which is a remainder, floor division printed `(a/b)`, remainder whose divisor is
not a power, `x**2` printed `x * x`), let `denN env e = some v`: the evaluation succeeds on integer
variables with every `//` and `%` applied to a non-negative dividend and a positive divisor
(unbounded ints: no overflow).  Then for EVERY allocator state, the structure the mapper prints
denotes `v` under C's reading of its text (left-associative chains, truncating `/` and `%`), and
`v` is the evaluator's value. -/
theorem ccode_value_int_partial (hS : S.sum < S.product ∧ S.product < S.power) (env : Env)
    (e : Expr) (st : CSt) (d : Doc) (refs : List String) (st' : CSt) (v : Int)
    (hfrag : intFrag e = true) (hrun : ccode S st e = .ok (d, refs, st'))
    (hv : denN env e = some v) :
    denC env d = some v ∧ den env e = .ok (.int v) :=
  ⟨value_denC env S false hS (fun h => by cases h) e st d refs st' (.i v)
      (intFrag_cFragM e hfrag) hrun (denN_denV env e v hv),
    denN_sound env e v hv⟩

/-- **C's grammar groups the emitted text as the tree** (enlarged fragment).  Let `e` be in `cFrag`:
the arithmetic part of `intFrag`, shifts, comparisons whose operands are not bitwise operations,
`&`/`^`/`|`/`and`/`or` of at least two operands, `not`, `~`, `If` (printed `(c ? t : e)`), `Min`/`Max`
of two operands (printed `min(a, b)`), nested in any way.  Then for EVERY allocator state and
whatever the values are, the emitted structure `d` is well formed for C's ten levels of
left-associative binary operators (`cwf`): every infix operator has, to its left, only exposed
operators binding at least as tightly and, to its right, only operators binding tighter or
regroupable ones of its own level (`+ -`, `*`, `&`, `^`, `|`, `&&`, `||`), and prefix operators are
applied to primaries — the parentheses the mapper writes are sufficient. -/
theorem ccode_parens_sufficient (hS : PrecA S ∧ PrecB S) (e : Expr) (st : CSt) (d : Doc)
    (refs : List String) (st' : CSt) (hfrag : cFrag e = true)
    (hrun : ccode S st e = .ok (d, refs, st')) : cwf d = true :=
  (value_core [] S true hS.1 (fun _ => hS.2) _ st e _ d refs st' hfrag hrun).1.wf

/-- **C's reading of a well-formed text is the value of its tree**: grouping the flat chain of
primaries and binary operators around the last operator of the lowest precedence (C99 6.5.5 –
6.5.14), with short-circuit `&&`/`||` and lazy `?:`, gives the value obtained by evaluating the
structure node by node. -/
theorem c_reading_of_wellformed (env : Env) (d : Doc) (h : cwf d = true) :
    denC env d = denT env d := denC_eq_denT env d h

/-- **Generated C computes the evaluator's value (C-expressible integer fragment).**  Let `e` be
in `cFrag` and let `denV env e = some w`: the evaluation succeeds on integer variables with every
`//` and `%` applied to a non-negative dividend and a positive divisor, every `<<`/`>>` to a
non-negative value and an amount in `0 … 4096`, every `&`, `^`, `|` to non-negative operands,
`and`/`or`/`If` evaluating only the operands Python evaluates (unbounded ints: no overflow).  Then
for EVERY allocator state the text the mapper emits denotes, under C's reading (ten levels of
left-associative binary operators, truncating `/` `%`, 0/1-valued comparisons and `!`,
short-circuit `&&`/`||`, lazy `?:`, `min`/`max` of two ints), the number `w.toInt`, and `w` is the
evaluator's value: the same int where Python has an int, and 1 / 0 where Python has `True` /
`False`. -/
theorem ccode_value_c_partial (hS : PrecA S ∧ PrecB S) (env : Env) (e : Expr) (st : CSt) (d : Doc)
    (refs : List String) (st' : CSt) (w : CVal) (hfrag : cFrag e = true)
    (hrun : ccode S st e = .ok (d, refs, st')) (hv : denV env e = some w) :
    denC env d = some w.toInt ∧ den env e = .ok w.toValue :=
  ⟨value_denC env S true hS.1 (fun _ => hS.2) e st d refs st' w hfrag hrun hv,
    denV_sound env e w hv⟩

/-- the precedence table of the repository satisfies the hypothesis -/
theorem printPrec_ok : Generated.printPrec.sum < Generated.printPrec.product ∧
    Generated.printPrec.product < Generated.printPrec.power := by decide

/-- … and the hypothesis of the enlarged fragment: Python's order of all levels -/
theorem printPrec_ok_full : PrecA Generated.printPrec ∧ PrecB Generated.printPrec := by
  unfold PrecA PrecB
  decide

/-- the text and the C value (`denC`) of what the mapper emits for `e` in a fresh state -/
def cText (e : Expr) : Option String :=
  match ccode Generated.printPrec {} e with
  | .ok (d, _, _) => some d.render
  | .error _ => none

def cValue (env : Env) (e : Expr) : Option Int :=
  match ccode Generated.printPrec {} e with
  | .ok (d, _, _) => denC env d
  | .error _ => none

def envABC : Env := [("a", .int 7), ("b", .int 3), ("c", .int 2), ("x", .int 2)]

/-- **false for a remainder operand of a product**: `a * (b % c)` is emitted as `a * b % c`, which C
reads as `(a * b) % c`: 1 instead of 7. -/
theorem ccode_value_int_cex :
    ∃ (env : Env) (e : Expr), cText e = some "a * b % c" ∧ den env e = .ok (.int 7) ∧
      cValue env e = some 1 := by
  refine ⟨envABC, .nary .prod [.var "a", .bin .rem (.var "b") (.var "c")], by decide, ?_, by decide⟩
  exact denN_sound _ _ 7 (by decide)

/-- **false for `x**2` as a divisor**: `a % x**2` is emitted as `a % x * x`, which C reads as
`(a % x) * x`: 2 instead of 3. -/
theorem ccode_value_int_pow_cex :
    ∃ (env : Env) (e : Expr), cText e = some "a % x * x" ∧ den env e = .ok (.int 3) ∧
      cValue env e = some 2 := by
  refine ⟨envABC, .bin .rem (.var "a") (.bin .pow (.var "x") (.const (.int 2))), by decide, ?_,
    by decide⟩
  exact denN_sound _ _ 3 (by decide)

/-- non-vacuity of `ccode_value_int_partial`: sorting, the subtraction rewrite, `x * x`, `(a/b)`
and `%` all occur; text and value as computed by gcc -/
example :
    let e : Expr := .nary .sum [.var "c", .nary .prod [.const (.int (-1)), .var "b"],
      .bin .floordiv (.nary .prod [.var "a", .bin .pow (.var "x") (.const (.int 2))])
        (.nary .sum [.var "b", .const (.int 1)]),
      .bin .rem (.var "a") (.var "b")]
    intFrag e = true ∧ denN envABC e = some 7 ∧
      cText e = some "c + a % b + (a * x * x/(b + 1)) - b" ∧ cValue envABC e = some 7 := by
  decide

/-! ### the enlarged fragment: witnesses and non-vacuity -/

def envBits : Env := [("a", .int 6), ("b", .int 3), ("c", .int 5), ("x", .int 5)]

/-- **false for a bitwise operand of a comparison**: `(a & b) < c` is emitted as `a & b < c` (Python's
precedences), which C reads as `a & (b < c)`: 0 instead of `True`; likewise for `|` and `^`. -/
theorem ccode_value_c_cmp_bitwise_cex :
    (∃ (env : Env) (e : Expr), cText e = some "a & b < c" ∧ den env e = .ok (.bool true) ∧
      cValue env e = some 0) ∧
    (∃ (env : Env) (e : Expr), cText e = some "c | b < a" ∧ den env e = .ok (.bool false) ∧
      cValue env e = some 5) ∧
    (∃ (env : Env) (e : Expr), cText e = some "a ^ b < c" ∧ den env e = .ok (.bool false) ∧
      cValue env e = some 7) := by
  refine ⟨⟨envBits, .cmp .lt (.nary .band [.var "a", .var "b"]) (.var "c"), by decide, ?_, by decide⟩,
    ⟨envBits, .cmp .lt (.nary .bor [.var "c", .var "b"]) (.var "a"), by decide, ?_, by decide⟩,
    ⟨envBits, .cmp .lt (.nary .bxor [.var "a", .var "b"]) (.var "c"), by decide, ?_, by decide⟩⟩
  · exact denV_sound _ _ (.b true) (by decide)
  · exact denV_sound _ _ (.b false) (by decide)
  · exact denV_sound _ _ (.b false) (by decide)

/-- **false for `and` / `or` of one operand**: `LogicalAnd((x,))` is emitted as `x`: 5 in C, `True` for
the evaluator (`all([5])`). -/
theorem ccode_value_c_one_operand_cex :
    ∃ (env : Env) (e : Expr), cText e = some "x" ∧ den env e = .ok (.bool true) ∧
      cValue env e = some 5 := by
  refine ⟨envBits, .nary .land [.var "x"], by decide, ?_, by decide⟩
  exact denV_sound _ _ (.b true) (by decide)

set_option maxRecDepth 16000 in
/-- non-vacuity of `ccode_value_c_partial` / `ccode_parens_sufficient`: every new shape occurs
(comparison, `?:`, `&&`, `||`, `!`, `~`, `&`, `^`, `|`, shifts, `min`, `max`, nested chains of one
level); text and value as computed by gcc; the `and` does not evaluate `a // (x - 5)` -/
example :
    let e : Expr := .ite
      (.nary .land [.cmp .ne (.var "x") (.const (.int 5)),
        .cmp .gt (.bin .floordiv (.var "a") (.nary .sum [.var "x", .const (.int (-5))])) (.const (.int 1))])
      (.const (.int 0))
      (.nary .sum [
        .nary .bor [.nary .band [.var "a", .nary .band [.var "b", .var "c"]],
                    .nary .bxor [.var "a", .bin .lshift (.var "b") (.const (.int 2))]],
        .nary .prod [.un .lnot (.nary .lor [.cmp .le (.var "a") (.var "b"), .un .lnot (.var "c")]),
                     .un .bnot (.bin .rshift (.var "a") (.const (.int 1)))],
        .nary .min [.var "a", .nary .max [.var "b", .bin .rem (.var "c") (.const (.int 3))]],
        .cmp .eq (.cmp .lt (.var "b") (.var "a")) (.const (.int 1))])
    cFrag e = true ∧ denV envBits e = some (.i 10) ∧
      cText e = some "(x != 5 && (a/(x + -5)) > 1 ? 0 : min(a, max(b, c % 3)) + (a & b & c | a ^ b << 2) + ((b < a) == 1) + !(a <= b || !c) * ~(a >> 1))" ∧
      cValue envBits e = some 10 ∧
      (match ccode Generated.printPrec {} e with
        | .ok (d, _, _) => cwf d
        | .error _ => false) = true := by
  decide

/-! non-vacuity: a history with shared wrappers, repeated prefixes, equal children under different
prefixes and an unprefixed wrapper succeeds, with the names Python produces -/
example :
    (match emits Generated.printPrec {}
        [.nary .sum [.cse xPlus1 (some "u") "s", .cse xPlus1 (some "v") "s",
                      .cse (.var "y") (some "u") "s", .cse (.var "z") none "s"],
         .cse (.var "a") (some "u_2") "s"] with
      | .ok (outs, st) => (outs.map (·.1), st.assigned)
      | .error _ => ([], [])) =
    (["_cse_u_2 + _cse_u + _cse_u + _cse0", "_cse_u_2_2"],
     ["_cse_u", "_cse_u_2", "_cse0", "_cse_u_2_2"]) := by decide

end PV.C14
