import PV.Properties.C06
/-
  C06 — slices as expressions in their own right, with an OMITTED LAST BOUND.

  The fragment of `roundtrip_partial` admits omitted slice parts everywhere except in the last
  place (`PrintableSlice`), so the general theorem says nothing about `a:`, `a:b:`, `:b:`.  These
  are exactly the slices after whose last colon the printer writes the FOLLOWER of the slice:
  `)` (last call argument, last keyword value, last tuple element, every parenthesised operand),
  `,` (an earlier argument / element), `]` (index, list element) or the end of the text — and the
  parser decides from that follower whether a bound follows the colon (it parses speculatively on a
  copy of the lexer state and falls back to "no bound").

  What is proved here, on the executable models with the precedence tables regenerated from the
  code (the parser model is tied to `pymbolic/parser.py` by `PV.C07.parser_table_current`, the
  printer by `PV.C06.strE_eq_table_current`): for EVERY context of the finite list `sliceCtxs`
  (every operator on either side, unary operators, branches and condition of a conditional, callee,
  aggregate, look-up, every argument / keyword / element / index position, nested ones) and EVERY
  expressible slice shape with two or three parts (`sliceShapes`: each part present or omitted, not
  two omitted parts at the end), the printed text of the context holding the slice is read back
  by the parser model (whole input, real fuel) as the same tree.
-/
namespace PV.C06
open PV PV.Syntax PV.Generated PV.Lexer

/-- `str(e)` is read back as `e` itself (decidable form of `Reparses P S e e`) -/
def roundtripsB (P : ParserPrec) (S : PrintPrec) (e : Expr) : Bool :=
  match strTop S e with
  | .ok ps =>
    match parseTop P 0 (toks ps) with
    | .ok e' => Expr.beq e' e
    | .error _ => false
  | .error _ => false

section slices
private abbrev a : Expr := .var "a"
private abbrev b : Expr := .var "b"
private abbrev c : Expr := .var "c"
private abbrev d : Expr := .var "d"
private abbrev e : Expr := .var "e"
private abbrev f : Expr := .var "f"
private abbrev g : Expr := .var "g"
private abbrev non : Expr := .const .none

/-- every slice of two or three parts the text can express (a slice ending in two omitted parts
prints like the slice one part shorter: `slice_trailing_omitted_cex`); the first four have a
PRESENT last bound (inside the fragment of `roundtrip_partial`), the last five an OMITTED one -/
def sliceShapes : List Expr :=
  [.slice [a, b], .slice [non, b], .slice [a, b, e], .slice [a, non, e], .slice [non, b, e],
   .slice [non, non, e],
   .slice [a, non], .slice [a, b, non], .slice [non, b, non]]

/-- the slices with an omitted last bound -/
def openEndSlices : List Expr := [.slice [a, non], .slice [a, b, non], .slice [non, b, non]]

/-- the places of the text syntax a slice can stand in, by what follows it in the printed text -/
def sliceCtxs : List (Expr → Expr) :=
  [ fun s => s,                                            -- end of the text
    -- `)`: parenthesised operand of every operator, on either side
    fun s => .nary .sum [s, c], fun s => .nary .sum [c, s], fun s => .nary .sum [c, s, d],
    fun s => .nary .prod [s, c], fun s => .nary .prod [c, s],
    fun s => .bin .quot s c, fun s => .bin .quot c s,
    fun s => .bin .floordiv s c, fun s => .bin .floordiv c s,
    fun s => .bin .rem s c, fun s => .bin .rem c s,
    fun s => .bin .pow s c, fun s => .bin .pow c s,
    fun s => .bin .lshift s c, fun s => .bin .lshift c s,
    fun s => .bin .rshift s c, fun s => .bin .rshift c s,
    fun s => .nary .bor [s, c], fun s => .nary .bor [c, s],
    fun s => .nary .bxor [s, c], fun s => .nary .bxor [c, s],
    fun s => .nary .band [s, c], fun s => .nary .band [c, s],
    fun s => .nary .lor [s, c], fun s => .nary .lor [c, s],
    fun s => .nary .land [s, c], fun s => .nary .land [c, s],
    fun s => .cmp .lt s c, fun s => .cmp .lt c s, fun s => .cmp .eq s c, fun s => .cmp .eq c s,
    fun s => .un .bnot s, fun s => .un .lnot s,
    fun s => .nary .prod [.const (.int (-1)), s],
    fun s => .ite s c d, fun s => .ite c s d, fun s => .ite c d s,
    fun s => .call s [c], fun s => .call s [], fun s => .subscript s c, fun s => .lookup s "u",
    -- `)` directly after the bare slice: last argument, last keyword value, last element
    fun s => .call f [s], fun s => .call f [c, s], fun s => .call f [c, d, s],
    fun s => .callKw f [] ["k"] [s], fun s => .callKw f [c] ["k"] [s],
    fun s => .callKw f [] ["k", "l"] [d, s],
    fun s => .tuple [c, s], fun s => .tuple [c, d, s], fun s => .call f [.tuple [c, s]],
    fun s => .subscript g (.call f [c, s]), fun s => .nary .sum [.call f [s], c],
    -- `,` after the bare slice: an earlier argument / keyword value / element
    fun s => .call f [s, c], fun s => .call f [c, s, d], fun s => .callKw f [s] ["k"] [d],
    fun s => .callKw f [c] ["k", "l"] [s, d], fun s => .tuple [s], fun s => .tuple [s, c],
    fun s => .tuple [c, s, d], fun s => .subscript g (.tuple [s, c]), fun s => .list [s, c],
    -- `]` after the bare slice: index, last index element, list element
    fun s => .subscript g s, fun s => .subscript g (.tuple [c, s]), fun s => .list [s],
    fun s => .list [c, s] ]

/-- **open-ended slices round-trip in every context** (models, regenerated tables): for each of
the 66 contexts and each of the 9 expressible slice shapes, `parse(str(ctx(slice)))` is
`ctx(slice)` itself — whichever of `)`, `,`, `]`, end of text follows the slice's last colon. -/
theorem slice_contexts_roundtrip_current :
    ∀ ctx ∈ sliceCtxs, ∀ s ∈ sliceShapes, roundtripsB parserPrec printPrec (ctx s) = true := by
  decide +kernel

/-- every tree of the family is lexically safe (the names are plain identifiers) -/
theorem slice_contexts_lexsafe_current :
    ∀ ctx ∈ sliceCtxs, ∀ s ∈ sliceShapes, LexSafe printPrec (ctx s) = true := by
  decide +kernel

/-- the same on STRINGS (`parseStringWith lexTable` = `Parser.__call__`: the table-driven lexer on
the REGENERATED rule table, then the parser): `f(a:)`, `(a:) + c`, `g[c, a:b:]`, … are lexed into
the printer's tokens (`lex_render`) and parsed back to the tree -/
theorem slice_contexts_roundtrip_string_current :
    ∀ ctx ∈ sliceCtxs, ∀ s ∈ sliceShapes, ∃ ps e',
      strTop printPrec (ctx s) = .ok ps ∧
      parseStringWith lexTable parserPrec 0 (render ps) = .ok e' ∧ Expr.beq e' (ctx s) = true := by
  intro ctx hc s hs
  have h := slice_contexts_roundtrip_current ctx hc s hs
  have hl := slice_contexts_lexsafe_current ctx hc s hs
  unfold roundtripsB at h
  split at h
  · rename_i ps hps
    split at h
    · rename_i e' he'
      refine ⟨ps, e', hps, ?_, h⟩
      have hlex : lexWith Lexer.table (render ps) = .ok (toks ps) := lex_render hl hps
      rw [lex_table_current]
      simp only [parseStringWith, hlex, he']
    · exact absurd h (by simp)
  · exact absurd h (by simp)

/-- the decidable form is the statement about printed text and parser -/
theorem reparses_of_roundtripsB {P : ParserPrec} {S : PrintPrec} {e : Expr}
    (h : roundtripsB P S e = true) : ∃ e', Reparses P S e e' ∧ Expr.beq e' e = true := by
  unfold roundtripsB at h
  split at h
  · rename_i ps hps
    split at h
    · rename_i e' he'
      exact ⟨e', ⟨ps, hps, he'⟩, h⟩
    · exact absurd h (by simp)
  · exact absurd h (by simp)

/-- the instance the seeded change C06/m9 breaks: `f(a:)` (an open-ended slice as the last call
argument: the closing parenthesis follows the colon) reads back as itself -/
example : roundtripsB parserPrec printPrec (.call f [.slice [a, non]]) = true := by decide +kernel

/-- non-vacuity: the same check REFUSES a tree that does not come back (`v[a::]`, a slice with two
omitted parts at the end, reads back one part shorter) -/
theorem slice_trailing_omitted_not_roundtrips :
    roundtripsB parserPrec printPrec (.subscript g (.slice [a, non, non])) = false := by
  decide +kernel

/-- every open-ended slice of `openEndSlices` is OUTSIDE the fragment of `roundtrip_partial` (so
`slice_contexts_roundtrip_current` is not an instance of it) while the closed ones are inside -/
theorem open_end_outside_fragment_current :
    (∀ s ∈ openEndSlices, InFragment parserPrec printPrec (.call f [s]) = false) ∧
    InFragment parserPrec printPrec (.call f [.slice [a, b]]) = true := by
  decide +kernel

end slices
end PV.C06
