import PV.Properties.C06
import PV.Proofs.FlattenDen
/-
  C06 — the VALUE half of "print then parse gives the expression back":
  "parsing the printed form yields an expression with the same value in every environment and,
  once nested sums and products are flattened, the same tree".

  `PV/Properties/C06.lean` proves the TREE half (`flattenAssoc e' = flattenAssoc e`).  Here the
  value half is derived from it with the framework's own denotation `den : Env → Expr → R`
  (`PV/Model/Eval.lean`, tied to `EvaluationMapper` by the C02 streams; exact Python
  int / bool / Fraction semantics of `PV/Model/PyNum.lean`):

  * `flatten_same_value`: `den env (flattenAssoc e) = den env e` for EVERY tree and environment —
    no fragment hypothesis, no hypothesis on the values of the variables (bools, ints, Fractions,
    floats, tuples, unbound names, …);
  * `same_value_of_same_flat_tree`: two trees that agree once flattened have the same denotation;
  * `roundtrip_value_partial` / `roundtrip_value_flat_partial` / `roundtrip_value_current` /
    `roundtrip_value_flat_current`: the round-trip theorems of C06 with the additional conclusion
    `∀ env, den env e' = den env e`, under exactly the hypotheses of the tree half.

  What "same denotation" (`den env e' = den env e`, an equation in `R = Except Err Value`) says:
  * when one side evaluates to a value, the other side evaluates to THE SAME `Value` (same
    Python type too: `True` is not confused with `1`, `Fraction(2)` not with `2`);
  * when one side fails, the other fails with the same `Err` (exception class as modelled:
    unknown variable and its name, ZeroDivisionError, TypeError, …);
  * floats: every float result is the single value `.inexact`, and CONSUMING an inexact value in
    arithmetic is `.error .noClaim` (the model abstains).  So for trees that compute with floats
    the theorems only say "both sides are a float / both sides are outside the exact fragment";
    nothing is claimed about rounding — re-associating a float sum CAN change its last bits, and
    that is outside these theorems (and outside what the property can promise).
-/
namespace PV.C06
open PV PV.Syntax PV.FlattenDen

/-- **Flattening nested sums and products does not change the value**: for every tree `e` and
every environment, the flattened tree has the same denotation — the same value (same Python
type), or the same error.  Holds although `+`/`*` on Python values are partial: the accumulator
of `sum(…)`/`product(…)` starts at `0`/`1` and is an `int`/`Fraction` ever after, on which
`+`/`*` are associative with unit `0`/`1`, and whether/how `acc ∘ v` fails depends on `v` only. -/
theorem flatten_same_value (env : Env) (e : Expr) : den env (flattenAssoc e) = den env e :=
  den_flattenAssoc env e

/-- the success reading: either side evaluates to `v` iff the other does -/
theorem flatten_same_value_ok (env : Env) (e : Expr) (v : Value) :
    den env (flattenAssoc e) = .ok v ↔ den env e = .ok v :=
  den_flattenAssoc_ok env e v

/-- the failure reading: either side fails iff the other does -/
theorem flatten_same_value_error (env : Env) (e : Expr) :
    (∃ err, den env (flattenAssoc e) = .error err) ↔ (∃ err, den env e = .error err) :=
  den_flattenAssoc_error env e

/-- **equal once flattened ⇒ equal in value, in every environment** (the step from the tree half
of C06 to the value half) -/
theorem same_value_of_same_flat_tree {e e' : Expr} (h : flattenAssoc e' = flattenAssoc e)
    (env : Env) : den env e' = den env e :=
  den_eq_of_flatten_eq h env

/-- non-vacuity: `Sum((x, Sum((y, Product(()), Sum(())))))` with `x = True`, `y = 4`: the nested
sum is spliced and its empty sum disappears, the empty product (another operator) stays; the
nested and the flattened tree both evaluate, to the `int` 6 -/
example :
    let env : Env := [("x", .bool true), ("y", .int 4)]
    let e : Expr := .nary .sum [.var "x", .nary .sum [.var "y", .nary .prod [], .nary .sum []]]
    flattenAssoc e = .nary .sum [.var "x", .var "y", .nary .prod []] ∧
    den env e = .ok (.int 6) ∧ den env (flattenAssoc e) = .ok (.int 6) :=
  ⟨by decide +kernel, by rfl, by rfl⟩

/-- non-vacuity with a `Fraction`: `Sum((x, Sum((Sum(()),))))` with `x = Fraction(q)` evaluates
to the Fraction `q` itself (`0 + q + (0 + 0)`), and so does the flattened `Sum((x,))` -/
example (q : Rat) :
    let e : Expr := .nary .sum [.var "x", .nary .sum [.nary .sum []]]
    den [("x", .frac q)] e = .ok (.frac q) ∧
    den [("x", .frac q)] (flattenAssoc e) = .ok (.frac q) := by
  constructor <;>
  simp [flattenAssoc, flattenInto, den, denFold, Env.get, NaryOp.apply, Value.add, arith,
    Value.isInexact, Value.isSeq, Value.num?, addN, Num.toRat, pure, Except.pure, bind,
    Except.bind, Rat.add_zero, Rat.zero_add]

/-- non-vacuity on the failure side: a tuple operand inside a nested product makes both sides
abstain, an unbound name makes both raise the same error -/
example :
    let e : Expr := .nary .prod [.var "x", .nary .prod [.var "y", .var "z"]]
    den [("x", .int 2), ("y", .tuple []), ("z", .int 1)] e = .error .noClaim ∧
    den [("x", .int 2), ("y", .tuple []), ("z", .int 1)] (flattenAssoc e) = .error .noClaim ∧
    den [("x", .int 2), ("y", .int 3)] e = .error (.unknownVar "z") ∧
    den [("x", .int 2), ("y", .int 3)] (flattenAssoc e) = .error (.unknownVar "z") :=
  ⟨by rfl, by rfl, by rfl, by rfl⟩

/-- **C06 on the fragment, tree AND value.**  A tree of the fragment has a string form; parsing
it (the whole input, with the fuel `parseTop` really uses) yields a tree `e'` that is the same
once nested sums and products are flattened and that has the same denotation as `e` in every
environment (same value or same error; floats are the single value `.inexact`, see the file
header).  No hypothesis beyond the fragment predicate of `roundtrip_partial`. -/
theorem roundtrip_value_partial {P : ParserPrec} {S : PrintPrec} {e : Expr}
    (h : InFragment P S e = true) :
    ∃ ps e', strTop S e = .ok ps ∧ parseTop P 0 (toks ps) = .ok e' ∧
      flattenAssoc e' = flattenAssoc e ∧ ∀ env, den env e' = den env e := by
  obtain ⟨ps, e', hs, hp, hf, _⟩ := roundtrip_partial h
  exact ⟨ps, e', hs, hp, hf, same_value_of_same_flat_tree hf⟩

/-- the success reading of `roundtrip_value_partial`: in every environment the reparsed tree
evaluates to `v` iff the original tree does -/
theorem roundtrip_value_ok_partial {P : ParserPrec} {S : PrintPrec} {e : Expr}
    (h : InFragment P S e = true) :
    ∃ ps e', strTop S e = .ok ps ∧ parseTop P 0 (toks ps) = .ok e' ∧
      ∀ env v, den env e' = .ok v ↔ den env e = .ok v := by
  obtain ⟨ps, e', hs, hp, _, hv⟩ := roundtrip_value_partial h
  exact ⟨ps, e', hs, hp, fun env v => by rw [hv env]⟩

/-- **C06 with arbitrarily nested sums and products, tree AND value.**  If the flattened tree is
in the fragment, the printed form of `e` parses to a tree that is equal to `e` once sums and
products are flattened and has the same denotation as `e` in every environment.  No hypothesis
beyond those of `roundtrip_flat_partial`. -/
theorem roundtrip_value_flat_partial {P : ParserPrec} {S : PrintPrec} {e : Expr} {ps : Pieces}
    (h : InFragmentFlat P S e = true) (hs : strTop S e = .ok ps) :
    ∃ e', parseTop P 0 (toks ps) = .ok e' ∧ flattenAssoc e' = flattenAssoc e ∧
      ∀ env, den env e' = den env e := by
  obtain ⟨e', hp, hf, _⟩ := roundtrip_flat_partial h hs
  exact ⟨e', hp, hf, same_value_of_same_flat_tree hf⟩

open PV.Generated in
/-- **C06 for the current code, tree AND value**, on the fragment computed from the regenerated
precedence tables (the excluded (position, child class) pairs are `bad_triples_current`). -/
theorem roundtrip_value_current {e : Expr} (h : InFragment parserPrec printPrec e = true) :
    ∃ ps e', strTop printPrec e = .ok ps ∧ parseTop parserPrec 0 (toks ps) = .ok e' ∧
      flattenAssoc e' = flattenAssoc e ∧ ∀ env, den env e' = den env e :=
  roundtrip_value_partial h

open PV.Generated in
/-- the same with arbitrarily nested sums and products -/
theorem roundtrip_value_flat_current {e : Expr} {ps : Pieces}
    (h : InFragmentFlat parserPrec printPrec e = true) (hs : strTop printPrec e = .ok ps) :
    ∃ e', parseTop parserPrec 0 (toks ps) = .ok e' ∧ flattenAssoc e' = flattenAssoc e ∧
      ∀ env, den env e' = den env e :=
  roundtrip_value_flat_partial h hs

section examples
open PV.Generated

/-- `a + 2*b + c` is in the fragment of the current tables and evaluates (with a bool operand) to
the int 6: the hypotheses of `roundtrip_value_current` are satisfiable and its conclusion speaks
about a successful evaluation -/
example :
    let e : Expr := .nary .sum [.var "a", .nary .prod [.const (.int 2), .var "b"], .var "c"]
    InFragment parserPrec printPrec e = true ∧
    den [("a", .int 1), ("b", .bool true), ("c", .int 3)] e = .ok (.int 6) :=
  ⟨by decide +kernel, by rfl⟩

/-- a right-nested sum with a left-nested product: not in `InFragment` (its reparsed tree is
nested differently), in `InFragmentFlat`; the tree it reparses to is a different tree with the
same value -/
example :
    let e : Expr := .nary .sum [.var "a", .nary .sum [.var "b",
      .nary .prod [.nary .prod [.var "a", .var "b"], .var "c"]]]
    let e' : Expr := .nary .sum [.var "a", .var "b",
      .nary .prod [.var "a", .nary .prod [.var "b", .var "c"]]]
    let env : Env := [("a", .int 2), ("b", .bool true), ("c", .int 5)]
    InFragment parserPrec printPrec e = false ∧ InFragmentFlat parserPrec printPrec e = true ∧
    Reparses parserPrec printPrec e e' ∧ e' ≠ e ∧
    den env e = .ok (.int 13) ∧ den env e' = .ok (.int 13) :=
  ⟨by decide +kernel, by decide +kernel, ⟨_, rfl, by decide +kernel⟩, by decide +kernel,
   by rfl, by rfl⟩

end examples

end PV.C06
