import PV.Properties.C19Table
import PV.Proofs.RationalTablePy2
import PV.Proofs.RationalTablePy3
import PV.Proofs.RationalValue
/-!
  C19 — `pymbolic.rational.Rational` arithmetic and `pymbolic.primitives.quotient`:
  "… and the exact quotient node built from two integers evaluates to their quotient."

  The bodies of `Rational.__add__ / __radd__ / __sub__ / __rsub__ / __mul__ / __rmul__ / __div__ /
  __rdiv__ / __pow__ / __neg__ / reciprocal`, of `primitives.quotient` and of
  `EvaluationMapper.map_quotient` are part of the table `tableCurrent`, re-read from the source on
  every run (extract/algorithm.py).  What they compute depends on the meaning of `/` on two ints:

  * **Python 3 (what runs today).**  `/` is true division: the constructor stores two FLOATS,
    `traits(float)` is `FieldTraits()`, a class without `gcd`, `lcm`, `get_unit`.  Section 3 proves,
    on the table as regenerated, that EVERY arithmetic method of a `Rational` with float fields
    raises `AttributeError` (`rational_*_py3_raises`) — whatever the operand.  What does work:
    `quotient(a, b)` builds the object (`quotient_int_eq_table_current`), and evaluating it
    (`map_quotient`) gives the float `a/b` (`quotient_int_evaluates_current`, idealised: a float
    is the exact fraction it was computed as), as does the `Quotient(a, b)` node
    (`quotient_node_evaluates_current`).
  * **Python 2 (what the file was written for).**  `int / int` is floor division.
    `tablePy2Current = tableCurrent.py2` is the SAME table with every `/` read as `//` (a
    syntactic map, PV/Model/RationalOps.lean; `truediv_sites_current` lists the functions it
    touches).  Section 1 proves that the hand-written functions `ratInit … ratPow` ARE the table
    interpreter on that table, for all integer fields; section 2 proves what they compute in ℚ:
    `+ − × ÷` are the operations of ℚ on the values, every division is exact, sums are returned
    in lowest terms with a positive denominator, products of reduced operands are reduced —
    and three quirks: `__pow__` exchanges numerator and denominator (`rational_pow_inverted_cex`),
    division by zero is a `RuntimeError`, an integral sum may come back as `Rational(k, 1)`.

  The Python-2 reading is tied to the real source by the stream `rational-py2`
  (harness/props/c19.py): the files `rational.py` and `traits.py` of the tree under test with the
  same map `/` ↦ `//` applied to their syntax trees, run in a worker process.
-/

namespace PV.Properties.C19

open PV.Algo PV.Generated

/-- the regenerated table under the Python-2 reading of `/` -/
abbrev tablePy2Current : C19Table := tableCurrent.py2

/-- the functions of the current table in which a `/` occurs: exactly these are read differently
by Python 2 and Python 3 -/
theorem truediv_sites_current :
    tableCurrent.truedivSites = ["algorithm.ifft", "EuclideanRingTraits.lcm", "Rational.__init__",
      "Rational.__add__", "Rational.__radd__", "Rational.__mul__", "Rational.__rmul__",
      "EvaluationMapper.map_quotient"] := by
  decide

/-- the Python-2 reading changes nothing else: no `/` is left, the names, kinds, parameters,
classes and the rule chain of `common_traits` are the same -/
theorem py2_reading_shape_current :
    tablePy2Current.truedivSites = [] ∧
      tablePy2Current.fns.map (·.name) = tableCurrent.fns.map (·.name) ∧
      tablePy2Current.fns.map (·.params) = tableCurrent.fns.map (·.params) ∧
      tablePy2Current.classes = tableCurrent.classes ∧
      tablePy2Current.commonTraits = tableCurrent.commonTraits := by
  decide

variable {α : Type}

/-! ## 1. Python-2 reading: the model IS the regenerated source -/

section
variable (ops : C19Ops α) (ext : String → List (C19V α) → C19R (C19V α))

/-- **`Rational.__init__`** (`/=` read as `//=`) IS `ratInit`: both fields divided by the sign of
the denominator, `RuntimeError` for a zero denominator, no reduction -/
theorem rational_init_py2_eq_table_current (num den : ℤ) (n : ℕ) :
    c19RunFn ops tablePy2Current ext (n + 1 + 1 + 1) "Rational.__init__"
        [.obj "Rational" [] [], .int num, .int den] = c19EncRatRes (ratInit num den) :=
  c19p2_rational_init_run ops ext num den n

/-- **`primitives.quotient` on two ints** IS `ratQuotient`: the numerator itself when
`denominator - 1` is zero, else `Rational(numerator, denominator)` (the common traits of two ints
are `IntegerTraits`, a Euclidean ring) — never the `Quotient` node -/
theorem quotient_int_py2_eq_table_current (num den : ℤ) (n : ℕ) :
    c19RunFn ops tablePy2Current ext (n + 1 + 1 + 1 + 1) "primitives.quotient" [.int num, .int den]
      = c19EncRatRes (ratQuotient num den) :=
  c19p2_quotient_run ops ext num den n

/-- **`Rational.__add__`** IS `ratAdd` on the fields of `self` and of the operand (`Rational(other)`
for a plain int): `lcm` of the denominators through `EuclideanRingTraits.lcm` →
`extended_euclidean`, the two cross products, the gcd of the new pair, `quotient` of the two
reduced numbers.  `N` bounds the two runs of Euclid's loop (`ratAddFuel`). -/
theorem rational_add_eq_table_current (n1 d1 : ℤ) (other : RatArg) (N : ℕ)
    (hN : ratAddFuel n1 d1 other.fields.1 other.fields.2 ≤ N) :
    c19RunFn ops tablePy2Current ext (N + 1) "Rational.__add__"
        [c19RatObj n1 d1, c19EncRatArg other]
      = c19EncRatRes (ratAdd n1 d1 other.fields.1 other.fields.2) :=
  c19p2_rational_add_run ops ext n1 d1 other N hN

/-- `__radd__ = __add__`: the same body under the other name -/
theorem rational_radd_eq_table_current (n1 d1 : ℤ) (other : RatArg) (N : ℕ)
    (hN : ratAddFuel n1 d1 other.fields.1 other.fields.2 ≤ N) :
    c19RunFn ops tablePy2Current ext (N + 1) "Rational.__radd__"
        [c19RatObj n1 d1, c19EncRatArg other]
      = c19EncRatRes (ratAdd n1 d1 other.fields.1 other.fields.2) :=
  c19p2_rational_radd_run ops ext n1 d1 other N hN

/-- **`Rational.__mul__`** IS `ratMul`: the two cross gcds, the four divisions, the plain numerator
when the new denominator is one -/
theorem rational_mul_eq_table_current (n1 d1 : ℤ) (other : RatArg) (N : ℕ)
    (hN : ratMulFuel n1 d1 other.fields.1 other.fields.2 ≤ N) :
    c19RunFn ops tablePy2Current ext (N + 1) "Rational.__mul__"
        [c19RatObj n1 d1, c19EncRatArg other]
      = c19EncRatRes (ratMul n1 d1 other.fields.1 other.fields.2) :=
  c19p2_rational_mul_run ops ext n1 d1 other N hN

theorem rational_rmul_eq_table_current (n1 d1 : ℤ) (other : RatArg) (N : ℕ)
    (hN : ratMulFuel n1 d1 other.fields.1 other.fields.2 ≤ N) :
    c19RunFn ops tablePy2Current ext (N + 1) "Rational.__rmul__"
        [c19RatObj n1 d1, c19EncRatArg other]
      = c19EncRatRes (ratMul n1 d1 other.fields.1 other.fields.2) :=
  c19p2_rational_rmul_run ops ext n1 d1 other N hN

/-- **`Rational.__sub__`** IS `ratSub`: `self.__add__(-other)` through the regenerated `__neg__`
and `__add__` -/
theorem rational_sub_eq_table_current (n1 d1 : ℤ) (other : RatArg) (N : ℕ)
    (hN : ratSubFuel n1 d1 other ≤ N) :
    c19RunFn ops tablePy2Current ext (N + 1) "Rational.__sub__"
        [c19RatObj n1 d1, c19EncRatArg other] = c19EncRatRes (ratSub n1 d1 other) :=
  c19p2_rational_sub_run ops ext n1 d1 other N hN

/-- **`Rational.__rsub__`** IS `ratRsub`: `(-self).__radd__(other)` -/
theorem rational_rsub_eq_table_current (n1 d1 : ℤ) (other : RatArg) (N : ℕ)
    (hN : ratRsubFuel n1 d1 other ≤ N) :
    c19RunFn ops tablePy2Current ext (N + 1) "Rational.__rsub__"
        [c19RatObj n1 d1, c19EncRatArg other] = c19EncRatRes (ratRsub n1 d1 other) :=
  c19p2_rational_rsub_run ops ext n1 d1 other N hN

/-- **`Rational.__div__`** (the `/` of Python 2) IS `ratDiv`:
`self.__mul__(Rational(other.Denominator, other.Numerator))` -/
theorem rational_div_eq_table_current (n1 d1 : ℤ) (other : RatArg) (N : ℕ)
    (hN : ratDivFuel n1 d1 other ≤ N) :
    c19RunFn ops tablePy2Current ext (N + 1) "Rational.__div__"
        [c19RatObj n1 d1, c19EncRatArg other] = c19EncRatRes (ratDiv n1 d1 other) :=
  c19p2_rational_div_run ops ext n1 d1 other N hN

/-- **`Rational.__rdiv__`** IS `ratRdiv` -/
theorem rational_rdiv_eq_table_current (n1 d1 : ℤ) (other : RatArg) (N : ℕ)
    (hN : ratRdivFuel n1 d1 other ≤ N) :
    c19RunFn ops tablePy2Current ext (N + 1) "Rational.__rdiv__"
        [c19RatObj n1 d1, c19EncRatArg other] = c19EncRatRes (ratRdiv n1 d1 other) :=
  c19p2_rational_rdiv_run ops ext n1 d1 other N hN

/-- **`Rational.__neg__`** IS `ratNeg` -/
theorem rational_neg_eq_table_current (n d : ℤ) (m : ℕ) :
    c19RunFn ops tablePy2Current ext (m + 1 + 1 + 1 + 1) "Rational.__neg__" [c19RatObj n d]
      = c19EncRatRes (ratNeg n d) :=
  c19p2_rational_neg_run ops ext n d m

/-- **`Rational.reciprocal`** IS `ratReciprocal` -/
theorem rational_reciprocal_eq_table_current (n d : ℤ) (m : ℕ) :
    c19RunFn ops tablePy2Current ext (m + 1 + 1 + 1 + 1) "Rational.reciprocal" [c19RatObj n d]
      = c19EncRatRes (ratReciprocal n d) :=
  c19p2_rational_reciprocal_run ops ext n d m

/-- **`Rational.__pow__`** (natural exponent) IS `ratPow`:
`Rational(self.Denominator**other, self.Numerator**other)` — as written -/
theorem rational_pow_eq_table_current (n d : ℤ) (k m : ℕ) :
    c19RunFn ops tablePy2Current ext (m + 1 + 1 + 1 + 1) "Rational.__pow__" [c19RatObj n d, .int k]
      = c19EncRatRes (ratPow n d k) :=
  c19p2_rational_pow_run ops ext n d k m
end

example : ratAdd 1 2 1 3 = .rat 5 6 := by decide +kernel
example : ratAdd 1 2 1 2 = .int 1 := by decide +kernel
example : ratMul 2 3 3 4 = .rat 1 2 := by decide +kernel
example : ratMul 2 3 3 2 = .int 1 := by decide +kernel
example : ratSub 1 2 (.rat 1 3) = .rat 1 6 := by decide +kernel
example : ratDiv 1 2 (.int 3) = .rat 1 6 := by decide +kernel
example : ratInit 2 (-4) = .rat (-2) 4 := by decide +kernel

/-! ## 2. Python-2 reading: what is computed, in ℚ -/

/-- the constructor keeps the value and makes the denominator positive; a zero denominator is a
`RuntimeError` -/
theorem rational_init_py2_value (n d : ℤ) :
    (d ≠ 0 → (ratInit n d).value = some ((n : ℚ) / d) ∧ (ratInit n d).positive) ∧
      (d = 0 → ratInit n d = .raise "RuntimeError") :=
  ⟨fun hd => ⟨ratInit_value n d hd, ratInit_positive n d hd⟩, fun hd => by subst hd; exact ratInit_zero n⟩

/-- **the exact quotient built from two integers stands for their quotient**: `quotient(n, d)` is
the int `n` for `d = 1`, else a `Rational` whose value is `n / d` -/
theorem quotient_int_value (n d : ℤ) (hd : d ≠ 0) :
    (ratQuotient n d).value = some ((n : ℚ) / d) ∧ (ratQuotient n d).positive :=
  ⟨ratQuotient_value n d hd, ratQuotient_positive n d hd⟩

/-- **value(a + b) = value(a) + value(b)** for non-zero denominators: no exception, and the sum
comes back in lowest terms with a positive denominator (or as a plain int) -/
theorem rational_add_value (n1 d1 : ℤ) (other : RatArg) (h1 : d1 ≠ 0) (h2 : other.fields.2 ≠ 0) :
    (ratAdd n1 d1 other.fields.1 other.fields.2).value = some ((n1 : ℚ) / d1 + other.value) ∧
      (ratAdd n1 d1 other.fields.1 other.fields.2).reduced :=
  ratAdd_value n1 d1 _ _ h1 h2

/-- **value(a − b) = value(a) − value(b)** -/
theorem rational_sub_value (n1 d1 : ℤ) (other : RatArg) (h1 : d1 ≠ 0) (h2 : other.fields.2 ≠ 0) :
    (ratSub n1 d1 other).value = some ((n1 : ℚ) / d1 - other.value) ∧
      (ratSub n1 d1 other).reduced :=
  ratSub_value n1 d1 other h1 h2

/-- **value(b − a)** for the reflected method -/
theorem rational_rsub_value (n1 d1 : ℤ) (other : RatArg) (h1 : d1 ≠ 0) (h2 : other.fields.2 ≠ 0) :
    (ratRsub n1 d1 other).value = some (other.value - (n1 : ℚ) / d1) ∧
      (ratRsub n1 d1 other).reduced :=
  ratRsub_value n1 d1 other h1 h2

/-- **value(a × b) = value(a) × value(b)**; the product of operands in lowest terms is in lowest
terms (non-reduced operands may give a non-reduced product: `rational_mul_not_reduced_witness`) -/
theorem rational_mul_value (n1 d1 : ℤ) (other : RatArg) (h1 : d1 ≠ 0) (h2 : other.fields.2 ≠ 0) :
    (ratMul n1 d1 other.fields.1 other.fields.2).value = some ((n1 : ℚ) / d1 * other.value) ∧
      (ratMul n1 d1 other.fields.1 other.fields.2).positive ∧
      (Int.gcd n1 d1 = 1 → Int.gcd other.fields.1 other.fields.2 = 1 →
        (ratMul n1 d1 other.fields.1 other.fields.2).reduced) :=
  ⟨(ratMul_value n1 d1 _ _ h1 h2).1, (ratMul_value n1 d1 _ _ h1 h2).2,
    ratMul_reduced n1 d1 _ _ h1 h2⟩

/-- **value(a ÷ b) = value(a) ÷ value(b)** when the divisor is not zero; a zero divisor raises
`RuntimeError` ("0 does not have a prime factor decomposition"), not `ZeroDivisionError` -/
theorem rational_div_value (n1 d1 : ℤ) (other : RatArg) (h1 : d1 ≠ 0) (h2 : other.fields.2 ≠ 0) :
    (other.fields.1 ≠ 0 → (ratDiv n1 d1 other).value = some ((n1 : ℚ) / d1 / other.value)) ∧
      (other.fields.1 = 0 → ratDiv n1 d1 other = .raise "RuntimeError") :=
  ⟨ratDiv_value n1 d1 other h1 h2, ratDiv_zero n1 d1 other⟩

/-- the reflected division: `other ÷ self` -/
theorem rational_rdiv_value (n1 d1 : ℤ) (other : RatArg) (h1 : d1 ≠ 0) (h2 : other.fields.2 ≠ 0) :
    (n1 ≠ 0 → (ratRdiv n1 d1 other).value = some (other.value / ((n1 : ℚ) / d1))) ∧
      (n1 = 0 → ratRdiv n1 d1 other = .raise "RuntimeError") :=
  ⟨ratRdiv_value n1 d1 other h1 h2, fun h => by subst h; exact ratRdiv_zero d1 other⟩

theorem rational_neg_value (n d : ℤ) (hd : d ≠ 0) : (ratNeg n d).value = some (-((n : ℚ) / d)) :=
  ratNeg_value n d hd

theorem rational_reciprocal_value (n d : ℤ) (hn : n ≠ 0) :
    (ratReciprocal n d).value = some ((d : ℚ) / n) :=
  ratReciprocal_value n d hn

/-- **every `/` in `__add__` and `__mul__` divides exactly**: the floor division of the Python-2
reading drops no remainder (so "exact division" is the same reading) -/
theorem rational_divisions_exact (n1 d1 n2 d2 : ℤ) (h1 : d1 ≠ 0) :
    (let newden := Int.fdiv (d1 * d2) (PV.Algo.gcd d1 d2)
     let newnum := Int.fdiv (n1 * newden) d1 + Int.fdiv (n2 * newden) d2
     PV.Algo.gcd d1 d2 ∣ d1 * d2 ∧ d1 ∣ n1 * newden ∧ d2 ∣ n2 * newden ∧
       PV.Algo.gcd newden newnum ∣ newnum ∧ PV.Algo.gcd newden newnum ∣ newden) ∧
    (PV.Algo.gcd n1 d2 ∣ n1 ∧ PV.Algo.gcd n2 d1 ∣ Int.fdiv n1 (PV.Algo.gcd n1 d2) * n2 ∧
      PV.Algo.gcd n2 d1 ∣ d1 ∧ PV.Algo.gcd n1 d2 ∣ Int.fdiv d1 (PV.Algo.gcd n2 d1) * d2) :=
  ⟨ratAdd_divisions_exact n1 d1 n2 d2 h1, ratMul_divisions_exact n1 d1 n2 d2⟩

/-- what `__pow__` computes as coded: the power of the RECIPROCAL -/
theorem rational_pow_value (n d : ℤ) (k : ℕ) (hn : n ≠ 0) :
    (ratPow n d k).value = some (((d : ℚ) / n) ^ k) :=
  ratPow_value n d k hn

/-- **`Rational.__pow__` exchanges numerator and denominator**: `Rational(2, 3) ** 2` is built as
`Rational(9, 4)` — `(2/3)² = 4/9` -/
theorem rational_pow_inverted_cex :
    ratPow 2 3 2 = .rat 9 4 ∧ (ratPow 2 3 2).value ≠ some (((2 : ℚ) / 3) ^ 2) := by
  refine ⟨by decide +kernel, ?_⟩
  rw [ratPow_value 2 3 2 (by decide)]
  norm_num

/-- an integral sum may come back as a `Rational` with denominator one instead of an int: the
computed gcd is negative, so `quotient` sees the denominator `-1` -/
theorem rational_add_integral_not_int_witness : ratAdd (-1) 2 (-1) 2 = .rat (-1) 1 := by
  decide +kernel

/-- operands that are not in lowest terms may give a product that is not -/
theorem rational_mul_not_reduced_witness : ratMul 2 4 1 3 = .rat 2 12 := by decide +kernel

/-! ## 3. Python 3: what runs today -/

section
variable (ops : C19Ops α) (ext : String → List (C19V α) → C19R (C19V α))
  (hlcm : ∀ vs, ext "FieldTraits.lcm" vs = .raise "AttributeError")
  (hgcd : ∀ vs, ext "FieldTraits.gcd" vs = .raise "AttributeError")
  (hunit : ∀ vs, ext "FieldTraits.get_unit" vs = .raise "AttributeError")

/-- **`quotient(num, den)` on two ints as regenerated** (Python 3): the int `num` when `den - 1`
is zero, `RuntimeError` for `den = 0`, else the `Rational` object `Rational.__init__` fills —
with the two FLOATS `num / ±1`, `den / ±1` -/
theorem quotient_int_eq_table_current (num den : ℤ) (n : ℕ) :
    c19RunFn ops tableCurrent ext (n + 1 + 1 + 1 + 1) "primitives.quotient" [.int num, .int den]
      = c19EncQuotientInt num den :=
  c19p3_quotient_int_run ops ext num den n

/-- **the exact quotient built from two integers evaluates to their quotient**: evaluating the
object `quotient(num, den)` (`den ∉ {0, 1}`; `Mapper.map_rational` delegates to `map_quotient`,
`self.rec` of a number is the number) gives the float `(num/u) / (den/u)`, `u = ±1` — as a
fraction (`frac_value`) exactly `num / den` -/
theorem quotient_int_evaluates_current (ks : List String) (vs : List (C19V α)) (num den : ℤ)
    (hd : den ≠ 0)
    (hrec : ∀ p q : ℤ, ext "EvaluationMapper.rec" [c19EvalMapper ks vs, .frac p q] = .ok (.frac p q))
    (n : ℕ) :
    ∃ u : ℤ, (u = 1 ∨ u = -1) ∧
      (c19EncRational (c19RationalInit num den) : C19R (C19V α)) = .ok (c19RatObjF num u den u) ∧
      c19RunFn ops tableCurrent ext (n + 1 + 1) "EvaluationMapper.map_quotient"
        [c19EvalMapper ks vs, c19RatObjF num u den u] = .ok (.frac (num * u) (u * den)) ∧
      ((num * u : ℤ) : ℚ) / ((u * den : ℤ) : ℚ) = (num : ℚ) / den := by
  by_cases h : den < 0
  · refine ⟨-1, Or.inr rfl, by simp [c19RationalInit, h, c19EncRational, c19RatObjF],
      c19p3_map_quotient_rational_run ops ext ks vs num (-1) den (-1) hd hrec n, ?_⟩
    push_cast
    rw [mul_comm, neg_one_mul, neg_one_mul, neg_div_neg_eq]
  · have h' : den > 0 := by omega
    refine ⟨1, Or.inl rfl, by simp [c19RationalInit, h, h', c19EncRational, c19RatObjF],
      c19p3_map_quotient_rational_run ops ext ks vs num 1 den 1 hd hrec n, ?_⟩
    push_cast
    rw [mul_one, one_mul]

/-- **the `Quotient` node of two ints evaluates to Python's `num / den`** (`ZeroDivisionError`
for a zero denominator) -/
theorem quotient_node_evaluates_current (ks : List String) (vs : List (C19V α)) (num den : ℤ)
    (hrec : ∀ p : ℤ, ext "EvaluationMapper.rec" [c19EvalMapper ks vs, .int p] = .ok (.int p))
    (n : ℕ) :
    c19RunFn ops tableCurrent ext (n + 1 + 1) "EvaluationMapper.map_quotient"
        [c19EvalMapper ks vs, c19QuotientObj num den]
      = if den = 0 then .raise "ZeroDivisionError" else .ok (.frac num den) :=
  c19p3_map_quotient_node_run ops ext ks vs num den hrec n

include hlcm in
/-- **Python 3: `Rational.__add__` / `__radd__` raise `AttributeError`** on every `Rational` the
constructor can build (float fields `a/b`, `c/e`), for an int operand and for a `Rational` one:
`common_traits` of two floats is `FieldTraits()`, and `FieldTraits` has no `lcm` -/
theorem rational_add_py3_raises (a b c e : ℤ) (other : RatArgF) (M : ℕ) :
    c19RunFn ops tableCurrent ext (M + 1 + 1 + 1 + 1) "Rational.__add__"
        [c19RatObjF a b c e, c19EncRatArgF other] = .raise "AttributeError" ∧
    c19RunFn ops tableCurrent ext (M + 1 + 1 + 1 + 1) "Rational.__radd__"
        [c19RatObjF a b c e, c19EncRatArgF other] = .raise "AttributeError" :=
  ⟨c19p3_rational_add_run ops ext hlcm a b c e other M,
    c19p3_rational_radd_run ops ext hlcm a b c e other M⟩

include hgcd in
/-- **Python 3: `Rational.__mul__` / `__rmul__` raise `AttributeError`** (`FieldTraits` has no
`gcd`) -/
theorem rational_mul_py3_raises (a b c e : ℤ) (other : RatArgF) (M : ℕ) :
    c19RunFn ops tableCurrent ext (M + 1 + 1 + 1 + 1) "Rational.__mul__"
        [c19RatObjF a b c e, c19EncRatArgF other] = .raise "AttributeError" ∧
    c19RunFn ops tableCurrent ext (M + 1 + 1 + 1 + 1) "Rational.__rmul__"
        [c19RatObjF a b c e, c19EncRatArgF other] = .raise "AttributeError" :=
  ⟨c19p3_rational_mul_run ops ext hgcd a b c e other M,
    c19p3_rational_rmul_run ops ext hgcd a b c e other M⟩

include hlcm hunit in
/-- **Python 3: `__sub__` / `__rsub__` raise `AttributeError`** -/
theorem rational_sub_py3_raises (a b c e : ℤ) (other : RatArgF) (M : ℕ) :
    c19RunFn ops tableCurrent ext (M + 1 + 1 + 1 + 1 + 1) "Rational.__sub__"
        [c19RatObjF a b c e, c19EncRatArgF other] = .raise "AttributeError" ∧
    c19RunFn ops tableCurrent ext (M + 1 + 1 + 1 + 1) "Rational.__rsub__"
        [c19RatObjF a b c e, c19EncRatArgF other] = .raise "AttributeError" :=
  ⟨c19p3_rational_sub_run ops ext hlcm hunit a b c e other M,
    c19p3_rational_rsub_run ops ext hunit a b c e _ M⟩

include hunit in
/-- **Python 3: `__neg__`, `reciprocal`, `__div__`, `__rdiv__` raise `AttributeError`**: each
builds a `Rational(float, float)`, whose constructor asks `FieldTraits()` for `get_unit`.
(`a / b` does not reach `__div__` under Python 3: `__truediv__` is `Expression`'s.) -/
theorem rational_unit_py3_raises (a b c e : ℤ) (other : RatArgF) (M : ℕ) :
    c19RunFn ops tableCurrent ext (M + 1 + 1 + 1) "Rational.__neg__" [c19RatObjF a b c e]
      = .raise "AttributeError" ∧
    c19RunFn ops tableCurrent ext (M + 1 + 1 + 1) "Rational.reciprocal" [c19RatObjF a b c e]
      = .raise "AttributeError" ∧
    c19RunFn ops tableCurrent ext (M + 1 + 1 + 1 + 1) "Rational.__div__"
        [c19RatObjF a b c e, c19EncRatArgF other] = .raise "AttributeError" ∧
    c19RunFn ops tableCurrent ext (M + 1 + 1 + 1 + 1) "Rational.__rdiv__"
        [c19RatObjF a b c e, c19EncRatArgF other] = .raise "AttributeError" :=
  ⟨c19p3_rational_neg_run ops ext hunit a b c e M,
    c19p3_rational_reciprocal_run ops ext hunit a b c e M,
    c19p3_rational_div_run ops ext hunit a b c e other M,
    c19p3_rational_rdiv_run ops ext hunit a b c e other M⟩

include hunit in
/-- **Python 3: `Rational(…) ** k` raises** — `ZeroDivisionError` for `0.0 ** negative`,
`AttributeError` otherwise (`c ≠ 0`: a stored denominator is never zero) -/
theorem rational_pow_py3_raises (a b c e : ℤ) (hc : c ≠ 0) (k : ℤ) (M : ℕ) :
    c19RunFn ops tableCurrent ext (M + 1 + 1 + 1) "Rational.__pow__" [c19RatObjF a b c e, .int k]
      = c19EncRatRes3 (ratPowPy3 a k) :=
  c19p3_rational_pow_run ops ext hunit a b c e hc k M
end

/-- the objects the theorems of this section speak about are the ones the constructor builds:
`Rational(num, den)` under Python 3 has the float fields `num/u`, `den/u`, `u = ±1` -/
theorem rational_init_py3_fields (num den : ℤ) (hd : den ≠ 0) :
    ∃ u : ℤ, (c19EncRational (c19RationalInit num den) : C19R (C19V α))
      = .ok (c19RatObjF num u den u) := by
  by_cases h : den < 0
  · exact ⟨-1, by simp [c19RationalInit, h, c19EncRational, c19RatObjF]⟩
  · have h' : den > 0 := by omega
    exact ⟨1, by simp [c19RationalInit, h, h', c19EncRational, c19RatObjF]⟩

end PV.Properties.C19
