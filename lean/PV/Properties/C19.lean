import PV.Proofs.Algo

/-!
  C19 — exact-arithmetic helpers (`pymbolic.algorithm`, `pymbolic.polynomial`,
  `EvaluationMapper.map_polynomial`): property theorems about the executable model
  `PV.Model.Algo`, each with a small non-vacuity example.

  Naming: definitions ending in `Py` mirror the Python code literally, including the defect in
  `_sort_uniq` (stale `last_exp` after `pop()`).  The same names without `Py` use the repaired
  merge loop.  Theorems about `…Py` state exactly when the code as written is right, and the
  `…_defect` theorems are machine-checked counterexamples.
-/

namespace PV.Properties.C19

open PV.Algo

/-! ## a. integer_power -/

/-- `integer_power(x, n, one)` computes `x ^ n` in every monoid (non-commutative included:
matrices, polynomials), for every `n ≥ 0`. -/
theorem integer_power_eq_pow {M : Type*} [Monoid M] (x : M) (n : ℕ) :
    integerPower (· * ·) 1 x n = x ^ n :=
  integerPower_eq_pow x n

example : integerPower (· * ·) 1 (3 : ℤ) 5 = 243 := by decide +kernel
example : integerPower (· * ·) 1 (3 : ℤ) 5 = 3 ^ 5 := integer_power_eq_pow 3 5

/-- Python-int front end: negative exponents are refused, otherwise the result is `x ^ n`. -/
theorem integer_power_int (x n : ℤ) :
    integerPowerInt x n = if n < 0 then none else some (x ^ n.toNat) := by
  unfold integerPowerInt
  split_ifs
  · rfl
  · rw [integerPower_eq_pow]

example : integerPowerInt 2 (-1) = none := by decide +kernel
example : integerPowerInt 2 10 = some 1024 := by decide +kernel

/-- Homomorphic version used for `Polynomial.__pow__`. -/
theorem integer_power_hom {α M : Type*} [Monoid M] (f : α → M) (mul : α → α → α) (one : α)
    (hmul : ∀ a b, f (mul a b) = f a * f b) (hone : f one = 1) (x : α) (n : ℕ) :
    f (integerPower mul one x n) = f x ^ n :=
  integerPower_hom f mul one hmul hone x n

/-! ## b. extended_euclidean / gcd / lcm -/

/-- Bézout identity of the returned triple. -/
theorem ext_euclid_bezout (q r : ℤ) :
    match extEuclid q r with
    | (g, a, b) => g = a * q + b * r :=
  extEuclid_bezout q r

example : extEuclid 240 46 = (2, -9, 47) := by decide +kernel
example : (2 : ℤ) = -9 * 240 + 47 * 46 := by decide

/-- The first component is a greatest common divisor in the divisibility sense:
it divides both arguments and every common divisor divides it.  Its sign is NOT normalised. -/
theorem ext_euclid_gcd (q r : ℤ) :
    (extEuclid q r).1 ∣ q ∧ (extEuclid q r).1 ∣ r ∧
      (∀ d : ℤ, d ∣ q → d ∣ r → d ∣ (extEuclid q r).1) ∧
      (extEuclid q r).1.natAbs = Int.gcd q r :=
  ⟨(extEuclid_dvd q r).1, (extEuclid_dvd q r).2.1, (extEuclid_dvd q r).2.2,
    extEuclid_natAbs q r⟩

/-- The sign of the result: it follows the argument of smaller absolute value
(the second one on ties), or the other argument when that one is `0`. -/
theorem ext_euclid_sign (q r : ℤ) :
    (r.natAbs ≤ q.natAbs →
      (r = 0 → (extEuclid q r).1 = q) ∧ (0 < r → 0 < (extEuclid q r).1) ∧
        (r < 0 → (extEuclid q r).1 < 0)) ∧
    (q.natAbs < r.natAbs →
      (q = 0 → (extEuclid q r).1 = r) ∧ (0 < q → 0 < (extEuclid q r).1) ∧
        (q < 0 → (extEuclid q r).1 < 0)) :=
  extEuclid_sign q r

/-- Witness that the "gcd" can be negative. -/
theorem gcd_negative_witness : gcd 6 (-4) = -2 ∧ gcd (-4) 6 = -2 ∧ gcd 4 (-6) = 2 := by
  decide +kernel

example : extEuclid 0 0 = (0, 1, 0) := by decide +kernel
example : extEuclid 0 (-5) = (-5, 0, 1) := by decide +kernel

/-- `lcm` as coded: it raises (`none`) exactly for `q = r = 0`; otherwise
`lcm * gcd = |q*r|` exactly (no rounding in `//`), and `|lcm|` is the mathematical lcm.
Its sign is the sign of the computed gcd, so it can be negative. -/
theorem lcm_gcd (q r : ℤ) :
    (lcm q r = none ↔ q = 0 ∧ r = 0) ∧
    (∀ l, lcm q r = some l →
      l * gcd q r = ((q * r).natAbs : ℤ) ∧ l.natAbs = Int.lcm q r ∧
        (l ≠ 0 → (0 < l ↔ 0 < gcd q r))) :=
  ⟨lcm_eq_none_iff q r, fun l h =>
    ⟨lcm_mul_gcd q r l h, lcm_natAbs q r l h, lcm_sign q r l h⟩⟩

example : lcm 4 6 = some 12 := by decide +kernel
example : lcm 0 0 = none := by decide +kernel
/-- Witness that `lcm` can be negative. -/
theorem lcm_negative_witness : lcm 6 (-4) = some (-12) := by decide +kernel

/-! ## find_factors / fft skeleton -/

/-- `N1 * N2 == n` for every `n`, and for `n ≥ 2`: `N1 ≥ 2`, `0 < N2 < n`
(so the recursion of `fft` on sub-vectors of length `N2` terminates). -/
theorem find_factors_spec (n : ℕ) :
    (findFactors n).1 * (findFactors n).2 = n ∧
      (2 ≤ n → 2 ≤ (findFactors n).1 ∧ 0 < (findFactors n).2 ∧ (findFactors n).2 < n) :=
  ⟨findFactors_mul n, findFactors_lt n⟩

/-- `find_factors(n)` raises exactly for `n = 0` (so `fft` of an empty vector raises). -/
theorem find_factors_fails_iff (n : ℕ) : findFactorsPy n = none ↔ n = 0 :=
  findFactorsPy_eq_none_iff n

example : findFactorsPy 12 = some (2, 6) := by decide +kernel
example : findFactors 15 = (3, 5) := by decide +kernel
example : findFactors 13 = (13, 1) := by decide +kernel

/-- Index splitting of one Cooley–Tukey level: with `len(x) = N1*N2`, every sub-vector
`x[n1::N1]` (`n1 < N1`) has length `N2`, and input index `j` is entry `j / N1` of
sub-vector `j % N1`. -/
theorem fft_index_split {α : Type*} (x : List α) (N1 N2 : ℕ) (hlen : x.length = N1 * N2) :
    (∀ n1 < N1, (stride x n1 N1).length = N2) ∧
    (∀ j < x.length, j % N1 < N1 ∧ j / N1 < N2 ∧
      (stride x (j % N1) N1)[j / N1]? = x[j]?) :=
  ⟨fun n1 h => stride_length x N1 N2 n1 hlen h,
   fun j hj => PV.Algo.fft_index_split x N1 N2 j hlen hj⟩

/-- The split actually used by `fft` (`N1, N2 = find_factors(len(x))`). -/
theorem fft_split_shape {α : Type*} (x : List α) :
    (fftSplit x).length = (findFactors x.length).1 ∧
      ∀ l ∈ fftSplit x, l.length = (findFactors x.length).2 :=
  fftSplit_lengths x

example : fftSplit [0, 1, 2, 3, 4, 5] = [[0, 2, 4], [1, 3, 5]] := by decide +kernel

/-! ## c. `_sort_uniq` -/

/-- Repaired `_sort_uniq` preserves the value `Σ coeff * x^exp`. -/
theorem sortUniq_eval (l : List Term) (x : ℤ) : evalSpec (sortUniq l) x = evalSpec l x :=
  PV.Algo.sortUniq_eval l x

/-- Repaired `_sort_uniq` returns strictly increasing exponents, and introduces no zero
coefficient (a zero can only survive if the input already contained one). -/
theorem sortUniq_sorted (l : List Term) :
    StrictSorted (sortUniq l) ∧ (NoZero l → NoZero (sortUniq l)) :=
  ⟨PV.Algo.sortUniq_sorted l, sortUniq_noZero l⟩

/-- The model of `data.sort(key=exp)` is a stable sort: a permutation, weakly sorted by
exponent, keeping the relative order of equal exponents. -/
theorem sortByExp_stable_sort (l : List Term) :
    (sortByExp l).Perm l ∧ WeakSorted (sortByExp l) ∧
      ∀ e, (sortByExp l).filter (fun u => u.1 = e) = l.filter (fun u => u.1 = e) :=
  ⟨sortByExp_perm l, sortByExp_sorted l, sortByExp_stable l⟩

example : sortByExp [(2, 1), (0, 3), (2, -1), (0, 2)] = [(0, 3), (0, 2), (2, 1), (2, -1)] := by
  decide

example : sortUniq [(2, 1), (0, 3), (2, -1), (1, 4), (0, 2)] = [(0, 5), (1, 4)] := by decide
example : sortUniq [(0, 1), (1, 2), (1, -2), (1, 5)] = [(0, 1), (1, 5)] := by decide
example : NoZero [(2, 1), (0, 3), (2, -1)] := by decide
/-- A stored zero coefficient does survive (as in the Python code). -/
example : sortUniq [(3, 0)] = [(3, 0)] := by decide

/-- DEFECT (machine-checked witness): `_sort_uniq` as coded does not reset `last_exp` after
`pop()`.  Three terms of equal exponent whose first two cancel make the third one be added
to an unrelated entry: the value changes (`1 + 5x` becomes `6x`). -/
theorem sortUniqPy_defect :
    sortUniqPy [(0, 1), (1, 2), (1, -2), (1, 5)] = some [(1, 6)] ∧
    evalSpec [(1, 6)] 2 ≠ evalSpec [(0, 1), (1, 2), (1, -2), (1, 5)] 2 := by
  decide

/-- DEFECT: same situation with nothing left on the stack raises `IndexError`. -/
theorem sortUniqPy_indexError : sortUniqPy [(1, 2), (1, -2), (1, 5)] = none := by decide

/-- The code as written agrees with the repaired version when all coefficients are positive,
or when no exponent occurs more than twice. -/
theorem sortUniqPy_correct_when (l : List Term) :
    (AllPos l → sortUniqPy l = some (sortUniq l)) ∧
    ((∀ e, l.countP (fun t => t.1 = e) ≤ 2) → sortUniqPy l = some (sortUniq l)) :=
  ⟨fun h => (sortUniqPy_eq_of_pos l h).1, sortUniqPy_eq_of_count l⟩

example : AllPos [(1, 2), (1, 3), (1, 5)] := by decide
example : ∀ e, ([(1, 2), (0, -2), (1, -2)] : List Term).countP (fun t => t.1 = e) ≤ 2 := by
  intro e
  simp only [List.countP_cons, List.countP_nil, decide_eq_true_eq]
  split_ifs <;> omega

/-! ## d. Horner evaluation -/

/-- `EvaluationMapper.map_polynomial` (Horner) equals `Σ coeff * x^exp` on data satisfying the
class invariant. -/
theorem evalHorner_eq_spec (p : Poly) (x : ℤ) (h : StrictSorted p) :
    evalHorner p x = evalSpec p x :=
  PV.Algo.evalHorner_eq_spec p x h

/-- The exact mirror (which fails when `exp - next_exp < 0`) never fails on weakly sorted
data and returns the specified value. -/
theorem evalHornerPy_eq_spec (p : Poly) (x : ℤ) (h : WeakSorted p) :
    evalHornerPy p x = some (evalSpec p x) :=
  PV.Algo.evalHornerPy_eq_spec p x h

example : StrictSorted [(0, 7), (2, -3), (5, 1)] := by decide
example : evalHorner [(0, 7), (2, -3), (5, 1)] 2 = 27 := by decide
example : evalSpec [(0, 7), (2, -3), (5, 1)] 2 = 27 := by decide
/-- On unsorted data Python leaves the integers (`2 ** -2`); the mirror reports `none`. -/
example : evalHornerPy [(2, 1), (0, 1)] 2 = none := by decide

/-! ## e. ring homomorphism `Poly → ℤ` at every point -/

theorem add_eval (p q : Poly) (x : ℤ) : evalSpec (add p q) x = evalSpec p x + evalSpec q x :=
  PV.Algo.add_eval p q x

theorem neg_eval (p : Poly) (x : ℤ) : evalSpec (neg p) x = -evalSpec p x :=
  PV.Algo.neg_eval p x

theorem sub_eval (p q : Poly) (x : ℤ) : evalSpec (sub p q) x = evalSpec p x - evalSpec q x :=
  PV.Algo.sub_eval p q x

/-- scalar `__mul__` / `__rmul__`. -/
theorem scale_eval (p : Poly) (k x : ℤ) : evalSpec (scale p k) x = evalSpec p x * k :=
  PV.Algo.scale_eval p k x

/-- `__mul__` with the repaired `_sort_uniq`. -/
theorem mul_eval (p q : Poly) (x : ℤ) : evalSpec (mul p q) x = evalSpec p x * evalSpec q x :=
  PV.Algo.mul_eval p q x

/-- `__pow__` (= `integer_power` over `mul`, starting from the constant `1`). -/
theorem pow_eval (p : Poly) (n : ℕ) (x : ℤ) : evalSpec (pow p n) x = evalSpec p x ^ n :=
  PV.Algo.pow_eval p n x

/-- The class invariant is preserved. -/
theorem ops_sorted (p q : Poly) (hp : StrictSorted p) (hq : StrictSorted q) :
    StrictSorted (add p q) ∧ StrictSorted (neg p) ∧ StrictSorted (sub p q) ∧
      StrictSorted (mul p q) ∧ (NoZero p → NoZero q → NoZero (add p q)) :=
  ⟨add_sorted p q hp hq, neg_sorted p hp, add_sorted p _ hp (neg_sorted q hq),
    mul_sorted p q, add_noZero p q⟩

example : add [(0, 1), (2, 3)] [(1, 1), (2, -3)] = [(0, 1), (1, 1)] := by decide +kernel
example : sub [(0, 1), (2, 3)] [(0, 1), (2, 3)] = [] := by decide +kernel
example : mul [(0, 1), (1, 1)] [(0, -1), (1, 1)] = [(0, -1), (2, 1)] := by decide
example : pow [(0, 1), (1, 1)] 3 = [(0, 1), (1, 3), (2, 3), (3, 1)] := by decide +kernel
/-- scalar multiplication by 0 keeps explicit zero coefficients (as in Python). -/
example : scale [(0, 1), (1, 2)] 0 = [(0, 0), (1, 0)] := by decide

/-- DEFECT (machine-checked witness): `Polynomial.__mul__` as coded returns a wrong product
for two well-formed polynomials: `(1 + x + x²)(1 - x + x²)` is `1 + x² + x⁴`, the code
returns `2x² + x⁴` (values at `x = 2`: 21 vs 24). -/
theorem mulPy_defect :
    StrictSorted [(0, 1), (1, 1), (2, 1)] ∧ NoZero [(0, 1), (1, 1), (2, 1)] ∧
    StrictSorted [(0, 1), (1, -1), (2, 1)] ∧ NoZero [(0, 1), (1, -1), (2, 1)] ∧
    mulPy [(0, 1), (1, 1), (2, 1)] [(0, 1), (1, -1), (2, 1)] = some [(2, 2), (4, 1)] ∧
    mul [(0, 1), (1, 1), (2, 1)] [(0, 1), (1, -1), (2, 1)] = [(0, 1), (2, 1), (4, 1)] ∧
    evalSpec [(2, 2), (4, 1)] 2 ≠
      evalSpec [(0, 1), (1, 1), (2, 1)] 2 * evalSpec [(0, 1), (1, -1), (2, 1)] 2 := by
  decide

/-- DEFECT: `Polynomial.__mul__` as coded raises `IndexError` on
`(-1 - x + x²) * (-1 + x - x² + x³)`. -/
theorem mulPy_indexError :
    mulPy [(0, -1), (1, -1), (2, 1)] [(0, -1), (1, 1), (2, -1), (3, 1)] = none := by
  decide

/-- When the code as written is right: positive coefficients, or `self` with at most two
terms and a well-formed `other`. In those cases it is the homomorphic product. -/
theorem mulPy_correct_when (p q : Poly) (x : ℤ) :
    (AllPos p → AllPos q →
      ∃ r, mulPy p q = some r ∧ evalSpec r x = evalSpec p x * evalSpec q x) ∧
    (p.length ≤ 2 → StrictSorted q →
      ∃ r, mulPy p q = some r ∧ evalSpec r x = evalSpec p x * evalSpec q x) :=
  ⟨fun hp hq => ⟨mul p q, (mulPy_eq_of_pos p q hp hq).1, PV.Algo.mul_eval p q x⟩,
   fun hp hq => ⟨mul p q, mulPy_eq_of_length_le_two p q hp hq, PV.Algo.mul_eval p q x⟩⟩

/-- `__pow__` as coded is right on polynomials with positive coefficients (e.g. `(x+1)**n`). -/
theorem powPy_correct_when (p : Poly) (n : ℕ) (x : ℤ) (hp : AllPos p) :
    ∃ r, powPy p n = some r ∧ evalSpec r x = evalSpec p x ^ n :=
  ⟨pow p n, (powPy_eq_of_pos p n hp).1, PV.Algo.pow_eval p n x⟩

example : powPy [(0, 1), (1, 1)] 5 =
    some [(0, 1), (1, 5), (2, 10), (3, 10), (4, 5), (5, 1)] := by decide +kernel

/-! ## f. `__divmod__` -/

/-- Partial correctness of `Polynomial.__divmod__` (integer coefficients, same base, repaired
`mul`): whenever a pair is returned, `quot * other + rem = self` pointwise, and the loop stopped
for one of its two reasons. -/
theorem divmod_spec (p other q r : Poly) (h : divmod p other = some (q, r)) :
    (∀ x : ℤ, evalSpec q x * evalSpec other x + evalSpec r x = evalSpec p x) ∧
    (degree r < degree other ∨ Int.fmod (leadTerm r).2 (leadTerm other).2 ≠ 0) := by
  refine ⟨fun x => PV.Algo.divmod_spec p other q r x h, ?_⟩
  unfold divmod at h
  split_ifs at h
  exact divmodLoop_stop other _ [] p q r h

/-- Fuel sufficiency / totality: on well-formed operands the model of `__divmod__` returns
`none` exactly in the two `ZeroDivisionError` situations (empty divisor; stored zero leading
coefficient of the divisor) — the loop fuel is never exhausted because every iteration strictly
lowers `rem.degree`. -/
theorem divmod_total (p other : Poly) (hp : StrictSorted p) (hother : StrictSorted other) :
    divmod p other = none ↔ degree other = -1 ∨ (leadTerm other).2 = 0 :=
  divmod_eq_none_iff p other hp hother

/-- The only product formed inside the division loop is `this_fac * other` with a one-term
`this_fac`; for a well-formed `other` the product as coded (`mulPy`, with the `_sort_uniq`
defect) coincides with the repaired `mul` used by the model `divmod`.  So the `_sort_uniq`
defect cannot fire inside `__divmod__`. -/
theorem divmod_mul_is_safe (dd : ℕ) (cf : ℤ) (other : Poly) (h : StrictSorted other) :
    mulPy [(dd, cf)] other = some (mul [(dd, cf)] other) :=
  mulPy_eq_of_length_le_two _ _ (by simp) h

/-- `(x² - 1) divmod (x + 1) = (x - 1, 0)`. -/
example : divmod [(0, -1), (2, 1)] [(0, 1), (1, 1)] = some ([(0, -1), (1, 1)], []) := by
  decide +kernel
/-- early exit: `x² divmod 2x` over the integers returns `(0, x²)`. -/
example : divmod [(2, 1)] [(1, 2)] = some ([], [(2, 1)]) := by decide +kernel
example : divmod [(2, 1)] [] = none := by decide +kernel

end PV.Properties.C19
