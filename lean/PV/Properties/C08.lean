import PV.Model.Traverse
import PV.Model.Eval
import PV.Proofs.Subterm
import PV.Proofs.SubstKeys
import PV.Proofs.SubstCached
import PV.Proofs.SyntaxBEq
import PV.Generated.Substitutor
/-
  C08 — substitution (`SubstitutionMapper` over `IdentityMapper`, model `substM`).
-/
namespace PV.C08
open PV

/-! ### flag soundness and identity preservation -/

/-- If the "new object" flag is off, the very same tree comes back. -/
theorem subst_flag_sound (σ : SubstMap) (e : Expr) (h : (substM σ e).2 = false) :
    (substM σ e).1 = e := by
  have := substM_spec σ e
  rw [this.1, this.2 h]

theorem substL_flag_sound (σ : SubstMap) (cs : List Expr) (h : (substL σ cs).2 = false) :
    (substL σ cs).1 = cs := by
  have := substML_spec σ cs
  rw [this.1, this.2 h]

/-- hypotheses of `subst_untouched_same`, closed under taking children -/
structure Untouched (σ : SubstMap) (e : Expr) : Prop where
  noHit : ∀ t, Subterm t e → σ.apply t = none
  noList : ∀ cs, ¬ Subterm (.list cs) e
  noZeroCse : ∀ c p s, Subterm (.cse c p s) e → c.isZero = false

theorem Untouched.child {σ : SubstMap} {e c : Expr} (h : Untouched σ e) (hc : c ∈ e.children) :
    Untouched σ c :=
  ⟨fun t ht => h.noHit t (ht.trans (.child hc)),
   fun cs ht => h.noList cs (ht.trans (.child hc)),
   fun c' p s ht => h.noZeroCse c' p s (ht.trans (.child hc))⟩

mutual
/-- **Identity preservation.**  If the substitution hits no subterm of `e`, `e` contains no Python
list and no CSE wrapper around a zero child, the mapper returns the identical object. -/
theorem subst_untouched_same (σ : SubstMap) : ∀ e : Expr, Untouched σ e → substM σ e = (e, false)
  | .var x, h => by simp [substM, h.noHit _ (.refl _)]
  | .const _, _ => by simp [substM]
  | .nan, _ => by simp [substM]
  | .wildcard, _ => by simp [substM]
  | .dotWild _, _ => by simp [substM]
  | .starWild _, _ => by simp [substM]
  | .funcSym, _ => by simp [substM]
  | .subscript a b, h => by
      simp [substM, h.noHit _ (.refl _),
        subst_untouched_same σ a (h.child (by simp [Expr.children])),
        subst_untouched_same σ b (h.child (by simp [Expr.children]))]
  | .lookup a n, h => by
      simp [substM, h.noHit _ (.refl _),
        subst_untouched_same σ a (h.child (by simp [Expr.children]))]
  | .bin o a b, h => by
      simp [substM,
        subst_untouched_same σ a (h.child (by simp [Expr.children])),
        subst_untouched_same σ b (h.child (by simp [Expr.children]))]
  | .cmp o a b, h => by
      simp [substM,
        subst_untouched_same σ a (h.child (by simp [Expr.children])),
        subst_untouched_same σ b (h.child (by simp [Expr.children]))]
  | .un o a, h => by
      simp [substM, subst_untouched_same σ a (h.child (by simp [Expr.children]))]
  | .deriv a vs, h => by
      simp [substM, subst_untouched_same σ a (h.child (by simp [Expr.children]))]
  | .cse a p s, h => by
      simp [substM, subst_untouched_same σ a (h.child (by simp [Expr.children])),
        h.noZeroCse a p s (.refl _)]
  | .ite a b c, h => by
      simp [substM,
        subst_untouched_same σ a (h.child (by simp [Expr.children])),
        subst_untouched_same σ b (h.child (by simp [Expr.children])),
        subst_untouched_same σ c (h.child (by simp [Expr.children]))]
  | .nary o cs, h => by
      simp [substM, substL_untouched_same σ cs (fun c hc => h.child (by simp [Expr.children, hc]))]
  | .slice cs, h => by
      simp [substM, substL_untouched_same σ cs (fun c hc => h.child (by simp [Expr.children, hc]))]
  | .tuple cs, h => by
      simp [substM, substL_untouched_same σ cs (fun c hc => h.child (by simp [Expr.children, hc]))]
  | .list cs, h => absurd (.refl _) (h.noList cs)
  | .call a cs, h => by
      simp [substM, subst_untouched_same σ a (h.child (by simp [Expr.children])),
        substL_untouched_same σ cs (fun c hc => h.child (by simp [Expr.children, hc]))]
  | .subst a vs cs, h => by
      simp [substM, subst_untouched_same σ a (h.child (by simp [Expr.children])),
        substL_untouched_same σ cs (fun c hc => h.child (by simp [Expr.children, hc]))]
  | .callKw a bs ns cs, h => by
      simp [substM, subst_untouched_same σ a (h.child (by simp [Expr.children])),
        substL_untouched_same σ bs (fun c hc => h.child (by simp [Expr.children, hc])),
        substL_untouched_same σ cs (fun c hc => h.child (by simp [Expr.children, hc]))]
theorem substL_untouched_same (σ : SubstMap) : ∀ cs : List Expr, (∀ c ∈ cs, Untouched σ c) →
    substL σ cs = (cs, false)
  | [], _ => by simp [substL]
  | c :: cs, h => by
      simp [substL, subst_untouched_same σ c (h c (by simp)),
        substL_untouched_same σ cs (fun c hc => h c (by simp [hc]))]
end

/-! ### the substitution lemma -/

/-- the environment after substitution: each replaced name is bound to the value of its replacement
(in the ORIGINAL environment: substitution is simultaneous) -/
def envAfterL (env : Env) : List (String × Expr) → Env
  | [] => env
  | (x, r) :: rest => match den env r with
    | .ok v => (x, v) :: envAfterL env rest
    | .error _ => envAfterL env rest

def envAfter (env : Env) (σ : SubstMap) : Env := envAfterL env σ.byName

theorem envAfterL_get_none (env : Env) (x : String) : ∀ l : List (String × Expr),
    l.find? (fun p => p.1 == x) = none → Env.get (envAfterL env l) x = env.get x
  | [], _ => rfl
  | (y, r) :: l, h => by
      simp only [List.find?_cons] at h
      cases hyx : (y == x) with
      | true => simp [hyx] at h
      | false =>
        simp only [hyx] at h
        have ih := envAfterL_get_none env x l h
        have hne : ¬ y = x := by simpa using hyx
        simp only [envAfterL]
        cases den env r <;> simp [Env.get, hne, ih]

theorem envAfterL_get_some (env : Env) (x : String) (p : String × Expr) (v : Value) :
    ∀ l : List (String × Expr), l.find? (fun p => p.1 == x) = some p → den env p.2 = .ok v →
      Env.get (envAfterL env l) x = some v
  | [], h, _ => by simp at h
  | (y, r) :: l, h, hv => by
      simp only [List.find?_cons] at h
      cases hyx : (y == x) with
      | true =>
        simp only [hyx, Option.some.injEq] at h
        subst h
        have he : y = x := by simpa using hyx
        simp [envAfterL, hv, Env.get, he]
      | false =>
        simp only [hyx] at h
        have ih := envAfterL_get_some env x p v l h hv
        have hne : ¬ y = x := by simpa using hyx
        simp only [envAfterL]
        cases den env r <;> simp [Env.get, hne, ih]

/-- all replacements evaluate (in the original environment) -/
def SubstOK (env : Env) (σ : SubstMap) : Prop :=
  ∀ x r, σ.findName x = some r → ∃ v, den env r = .ok v

/-- no CSE wrapper of `e` whose substituted child is zero (`IdentityMapper` collapses those) -/
def NoZeroCse (σ : SubstMap) (e : Expr) : Prop :=
  ∀ c p s, Subterm (.cse c p s) e → (substM σ c).1.isZero = false

theorem NoZeroCse.child {σ : SubstMap} {e c : Expr} (h : NoZeroCse σ e) (hc : c ∈ e.children) :
    NoZeroCse σ c :=
  fun c' p s ht => h c' p s (ht.trans (.child hc))

theorem apply_var_of_byName {σ : SubstMap} (hσ : σ.byExpr = []) (x : String) :
    σ.apply (.var x) = σ.findName x := by
  simp [SubstMap.apply, SubstMap.findExpr, hσ]

theorem apply_nonvar_of_byName {σ : SubstMap} (hσ : σ.byExpr = []) (e : Expr)
    (h : ∀ x, e ≠ .var x) : σ.apply e = none := by
  cases e <;> simp_all [SubstMap.apply, SubstMap.findExpr]

theorem den_var_subst {env : Env} {σ : SubstMap} (hσ : σ.byExpr = []) (hok : SubstOK env σ)
    (x : String) : den env (substE σ (.var x)) = den (envAfter env σ) (.var x) := by
  simp only [substE, apply_var_of_byName hσ]
  cases hf : σ.findName x with
  | none =>
    have : σ.byName.find? (fun p => p.1 == x) = none := by
      simp only [SubstMap.findName] at hf
      cases hq : σ.byName.find? (fun p => p.1 == x) <;> simp_all
    simp only [den, envAfter, envAfterL_get_none env x _ this]
  | some r =>
    obtain ⟨v, hv⟩ := hok x r hf
    simp only [SubstMap.findName] at hf
    cases hq : σ.byName.find? (fun p => p.1 == x) with
    | none => simp [hq] at hf
    | some q =>
      simp only [hq, Option.some.injEq] at hf
      subst hf
      simp only [den, envAfter, envAfterL_get_some env x q v _ hq hv, hv]
      rfl

section
set_option linter.unusedSectionVars false
variable {env : Env} {σ : SubstMap} (hσ : σ.byExpr = []) (hok : SubstOK env σ)
include hσ hok

mutual
theorem den_substE : ∀ e : Expr, NoZeroCse σ e →
    den env (substE σ e) = den (envAfter env σ) e
  | .var x, _ => den_var_subst hσ hok x
  | .const _, _ => by simp only [substE, den]
  | .nan, _ => by simp only [substE, den]
  | .wildcard, _ => by simp only [substE, den]
  | .dotWild _, _ => by simp only [substE, den]
  | .starWild _, _ => by simp only [substE, den]
  | .funcSym, _ => by simp only [substE, den]
  | .subscript a b, h => by
      simp only [substE, apply_nonvar_of_byName hσ (.subscript a b) (by simp), den,
        den_substE a (h.child (by simp [Expr.children])),
        den_substE b (h.child (by simp [Expr.children]))]
  | .lookup a n, h => by
      simp only [substE, apply_nonvar_of_byName hσ (.lookup a n) (by simp), den,
        den_substE a (h.child (by simp [Expr.children]))]
  | .bin o a b, h => by
      simp only [substE, den,
        den_substE a (h.child (by simp [Expr.children])),
        den_substE b (h.child (by simp [Expr.children]))]
  | .cmp o a b, h => by
      simp only [substE, den,
        den_substE a (h.child (by simp [Expr.children])),
        den_substE b (h.child (by simp [Expr.children]))]
  | .un o a, h => by
      cases o <;> simp only [substE, den, den_substE a (h.child (by simp [Expr.children]))]
  | .deriv a vs, _ => by simp only [substE, den]
  | .subst a vs cs, _ => by simp only [substE, den]
  | .slice cs, _ => by simp only [substE, den]
  | .cse a p s, h => by
      have hz : (substE σ a).isZero = false := by
        rw [← (substM_spec σ a).1]; exact h a p s (.refl _)
      simp [substE, hz, den, den_substE a (h.child (by simp [Expr.children]))]
  | .ite a b c, h => by
      simp only [substE, den,
        den_substE a (h.child (by simp [Expr.children])),
        den_substE b (h.child (by simp [Expr.children])),
        den_substE c (h.child (by simp [Expr.children]))]
  | .nary o cs, h => by
      have hcs : ∀ c ∈ cs, NoZeroCse σ c := fun c hc => h.child (by simp [Expr.children, hc])
      cases o <;> simp only [substE, den]
      · exact denFold_substE .sum _ cs hcs
      · exact denFold_substE .prod _ cs hcs
      · exact denReduce_substE .bor cs hcs
      · exact denReduce_substE .bxor cs hcs
      · exact denReduce_substE .band cs hcs
      · exact denAny_substE cs hcs
      · exact denAll_substE cs hcs
      · exact denMinMax_substE true none cs hcs
      · exact denMinMax_substE false none cs hcs
  | .tuple cs, h => by
      simp only [substE, den,
        denList_substE cs (fun c hc => h.child (by simp [Expr.children, hc]))]
  | .list cs, h => by
      simp only [substE, den,
        denList_substE cs (fun c hc => h.child (by simp [Expr.children, hc]))]
  | .call a cs, h => by
      simp only [substE, den, den_substE a (h.child (by simp [Expr.children])),
        denList_substE cs (fun c hc => h.child (by simp [Expr.children, hc]))]
  | .callKw a bs ns cs, h => by
      simp only [substE, den, den_substE a (h.child (by simp [Expr.children])),
        denList_substE bs (fun c hc => h.child (by simp [Expr.children, hc])),
        denList_substE cs (fun c hc => h.child (by simp [Expr.children, hc]))]
theorem denFold_substE (o : NaryOp) : ∀ (acc : Value) (cs : List Expr), (∀ c ∈ cs, NoZeroCse σ c) →
    denFold env o acc (substEL σ cs) = denFold (envAfter env σ) o acc cs
  | _, [], _ => by simp only [substEL, denFold]
  | acc, c :: cs, h => by
      simp only [substEL, denFold, den_substE c (h c (by simp))]
      cases den (envAfter env σ) c with
      | error e => rfl
      | ok v =>
        simp only [bind, Except.bind]
        cases o.apply acc v with
        | error e => rfl
        | ok acc' => exact denFold_substE o acc' cs (fun c hc => h c (by simp [hc]))
theorem denReduce_substE (o : NaryOp) : ∀ (cs : List Expr), (∀ c ∈ cs, NoZeroCse σ c) →
    denReduce env o (substEL σ cs) = denReduce (envAfter env σ) o cs
  | [], _ => by simp only [substEL, denReduce]
  | c :: cs, h => by
      simp only [substEL, denReduce, den_substE c (h c (by simp))]
      cases den (envAfter env σ) c with
      | error e => rfl
      | ok v => exact denFold_substE o v cs (fun c hc => h c (by simp [hc]))
theorem denAny_substE : ∀ (cs : List Expr), (∀ c ∈ cs, NoZeroCse σ c) →
    denAny env (substEL σ cs) = denAny (envAfter env σ) cs
  | [], _ => by simp only [substEL, denAny]
  | c :: cs, h => by
      simp only [substEL, denAny, den_substE c (h c (by simp)),
        denAny_substE cs (fun c hc => h c (by simp [hc]))]
theorem denAll_substE : ∀ (cs : List Expr), (∀ c ∈ cs, NoZeroCse σ c) →
    denAll env (substEL σ cs) = denAll (envAfter env σ) cs
  | [], _ => by simp only [substEL, denAll]
  | c :: cs, h => by
      simp only [substEL, denAll, den_substE c (h c (by simp)),
        denAll_substE cs (fun c hc => h c (by simp [hc]))]
theorem denMinMax_substE (isMin : Bool) : ∀ (cur : Option Value) (cs : List Expr),
    (∀ c ∈ cs, NoZeroCse σ c) →
    denMinMax env isMin cur (substEL σ cs) = denMinMax (envAfter env σ) isMin cur cs
  | _, [], _ => by simp only [substEL, denMinMax]
  | cur, c :: cs, h => by
      have hcs : ∀ c ∈ cs, NoZeroCse σ c := fun c hc => h c (by simp [hc])
      simp only [substEL, denMinMax, den_substE c (h c (by simp))]
      cases den (envAfter env σ) c with
      | error e => rfl
      | ok v =>
        simp only [bind, Except.bind]
        cases cur with
        | none => exact denMinMax_substE isMin (some v) cs hcs
        | some m =>
          simp only
          cases Value.better isMin v m with
          | error e => rfl
          | ok b => exact denMinMax_substE isMin _ cs hcs
theorem denList_substE : ∀ (cs : List Expr), (∀ c ∈ cs, NoZeroCse σ c) →
    denList env (substEL σ cs) = denList (envAfter env σ) cs
  | [], _ => by simp only [substEL, denList]
  | c :: cs, h => by
      simp only [substEL, denList, den_substE c (h c (by simp)),
        denList_substE cs (fun c hc => h c (by simp [hc]))]
end

/-- **Substitution lemma.**  For a name-keyed substitution whose replacements all evaluate,
evaluating the substituted tree equals evaluating the original tree in the environment where each
replaced name is bound to the value of its replacement — value or error alike. -/
theorem eval_subst (e : Expr) (h : NoZeroCse σ e) :
    den env (substM σ e).1 = den (envAfter env σ) e := by
  rw [(substM_spec σ e).1]; exact den_substE hσ hok e h

end

/-! ### a decidable checker for the `NoZeroCse` hypothesis -/

mutual
def noZeroCseB (σ : SubstMap) : Expr → Bool
  | .cse c _ _ => !(substM σ c).1.isZero && noZeroCseB σ c
  | .nary _ cs => noZeroCseBL σ cs
  | .bin _ a b => noZeroCseB σ a && noZeroCseB σ b
  | .un _ a => noZeroCseB σ a
  | .cmp _ a b => noZeroCseB σ a && noZeroCseB σ b
  | .ite c t e => noZeroCseB σ c && noZeroCseB σ t && noZeroCseB σ e
  | .call f as => noZeroCseB σ f && noZeroCseBL σ as
  | .callKw f as _ vs => noZeroCseB σ f && noZeroCseBL σ as && noZeroCseBL σ vs
  | .subscript a i => noZeroCseB σ a && noZeroCseB σ i
  | .lookup a _ => noZeroCseB σ a
  | .subst c _ xs => noZeroCseB σ c && noZeroCseBL σ xs
  | .deriv c _ => noZeroCseB σ c
  | .slice cs => noZeroCseBL σ cs
  | .tuple cs => noZeroCseBL σ cs
  | .list cs => noZeroCseBL σ cs
  | _ => true
def noZeroCseBL (σ : SubstMap) : List Expr → Bool
  | [] => true
  | c :: cs => noZeroCseB σ c && noZeroCseBL σ cs
end

theorem noZeroCseBL_mem {σ : SubstMap} : ∀ {cs : List Expr}, noZeroCseBL σ cs = true →
    ∀ c ∈ cs, noZeroCseB σ c = true
  | [], _, c, hc => by simp at hc
  | d :: ds, h, c, hc => by
    simp only [noZeroCseBL, Bool.and_eq_true] at h
    simp only [List.mem_cons] at hc
    rcases hc with rfl | hc
    · exact h.1
    · exact noZeroCseBL_mem h.2 c hc

theorem noZeroCseB_children {σ : SubstMap} {e : Expr} (h : noZeroCseB σ e = true) :
    ∀ c ∈ e.children, noZeroCseB σ c = true := by
  intro c hc
  cases e <;> simp only [Expr.children, List.mem_cons, List.mem_append, List.not_mem_nil,
    or_false] at hc <;> simp only [noZeroCseB, Bool.and_eq_true] at h
  all_goals first
    | exact noZeroCseBL_mem h c hc
    | (rcases hc with rfl | rfl | rfl <;> simp_all)
    | (rcases hc with rfl | rfl <;> simp_all)
    | (rcases hc with rfl | hc | hc
       · exact h.1.1
       · exact noZeroCseBL_mem h.1.2 c hc
       · exact noZeroCseBL_mem h.2 c hc)
    | (rcases hc with rfl | hc
       · exact h.1
       · exact noZeroCseBL_mem h.2 c hc)
    | (subst hc; simp_all)
    | simp at hc

theorem noZeroCse_of_check {σ : SubstMap} {e : Expr} (h : noZeroCseB σ e = true) :
    NoZeroCse σ e := by
  intro c p s ht
  have : ∀ t e, Subterm t e → noZeroCseB σ e = true → noZeroCseB σ t = true := by
    intro t e ht
    induction ht with
    | refl => exact id
    | step _ hc ih => exact fun h => ih (noZeroCseB_children h _ hc)
  have h2 := this _ _ ht h
  simp only [noZeroCseB, Bool.and_eq_true, Bool.not_eq_true'] at h2
  exact h2.1

theorem substOK_of_all {env : Env} {σ : SubstMap}
    (h : ∀ p ∈ σ.byName, ∃ v, den env p.2 = .ok v) : SubstOK env σ := by
  intro x r hf
  simp only [SubstMap.findName] at hf
  cases hq : σ.byName.find? (fun p => p.1 == x) with
  | none => simp [hq] at hf
  | some q =>
    simp only [hq, Option.some.injEq] at hf
    subst hf
    exact h q (List.mem_of_find?_eq_some hq)

/-! ### simultaneity -/

/-- A replacement is inserted as it is: the mapper does not descend into it, so replacements are
never re-substituted (simultaneous substitution). -/
theorem subst_simultaneous (σ : SubstMap) (x : String) (r : Expr)
    (h : σ.apply (.var x) = some r) : substM σ (.var x) = (r, true) := by
  simp [substM, h]

theorem subst_simultaneous_subscript (σ : SubstMap) (a i r : Expr)
    (h : σ.apply (.subscript a i) = some r) : substM σ (.subscript a i) = (r, true) := by
  simp [substM, h]

theorem subst_simultaneous_lookup (σ : SubstMap) (a : Expr) (n : String) (r : Expr)
    (h : σ.apply (.lookup a n) = some r) : substM σ (.lookup a n) = (r, true) := by
  simp [substM, h]

def swapXY : SubstMap := { byName := [("x", .var "y"), ("y", .var "x")] }

/-- the swap `x→y, y→x` on `x + y` and on `x ** y`: both names are exchanged at once -/
example : substM swapXY (.nary .sum [.var "x", .var "y"]) =
    (.nary .sum [.var "y", .var "x"], true) := rfl

example : substM swapXY (.bin .pow (.var "x") (.var "y")) =
    (.bin .pow (.var "y") (.var "x"), true) := rfl

example : den [("x", .int 2), ("y", .int 3)] (.bin .pow (.var "x") (.var "y")) = .ok (.int 8) ∧
    den [("x", .int 2), ("y", .int 3)] (substM swapXY (.bin .pow (.var "x") (.var "y"))).1
      = .ok (.int 9) := by
  constructor <;> rfl

/-! ### non-vacuity of `eval_subst` -/

def demoσ : SubstMap :=
  { byName := [("x", .nary .sum [.var "y", .const (.int 1)]), ("y", .var "x")] }

def demoE : Expr :=
  let c := Expr.cse (.nary .sum [.var "x", .const (.int 1)]) none "s"
  .ite (.cmp .lt c (.const (.int 5))) (.nary .prod [c, .var "y"]) (.call (.var "f") [c])

def demoEnv : Env := [("x", .int 2), ("y", .int 10), ("f", .func "f")]

example :
    den demoEnv (substM demoσ demoE).1 = den (envAfter demoEnv demoσ) demoE ∧
    den demoEnv (substM demoσ demoE).1 = .ok (.app "f" [.int 12] [] []) ∧
    envAfter demoEnv demoσ = [("x", .int 11), ("y", .int 2), ("x", .int 2), ("y", .int 10), ("f", .func "f")] := by
  refine ⟨eval_subst rfl (substOK_of_all ?_) demoE (noZeroCse_of_check (by decide)), ?_, by rfl⟩
  · intro p hp
    simp only [demoσ, List.mem_cons, List.not_mem_nil, or_false] at hp
    rcases hp with rfl | rfl
    · exact ⟨.int 11, rfl⟩
    · exact ⟨.int 2, rfl⟩
  · rfl

/-! ### why `NoZeroCse` is needed (witnesses) -/

/-- Even the EMPTY substitution changes the meaning of a CSE around `False`: the wrapper collapses
to the integer `0`. -/
example : den [] (substM {} (.cse (.const (.bool false)) none "s")).1 = .ok (.int 0) ∧
    den (envAfter [] {}) (.cse (.const (.bool false)) none "s") = .ok (.bool false) :=
  ⟨rfl, rfl⟩

/-- … and an erroring product with a zero factor becomes the value `0`. -/
example :
    let σ : SubstMap := { byName := [("x", .const (.int 0))] }
    let e := Expr.cse (.nary .prod [.var "x", .var "z"]) none "s"
    den [] (substM σ e).1 = .ok (.int 0) ∧
    den (envAfter [] σ) e = .error (.unknownVar "z") :=
  ⟨rfl, rfl⟩


/-! ## All key kinds: names, `Variable` objects, subscripts, look-ups, keywords -/

theorem noZeroCse_iff (σ : SubstMap) (e : Expr) : NoZeroCse σ e ↔ c08NoZeroCse σ e := Iff.rfl

/-- **Substitution lemma for every key kind** (names, `Variable` objects, `Subscript` and `Lookup`
nodes; any replacements, evaluable or not).  Evaluating the substituted tree is evaluating the
original with every INTERCEPTED node — a variable, subscript or look-up for which
`make_subst_func` finds an entry, by `==` on the node first and then (variables only) by name —
overridden by the value of its replacement in the original environment.  The override is
syntactic: the key `a[i]` overrides the nodes `==`-equal to `a[i]` and no other. -/
theorem eval_subst_keys (σ : SubstMap) (env : Env) (e : Expr) (h : NoZeroCse σ e) :
    den env (substM σ e).1 = denOv σ env e := by
  rw [(substM_spec σ e).1]; exact den_substE_ov σ env e h

/-- the keyword form `substitute(e, σ, **kw)` -/
theorem eval_subst_kw (σ : SubstMap) (kw : List (String × Expr)) (env : Env) (e : Expr)
    (h : NoZeroCse (σ.c08WithKw kw) e) (v : Expr) (fl : Option Bool)
    (hr : c08Substitute σ kw false e = some (v, fl)) :
    den env v = denOv (σ.c08WithKw kw) env e := by
  simp only [c08Substitute, Bool.false_eq_true, if_false, Option.some.injEq, Prod.mk.injEq] at hr
  rw [← hr.1]; exact eval_subst_keys _ env e h

/-- non-vacuity of `eval_subst_keys`: the key `a[i]` (computed index) overrides exactly the nodes
`==` to it; `a[j]` is evaluated as before although `j = i` in the environment -/
example :
    let σ : SubstMap := { byExpr := [(.subscript (.var "a") (.var "i"), .var "x")] }
    let env : Env := [("a", .tuple [.int 1, .int 2]), ("i", .int 0), ("j", .int 0), ("x", .int 7)]
    let e := Expr.nary .sum [.subscript (.var "a") (.var "i"), .subscript (.var "a") (.var "j")]
    den env (substM σ e).1 = denOv σ env e ∧ denOv σ env e = .ok (.int 8) ∧
    den env e = .ok (.int 2) := by
  intro σ env e
  exact ⟨eval_subst_keys σ env e (noZeroCse_of_check (by decide)), by rfl, by rfl⟩

/-- non-vacuity of `eval_subst_kw`: `substitute(x + y, {"x": 1}, x=y, y=x)` -/
example :
    let σ : SubstMap := { byName := [("x", .const (.int 1))] }
    let kw := [("x", Expr.var "y"), ("y", Expr.var "x")]
    let env : Env := [("x", .int 2), ("y", .int 10)]
    let e := Expr.bin .pow (.var "x") (.var "y")
    c08Substitute σ kw false e = some (.bin .pow (.var "y") (.var "x"), some true) ∧
    den env (.bin .pow (.var "y") (.var "x")) = denOv (σ.c08WithKw kw) env e ∧
    denOv (σ.c08WithKw kw) env e = .ok (.int 100) := by
  intro σ kw env e
  exact ⟨by rfl, eval_subst_kw σ kw env e (noZeroCse_of_check (by decide)) _ _ (by rfl), by rfl⟩

/-! ### which entry wins -/

/-- an entry keyed by the `Variable` OBJECT wins over an entry keyed by its name -/
theorem apply_var_expr_wins (σ : SubstMap) (x : String) (r : Expr)
    (h : σ.findExpr (.var x) = some r) : σ.apply (.var x) = some r := by
  simp [SubstMap.apply, h]

/-- a keyword wins over an equal string key of the mapping … -/
theorem kw_wins_over_name (σ : SubstMap) (kw : List (String × Expr)) (x : String) (r : Expr)
    (h : (kw.find? (fun p => p.1 == x)) = some (x, r)) :
    (σ.c08WithKw kw).findName x = some r := by
  simp [SubstMap.findName, SubstMap.c08WithKw, List.find?_append, h]

/-- … but not over a `Variable`-object key of the same name -/
theorem kw_loses_to_expr (σ : SubstMap) (kw : List (String × Expr)) (x : String) (r : Expr)
    (h : σ.findExpr (.var x) = some r) : (σ.c08WithKw kw).apply (.var x) = some r := by
  have : (σ.c08WithKw kw).findExpr (.var x) = some r := by
    simpa [SubstMap.findExpr, SubstMap.c08WithKw] using h
  simp [SubstMap.apply, this]

/-- names never reach subscripts or look-ups: only an expression key `==`-equal to the whole node
intercepts it -/
theorem apply_subscript_eq (σ : SubstMap) (a i : Expr) :
    σ.apply (.subscript a i) = σ.findExpr (.subscript a i) := by
  simp only [SubstMap.apply]; cases σ.findExpr (.subscript a i) <;> rfl

theorem apply_lookup_eq (σ : SubstMap) (a : Expr) (n : String) :
    σ.apply (.lookup a n) = σ.findExpr (.lookup a n) := by
  simp only [SubstMap.apply]; cases σ.findExpr (.lookup a n) <;> rfl

/-- Top-down interception: a subscript key wins over a key for its aggregate (`{a[i] ↦ r, a ↦ b}`
sends `a[i]` to `r`, not to `b[i]`), and the node rebuilt from substituted children is not looked
up again (`a[j]` goes to `b[j]` even when `b[j]` is a key). -/
example :
    let σ : SubstMap := { byExpr := [(.subscript (.var "a") (.var "i"), .const (.int 5)),
                                     (.subscript (.var "b") (.var "j"), .const (.int 9))],
                          byName := [("a", .var "b")] }
    substM σ (.subscript (.var "a") (.var "i")) = (.const (.int 5), true) ∧
    substM σ (.subscript (.var "a") (.var "j")) = (.subscript (.var "b") (.var "j"), true) := by
  constructor <;> rfl

/-- the three ways of naming `x` at once: object key 10, string key 20, keyword 30 -/
example :
    let σ : SubstMap := { byExpr := [(.var "x", .const (.int 10))],
                          byName := [("x", .const (.int 20))] }
    c08Substitute σ [("x", .const (.int 30))] false (.var "x") = some (.const (.int 10), some true) ∧
    c08Substitute { byName := [("x", .const (.int 20))] } [("x", .const (.int 30))] false (.var "x")
      = some (.const (.int 30), some true) := by
  constructor <;> rfl

/-! ### keys that are names or `Variable` objects: a genuine environment -/

/-- the variable bindings of `σ` in the order `make_subst_func` tries them: `Variable`-object keys,
then string keys -/
def varBindings (σ : SubstMap) : List (String × Expr) :=
  σ.byExpr.filterMap (fun p => match p.1 with | .var y => some (y, p.2) | _ => none) ++ σ.byName

/-- all expression keys are `Variable` objects -/
def VarKeysOnly (σ : SubstMap) : Prop := ∀ p ∈ σ.byExpr, ∃ y, p.1 = .var y

def findBinding (l : List (String × Expr)) (x : String) : Option Expr :=
  match l.find? (fun p => p.1 == x) with
  | some p => some p.2
  | none => none

theorem findExpr_var_eq (x : String) : ∀ (l : List (Expr × Expr)),
    SubstMap.findExpr { byExpr := l } (.var x) =
    findBinding (l.filterMap (fun p => match p.1 with | .var y => some (y, p.2) | _ => none)) x
  | [] => rfl
  | (k, r) :: l => by
    have ih := findExpr_var_eq x l
    simp only [SubstMap.findExpr] at ih ⊢
    cases k <;> simp only [List.find?_cons, Expr.pyEq, List.filterMap_cons, findBinding] at ih ⊢
    case var y =>
      cases hyx : (y == x) <;> simp only <;> first | rfl | exact ih
    all_goals exact ih

theorem findBinding_append (l₁ l₂ : List (String × Expr)) (x : String) :
    findBinding (l₁ ++ l₂) x = match findBinding l₁ x with
      | some r => some r
      | none => findBinding l₂ x := by
  simp only [findBinding, List.find?_append]
  cases l₁.find? (fun p => p.1 == x) <;> simp

theorem apply_var_eq_findBinding (σ : SubstMap) (x : String) :
    σ.apply (.var x) = findBinding (varBindings σ) x := by
  have h1 : σ.findExpr (.var x) = _ := findExpr_var_eq x σ.byExpr
  have h2 : σ.findName x = findBinding σ.byName x := rfl
  simp only [SubstMap.apply, varBindings, findBinding_append, h1, h2]
  cases findBinding (σ.byExpr.filterMap _) x <;> rfl

theorem pyEq_var_left {y : String} {e : Expr} (h : (Expr.var y).pyEq e = true) : e = .var y := by
  cases e <;> simp_all [Expr.pyEq]

theorem intercept_none_of_varKeys {σ : SubstMap} (hσ : VarKeysOnly σ) (e : Expr)
    (hv : ∀ x, e ≠ .var x) : c08Intercept σ e = none := by
  have hf : σ.findExpr e = none := by
    simp only [SubstMap.findExpr]
    cases hq : σ.byExpr.find? (fun p => p.1.pyEq e) with
    | none => rfl
    | some p =>
      obtain ⟨y, hy⟩ := hσ p (List.mem_of_find?_eq_some hq)
      have := List.find?_some hq
      simp only [hy] at this
      exact absurd (pyEq_var_left this) (hv y)
  cases e <;> simp_all [c08Intercept, SubstMap.apply]

/-- every replacement a variable can receive evaluates (in the original environment) -/
def SubstOKV (env : Env) (σ : SubstMap) : Prop :=
  ∀ x r, σ.apply (.var x) = some r → ∃ v, den env r = .ok v

/-- the environment after substitution, for name and `Variable`-object keys -/
def envAfterV (env : Env) (σ : SubstMap) : Env := envAfterL env (varBindings σ)

theorem denOv_var_envAfterV {env : Env} {σ : SubstMap} (hok : SubstOKV env σ) (x : String) :
    denOv σ env (.var x) = den (envAfterV env σ) (.var x) := by
  have ha := apply_var_eq_findBinding σ x
  simp only [denOv, den, envAfterV]
  cases hq : (varBindings σ).find? (fun p => p.1 == x) with
  | none =>
    simp only [findBinding, hq] at ha
    simp only [ha, envAfterL_get_none env x _ hq]
    cases env.get x <;> rfl
  | some q =>
    simp only [findBinding, hq] at ha
    obtain ⟨v, hv⟩ := hok x q.2 ha
    simp only [ha, envAfterL_get_some env x q v _ hq hv, hv]
    rfl

theorem semOK_of_varKeys {env : Env} {σ : SubstMap} (hσ : VarKeysOnly σ) (hok : SubstOKV env σ)
    (e : Expr) : SemOK σ env (envAfterV env σ) e := by
  induction e using Expr.induct with | _ e ih => ?_
  by_cases hv : ∃ x, e = .var x
  · obtain ⟨x, rfl⟩ := hv
    exact .atom (denOv_var_envAfterV hok x)
  · have hv' : ∀ x, e ≠ .var x := fun x hx => hv ⟨x, hx⟩
    exact .node hv' (intercept_none_of_varKeys hσ e hv') ih

/-- **Substitution lemma, names and `Variable` objects.**  When every key is a name or a `Variable`
object (an object key winning over the name), substitution IS an environment update: the
substituted tree means what the original means where each replaced name is bound to the value of
its replacement.  (`eval_subst` is the case without object keys.) -/
theorem eval_subst_vars {env : Env} {σ : SubstMap} (hσ : VarKeysOnly σ) (hok : SubstOKV env σ)
    (e : Expr) (h : NoZeroCse σ e) :
    den env (substM σ e).1 = den (envAfterV env σ) e := by
  rw [eval_subst_keys σ env e h]
  exact denOv_eq_den_of_semOK (semOK_of_varKeys hσ hok e)

/-- object key `x ↦ y + 1` beats the string key `"x" ↦ 100`; `y ↦ x` is simultaneous -/
example :
    let σ : SubstMap := { byExpr := [(.var "x", .nary .sum [.var "y", .const (.int 1)])],
                          byName := [("x", .const (.int 100)), ("y", .var "x")] }
    let env : Env := [("x", .int 2), ("y", .int 10)]
    let e := Expr.bin .pow (.var "x") (.var "y")
    den env (substM σ e).1 = den (envAfterV env σ) e ∧
    envAfterV env σ = [("x", .int 11), ("x", .int 100), ("y", .int 2), ("x", .int 2), ("y", .int 10)] ∧
    den env (substM σ e).1 = .ok (.int 121) := by
  intro σ env e
  refine ⟨eval_subst_vars ?_ ?_ e (noZeroCse_of_check (by decide)), by rfl, by rfl⟩
  · intro p hp
    simp only [σ, List.mem_cons, List.not_mem_nil, or_false] at hp
    subst hp; exact ⟨"x", rfl⟩
  · intro x r hr
    rw [apply_var_eq_findBinding] at hr
    simp only [findBinding, varBindings, σ, List.filterMap_cons, List.filterMap_nil,
      List.cons_append, List.nil_append, List.find?_cons] at hr
    by_cases h1 : x = "x"
    · subst h1; simp at hr; subst hr; exact ⟨.int 11, rfl⟩
    · by_cases h2 : x = "y"
      · subst h2; simp at hr; subst hr; exact ⟨.int 2, rfl⟩
      · have e1 : ("x" == x) = false := by simpa using fun h => h1 h.symm
        have e2 : ("y" == x) = false := by simpa using fun h => h2 h.symm
        simp [e1, e2] at hr


/-! ### subscript and look-up keys: when the syntactic override is an update of the aggregate -/

/-- key shapes covered by `eval_subst_aggregates`: variables, elements `a[k]` of the tuples named
in `A` at a literal index `k ≥ 0`, attributes `r.n` of the records named in `Rc` -/
inductive KeyShape (A Rc : List String) : Expr → Prop
  | var (y : String) : KeyShape A Rc (.var y)
  | elem (a : String) (k : Nat) : a ∈ A → KeyShape A Rc (.subscript (.var a) (.const (.int k)))
  | field (r n : String) : r ∈ Rc → KeyShape A Rc (.lookup (.var r) n)

/-- the aggregates named in `A` / `Rc` occur in `e` only under a selection `a[k]` (literal
`k ≥ 0`) resp. `r.n` -/
inductive AggSafe (A Rc : List String) : Expr → Prop
  | elem {a : String} (k : Nat) : a ∈ A → AggSafe A Rc (.subscript (.var a) (.const (.int k)))
  | field {r : String} (n : String) : r ∈ Rc → AggSafe A Rc (.lookup (.var r) n)
  | var {x : String} : x ∉ A → x ∉ Rc → AggSafe A Rc (.var x)
  | node {e : Expr} : (∀ x, e ≠ .var x) → (∀ c ∈ e.children, AggSafe A Rc c) → AggSafe A Rc e

/-- `env'` is `env` updated by the evaluated replacements: other names as in `envAfterV`; a tuple
`a ∈ A` pointwise (`a[k]` holds the value of the replacement of the key `a[k]`, every other element
is kept); a record `r ∈ Rc` attribute-wise. -/
structure AggEnv (σ : SubstMap) (env env' : Env) (A Rc : List String) : Prop where
  other : ∀ x, x ∉ A → x ∉ Rc → env'.get x = (envAfterV env σ).get x
  notKey : ∀ a, a ∈ A ∨ a ∈ Rc → σ.apply (.var a) = none
  tup : ∀ a ∈ A, ∃ vs vs', env.get a = some (.tuple vs) ∧ env'.get a = some (.tuple vs') ∧
    ∀ k : Nat, match σ.apply (.subscript (.var a) (.const (.int k))) with
      | some r => ∃ v, den env r = .ok v ∧ vs'[k]? = some v
      | none => vs'[k]? = vs[k]?
  recd : ∀ r ∈ Rc, ∃ ns vals ns' vals', env.get r = some (.record ns vals) ∧
    env'.get r = some (.record ns' vals') ∧
    ∀ n : String, match σ.apply (.lookup (.var r) n) with
      | some q => ∃ v, den env q = .ok v ∧ assocLookup n ns' vals' = some v
      | none => assocLookup n ns' vals' = assocLookup n ns vals

theorem aggSafe_var_not_agg {A Rc : List String} {a : String} (h : AggSafe A Rc (.var a)) :
    a ∉ A ∧ a ∉ Rc := by
  cases h with
  | var h1 h2 => exact ⟨h1, h2⟩
  | node hv _ => exact absurd rfl (hv a)

theorem index_tuple_nat (vs : List Value) (k : Nat) :
    Value.index (.tuple vs) (.int k) = match vs[k]? with
      | some v => .ok v
      | none => .error .indexError := by
  have h1 : ¬ ((k : Int) < 0) := by omega
  simp only [Value.index, Value.isInexact, Bool.false_eq_true, if_false, Value.num?, h1,
    Int.toNat_natCast]
  cases vs[k]? <;> rfl

theorem intercept_none_of_shapes {σ : SubstMap} {A Rc : List String}
    (hk : ∀ p ∈ σ.byExpr, KeyShape A Rc p.1) {e : Expr} (hv : ∀ x, e ≠ .var x)
    (hc : ∀ c ∈ e.children, AggSafe A Rc c) : c08Intercept σ e = none := by
  have hf : σ.findExpr e = none := by
    simp only [SubstMap.findExpr]
    cases hq : σ.byExpr.find? (fun p => p.1.pyEq e) with
    | none => rfl
    | some p =>
      exfalso
      have hp := List.find?_some hq
      have hs := hk p (List.mem_of_find?_eq_some hq)
      generalize p.1 = key at hs hp
      cases hs with
      | var y => exact hv y (pyEq_var_left hp)
      | elem a k ha =>
        cases e <;> simp only [Expr.pyEq, Bool.and_eq_true, Bool.false_eq_true] at hp
        rename_i b i
        have hb := pyEq_var_left hp.1
        subst hb
        exact (aggSafe_var_not_agg (hc _ (by simp [Expr.children]))).1 ha
      | field r n hr =>
        cases e <;> simp only [Expr.pyEq, Bool.and_eq_true, Bool.false_eq_true] at hp
        rename_i b m
        have hb := pyEq_var_left hp.1
        subst hb
        exact (aggSafe_var_not_agg (hc _ (by simp [Expr.children]))).2 hr
  cases e <;> simp_all [c08Intercept, SubstMap.apply]

theorem semOK_of_aggSafe {σ : SubstMap} {env env' : Env} {A Rc : List String}
    (hk : ∀ p ∈ σ.byExpr, KeyShape A Rc p.1) (hok : SubstOKV env σ)
    (hE : AggEnv σ env env' A Rc) {e : Expr} (h : AggSafe A Rc e) : SemOK σ env env' e := by
  induction h with
  | @elem a k ha =>
    refine .atom ?_
    obtain ⟨vs, vs', h1, h2, h3⟩ := hE.tup a ha
    have h3k := h3 k
    have hna := hE.notKey a (Or.inl ha)
    simp only [denOv, den, h2, Const.den]
    cases hap : σ.apply (.subscript (.var a) (.const (.int k))) with
    | some r =>
      simp only [hap] at h3k
      obtain ⟨v, hv, hvk⟩ := h3k
      simp only [hv, bind, Except.bind, pure, Except.pure, index_tuple_nat, hvk]
    | none =>
      simp only [hap] at h3k
      simp only [hna, h1, bind, Except.bind, pure, Except.pure, index_tuple_nat, h3k]
  | @field r n hr =>
    refine .atom ?_
    obtain ⟨ns, vals, ns', vals', h1, h2, h3⟩ := hE.recd r hr
    have h3n := h3 n
    have hnr := hE.notKey r (Or.inr hr)
    simp only [denOv, den, h2]
    cases hap : σ.apply (.lookup (.var r) n) with
    | some q =>
      simp only [hap] at h3n
      obtain ⟨v, hv, hvn⟩ := h3n
      simp only [hv, bind, Except.bind, pure, Except.pure, Value.getattr, hvn]
    | none =>
      simp only [hap] at h3n
      simp only [hnr, h1, bind, Except.bind, pure, Except.pure, Value.getattr, h3n]
  | @var x h1 h2 =>
    refine .atom ?_
    rw [denOv_var_envAfterV hok x]
    simp only [den, hE.other x h1 h2]
  | @node e hv hc ih =>
    exact .node hv (intercept_none_of_shapes hk hv hc) ih

/-- **Substitution lemma, subscript and look-up keys (semantic form).**  Keys `a[k]` (literal index
`k ≥ 0` into a tuple) and `r.n` (attribute of a record), next to names and `Variable` objects: if
the aggregates occur in `e` only under such selections (`AggSafe`) then substituting and evaluating
is evaluating the original in the environment in which every replaced element / attribute / name
holds the value of its replacement (`AggEnv`).  Outside `AggSafe` this is false:
`subst_subscript_computed_index_cex`, `subst_subscript_negative_index_cex`,
`subst_bare_aggregate_cex`. -/
theorem eval_subst_aggregates {σ : SubstMap} {env env' : Env} {A Rc : List String}
    (hk : ∀ p ∈ σ.byExpr, KeyShape A Rc p.1) (hok : SubstOKV env σ)
    (hE : AggEnv σ env env' A Rc) (e : Expr) (hs : AggSafe A Rc e) (h : NoZeroCse σ e) :
    den env (substM σ e).1 = den env' e := by
  rw [eval_subst_keys σ env e h]
  exact denOv_eq_den_of_semOK (semOK_of_aggSafe hk hok hE hs)


/-- `AggEnv` is what assigning to an element produces: for the single key `a[k₀] ↦ r` the
environment `env` with `a` rebound to the tuple with element `k₀` set to the value of `r`. -/
theorem aggEnv_set_elem {env : Env} {a : String} {k₀ : Nat} {r : Expr} {vs : List Value} {v : Value}
    (ha : env.get a = some (.tuple vs)) (hr : den env r = .ok v) (hk : k₀ < vs.length) :
    AggEnv { byExpr := [(.subscript (.var a) (.const (.int k₀)), r)] } env
      ((a, .tuple (vs.set k₀ v)) :: env) [a] [] := by
  refine ⟨?_, ?_, ?_, ?_⟩
  · intro x h1 _
    have hne : ¬ a = x := by simpa [eq_comm] using h1
    simp [Env.get, hne, envAfterV, varBindings, envAfterL]
  · intro b _
    simp [SubstMap.apply, SubstMap.findExpr, SubstMap.findName, Expr.pyEq]
  · intro b hb
    simp only [List.mem_singleton] at hb
    subst hb
    refine ⟨vs, vs.set k₀ v, ha, by simp [Env.get], ?_⟩
    intro k
    by_cases hkk : k₀ = k
    · subst hkk
      simp [SubstMap.apply, SubstMap.findExpr, Expr.pyEq, Const.pyEq, Const.numVal?, hr, hk]
    · have : ¬ (k₀ : Int) = (k : Int) := by omega
      simp [SubstMap.apply, SubstMap.findExpr, Expr.pyEq, Const.pyEq, Const.numVal?, this,
        List.getElem?_set_ne hkk]
  · intro b hb; simp at hb

/-- non-vacuity of `eval_subst_aggregates`: `{t[1] ↦ x + 1}` on `t[1] * t[0] + t[2] + x` -/
example :
    let σ : SubstMap := { byExpr := [(.subscript (.var "t") (.const (.int 1)),
                                      .nary .sum [.var "x", .const (.int 1)])] }
    let env : Env := [("x", .int 2), ("t", .tuple [.int 4, .int 5, .int 6])]
    let env' : Env := ("t", .tuple [.int 4, .int 3, .int 6]) :: env
    let e := Expr.nary .sum [.nary .prod [.subscript (.var "t") (.const (.int 1)),
                                          .subscript (.var "t") (.const (.int 0))],
                             .subscript (.var "t") (.const (.int 2)), .var "x"]
    den env (substM σ e).1 = den env' e ∧ den env' e = .ok (.int 20) := by
  intro σ env env' e
  have hE : AggEnv σ env env' ["t"] [] :=
    aggEnv_set_elem (a := "t") (k₀ := 1) (vs := [.int 4, .int 5, .int 6]) (v := .int 3) rfl rfl
      (by decide)
  refine ⟨eval_subst_aggregates (A := ["t"]) (Rc := []) ?_ ?_ hE e ?_
    (noZeroCse_of_check (by decide)), by rfl⟩
  · intro p hp
    simp only [σ, List.mem_singleton] at hp
    subst hp; exact .elem "t" 1 (by simp)
  · intro x r hr
    simp [σ, SubstMap.apply, SubstMap.findExpr, SubstMap.findName, Expr.pyEq] at hr
  · simp only [e]
    refine .node (by simp) ?_
    intro c hc
    simp only [Expr.children, List.mem_cons, List.not_mem_nil, or_false] at hc
    rcases hc with rfl | rfl | rfl
    · refine .node (by simp) ?_
      intro c hc
      simp only [Expr.children, List.mem_cons, List.not_mem_nil, or_false] at hc
      rcases hc with rfl | rfl
      · exact .elem 1 (by simp)
      · exact .elem 0 (by simp)
    · exact .elem 2 (by simp)
    · exact .var (by simp) (by simp)

/-! ### what is false for subscript keys: matching is syntactic (witnesses, all with the
environment `env'` that `aggEnv_set_elem` produces) -/

/-- A COMPUTED index is not matched: `{a[0] ↦ 7}` leaves `a[i]` alone although `i = 0`, so the
substituted tree reads the old element while the updated environment holds the new one. -/
theorem subst_subscript_computed_index_cex :
    let σ : SubstMap := { byExpr := [(.subscript (.var "a") (.const (.int 0)), .const (.int 7))] }
    let env : Env := [("a", .tuple [.int 1, .int 2]), ("i", .int 0)]
    let env' : Env := ("a", .tuple [.int 7, .int 2]) :: env
    let e := Expr.subscript (.var "a") (.var "i")
    AggEnv σ env env' ["a"] [] ∧ NoZeroCse σ e ∧
    den env (substM σ e).1 = .ok (.int 1) ∧ den env' e = .ok (.int 7) := by
  intro σ env env' e
  exact ⟨aggEnv_set_elem (a := "a") (k₀ := 0) (vs := [.int 1, .int 2]) (v := .int 7) rfl rfl
    (by decide), noZeroCse_of_check (by decide), by rfl, by rfl⟩

/-- A NEGATIVE literal index aliases an element without being `==` to its key: `{a[1] ↦ 7}`
leaves `a[-1]` alone. -/
theorem subst_subscript_negative_index_cex :
    let σ : SubstMap := { byExpr := [(.subscript (.var "a") (.const (.int 1)), .const (.int 7))] }
    let env : Env := [("a", .tuple [.int 1, .int 2])]
    let env' : Env := ("a", .tuple [.int 1, .int 7]) :: env
    let e := Expr.subscript (.var "a") (.const (.int (-1)))
    AggEnv σ env env' ["a"] [] ∧ NoZeroCse σ e ∧
    den env (substM σ e).1 = .ok (.int 2) ∧ den env' e = .ok (.int 7) := by
  intro σ env env' e
  exact ⟨aggEnv_set_elem (a := "a") (k₀ := 1) (vs := [.int 1, .int 2]) (v := .int 7) rfl rfl
    (by decide), noZeroCse_of_check (by decide), by rfl, by rfl⟩

/-- The aggregate itself is not a key: `{a[0] ↦ 7}` leaves a bare `a` (here: `(a,)`) alone. -/
theorem subst_bare_aggregate_cex :
    let σ : SubstMap := { byExpr := [(.subscript (.var "a") (.const (.int 0)), .const (.int 7))] }
    let env : Env := [("a", .tuple [.int 1, .int 2])]
    let env' : Env := ("a", .tuple [.int 7, .int 2]) :: env
    let e := Expr.tuple [.var "a"]
    AggEnv σ env env' ["a"] [] ∧ NoZeroCse σ e ∧
    den env (substM σ e).1 = .ok (.tuple [.tuple [.int 1, .int 2]]) ∧
    den env' e = .ok (.tuple [.tuple [.int 7, .int 2]]) := by
  intro σ env env' e
  exact ⟨aggEnv_set_elem (a := "a") (k₀ := 0) (vs := [.int 1, .int 2]) (v := .int 7) rfl rfl
    (by decide), noZeroCse_of_check (by decide), by rfl, by rfl⟩

/-- Conversely `==` matches MORE than the index value: the key `a[1]` also intercepts `a[True]`
(harmless: same element) — shown here — and `a[1.0]`, which Python itself cannot evaluate
(`TypeError`) while the substituted tree can (real code only; floats are outside `den`). -/
example :
    let σ : SubstMap := { byExpr := [(.subscript (.var "a") (.const (.int 1)), .const (.int 7))] }
    substM σ (.subscript (.var "a") (.const (.bool true))) = (.const (.int 7), true) ∧
    substM σ (.subscript (.var "a") (.const (.flt "1.0" 1 1))) = (.const (.int 7), true) := by
  constructor <;> rfl


/-! ## The memoizing mapper (`CachedSubstitutionMapper`), for every history of calls on one mapper

`csubst` threads the memo table of `CachedMapper.__call__` (key `(type(expr), expr)`, i.e.
`Expr.keyEq`) through the traversal and through successive calls.  A hit returns whatever was
stored for an `==`-equal key, so the result can be another SPELLING of the plain mapper's result
(`1` for `True`, `2.0` for `2`, keywords in another order) — `cached_identical_cex`.  What holds:
the results are `==` (`cached_hist_pyEq`), and they are the very same trees when no two trees in
play are equal as keys without being identical (`cached_hist_identical`). -/

/-- **Memoizing ≡ plain up to `==`, for every history.**  On one `CachedSubstitutionMapper`, for
any sequence of calls on well-formed trees (no nan, keyword names distinct) with a well-formed
substitution map, call `i` raises `TypeError` exactly when its argument contains a Python list and
otherwise returns a well-formed tree that is `==` to what the plain `SubstitutionMapper` returns
for that argument. -/
theorem cached_hist_pyEq {σ : SubstMap} (hσ : σ.WF) (es : List Expr)
    (hes : ∀ e ∈ es, e.wf = true) :
    histRel (fun e v => v.wf = true ∧ v.pyEq (substM σ e).1 = true) es (csubstHist σ es []) := by
  have hP : (fun (e v : Expr) => v.wf = true ∧ v.pyEq (substM σ e).1 = true) =
      (fun e v => v.wf = true ∧ v.pyEq (substE σ e) = true) := by
    funext e v; rw [(substM_spec σ e).1]
  rw [hP]
  exact csubstHist_rel (cacheRel_pyEq hσ) es [] (cinv_nil _ _) hes

/-- **Memoizing = plain, tree for tree, without confusable keys.**  If the trees passed to the
mapper and all their subtrees (`U`, closed under children) contain no two different trees that are
equal as memo-table keys, every call returns exactly the plain mapper's tree. -/
theorem cached_hist_identical (σ : SubstMap) {U : Expr → Prop} (hU : NoConfuse U)
    (es : List Expr) (hes : ∀ e ∈ es, U e) :
    histRel (fun e v => v = (substM σ e).1) es (csubstHist σ es []) := by
  have hP : (fun (e v : Expr) => v = (substM σ e).1) = (fun e v => v = substE σ e) := by
    funext e v; rw [(substM_spec σ e).1]
  rw [hP]
  exact csubstHist_rel (cacheRel_eq σ hU) es [] (cinv_nil _ _) hes

/-- call by call -/
theorem cached_call_pyEq {σ : SubstMap} (hσ : σ.WF) (es : List Expr)
    (hes : ∀ e ∈ es, e.wf = true) (i : Nat) (h1 : i < es.length)
    (h2 : i < (csubstHist σ es []).length) :
    HistOK (fun e v => v.wf = true ∧ v.pyEq (substM σ e).1 = true) es[i] (csubstHist σ es [])[i] :=
  (histRel_get (cached_hist_pyEq hσ es hes)).2 i h1 h2

theorem cached_hist_length (σ : SubstMap) (es : List Expr) :
    (csubstHist σ es []).length = es.length := by
  have : ∀ (es : List Expr) (m : C08Cache), (csubstHist σ es m).length = es.length := by
    intro es; induction es with
    | nil => intro m; rfl
    | cons e es ih => intro m; simp [csubstHist, ih]
  exact this es []

/-- the entry point: `substitute(e, σ, **kw)` with the default (memoizing) mapper class returns a
tree `==` to the one the plain mapper class returns -/
theorem cached_substitute_pyEq (σ : SubstMap) (kw : List (String × Expr)) (e : Expr)
    (hσ : (σ.c08WithKw kw).WF) (he : e.wf = true) (hl : e.hasList = false) :
    ∃ v v0 fl, c08Substitute σ kw true e = some (v, none) ∧
      c08Substitute σ kw false e = some (v0, some fl) ∧ v.pyEq v0 = true := by
  have h := cached_hist_pyEq hσ [e] (by simpa using he)
  simp only [csubstHist, csubstTop, hl, Bool.false_eq_true, if_false, histRel, HistOK,
    and_true, true_and] at h
  refine ⟨(csubst (σ.c08WithKw kw) e []).1, (substM (σ.c08WithKw kw) e).1,
    (substM (σ.c08WithKw kw) e).2, ?_, ?_, h.2⟩
  · simp only [c08Substitute, if_true, csubstTop, hl, Bool.false_eq_true, if_false]
  · simp only [c08Substitute, Bool.false_eq_true, if_false]

instance : LawfulBEq Expr where
  eq_of_beq := fun h => (PV.Syntax.beq_iff _ _).mp h
  rfl := (PV.Syntax.beq_iff _ _).mpr rfl

/-- a finite universe given as a list: both conditions are decidable -/
theorem noConfuse_of_list (L : List Expr) (h1 : ∀ e ∈ L, ∀ c ∈ e.children, c ∈ L)
    (h2 : ∀ a ∈ L, ∀ b ∈ L, a.keyEq b = true → a = b) : NoConfuse (· ∈ L) :=
  ⟨h1, fun a b ha hb => h2 a ha b hb⟩

/-- non-vacuity: a history of three calls (the third asks again for a subtree of the first) -/
example :
    let σ : SubstMap := { byName := [("x", .var "y")],
                          byExpr := [(.subscript (.var "a") (.const (.int 1)), .const (.int 7))] }
    let e1 := Expr.nary .sum [.var "x", .subscript (.var "a") (.const (.int 1))]
    let e2 := Expr.bin .pow (.var "x") (.const (.int 2))
    let es := [e1, e2, .var "x"]
    csubstHist σ es [] = [some (.nary .sum [.var "y", .const (.int 7)]),
                          some (.bin .pow (.var "y") (.const (.int 2))), some (.var "y")] ∧
    histRel (fun e v => v = (substM σ e).1) es (csubstHist σ es []) ∧
    histRel (fun e v => v.wf = true ∧ v.pyEq (substM σ e).1 = true) es (csubstHist σ es []) := by
  intro σ e1 e2 es
  refine ⟨by rfl, ?_, ?_⟩
  · exact cached_hist_identical σ
      (noConfuse_of_list [e1, e2, .var "x", .subscript (.var "a") (.const (.int 1)), .var "a",
        .const (.int 1), .const (.int 2)] (by decide) (by decide)) es (by decide)
  · exact cached_hist_pyEq ⟨by decide, by decide, by decide⟩ es (by decide)

/-- **Why "identical" needs `NoConfuse`** (the known finding, at tree level).  With the EMPTY
substitution: after `~4.0` the mapper answers `~4` with `~4.0`; and inside ONE tree `f(CSE(1),
CSE(True))` comes back as `f(CSE(1), CSE(1))`.  Both results are `==` to the plain mapper's, neither
is the same tree — and the first one no longer means the same (`~4` is `-5`, `~4.0` is a
`TypeError` in Python; `den` abstains on floats). -/
theorem cached_identical_cex :
    csubstHist {} [.un .bnot (.const (.flt "4.0" 4 1)), .un .bnot (.const (.int 4))] [] =
      [some (.un .bnot (.const (.flt "4.0" 4 1))), some (.un .bnot (.const (.flt "4.0" 4 1)))] ∧
    (substM {} (.un .bnot (.const (.int 4)))).1 = .un .bnot (.const (.int 4)) ∧
    den [] (.un .bnot (.const (.int 4))) = .ok (.int (-5)) ∧
    c08Substitute {} [] true (.call (.var "f") [.cse (.const (.int 1)) none "s",
        .cse (.const (.bool true)) none "s"]) =
      some (.call (.var "f") [.cse (.const (.int 1)) none "s", .cse (.const (.int 1)) none "s"],
        none) := by
  refine ⟨by rfl, by rfl, by rfl, by rfl⟩

/-! ## The source of `pymbolic/mapper/substitutor.py` (T-gen) -/

/-- **substitutor_source_current.**  `pymbolic/mapper/substitutor.py` of the working tree, re-read
statement by statement on every run (`extract/substitutor.py`; any other statement shape is an
extraction error), is what the model `substM` and the key kinds of `eval_subst_keys` were written
against:

* the mapper overrides exactly `map_variable`, `map_subscript`, `map_lookup`; each asks
  `self.subst_func(expr)` FIRST and returns a non-`None` answer as it is (no recursion into the
  replacement: replacements are not substituted again; a falsy replacement such as `0` IS a
  replacement), otherwise a variable comes back unchanged and a subscript / look-up is traversed by
  the identity mapper's handler (whose rows are the regenerated C04 table: `substM_table_step_current`);
* `make_subst_func` looks the NODE up in the mapping (Python `==` / hash), and only for a
  `Variable` that is not a key falls back to its NAME; anything else is "no replacement";
* the memoizing mapper is `CachedIdentityMapper` in front of the same three handlers and overrides
  neither the dispatch nor the cache key;
* `substitute` works on a COPY of the caller's mapping, into which the keyword assignments are
  merged (keywords override name keys; nothing is left behind in the caller's mapping), and by
  default uses the memoizing mapper. -/
theorem substitutor_source_current :
    Generated.substitutorTable =
      { handlers := [["map_lookup", "descend", "IdentityMapper", "map_lookup"],
                     ["map_subscript", "descend", "IdentityMapper", "map_subscript"],
                     ["map_variable", "leaf", "", ""]],
        init := ["store"],
        cachedInit := ["bases", "CachedIdentityMapper()", "SubstitutionMapper(subst_func)"],
        cachedMro := ["CachedSubstitutionMapper", "CachedIdentityMapper", "CachedMapper",
                      "SubstitutionMapper", "IdentityMapper", "Mapper"],
        makeSubstFunc := ["by-node", "KeyError", "Variable:by-name", "KeyError:None", "else:None"],
        substitute := ["CachedSubstitutionMapper", "none->empty", "copy", "update-kwargs", "apply"] } := by
  decide

end PV.C08
