import PV.Model.Traverse
import PV.Model.Eval
import PV.Proofs.Subterm
/-
  C08 — substitution (`SubstitutionMapper` over `IdentityMapper`, model `substM`).
-/
namespace PV.C08
open PV

/-! ### flag soundness and identity preservation -/

/-- If the "new object" flag is off, the very same tree comes back. -/
theorem subst_flag_sound (σ : SubstMap) (e : Expr) (h : (substM σ e).2 = false) :
    (substM σ e).1 = e := by
  have := substM_spec σ e
  rw [this.1, this.2 h]

theorem substL_flag_sound (σ : SubstMap) (cs : List Expr) (h : (substL σ cs).2 = false) :
    (substL σ cs).1 = cs := by
  have := substML_spec σ cs
  rw [this.1, this.2 h]

/-- hypotheses of `subst_untouched_same`, closed under taking children -/
structure Untouched (σ : SubstMap) (e : Expr) : Prop where
  noHit : ∀ t, Subterm t e → σ.apply t = none
  noList : ∀ cs, ¬ Subterm (.list cs) e
  noZeroCse : ∀ c p s, Subterm (.cse c p s) e → c.isZero = false

theorem Untouched.child {σ : SubstMap} {e c : Expr} (h : Untouched σ e) (hc : c ∈ e.children) :
    Untouched σ c :=
  ⟨fun t ht => h.noHit t (ht.trans (.child hc)),
   fun cs ht => h.noList cs (ht.trans (.child hc)),
   fun c' p s ht => h.noZeroCse c' p s (ht.trans (.child hc))⟩

mutual
/-- **Identity preservation.**  If the substitution hits no subterm of `e`, `e` contains no Python
list and no CSE wrapper around a zero child, the mapper returns the identical object. -/
theorem subst_untouched_same (σ : SubstMap) : ∀ e : Expr, Untouched σ e → substM σ e = (e, false)
  | .var x, h => by simp [substM, h.noHit _ (.refl _)]
  | .const _, _ => by simp [substM]
  | .nan, _ => by simp [substM]
  | .wildcard, _ => by simp [substM]
  | .dotWild _, _ => by simp [substM]
  | .starWild _, _ => by simp [substM]
  | .funcSym, _ => by simp [substM]
  | .subscript a b, h => by
      simp [substM, h.noHit _ (.refl _),
        subst_untouched_same σ a (h.child (by simp [Expr.children])),
        subst_untouched_same σ b (h.child (by simp [Expr.children]))]
  | .lookup a n, h => by
      simp [substM, h.noHit _ (.refl _),
        subst_untouched_same σ a (h.child (by simp [Expr.children]))]
  | .bin o a b, h => by
      simp [substM,
        subst_untouched_same σ a (h.child (by simp [Expr.children])),
        subst_untouched_same σ b (h.child (by simp [Expr.children]))]
  | .cmp o a b, h => by
      simp [substM,
        subst_untouched_same σ a (h.child (by simp [Expr.children])),
        subst_untouched_same σ b (h.child (by simp [Expr.children]))]
  | .un o a, h => by
      simp [substM, subst_untouched_same σ a (h.child (by simp [Expr.children]))]
  | .deriv a vs, h => by
      simp [substM, subst_untouched_same σ a (h.child (by simp [Expr.children]))]
  | .cse a p s, h => by
      simp [substM, subst_untouched_same σ a (h.child (by simp [Expr.children])),
        h.noZeroCse a p s (.refl _)]
  | .ite a b c, h => by
      simp [substM,
        subst_untouched_same σ a (h.child (by simp [Expr.children])),
        subst_untouched_same σ b (h.child (by simp [Expr.children])),
        subst_untouched_same σ c (h.child (by simp [Expr.children]))]
  | .nary o cs, h => by
      simp [substM, substL_untouched_same σ cs (fun c hc => h.child (by simp [Expr.children, hc]))]
  | .slice cs, h => by
      simp [substM, substL_untouched_same σ cs (fun c hc => h.child (by simp [Expr.children, hc]))]
  | .tuple cs, h => by
      simp [substM, substL_untouched_same σ cs (fun c hc => h.child (by simp [Expr.children, hc]))]
  | .list cs, h => absurd (.refl _) (h.noList cs)
  | .call a cs, h => by
      simp [substM, subst_untouched_same σ a (h.child (by simp [Expr.children])),
        substL_untouched_same σ cs (fun c hc => h.child (by simp [Expr.children, hc]))]
  | .subst a vs cs, h => by
      simp [substM, subst_untouched_same σ a (h.child (by simp [Expr.children])),
        substL_untouched_same σ cs (fun c hc => h.child (by simp [Expr.children, hc]))]
  | .callKw a bs ns cs, h => by
      simp [substM, subst_untouched_same σ a (h.child (by simp [Expr.children])),
        substL_untouched_same σ bs (fun c hc => h.child (by simp [Expr.children, hc])),
        substL_untouched_same σ cs (fun c hc => h.child (by simp [Expr.children, hc]))]
theorem substL_untouched_same (σ : SubstMap) : ∀ cs : List Expr, (∀ c ∈ cs, Untouched σ c) →
    substL σ cs = (cs, false)
  | [], _ => by simp [substL]
  | c :: cs, h => by
      simp [substL, subst_untouched_same σ c (h c (by simp)),
        substL_untouched_same σ cs (fun c hc => h c (by simp [hc]))]
end

/-! ### the substitution lemma -/

/-- the environment after substitution: each replaced name is bound to the value of its replacement
(in the ORIGINAL environment: substitution is simultaneous) -/
def envAfterL (env : Env) : List (String × Expr) → Env
  | [] => env
  | (x, r) :: rest => match den env r with
    | .ok v => (x, v) :: envAfterL env rest
    | .error _ => envAfterL env rest

def envAfter (env : Env) (σ : SubstMap) : Env := envAfterL env σ.byName

theorem envAfterL_get_none (env : Env) (x : String) : ∀ l : List (String × Expr),
    l.find? (fun p => p.1 == x) = none → Env.get (envAfterL env l) x = env.get x
  | [], _ => rfl
  | (y, r) :: l, h => by
      simp only [List.find?_cons] at h
      cases hyx : (y == x) with
      | true => simp [hyx] at h
      | false =>
        simp only [hyx] at h
        have ih := envAfterL_get_none env x l h
        have hne : ¬ y = x := by simpa using hyx
        simp only [envAfterL]
        cases den env r <;> simp [Env.get, hne, ih]

theorem envAfterL_get_some (env : Env) (x : String) (p : String × Expr) (v : Value) :
    ∀ l : List (String × Expr), l.find? (fun p => p.1 == x) = some p → den env p.2 = .ok v →
      Env.get (envAfterL env l) x = some v
  | [], h, _ => by simp at h
  | (y, r) :: l, h, hv => by
      simp only [List.find?_cons] at h
      cases hyx : (y == x) with
      | true =>
        simp only [hyx, Option.some.injEq] at h
        subst h
        have he : y = x := by simpa using hyx
        simp [envAfterL, hv, Env.get, he]
      | false =>
        simp only [hyx] at h
        have ih := envAfterL_get_some env x p v l h hv
        have hne : ¬ y = x := by simpa using hyx
        simp only [envAfterL]
        cases den env r <;> simp [Env.get, hne, ih]

/-- all replacements evaluate (in the original environment) -/
def SubstOK (env : Env) (σ : SubstMap) : Prop :=
  ∀ x r, σ.findName x = some r → ∃ v, den env r = .ok v

/-- no CSE wrapper of `e` whose substituted child is zero (`IdentityMapper` collapses those) -/
def NoZeroCse (σ : SubstMap) (e : Expr) : Prop :=
  ∀ c p s, Subterm (.cse c p s) e → (substM σ c).1.isZero = false

theorem NoZeroCse.child {σ : SubstMap} {e c : Expr} (h : NoZeroCse σ e) (hc : c ∈ e.children) :
    NoZeroCse σ c :=
  fun c' p s ht => h c' p s (ht.trans (.child hc))

theorem apply_var_of_byName {σ : SubstMap} (hσ : σ.byExpr = []) (x : String) :
    σ.apply (.var x) = σ.findName x := by
  simp [SubstMap.apply, SubstMap.findExpr, hσ]

theorem apply_nonvar_of_byName {σ : SubstMap} (hσ : σ.byExpr = []) (e : Expr)
    (h : ∀ x, e ≠ .var x) : σ.apply e = none := by
  cases e <;> simp_all [SubstMap.apply, SubstMap.findExpr]

theorem den_var_subst {env : Env} {σ : SubstMap} (hσ : σ.byExpr = []) (hok : SubstOK env σ)
    (x : String) : den env (substE σ (.var x)) = den (envAfter env σ) (.var x) := by
  simp only [substE, apply_var_of_byName hσ]
  cases hf : σ.findName x with
  | none =>
    have : σ.byName.find? (fun p => p.1 == x) = none := by
      simp only [SubstMap.findName] at hf
      cases hq : σ.byName.find? (fun p => p.1 == x) <;> simp_all
    simp only [den, envAfter, envAfterL_get_none env x _ this]
  | some r =>
    obtain ⟨v, hv⟩ := hok x r hf
    simp only [SubstMap.findName] at hf
    cases hq : σ.byName.find? (fun p => p.1 == x) with
    | none => simp [hq] at hf
    | some q =>
      simp only [hq, Option.some.injEq] at hf
      subst hf
      simp only [den, envAfter, envAfterL_get_some env x q v _ hq hv, hv]
      rfl

section
set_option linter.unusedSectionVars false
variable {env : Env} {σ : SubstMap} (hσ : σ.byExpr = []) (hok : SubstOK env σ)
include hσ hok

mutual
theorem den_substE : ∀ e : Expr, NoZeroCse σ e →
    den env (substE σ e) = den (envAfter env σ) e
  | .var x, _ => den_var_subst hσ hok x
  | .const _, _ => by simp only [substE, den]
  | .nan, _ => by simp only [substE, den]
  | .wildcard, _ => by simp only [substE, den]
  | .dotWild _, _ => by simp only [substE, den]
  | .starWild _, _ => by simp only [substE, den]
  | .funcSym, _ => by simp only [substE, den]
  | .subscript a b, h => by
      simp only [substE, apply_nonvar_of_byName hσ (.subscript a b) (by simp), den,
        den_substE a (h.child (by simp [Expr.children])),
        den_substE b (h.child (by simp [Expr.children]))]
  | .lookup a n, h => by
      simp only [substE, apply_nonvar_of_byName hσ (.lookup a n) (by simp), den,
        den_substE a (h.child (by simp [Expr.children]))]
  | .bin o a b, h => by
      simp only [substE, den,
        den_substE a (h.child (by simp [Expr.children])),
        den_substE b (h.child (by simp [Expr.children]))]
  | .cmp o a b, h => by
      simp only [substE, den,
        den_substE a (h.child (by simp [Expr.children])),
        den_substE b (h.child (by simp [Expr.children]))]
  | .un o a, h => by
      cases o <;> simp only [substE, den, den_substE a (h.child (by simp [Expr.children]))]
  | .deriv a vs, _ => by simp only [substE, den]
  | .subst a vs cs, _ => by simp only [substE, den]
  | .slice cs, _ => by simp only [substE, den]
  | .cse a p s, h => by
      have hz : (substE σ a).isZero = false := by
        rw [← (substM_spec σ a).1]; exact h a p s (.refl _)
      simp [substE, hz, den, den_substE a (h.child (by simp [Expr.children]))]
  | .ite a b c, h => by
      simp only [substE, den,
        den_substE a (h.child (by simp [Expr.children])),
        den_substE b (h.child (by simp [Expr.children])),
        den_substE c (h.child (by simp [Expr.children]))]
  | .nary o cs, h => by
      have hcs : ∀ c ∈ cs, NoZeroCse σ c := fun c hc => h.child (by simp [Expr.children, hc])
      cases o <;> simp only [substE, den]
      · exact denFold_substE .sum _ cs hcs
      · exact denFold_substE .prod _ cs hcs
      · exact denReduce_substE .bor cs hcs
      · exact denReduce_substE .bxor cs hcs
      · exact denReduce_substE .band cs hcs
      · exact denAny_substE cs hcs
      · exact denAll_substE cs hcs
      · exact denMinMax_substE true none cs hcs
      · exact denMinMax_substE false none cs hcs
  | .tuple cs, h => by
      simp only [substE, den,
        denList_substE cs (fun c hc => h.child (by simp [Expr.children, hc]))]
  | .list cs, h => by
      simp only [substE, den,
        denList_substE cs (fun c hc => h.child (by simp [Expr.children, hc]))]
  | .call a cs, h => by
      simp only [substE, den, den_substE a (h.child (by simp [Expr.children])),
        denList_substE cs (fun c hc => h.child (by simp [Expr.children, hc]))]
  | .callKw a bs ns cs, h => by
      simp only [substE, den, den_substE a (h.child (by simp [Expr.children])),
        denList_substE bs (fun c hc => h.child (by simp [Expr.children, hc])),
        denList_substE cs (fun c hc => h.child (by simp [Expr.children, hc]))]
theorem denFold_substE (o : NaryOp) : ∀ (acc : Value) (cs : List Expr), (∀ c ∈ cs, NoZeroCse σ c) →
    denFold env o acc (substEL σ cs) = denFold (envAfter env σ) o acc cs
  | _, [], _ => by simp only [substEL, denFold]
  | acc, c :: cs, h => by
      simp only [substEL, denFold, den_substE c (h c (by simp))]
      cases den (envAfter env σ) c with
      | error e => rfl
      | ok v =>
        simp only [bind, Except.bind]
        cases o.apply acc v with
        | error e => rfl
        | ok acc' => exact denFold_substE o acc' cs (fun c hc => h c (by simp [hc]))
theorem denReduce_substE (o : NaryOp) : ∀ (cs : List Expr), (∀ c ∈ cs, NoZeroCse σ c) →
    denReduce env o (substEL σ cs) = denReduce (envAfter env σ) o cs
  | [], _ => by simp only [substEL, denReduce]
  | c :: cs, h => by
      simp only [substEL, denReduce, den_substE c (h c (by simp))]
      cases den (envAfter env σ) c with
      | error e => rfl
      | ok v => exact denFold_substE o v cs (fun c hc => h c (by simp [hc]))
theorem denAny_substE : ∀ (cs : List Expr), (∀ c ∈ cs, NoZeroCse σ c) →
    denAny env (substEL σ cs) = denAny (envAfter env σ) cs
  | [], _ => by simp only [substEL, denAny]
  | c :: cs, h => by
      simp only [substEL, denAny, den_substE c (h c (by simp)),
        denAny_substE cs (fun c hc => h c (by simp [hc]))]
theorem denAll_substE : ∀ (cs : List Expr), (∀ c ∈ cs, NoZeroCse σ c) →
    denAll env (substEL σ cs) = denAll (envAfter env σ) cs
  | [], _ => by simp only [substEL, denAll]
  | c :: cs, h => by
      simp only [substEL, denAll, den_substE c (h c (by simp)),
        denAll_substE cs (fun c hc => h c (by simp [hc]))]
theorem denMinMax_substE (isMin : Bool) : ∀ (cur : Option Value) (cs : List Expr),
    (∀ c ∈ cs, NoZeroCse σ c) →
    denMinMax env isMin cur (substEL σ cs) = denMinMax (envAfter env σ) isMin cur cs
  | _, [], _ => by simp only [substEL, denMinMax]
  | cur, c :: cs, h => by
      have hcs : ∀ c ∈ cs, NoZeroCse σ c := fun c hc => h c (by simp [hc])
      simp only [substEL, denMinMax, den_substE c (h c (by simp))]
      cases den (envAfter env σ) c with
      | error e => rfl
      | ok v =>
        simp only [bind, Except.bind]
        cases cur with
        | none => exact denMinMax_substE isMin (some v) cs hcs
        | some m =>
          simp only
          cases Value.better isMin v m with
          | error e => rfl
          | ok b => exact denMinMax_substE isMin _ cs hcs
theorem denList_substE : ∀ (cs : List Expr), (∀ c ∈ cs, NoZeroCse σ c) →
    denList env (substEL σ cs) = denList (envAfter env σ) cs
  | [], _ => by simp only [substEL, denList]
  | c :: cs, h => by
      simp only [substEL, denList, den_substE c (h c (by simp)),
        denList_substE cs (fun c hc => h c (by simp [hc]))]
end

/-- **Substitution lemma.**  For a name-keyed substitution whose replacements all evaluate,
evaluating the substituted tree equals evaluating the original tree in the environment where each
replaced name is bound to the value of its replacement — value or error alike. -/
theorem eval_subst (e : Expr) (h : NoZeroCse σ e) :
    den env (substM σ e).1 = den (envAfter env σ) e := by
  rw [(substM_spec σ e).1]; exact den_substE hσ hok e h

end

/-! ### a decidable checker for the `NoZeroCse` hypothesis -/

mutual
def noZeroCseB (σ : SubstMap) : Expr → Bool
  | .cse c _ _ => !(substM σ c).1.isZero && noZeroCseB σ c
  | .nary _ cs => noZeroCseBL σ cs
  | .bin _ a b => noZeroCseB σ a && noZeroCseB σ b
  | .un _ a => noZeroCseB σ a
  | .cmp _ a b => noZeroCseB σ a && noZeroCseB σ b
  | .ite c t e => noZeroCseB σ c && noZeroCseB σ t && noZeroCseB σ e
  | .call f as => noZeroCseB σ f && noZeroCseBL σ as
  | .callKw f as _ vs => noZeroCseB σ f && noZeroCseBL σ as && noZeroCseBL σ vs
  | .subscript a i => noZeroCseB σ a && noZeroCseB σ i
  | .lookup a _ => noZeroCseB σ a
  | .subst c _ xs => noZeroCseB σ c && noZeroCseBL σ xs
  | .deriv c _ => noZeroCseB σ c
  | .slice cs => noZeroCseBL σ cs
  | .tuple cs => noZeroCseBL σ cs
  | .list cs => noZeroCseBL σ cs
  | _ => true
def noZeroCseBL (σ : SubstMap) : List Expr → Bool
  | [] => true
  | c :: cs => noZeroCseB σ c && noZeroCseBL σ cs
end

theorem noZeroCseBL_mem {σ : SubstMap} : ∀ {cs : List Expr}, noZeroCseBL σ cs = true →
    ∀ c ∈ cs, noZeroCseB σ c = true
  | [], _, c, hc => by simp at hc
  | d :: ds, h, c, hc => by
    simp only [noZeroCseBL, Bool.and_eq_true] at h
    simp only [List.mem_cons] at hc
    rcases hc with rfl | hc
    · exact h.1
    · exact noZeroCseBL_mem h.2 c hc

theorem noZeroCseB_children {σ : SubstMap} {e : Expr} (h : noZeroCseB σ e = true) :
    ∀ c ∈ e.children, noZeroCseB σ c = true := by
  intro c hc
  cases e <;> simp only [Expr.children, List.mem_cons, List.mem_append, List.not_mem_nil,
    or_false] at hc <;> simp only [noZeroCseB, Bool.and_eq_true] at h
  all_goals first
    | exact noZeroCseBL_mem h c hc
    | (rcases hc with rfl | rfl | rfl <;> simp_all)
    | (rcases hc with rfl | rfl <;> simp_all)
    | (rcases hc with rfl | hc | hc
       · exact h.1.1
       · exact noZeroCseBL_mem h.1.2 c hc
       · exact noZeroCseBL_mem h.2 c hc)
    | (rcases hc with rfl | hc
       · exact h.1
       · exact noZeroCseBL_mem h.2 c hc)
    | (subst hc; simp_all)
    | simp at hc

theorem noZeroCse_of_check {σ : SubstMap} {e : Expr} (h : noZeroCseB σ e = true) :
    NoZeroCse σ e := by
  intro c p s ht
  have : ∀ t e, Subterm t e → noZeroCseB σ e = true → noZeroCseB σ t = true := by
    intro t e ht
    induction ht with
    | refl => exact id
    | step _ hc ih => exact fun h => ih (noZeroCseB_children h _ hc)
  have h2 := this _ _ ht h
  simp only [noZeroCseB, Bool.and_eq_true, Bool.not_eq_true'] at h2
  exact h2.1

theorem substOK_of_all {env : Env} {σ : SubstMap}
    (h : ∀ p ∈ σ.byName, ∃ v, den env p.2 = .ok v) : SubstOK env σ := by
  intro x r hf
  simp only [SubstMap.findName] at hf
  cases hq : σ.byName.find? (fun p => p.1 == x) with
  | none => simp [hq] at hf
  | some q =>
    simp only [hq, Option.some.injEq] at hf
    subst hf
    exact h q (List.mem_of_find?_eq_some hq)

/-! ### simultaneity -/

/-- A replacement is inserted as it is: the mapper does not descend into it, so replacements are
never re-substituted (simultaneous substitution). -/
theorem subst_simultaneous (σ : SubstMap) (x : String) (r : Expr)
    (h : σ.apply (.var x) = some r) : substM σ (.var x) = (r, true) := by
  simp [substM, h]

theorem subst_simultaneous_subscript (σ : SubstMap) (a i r : Expr)
    (h : σ.apply (.subscript a i) = some r) : substM σ (.subscript a i) = (r, true) := by
  simp [substM, h]

theorem subst_simultaneous_lookup (σ : SubstMap) (a : Expr) (n : String) (r : Expr)
    (h : σ.apply (.lookup a n) = some r) : substM σ (.lookup a n) = (r, true) := by
  simp [substM, h]

def swapXY : SubstMap := { byName := [("x", .var "y"), ("y", .var "x")] }

/-- the swap `x→y, y→x` on `x + y` and on `x ** y`: both names are exchanged at once -/
example : substM swapXY (.nary .sum [.var "x", .var "y"]) =
    (.nary .sum [.var "y", .var "x"], true) := rfl

example : substM swapXY (.bin .pow (.var "x") (.var "y")) =
    (.bin .pow (.var "y") (.var "x"), true) := rfl

example : den [("x", .int 2), ("y", .int 3)] (.bin .pow (.var "x") (.var "y")) = .ok (.int 8) ∧
    den [("x", .int 2), ("y", .int 3)] (substM swapXY (.bin .pow (.var "x") (.var "y"))).1
      = .ok (.int 9) := by
  constructor <;> rfl

/-! ### non-vacuity of `eval_subst` -/

def demoσ : SubstMap :=
  { byName := [("x", .nary .sum [.var "y", .const (.int 1)]), ("y", .var "x")] }

def demoE : Expr :=
  let c := Expr.cse (.nary .sum [.var "x", .const (.int 1)]) none "s"
  .ite (.cmp .lt c (.const (.int 5))) (.nary .prod [c, .var "y"]) (.call (.var "f") [c])

def demoEnv : Env := [("x", .int 2), ("y", .int 10), ("f", .func "f")]

example :
    den demoEnv (substM demoσ demoE).1 = den (envAfter demoEnv demoσ) demoE ∧
    den demoEnv (substM demoσ demoE).1 = .ok (.app "f" [.int 12] [] []) ∧
    envAfter demoEnv demoσ = [("x", .int 11), ("y", .int 2), ("x", .int 2), ("y", .int 10), ("f", .func "f")] := by
  refine ⟨eval_subst rfl (substOK_of_all ?_) demoE (noZeroCse_of_check (by decide)), ?_, by rfl⟩
  · intro p hp
    simp only [demoσ, List.mem_cons, List.not_mem_nil, or_false] at hp
    rcases hp with rfl | rfl
    · exact ⟨.int 11, rfl⟩
    · exact ⟨.int 2, rfl⟩
  · rfl

/-! ### why `NoZeroCse` is needed (witnesses) -/

/-- Even the EMPTY substitution changes the meaning of a CSE around `False`: the wrapper collapses
to the integer `0`. -/
example : den [] (substM {} (.cse (.const (.bool false)) none "s")).1 = .ok (.int 0) ∧
    den (envAfter [] {}) (.cse (.const (.bool false)) none "s") = .ok (.bool false) :=
  ⟨rfl, rfl⟩

/-- … and an erroring product with a zero factor becomes the value `0`. -/
example :
    let σ : SubstMap := { byName := [("x", .const (.int 0))] }
    let e := Expr.cse (.nary .prod [.var "x", .var "z"]) none "s"
    den [] (substM σ e).1 = .ok (.int 0) ∧
    den (envAfter [] σ) e = .error (.unknownVar "z") :=
  ⟨rfl, rfl⟩

end PV.C08
