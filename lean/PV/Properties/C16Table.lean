import PV.Proofs.UnifyTableUnique
import PV.Generated.Unifier
import PV.Generated.Traversal
/-
  C16, T-gen tie of the UNIFIER: the hand-written model of pymbolic/mapper/unifier.py
  (PV/Model/Unify.lean — what `PV.C16.unify_sound_partial`, `unify_complete_renaming`, … speak
  about) is what the CURRENT SOURCE prescribes.

  `extract/unifier.py` re-reads the source of the module on every run and writes every function of
  it, statement by statement, into `PV.Generated.c16Unifier` (language and interpreter:
  PV/Model/UnifyTable.lean).  The theorems below say, for the table of THIS run:

    * `unifier_table_current`      the regenerated table is the table the proofs were written
                                   against (a source edit that changes a statement, a class-body
                                   alias, an MRO or the meaning of a free name breaks this `rfl`);
    * `handler_resolve_current`    dispatch (`Mapper.__call__`, the model of C04, on the regenerated
                                   node-class table) + attribute resolution along the MRO reach
                                   exactly the handler the model has for every node kind;
    * `record_functions_current`,
      `generators_current`,
      `commut_assoc_current`       running the table's `unify_map`, `UnificationRecord(…)`,
                                   `.unify`, `unify_many`, `unification_record_from_equation`,
                                   `treat_mismatch`, `subsets`, `partitions`,
                                   `match_plain_var_candidates`, `match_children`, `map_commut_assoc`
                                   — each in a context where the calls that leave it mean the MODEL's
                                   functions — computes the model's functions, for all arguments;
    * `unifyE_eq_table_current`    one dispatched call `self.rec(expr, other, urecs)` of the table
                                   is `unifyE`, for every node kind of the model, every target and
                                   every list of records;
    * `unify_entry_current`        `UnidirectionalUnifier(cands)(pattern, target)` is `unify`;
    * `unifyE_unique_current`      `unifyE` is the only function that satisfies the dispatch
                                   equation of the table.

  Hypotheses that appear: records are Python dicts (`URec.WF`: distinct keys — trivially true of
  `[UnificationRecord([])]`, preserved by everything: `unifyE_wf_current`); the operands of a target
  sum / product are not tuples / lists (`c16SafeTop`; otherwise `unification_record_from_equation`
  returns `None` and `result.unify(None)` raises, where the model — written for the fragment —
  just drops the partition).
-/
namespace PV.C16
open PV PV.Unify PV.Generated

/-- **The regenerated table is the one the proofs are about.** -/
theorem unifier_table_current : c16Unifier = c16Expected := rfl

example : (c16Unifier.fns.map (·.name)).length = 30 ∧ c16Unifier.recImpl = "Mapper.__call__" := by
  decide

/-- `self.rec` is the plain dispatch `Mapper.__call__` (not the entry point `UnifierBase.__call__`),
and `UnidirectionalUnifier(cands)` runs `UnifierBase.__init__`. -/
theorem rec_is_dispatch_current :
    c16Unifier.recImpl = "Mapper.__call__" ∧ c16Unifier.initImpl = "UnifierBase.__init__" ∧
    c16Resolve c16Unifier c16Mapper "rec" = some "Mapper.__call__" ∧
    c16Resolve c16Unifier c16Mapper "__call__" = some "UnifierBase.__call__" := by
  decide

/-- **Dispatch reaches the handler the model has**, for every node kind of the model: the dispatch
model of C04 run on the regenerated node classes and the `map_*` names of the regenerated unifier
table, then Python's attribute resolution along the MRO of `UnidirectionalUnifier`. -/
theorem handler_resolve_current (e : Expr) (h : c16Top e = true) :
    c16HandlerOf c04Classes c16Unifier e = .ok (c16ExpectedHandler e) := by
  cases e with
  | const c => cases c <;> first | rfl | (simp [c16Top] at h)
  | nary o _ => cases o <;> first | rfl | (simp [c16Top] at h)
  | bin o _ _ => cases o <;> rfl
  | un o _ => cases o <;> rfl
  | var _ => rfl
  | cmp _ _ _ => rfl
  | ite _ _ _ => rfl
  | call _ _ => rfl
  | subscript _ _ => rfl
  | lookup _ _ => rfl
  | tuple _ => rfl
  | _ => simp [c16Top] at h

example : c16HandlerOf c04Classes c16Unifier (.bin .floordiv (.var "x") (.var "y"))
    = .ok "UnifierBase.map_quotient" := rfl

/-- what the dispatch does with the node kinds OUTSIDE the model: strings / `None` are invalid
foreign objects, a Python list goes to `map_list`, the other n-ary classes to `UnifierBase.map_sum`
(which dies in `generate_permutations(range(n))` for n ≥ 2), every other node class to
`Mapper.map_algebraic_leaf` (`NotImplementedError`) -/
theorem handler_outside_current :
    c16HandlerOf c04Classes c16Unifier (.const (.str "s")) = .raises "ValueError" ∧
    c16HandlerOf c04Classes c16Unifier (.list []) = .ok "UnifierBase.map_list" ∧
    c16HandlerOf c04Classes c16Unifier (.nary .min []) = .ok "UnifierBase.map_sum" ∧
    c16HandlerOf c04Classes c16Unifier (.callKw (.var "f") [] [] []) = .ok "Mapper.map_algebraic_leaf" :=
  ⟨rfl, rfl, rfl, rfl⟩

/-- **The attributes of `UnidirectionalUnifier(cands)`** as the table's `__init__` leaves them:
`lhs_mapping_candidates = cands`, `rhs_mapping_candidates = None`, `force_var_match = True`. -/
theorem mapper_attrs_current (cands : List String) :
    c16MapperAttrs c16Unifier cands = c16ModelAttrs cands := by
  rw [unifier_table_current]; exact c16MapperAttrs_expected cands

/-- **The record-level functions of the current source are the model's**: `unify_map` is `unifyMap`,
`UnificationRecord([(lhs, rhs)])` builds `lmap` / `rmap` as `recFromEq` does, `a.unify(b)` is
`URec.unify` (both maps merged, `None` as soon as one value differs), `unify_many` is `unifyMany`,
`unification_record_from_equation` is `recFromEq` (never binds a name outside the candidates, never
a tuple / list), `treat_mismatch` of `UnidirectionalUnifier` returns no record. -/
theorem record_functions_current (cands : List String) (recur : Expr → Expr → List URec → List URec)
    (cl : Option C16Env) :
    C16FnSpec cands (c16LinkFn c16Unifier (c16ModelCtx cands recur cl)) := by
  rw [unifier_table_current]
  exact c16LinkFn_spec cands _ (c16ModelFn_spec cands) rfl

example : (URec.unify ⟨[("x", .var "a")], []⟩ ⟨[("x", .var "b")], []⟩).isNone = true := by decide

/-- **The nested generators of `map_commut_assoc` in the current source are the model's**:
`subsets` is `subsetsUpTo`, `partitions` is `partitions`, `match_plain_var_candidates` is
`matchPlain` (leftovers bound only when `match_children` has consumed every compound operand; the
FIRST consistent partition when compound operands exist, all of them merged with the incoming
records otherwise), `match_children` is `matchChildren` (a consumed target operand is never
matched again; records merged through `unify_many`). -/
theorem generators_current (cands : List String) (recur : Expr → Expr → List URec → List URec) :
    C16GenSpec cands (c16LinkGen c16Unifier (c16ModelCtx cands recur none)) := by
  rw [unifier_table_current]
  exact c16LinkGen_spec cands _ (c16ModelFn_spec cands) (c16ModelGen_spec cands recur)

/-- **`map_commut_assoc` of the current source** is the split of the operands, the candidate table
and `matchChildren` from the empty record with every target operand left over. -/
theorem commut_assoc_current (cands : List String) (recur : Expr → Expr → List URec → List URec)
    (hrec : ∀ a b vs, (∀ v ∈ vs, v.WF) → ∀ r ∈ recur a b vs, r.WF) :
    C16CASpec cands recur (c16LinkGen c16Unifier (c16ModelCtx cands recur none)) := by
  rw [unifier_table_current]
  exact c16LinkGen_ca cands (c16ModelCtx cands recur none) (c16ModelFn_spec cands)
    (c16ModelGen_spec cands recur) rfl hrec

/-- `unifyE` never produces a record with a repeated key -/
theorem unifyE_wf_current (cands : List String) (e oth : Expr) (us : List URec)
    (hus : ∀ v ∈ us, v.WF) : ∀ r ∈ unifyE cands e oth us, r.WF :=
  unifyE_wf' cands e oth us hus

/-- **One dispatched call of the current source, `self.rec` left open.**  For ANY meaning `recur`
of the recursive calls: the handler the table prescribes for the node computes `c16UnifyF` (the
body of `unifyE` with `recur` in place of the recursive calls). -/
theorem table_step_current (cands : List String) (recur : Expr → Expr → List URec → List URec)
    (e oth : Expr) (us : List URec) (ht : c16Top e = true) (hus : ∀ u ∈ us, u.WF)
    (hsafe : c16SafeTop e oth) :
    c16Step c04Classes c16Unifier (c16ModelCtx cands recur none) e oth us
      = .ok (c16UnifyF cands recur e oth us) := by
  rw [c16Step, handler_resolve_current e ht, unifier_table_current]
  exact c16Step_expected cands _ (c16ModelCtx_ok cands recur none) e oth us ht hus hsafe

/-- **`unifyE` is the table interpreter run on the current source**: for every node kind of the
model, every target, every list of records, one dispatched call `self.rec(expr, other, urecs)` —
dispatch, MRO resolution, the handler body statement by statement, with the recursive calls and
the other functions of the module meaning the model — returns `unifyE cands expr other urecs`. -/
theorem unifyE_eq_table_current (cands : List String) (e oth : Expr) (us : List URec)
    (ht : c16Top e = true) (hus : ∀ u ∈ us, u.WF) (hsafe : c16SafeTop e oth) :
    c16Step c04Classes c16Unifier (c16ModelCtx cands (unifyE cands) none) e oth us
      = .ok (unifyE cands e oth us) := by
  rw [table_step_current cands _ e oth us ht hus hsafe, ← unifyE_eq_F]

example : c16Step c04Classes c16Unifier (c16ModelCtx ["x"] (unifyE ["x"]) none)
    (.bin .quot (.var "x") (.const (.int 2))) (.bin .quot (.var "a") (.const (.int 2))) [URec.empty]
    = .ok (unify ["x"] (.bin .quot (.var "x") (.const (.int 2))) (.bin .quot (.var "a") (.const (.int 2)))) :=
  unifyE_eq_table_current _ _ _ _ rfl (fun u hu => by simp at hu; subst hu; exact wf_empty) trivial

/-- **The entry point**: `UnidirectionalUnifier(cands)(pattern, target)` — the table's `__call__`
with the default `urecs = [UnificationRecord([])]` — is `unify cands pattern target`. -/
theorem unify_entry_current (cands : List String) (p t : Expr) :
    c16CallVal (c16ModelCtx cands (unifyE cands) none)
      ((c16FindFn c16Unifier "UnifierBase.__call__").getD default) [.self, .obj p, .obj t]
      = .ok (C16Val.ofRecs (unify cands p t)) := by
  rw [unifier_table_current]
  exact c16Call_entry cands _ (c16ModelFn_spec cands) p t

/-- **The decidable guard behind `c16SafeTop`**: when no tuple / list is an operand of an n-ary
node of the target (`c16TgtSafe`; in particular for every target of the driver's fragment `tgtOk`),
`flattened_sum` / `flattened_product` never return a tuple / list, so
`unification_record_from_equation` never returns `None` for a leftover share. -/
theorem safe_of_guard_current (e oth : Expr) (h : c16TgtSafe oth = true) : c16SafeTop e oth :=
  c16SafeTop_of_tgtSafe e oth h

theorem fragment_inside_guards_current (p t : Expr) (hp : patOk p = true) (ht : tgtOk t = true) :
    c16PatOk p = true ∧ c16TgtSafe t = true :=
  ⟨patOk_c16PatOk p hp, (tgtSafe_of_tgtOk t ht).1⟩

example : c16TgtSafe (.nary .sum [.var "a", .nary .prod [.var "b", .const (.int 2)]]) = true ∧
    c16TgtSafe (.nary .sum [.var "a", .tuple [.var "b"]]) = false := by decide

/-- **The whole run is `unify`** on the fragment of the driver: for a pattern / target of the
fragment, one dispatched call from `[UnificationRecord([])]` is `unify cands pattern target`. -/
theorem unify_eq_table_current (cands : List String) (p t : Expr) (hp : patOk p = true)
    (ht : tgtOk t = true) :
    c16Step c04Classes c16Unifier (c16ModelCtx cands (unifyE cands) none) p t [URec.empty]
      = .ok (unify cands p t) :=
  unifyE_eq_table_current cands p t [URec.empty] (c16Top_of_patOk (patOk_c16PatOk p hp))
    (fun u hu => by simp at hu; subst hu; exact wf_empty)
    (c16SafeTop_of_tgtSafe p t (tgtSafe_of_tgtOk t ht).1)

/-- **`unifyE` is the only solution of the dispatch equation of the current source.**  Any `f`
that on every node kind of the model returns what one dispatched handler call of the regenerated
table returns when `self.rec` is `f` itself (the other callees meaning the model's functions,
which by `record_functions_current` / `generators_current` / `commut_assoc_current` is what the
table's own functions compute) is `unifyE` on every pattern built from node kinds of the model —
so `unify_sound_partial`, `unify_complete_renaming`, … are theorems about any such `f`. -/
theorem unifyE_unique_current (cands : List String) (f : Expr → Expr → List URec → List URec)
    (hf : ∀ e oth us, c16Top e = true → (∀ u ∈ us, u.WF) → c16TgtSafe oth = true →
      c16Step c04Classes c16Unifier (c16ModelCtx cands f none) e oth us = .ok (f e oth us)) :
    ∀ (e : Expr), c16PatOk e = true → ∀ (oth : Expr) (us : List URec),
      (∀ u ∈ us, u.WF) → c16TgtSafe oth = true → f e oth us = unifyE cands e oth us := by
  intro e hp oth us hus hs
  refine unifyE_unique cands f ?_ e.size e (Nat.le_refl _) hp oth us hus hs
  intro e' oth' us' ht hus' hs'
  have h1 := hf e' oth' us' ht hus' hs'
  rw [table_step_current cands f e' oth' us' ht hus' (c16SafeTop_of_tgtSafe e' oth' hs')] at h1
  exact (C16Res.ok.inj h1).symm

/-- what a behaviour-changing edit of the source does to these theorems: a table in which
`match_children` no longer skips consumed operands is a different table -/
theorem table_edit_cex :
    ({ c16Unifier with fns := c16Unifier.fns.filter (·.name != c16N_match_children) } : C16Table).fns.length
      ≠ c16Unifier.fns.length := by decide

end PV.C16
