import PV.Model.Eval
import PV.Model.OpsSyntax
import PV.Generated.OperatorsSyntax
import PV.Properties.C03
/-
  C03 — the NON-arithmetic syntax of the statement:

  "… written with Python's arithmetic, shift, bitwise, negation, **call, subscript and attribute
  syntax (and the comparison/logical constructor methods)** … the tree that results evaluates, in
  every environment where the same computation on plain numbers is defined, to exactly the value
  of that plain computation."

  Section 1 ties the hand-written builders `Ops.getitem / call / attr / not_ / and_ / or_ / cmp /
  abs` (PV/Model/OpsSyntax.lean) to the SOURCE: extract/operators.py reads `Expression.__getitem__`,
  `__call__`, `attr`, `a` (with `_AttributeLookupCreator`), `index`, `not_`, `and_`, `or_`,
  `eq … gt`, `__abs__`, `__le__ … __gt__`, `__iter__` and the dataclass field lists of the node
  classes they build from the live pymbolic/primitives.py into `PV.Generated.c03SynTable`
  (lean/PV/Generated/OperatorsSyntax.lean, rewritten on every run); `c03SynCall` interprets such
  tables without knowing their content.  An edit of a test (`isinstance(…, EmptyOK)`,
  `subscript == ()`, `if kwargs`), of a constructor, of an argument (wrapping or unwrapping the
  index, dropping the keyword arguments, another operator symbol), of the argument ORDER or of a
  dataclass field order changes the table and breaks these obligations.

  Section 2: what the built trees MEAN — `den` of the built tree is Python's `x[i]`,
  `f(*args, **kwargs)`, `getattr(x, name)`, `not x`, `x and y`, `x or y`, `x == y …`, `abs(x)`
  applied to the values of the operands (`Value.index / call / getattr / truthy / cmp` are the
  reference operations of PV/Model/PyNum.lean).

  ONE construction is wrong (confirmed on the real code, known finding `getitem:empty`): `x[()]`
  returns `x` itself instead of `Subscript(x, ())` (the deprecated branch of `__getitem__`), so for
  a mapping `d` with the key `()` the tree for `d[()]` evaluates to `d`.  `getitem_sound_partial`
  excludes exactly that index.
-/
namespace PV.C03
open PV PV.Generated

variable {env : Env}

/-! ## 1. The builders are what the current source says (T-gen) -/

/-- **`x[i]`**: for every receiver and every index (an operand or `EmptyOK(operand)`),
`Ops.getitem` is the table interpreter run on the regenerated body of `Expression.__getitem__`:
`EmptyOK(c)` ↦ `Subscript(self, c)`, the bare `()` ↦ `self`, anything else ↦
`Subscript(self, subscript)` with the index handed on UNCHANGED. -/
theorem getitem_eq_table_current (self : Expr) (s : Subscr) :
    getitemByTable c03SynTable self s = .ok (Ops.getitem self s) := by
  cases s with
  | emptyOK c => rfl
  | plain i =>
    cases h : i.isEmptyTuple <;>
      simp [getitemByTable, c03SynCall, c03SynFuel, C03SynTable.find, c03SynTable, c03SynMethods,
        c03Syn_getitem, C03SynBody.eval, C03SynCond.eval, Subscr.toVal, h, Ops.getitem,
        C03SynTerm.eval, C03SynTerm.evalL, c03SynMkNode, c03SynCtorFields, List.lookup,
        synToExpr, bind, Except.bind, pure, Except.pure]

/-- the deprecated spelling `x.index(i)` is `x[i]` -/
theorem index_eq_table_current (self : Expr) (s : Subscr) :
    indexByTable c03SynTable self s = .ok (Ops.getitem self s) := by
  cases s with
  | emptyOK c => rfl
  | plain i =>
    cases h : i.isEmptyTuple <;>
      simp [indexByTable, c03SynCall, c03SynFuel, C03SynTable.find, c03SynTable, c03SynMethods,
        c03Syn_getitem, c03Syn_index, C03SynBody.eval, C03SynCond.eval, Subscr.toVal, h,
        Ops.getitem, C03SynTerm.eval, C03SynTerm.evalL, c03SynMkNode, c03SynCtorFields,
        List.lookup, synToExpr, bind, Except.bind, pure, Except.pure]

/-- **`f(*args, **kwargs)`**: `Call(self, args)` when `kwargs` is empty, else
`CallWithKwargs(self, args, immutabledict(kwargs))` — all positional arguments in order, all
keyword arguments in insertion order -/
theorem call_eq_table_current (self : Expr) (args : List Expr) (ns : List String)
    (vs : List Expr) :
    callByTable c03SynTable self args ns vs = .ok (Ops.call self args ns vs) := by
  cases h : ns.isEmpty <;>
    simp [callByTable, c03SynCall, c03SynFuel, C03SynTable.find, c03SynTable, c03SynMethods,
      c03Syn_call, C03SynBody.eval, C03SynCond.eval, h, Ops.call,
      C03SynTerm.eval, C03SynTerm.evalL, c03SynMkNode, c03SynCtorFields, List.lookup,
      synToExpr, bind, Except.bind, pure, Except.pure]

/-- **`x.attr(name)`** is `Lookup(self, name)` -/
theorem attr_eq_table_current (self : Expr) (name : String) :
    attrByTable c03SynTable self name = .ok (Ops.attr self name) := rfl

/-- **`x.a.name`**: the property `a` builds `_AttributeLookupCreator(self)`, whose `__init__`
stores the receiver in `aggregate` and whose `__getattr__` builds `Lookup(self.aggregate, name)` -/
theorem attr_a_eq_table_current (self : Expr) (name : String) :
    attrAByTable c03SynTable self name = .ok (Ops.attr self name) := rfl

/-- **`x.not_()`, `x.and_(y)`, `x.or_(y)`**: `LogicalNot(self)`, `LogicalAnd((self, other))`,
`LogicalOr((self, other))` — receiver first -/
theorem logical_eq_table_current (self other : Expr) :
    unaryByTable c03SynTable .not_ self = .ok (Ops.not_ self) ∧
    binaryByTable c03SynTable .and_ self other = .ok (Ops.and_ self other) ∧
    binaryByTable c03SynTable .or_ self other = .ok (Ops.or_ self other) := ⟨rfl, rfl, rfl⟩

/-- **`x.eq(y) … x.gt(y)`**: `Comparison(self, <the symbol of that method>, other)` -/
theorem cmp_eq_table_current (o : CmpOp) (self other : Expr) :
    binaryByTable c03SynTable o.c03Syn self other = .ok (Ops.cmp o self other) := by
  cases o <;> rfl

/-- **`abs(x)`**: `Call(Variable("abs"), (self,))` -/
theorem abs_eq_table_current (self : Expr) :
    unaryByTable c03SynTable .abs self = .ok (Ops.abs self) := rfl

/-- `<`, `<=`, `>`, `>=` between an expression and anything, and `iter(x)`: the body is
`raise TypeError(…)` -/
theorem order_and_iter_raise_current (self other : Expr) :
    binaryByTable c03SynTable .dlt self other = .error .typeError ∧
    binaryByTable c03SynTable .dle self other = .error .typeError ∧
    binaryByTable c03SynTable .dgt self other = .error .typeError ∧
    binaryByTable c03SynTable .dge self other = .error .typeError ∧
    unaryByTable c03SynTable .iter self = .error .typeError := ⟨rfl, rfl, rfl, rfl, rfl⟩

/-- how the methods take their arguments, and which class defines them -/
theorem syntax_signatures_current :
    c03SynMethods.map (fun m => (m.name, m.attr, m.owner, m.sig)) = [
      (.getitem, "__getitem__", "Expression", .one), (.call, "__call__", "Expression", .star),
      (.attr, "attr", "Expression", .one), (.a, "a", "Expression", .prop),
      (.index, "index", "Expression", .one),
      (.not_, "not_", "Expression", .unary), (.and_, "and_", "Expression", .one),
      (.or_, "or_", "Expression", .one),
      (.eq, "eq", "Expression", .one), (.ne, "ne", "Expression", .one),
      (.le, "le", "Expression", .one), (.lt, "lt", "Expression", .one),
      (.ge, "ge", "Expression", .one), (.gt, "gt", "Expression", .one),
      (.abs, "__abs__", "Expression", .unary),
      (.dle, "__le__", "Expression", .one), (.dlt, "__lt__", "Expression", .one),
      (.dge, "__ge__", "Expression", .one), (.dgt, "__gt__", "Expression", .one),
      (.iter, "__iter__", "Expression", .unary),
      (.creatorGetattr, "__getattr__", "_AttributeLookupCreator", .one)] := rfl

/-- positional constructor parameters of the node classes these bodies build, as the dataclasses
of the current source declare them (the interpreter places the arguments BY THESE NAMES, so
`Subscript(self, subscript)` puts the receiver in `aggregate`, `Comparison(self, "<", other)` the
receiver in `left`, …) -/
theorem syntax_ctor_fields_current : c03SynCtorFields = [
    ("Subscript", ["aggregate", "index"]), ("Call", ["function", "parameters"]),
    ("CallWithKwargs", ["function", "parameters", "kw_parameters"]),
    ("Lookup", ["aggregate", "name"]), ("LogicalNot", ["child"]), ("LogicalAnd", ["children"]),
    ("LogicalOr", ["children"]), ("Comparison", ["left", "operator", "right"]),
    ("Variable", ["name"]), ("_AttributeLookupCreator", ["aggregate"])] := rfl

/-- **whole programs**: the hand-written implementation of every piece of operator syntax IS the
pair of generic table interpreters run on the two regenerated tables … -/
theorem syntax_impl_eq_table_current : SynImpl.model = SynImpl.byTable c03Table c03SynTable := by
  unfold SynImpl.model SynImpl.byTable
  congr
  · funext o a b; exact ops_eq_table_current o a b
  · funext o e; exact un_eq_table_current o e
  · funext a s; exact (getitem_eq_table_current a s).symm
  · funext f as ns vs; exact (call_eq_table_current f as ns vs).symm
  · funext o a b; exact (cmp_eq_table_current o a b).symm

/-- … so a program over subscript / call / attribute / constructor-method / arithmetic syntax
builds, in the model, the tree the regenerated tables prescribe (`SynProg.buildWith` is the
program run with every piece of syntax answered by the given implementation) -/
theorem syntax_build_eq_table_current (p : SynProg) :
    p.buildWith SynImpl.model = p.buildWith (SynImpl.byTable c03Table c03SynTable) := by
  rw [syntax_impl_eq_table_current]

/-! ## 2. What the built trees mean -/

/-- **subscript**: for every index except the bare empty tuple, the tree built for `a[i]`
evaluates to Python's `av[iv]` of the operand values — with the index value exactly as written
(`a[i,]` looks up the 1-tuple `(iv,)`, not `iv`). -/
theorem getitem_sound_partial (env : Env) (a i : Expr) (av iv : Value)
    (hne : i.isEmptyTuple = false) (ha : den env a = .ok av) (hi : den env i = .ok iv) :
    den env (Ops.getitem a (.plain i)) = av.index iv := by
  simp [Ops.getitem, hne, den, ha, hi, bind, Except.bind]

/-- `a[EmptyOK(i)]` is `a[i]`, for every index including `()` -/
theorem getitem_emptyOK_sound (env : Env) (a i : Expr) (av iv : Value)
    (ha : den env a = .ok av) (hi : den env i = .ok iv) :
    den env (Ops.getitem a (.emptyOK i)) = av.index iv := by
  simp [Ops.getitem, den, ha, hi, bind, Except.bind]

/-- a 1-tuple index stays a 1-tuple: the tree for `a[i,]` asks the aggregate for the key `(iv,)` -/
theorem getitem_one_tuple_sound (env : Env) (a i : Expr) (av iv : Value)
    (ha : den env a = .ok av) (hi : den env i = .ok iv) :
    den env (Ops.getitem a (.plain (.tuple [i]))) = av.index (.tuple [iv]) := by
  simp [Ops.getitem, Expr.isEmptyTuple, den, denList, ha, hi, bind, Except.bind, pure,
    Except.pure]

/-- the excluded index: `a[()]` builds `a` itself, no `Subscript` node (the deprecated branch of
`Expression.__getitem__`; on the real code `d[()]` with `d = {(): 5}` evaluates to `d`, not `5` —
known finding `getitem:empty`) -/
theorem getitem_empty_tuple_defect (a : Expr) :
    Ops.getitem a (.plain (.tuple [])) = a ∧
    getitemByTable c03SynTable a (.plain (.tuple [])) = .ok a := ⟨rfl, rfl⟩

/-- **call**: the tree built for `f(*args, **kwargs)` evaluates to the value of `f` applied to the
values of the positional arguments in order and of the keyword arguments under their names in
order — whether or not there are keyword arguments. -/
theorem call_sound (env : Env) (f : Expr) (args : List Expr) (ns : List String) (vs : List Expr)
    (fv : Value) (avs kvs : List Value) (hlen : ns.length = vs.length)
    (hf : den env f = .ok fv) (ha : denList env args = .ok avs) (hk : denList env vs = .ok kvs) :
    den env (Ops.call f args ns vs) = fv.call avs ns kvs := by
  cases ns with
  | nil =>
    cases vs with
    | nil =>
      simp [denList, pure, Except.pure] at hk
      subst hk
      simp [Ops.call, den, hf, ha, bind, Except.bind]
    | cons v vs => simp at hlen
  | cons n ns =>
    simp [Ops.call, den, hf, ha, hk, bind, Except.bind]

/-- **attribute** (both spellings): `getattr(av, name)` -/
theorem attr_sound (env : Env) (a : Expr) (name : String) (av : Value)
    (ha : den env a = .ok av) : den env (Ops.attr a name) = av.getattr name := by
  simp [Ops.attr, den, ha, bind, Except.bind]

/-- **`x.not_()`** is `not xv` -/
theorem not_sound (env : Env) (a : Expr) (av : Value) (t : Bool)
    (ha : den env a = .ok av) (ht : av.truthy = .ok t) :
    den env (Ops.not_ a) = .ok (.bool (!t)) := by
  simp [Ops.not_, den, ha, ht, bind, Except.bind, pure, Except.pure]

/-- **`x.and_(y)`** has the truth value of `xv and yv` -/
theorem and_sound (env : Env) (a b : Expr) (av bv : Value) (ta tb : Bool)
    (ha : den env a = .ok av) (hb : den env b = .ok bv)
    (hta : av.truthy = .ok ta) (htb : bv.truthy = .ok tb) :
    den env (Ops.and_ a b) = .ok (.bool (ta && tb)) := by
  cases ta <;> cases tb <;>
    simp [Ops.and_, den, denAll, ha, hb, hta, htb, bind, Except.bind, pure, Except.pure]

/-- **`x.or_(y)`** has the truth value of `xv or yv` -/
theorem or_sound (env : Env) (a b : Expr) (av bv : Value) (ta tb : Bool)
    (ha : den env a = .ok av) (hb : den env b = .ok bv)
    (hta : av.truthy = .ok ta) (htb : bv.truthy = .ok tb) :
    den env (Ops.or_ a b) = .ok (.bool (ta || tb)) := by
  cases ta <;> cases tb <;>
    simp [Ops.or_, den, denAny, ha, hb, hta, htb, bind, Except.bind, pure, Except.pure]

/-- **`x.eq(y) … x.gt(y)`**: Python's comparison of that name between the operand values, receiver
on the left -/
theorem cmp_sound (env : Env) (o : CmpOp) (a b : Expr) (av bv : Value)
    (ha : den env a = .ok av) (hb : den env b = .ok bv) :
    den env (Ops.cmp o a b) = Value.cmp o av bv := by
  simp [Ops.cmp, den, ha, hb, bind, Except.bind]

/-- **`abs(x)`** calls whatever the environment binds the NAME `abs` to, with the one argument -/
theorem abs_sound (env : Env) (a : Expr) (av fv : Value)
    (hf : env.get "abs" = some fv) (ha : den env a = .ok av) :
    den env (Ops.abs a) = fv.call [av] [] [] := by
  simp [Ops.abs, den, denList, hf, ha, bind, Except.bind, pure, Except.pure]

/-- the same statements for the trees the CURRENT SOURCE builds (as read into `c03SynTable`) -/
theorem getitem_table_sound_current (env : Env) (a i t : Expr) (av iv : Value)
    (hne : i.isEmptyTuple = false) (hb : getitemByTable c03SynTable a (.plain i) = .ok t)
    (ha : den env a = .ok av) (hi : den env i = .ok iv) :
    den env t = av.index iv := by
  rw [getitem_eq_table_current] at hb
  cases hb
  exact getitem_sound_partial env a i av iv hne ha hi

theorem call_table_sound_current (env : Env) (f t : Expr) (args : List Expr) (ns : List String)
    (vs : List Expr) (fv : Value) (avs kvs : List Value) (hlen : ns.length = vs.length)
    (hb : callByTable c03SynTable f args ns vs = .ok t)
    (hf : den env f = .ok fv) (ha : denList env args = .ok avs) (hk : denList env vs = .ok kvs) :
    den env t = fv.call avs ns kvs := by
  rw [call_eq_table_current] at hb
  cases hb
  exact call_sound env f args ns vs fv avs kvs hlen hf ha hk

/-! the interpreter really runs the regenerated bodies; the hypotheses are satisfiable -/
section
def envT : Env := [("a", .tuple [.int 5, .int 7]), ("i", .int 1),
  ("f", .func "f"), ("o", .record ["n"] [.int 3]), ("abs", .func "abs")]

/-- `a[i]`, `a[i,]`, `a[i, j]`, `a[(i,),]`, `a[EmptyOK(())]` -/
example : getitemByTable c03SynTable (.var "a") (.plain (.var "i"))
    = .ok (.subscript (.var "a") (.var "i")) := rfl
example : getitemByTable c03SynTable (.var "a") (.plain (.tuple [.var "i"]))
    = .ok (.subscript (.var "a") (.tuple [.var "i"])) := rfl
example : getitemByTable c03SynTable (.var "a") (.plain (.tuple [.var "i", .var "j"]))
    = .ok (.subscript (.var "a") (.tuple [.var "i", .var "j"])) := rfl
example : getitemByTable c03SynTable (.var "a") (.plain (.tuple [.tuple [.var "i"]]))
    = .ok (.subscript (.var "a") (.tuple [.tuple [.var "i"]])) := rfl
example : getitemByTable c03SynTable (.var "a") (.emptyOK (.tuple []))
    = .ok (.subscript (.var "a") (.tuple [])) := rfl
/-- `f()`, `f(i, k=a)` -/
example : callByTable c03SynTable (.var "f") [] [] [] = .ok (.call (.var "f") []) := rfl
example : callByTable c03SynTable (.var "f") [.var "i"] ["k"] [.var "a"]
    = .ok (.callKw (.var "f") [.var "i"] ["k"] [.var "a"]) := rfl
/-- `getitem_sound_partial` at `a = (5, 7)`, `i = 1` -/
example : den envT (Ops.getitem (.var "a") (.plain (.var "i"))) = .ok (.int 7) := rfl
/-- `call_sound` with one positional and one keyword argument -/
example : den envT (Ops.call (.var "f") [.var "i"] ["k"] [.var "i"])
    = .ok (.app "f" [.int 1] ["k"] [.int 1]) := rfl
example : den envT (Ops.attr (.var "o") "n") = .ok (.int 3) := rfl
example : den envT (Ops.abs (.var "i")) = .ok (.app "abs" [.int 1] [] []) := rfl
/-- a whole program: `2 * a[i,] - f(i, k=a.attr("n"))` -/
example : (SynProg.bin .sub
      (.bin .mul (.leaf (.const (.int 2))) (.item (.leaf (.var "a")) (.tup [.leaf (.var "i")])))
      (.call (.leaf (.var "f")) [.leaf (.var "i")] ["k"] [.attr false (.leaf (.var "a")) "n"])).build
    = .ok (.nary .sum [.nary .prod [.const (.int 2), .subscript (.var "a") (.tuple [.var "i"])],
        .nary .prod [.const (.int (-1)),
          .callKw (.var "f") [.var "i"] ["k"] [.lookup (.var "a") "n"]]]) := rfl
end

end PV.C03
