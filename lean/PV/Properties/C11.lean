import PV.Proofs.RewriteCollect
import PV.Proofs.RewriteFoldNF
import PV.Proofs.RewritePoly
import PV.Proofs.RewriteTotal
/-
  C11 — algebraic rewrites preserve value and reach their normal forms.

  Models (PV/Model/Rewrite.lean, mirroring the Python control flow; tied to the code by the
  correspondence streams of harness/props/c11.py on every run):
    `flattenM`  FlattenMapper                      `foldM comm`  the two constant folders
    `collectM`  TermCollector                      `distM cfg`   DistributeMapper (expand/distribute)
  `fold`, `split_term`, `dist` and `map_power` re-apply the mapper to trees they have just built,
  so every model takes `fuel`; all theorems hold for every amount of fuel (a run that exhausts it
  answers `RwErr.fuel`, never a wrong tree).  Termination is covered by correspondence only.

  Value semantics: `evalK ρ e : Option K` in an ARBITRARY FIELD `K` (`Int` constants, variables,
  sums, products, quotients — undefined at a zero denominator —, powers with an integer literal
  exponent as `zpow` — undefined for `0 ** negative` —, CSE wrappers transparent).  "Preserves the
  value" is one-directional, as in the property: wherever the INPUT has a value, the output has
  the same value (the output may be defined at more points: `0 * (1/0)` flattens to `0`).

  What is FALSE on the current tree stays visible as `*_cex` theorems (known findings):
    * expand leaves sums beneath products when a non-sum factor precedes two sum factors
      (`expanded_nf_cex`; on the real code the degree of expansion then even depends on
      PYTHONHASHSEED, because TermCollector rebuilds such a product in frozenset order — the model
      uses insertion order and the harness lets it abstain on those outputs), and keeps
      `(x**2)**3 + x**6` unmerged (`like_terms_cex`);
    * expand / TermCollector raise on sums with a quotient term (`expand_raises_cex`,
      `collect_raises_cex`);
    * a CSE wrapper around an empty tuple is replaced by 0 (`cse_empty_tuple_cex`).
-/
namespace PV.C11
open PV
universe u

variable {K : Type u} [Field K] [DecidableEq K]

private def x : Expr := .var "x"
private def y : Expr := .var "y"
private def z : Expr := .var "z"
private def i (n : Int) : Expr := .const (.int n)
private def S (l : List Expr) : Expr := .nary .sum l
private def P (l : List Expr) : Expr := .nary .prod l
private def pw (a : Expr) (n : Int) : Expr := .bin .pow a (i n)

/-! ### the smart constructors -/

/-- **`flattened_sum` preserves the value**: the queue loop (children spliced in place, zero
items skipped) returns an expression whose value is the sum of the values of the terms. -/
theorem flattenedSum_value (ρ : String → K) (terms : List Expr) (v : K)
    (h : evalKL ρ false terms = some v) : evalK ρ (flattenedSum terms) = some v :=
  PV.flattenedSum_value ρ h

/-- **`flattened_product` preserves the value** (early `return 0` on a zero item included). -/
theorem flattenedProduct_value (ρ : String → K) (terms : List Expr) (v : K)
    (h : evalKL ρ true terms = some v) : evalK ρ (flattenedProduct terms) = some v :=
  PV.flattenedProduct_value ρ h

example : flattenedSum [x, S [i 0, y], i 0] = S [x, y] := rfl
example : flattenedProduct [x, P [i 1, y], i 0, .bin .quot (i 1) (i 0)] = i 0 := rfl

/-! ### flatten -/

/-- **Flattening preserves the value**: for every field, assignment and input on which
`flatten` returns, wherever the input has a value the result has the same value. -/
theorem flatten_value (ρ : String → K) (fuel : Nat) (e e' : Expr) (v : K)
    (h : flattenM fuel e = .ok e') (hv : evalK ρ e = some v) : evalK ρ e' = some v :=
  flattenM_value ρ fuel e e' v h hv

/-- **Normal form of flatten** — at every depth of the result: no Sum directly under a Sum, no
Product directly under a Product, no zero operand (Python-falsy, in particular no literal 0) in
a Sum, no zero and no one operand in a Product.  No hypothesis on the input is needed. -/
theorem flatten_nf (fuel : Nat) (e e' : Expr) (h : flattenM fuel e = .ok e') :
    e'.flatNF = true :=
  flattenM_nf fuel e e' h

/-- spelled out for a Sum / Product at the root of the result -/
theorem flatten_nf_root_sum (fuel : Nat) (e : Expr) (ds : List Expr)
    (h : flattenM fuel e = .ok (.nary .sum ds)) :
    ∀ d ∈ ds, isSum d = false ∧ d.isZero = false := by
  have := flattenM_nf fuel e _ h
  simp only [Expr.flatNF, Bool.and_eq_true, List.all_eq_true] at this
  intro d hd
  have := this.2 d hd
  simpa [sumChildOk] using this

theorem flatten_nf_root_prod (fuel : Nat) (e : Expr) (ds : List Expr)
    (h : flattenM fuel e = .ok (.nary .prod ds)) :
    ∀ d ∈ ds, isProdE d = false ∧ d.isZero = false ∧ d.isOne = false := by
  have := flattenM_nf fuel e _ h
  simp only [Expr.flatNF, Bool.and_eq_true, List.all_eq_true] at this
  intro d hd
  have := this.2 d hd
  simpa [prodChildOk, and_assoc] using this

/-- **Flatten does not fail on the rational fragment** (integer constants, variables, sums,
products, quotients, integer-literal powers, CSE wrappers) and its result stays in the fragment:
for every amount of fuel beyond the size of the input.  (For the other three rewrites non-failure
is checked by the oracle only; it is FALSE for expand / TermCollector, see the `*_raises_cex`.) -/
theorem flatten_total (fuel : Nat) (e : Expr) (he : e.isRat = true) (hf : e.size < fuel) :
    ∃ e', flattenM fuel e = .ok e' ∧ e'.isRat = true :=
  flattenM_total fuel e he hf

example : flattenM 10 (S [x, S [i 0, y], P [i 1, P [z, x]]]) = .ok (S [x, y, P [z, x]]) := rfl
example : (S [x, y, P [z, x]]).flatNF = true := rfl

/-! ### constant folding -/

/-- **Constant folding preserves the value** (`comm = false`: `ConstantFoldingMapper`, sums only;
`comm = true`: `CommutativeConstantFoldingMapper`, sums and products). -/
theorem fold_value (ρ : String → K) (comm : Bool) (fuel : Nat) (e e' : Expr) (v : K)
    (h : foldM comm fuel e = .ok e') (hv : evalK ρ e = some v) : evalK ρ e' = some v :=
  foldM_value ρ comm fuel e e' v h hv

/-- **At most one constant operand** in a folded sum (either folder) … -/
theorem fold_one_const (comm : Bool) (fuel : Nat) (cs ds : List Expr)
    (h : foldM comm fuel (.nary .sum cs) = .ok (.nary .sum ds)) :
    ds.countP Expr.isConstant ≤ 1 :=
  foldM_one_const_sum comm fuel cs ds h

/-- … and in a folded product (commutative folder). -/
theorem fold_one_const_product (fuel : Nat) (cs ds : List Expr)
    (h : foldM true fuel (.nary .prod cs) = .ok (.nary .prod ds)) :
    ds.countP Expr.isConstant ≤ 1 :=
  foldM_one_const_prod fuel cs ds h

example : foldM false 10 (S [x, i 1, S [i 2, y, i 3], P [i 2, i 3]]) = .ok (S [i 12, x, y]) := rfl
example : foldM true 10 (P [x, i 2, P [i 3, S [y, i 4]]]) = .ok (P [i 6, x, S [i 4, y]]) := rfl
/-- the plain folder leaves products alone (multiplication need not commute) -/
example : foldM false 10 (P [i 2, x, i 3]) = .ok (P [i 2, x, i 3]) := rfl

/-! ### term collection -/

/-- **Term collection preserves the value**, for every set of `parameters`.  (Merging
`b**m * b**n` into `b**(m+n)` is sound because the input has a value: a negative exponent forces
`b ≠ 0`.  Keys are compared as sets; sound because a key has pairwise distinct bases.) -/
theorem collect_value (ρ : String → K) (params : List Expr) (fuel : Nat) (e e' : Expr) (v : K)
    (h : collectM params fuel e = .ok e') (hv : evalK ρ e = some v) : evalK ρ e' = some v :=
  collectM_value ρ params fuel e e' v h hv

example : collectM [] 10 (S [P [i 2, x, y], P [y, x], pw x 2, P [x, x]]) =
    .ok (S [P [i 3, x, y], P [i 2, pw x 2]]) := rfl

/-! ### distribution / expansion -/

/-- **One `dist` step preserves the value**, for any value-preserving `collect`
(the inner function of `DistributeMapper.map_product`). -/
theorem distribute_value_partial (ρ : String → K) (collect : Expr → RwR)
    (hcol : ∀ e e' v, collect e = .ok e' → evalK ρ e = some v → evalK ρ e' = some v)
    (fuel : Nat) (e e' : Expr) (v : K)
    (h : distLoop collect fuel e = .ok e') (hv : evalK ρ e = some v) : evalK ρ e' = some v :=
  distLoop_value ρ hcol fuel e e' v h hv

/-- **`expand` / `distribute` preserve the value** — every configuration (`parameters`,
`commutative=False`), sums, products, quotients, integer powers (positive: multiplied out;
zero / negative: left alone; product bases: exponent pushed to the factors). -/
theorem distribute_value (ρ : String → K) (cfg : DistCfg) (fuel : Nat) (e e' : Expr) (v : K)
    (h : distM cfg fuel e = .ok e') (hv : evalK ρ e = some v) : evalK ρ e' = some v :=
  distM_value ρ cfg fuel e e' v h hv

example : distM {} 30 (pw (S [x, i 1]) 3) =
    .ok (S [i 1, P [i 3, x], P [i 3, pw x 2], pw x 3]) := rfl
/-- the two crashes repaired in /repo stay repaired in the model -/
example : distM {} 30 (pw (P [x, y]) 2) = .ok (P [pw x 2, pw y 2]) := rfl
example : distM {} 30 (pw (S [x, i 1]) 0) = .ok (pw (S [i 1, x]) 0) := rfl
example : distM {} 30 (pw (S [x, i 1]) (-1)) = .ok (pw (S [i 1, x]) (-1)) := rfl

/-! ### the verified per-instance checker -/

/-- **`polyNorm` is sound**: an expression of the polynomial fragment has the value of its
normal form … -/
theorem polyNorm_value (ρ : String → K) (e : Expr) (p : Poly) (h : polyNorm e = some p) :
    evalK ρ e = some (evalPoly ρ p) :=
  polyNorm_eval ρ e p h

/-- … so two expressions with the same normal form have the same value in every field under every
assignment.  Run by the driver on (input, output of the real `expand`/`flatten`/folder): this is
translation validation of each individual output, with a verified checker. -/
theorem polyNorm_sound (a b : Expr) (p : Poly) (ha : polyNorm a = some p)
    (hb : polyNorm b = some p) (ρ : String → K) : evalK ρ a = evalK ρ b := by
  rw [polyNorm_eval ρ a p ha, polyNorm_eval ρ b p hb]

example : polyNorm (pw (S [x, i 1]) 2) = polyNorm (S [P [x, x], P [i 2, x], i 1]) := rfl
example : polyNorm (P [S [x, y], S [x, P [i (-1), y]]]) =
    some [([("x", 2)], 1), ([("y", 2)], -1)] := rfl

/-! ### what does NOT hold on the current tree (known findings, mirrored by the model) -/

/-- **expand does not reach its normal form**: a product with a non-sum factor before two sum
factors comes back with sums beneath products (`2*(x+1)*(x+2) ↦ 2*(2+x) + 2*(2*x+x**2)`). -/
theorem expanded_nf_cex : ∃ e e' : Expr, e.isPoly = true ∧ distM {} 30 e = .ok e' ∧
    e'.expandedNF = false :=
  ⟨P [i 2, S [x, i 1], S [x, i 2]],
   S [P [i 2, S [i 2, x]], P [i 2, S [P [i 2, x], pw x 2]]], rfl, rfl, rfl⟩

/-- **like terms stay unmerged under nested powers**: `(x**2)**3 + x**6` is returned unchanged
although both terms are the same polynomial. -/
theorem like_terms_cex : ∃ t₁ t₂ : Expr, (S [t₁, t₂]).isPoly = true ∧
    distM {} 30 (S [t₁, t₂]) = .ok (S [t₁, t₂]) ∧ polyNorm t₁ = polyNorm t₂ :=
  ⟨pw (pw x 2) 3, pw x 6, rfl, rfl, rfl⟩

/-- **expand raises on a sum with a term `1/d`** (`split_term expects a multiplicative term`) … -/
theorem expand_raises_cex : distM {} 30 (S [.bin .quot (i 1) y, z]) = .error .runtime := rfl

/-- … and so does `TermCollector` on a sum with any quotient term. -/
theorem collect_raises_cex : collectM [] 30 (S [.bin .quot x y, z]) = .error .runtime := rfl

/-- **a CSE wrapper around an empty tuple is replaced by 0** (flatten and both folders) -/
theorem cse_empty_tuple_cex :
    flattenM 10 (.cse (.tuple []) none "s") = .ok (i 0) ∧
    foldM false 10 (.cse (.tuple []) none "s") = .ok (i 0) := ⟨rfl, rfl⟩

end PV.C11
