import PV.Proofs.MemoRefines
import PV.Proofs.MemoInst
import PV.Proofs.MemoOpt
import PV.Properties.C02
/-
  C05 — memoization and mapper optimization are observationally transparent: property theorems.

  Model: PV/Model/Memo.lean.  A mapper class is a `Spec`: a handler family (`map_*` methods as
  first-order programs `Prog` that return, raise, or ask the dispatcher for another key), the
  equality of its cache keys, which keys are looked up at all, and which keys cannot be hashed.
  `plain` is `Mapper.__call__` (no cache), `callC` is `CachedMapper.__call__`/`rec` with the cache
  threaded through the recursion and through histories (`runHistC`) of calls on one instance.

  The generic theorems hold on an *admissible* set of keys `U`: closed under the requests of the
  handlers, handlers give equal keys equal answers (the purity assumption spelled out in the
  docstring of `get_cache_key`), hashing does not raise.  The instances discharge this on the
  universe of C02 where Python `==` is identity (`UK`).
-/
namespace PV.C05
open PV PV.Memo

variable {K X R : Type}

/-- **Transparency.**  For every handler family and every history of calls on ONE memoizing
instance, starting from the empty cache: every answer (value or exception) is exactly the answer
the non-memoizing dispatcher computes afresh for that call. -/
theorem cached_refines_plain {S : Spec K X R} {U : K → Prop} (hA : Admissible S U) (n : Nat)
    (ks : List K) (hU : ∀ k ∈ ks, U k) (hp : ∀ k ∈ ks, ∃ a, plain S n k = some a) :
    (runHistC S n ks {}).1 = ks.map (plain S n) :=
  (runHistC_refines hA n ks {} hU (inv_empty S U) hp).1

/-- … and one call from ANY state whose cache holds plain answers (whatever was computed, hit or
raised before). -/
theorem call_refines_plain {S : Spec K X R} {U : K → Prop} (hA : Admissible S U) (n : Nat)
    (k : K) (s : St K R) (a : Ans X R) (hk : U k) (hs : Inv S U s) (hp : plain S n k = some a) :
    ∃ s', callC S n k s = some (a, s') ∧ Inv S U s' :=
  callC_refines hA n k s a hk hs hp

/-- **Cache invariant.**  After any history, every entry of the cache is the plain answer for its
key. -/
theorem cache_inv {S : Spec K X R} {U : K → Prop} (hA : Admissible S U) (n : Nat)
    (ks : List K) (hU : ∀ k ∈ ks, U k) (hp : ∀ k ∈ ks, ∃ a, plain S n k = some a) :
    ∀ k r, (k, r) ∈ (runHistC S n ks {}).2.cache → ∃ m, plain S m k = some (.ok r) :=
  fun k r h => ((runHistC_refines hA n ks {} hU (inv_empty S U) hp).2 k r h).2

/-- A hit returns an entry stored under an EQUAL key, never anything else. -/
theorem hit_only_on_equal_key {keq : K → K → Bool} {k : K} {r : R} {c : List (K × R)}
    (h : lookup keq k c = some r) : ∃ k', (k', r) ∈ c ∧ keq k' k = true :=
  lookup_some h

/-- **At most once.**  Over any history on one instance, the handler of every key (up to key
equality) runs to completion at most once.  Needs key equality to be symmetric and transitive and
the handlers to descend in a measure respected by key equality (`Ordered`). -/
theorem at_most_once {S : Spec K X R} {U : K → Prop} {μ : K → Nat} (hO : Ordered S U μ) (n : Nat)
    (ks : List K) (hU : ∀ k ∈ ks, U k) (k : K) (hk : U k) :
    countKey S.keq k (runHistC S n ks {}).2.log ≤ 1 := by
  obtain ⟨_, u, p⟩ := runHistC_log hO n ks {} hU (logInv_empty S U)
  exact count_le_one hO k hk _ u p

/-- … equivalently: no two completed computations have equal keys, and the computed keys are
exactly the keys of the cache. -/
theorem computed_keys_distinct {S : Spec K X R} {U : K → Prop} {μ : K → Nat} (hO : Ordered S U μ)
    (n : Nat) (ks : List K) (hU : ∀ k ∈ ks, U k) :
    let s := (runHistC S n ks {}).2
    s.log = s.cache.map (·.1) ∧ s.log.Pairwise (fun a b => S.keq b a = false) := by
  obtain ⟨e, _, p⟩ := runHistC_log hO n ks {} hU (logInv_empty S U)
  exact ⟨e, p⟩

/-! ### the key separates scalar types and extra arguments -/

/-- `4`, `4.0` and `True`/`1` are equal in Python and hash alike, but their cache keys differ
(the type is part of the key); so do the keys of calls whose extra arguments differ. -/
theorem key_separates_types :
    Key.eq ⟨.const (.int 4), {}⟩ ⟨.const (.flt "4.0" 4 1), {}⟩ = false ∧
    Key.eq ⟨.const (.flt "4.0" 4 1), {}⟩ ⟨.const (.int 4), {}⟩ = false ∧
    Key.eq ⟨.const (.int 1), {}⟩ ⟨.const (.bool true), {}⟩ = false ∧
    Key.eq ⟨.const (.bool true), {}⟩ ⟨.const (.flt "1.0" 1 1), {}⟩ = false ∧
    (Expr.const (.int 4)).pyEq (.const (.flt "4.0" 4 1)) = true ∧
    (Expr.const (.int 1)).pyEq (.const (.bool true)) = true := by
  decide

theorem key_separates_tags (a b : Key) (h : a.expr.typeTag ≠ b.expr.typeTag) :
    Key.eq a b = false := by
  simp [Key.eq, Expr.keyEq, h]

theorem key_separates_args (a b : Key) (h : a.args.pyEq b.args = false) : Key.eq a b = false := by
  simp [Key.eq, h]

/-- different positional or keyword values give different keys (instances) -/
example : Key.eq ⟨.var "x", { args := [.str "_a"] }⟩ ⟨.var "x", { args := [.str "_b"] }⟩ = false ∧
    Key.eq ⟨.var "x", { kwargs := [("k", .int 1)] }⟩ ⟨.var "x", { kwargs := [("k", .int 2)] }⟩ = false ∧
    Key.eq ⟨.var "x", { args := [.int 1] }⟩ ⟨.var "x", { kwargs := [("k", .int 1)] }⟩ = false ∧
    Key.eq ⟨.var "x", { kwargs := [("k", .int 1), ("l", .int 2)] }⟩
      ⟨.var "x", { kwargs := [("l", .int 2), ("k", .int 1)] }⟩ = true := by
  decide

/-- The types of the EXTRA ARGUMENTS are not part of the key either: `m(x, 1)` and `m(x, True)`
look up the same entry (`(1,) == (True,)` in Python). -/
example : Key.eq ⟨.var "x", { args := [.int 1] }⟩ ⟨.var "x", { args := [.bool true] }⟩ = true := by
  decide

/-- Only the TOP-LEVEL type is part of the key: `Sum((x, 4))` and `Sum((x, 4.0))` are equal
expressions (C01) and share one entry. -/
theorem nested_constants_share :
    Key.eq ⟨.nary .sum [.var "x", .const (.int 4)], {}⟩
      ⟨.nary .sum [.var "x", .const (.flt "4.0" 4 1)], {}⟩ = true := by
  decide

/-! ### the optimizer -/

/-- **Optimizer, all 32 option sets.**  For a class whose `get_cache_key` takes and returns exactly
the extra arguments it uses (`Code.user`; `user true true` is the stock key), on the calls the
option set allows (`Allowed`: dropped `*args`/`**kwargs` are neither passed nor mentioned by the
key; with `inline_cache` the class key is `(type(expr), expr)` and no extra arguments are passed):
every dispatch — top level or `self.rec` site — computes its keys without raising; two dispatches
share a cache entry ONLY IF their original keys `(type, expr, args, kwargs)` are equal (no stale
answers); and, unless `inline_rec` is used without `inline_cache`, they share one WHENEVER the
original keys are equal (nothing is computed twice). -/
theorem optimizer_preserves_partial (o : Opts) (ka kk t1 t2 : Bool) (k1 k2 : Key)
    (h1 : Allowed o ka kk k1 = true) (h2 : Allowed o ka kk k2 = true) :
    ∃ ks1 ks2, siteKeys (optimize o (Code.user ka kk)) t1 k1 = .ok ks1 ∧
      siteKeys (optimize o (Code.user ka kk)) t2 k2 = .ok ks2 ∧
      (shares ks1 ks2 = true → Key.eq k1 k2 = true) ∧
      ((o.inlineRec = true → o.inlineCache = true) → shares ks1 ks2 = Key.eq k1 k2) := by
  refine ⟨_, _, siteKeys_optimize o ka kk t1 k1 h1, siteKeys_optimize o ka kk t2 k2 h2, ?_, ?_⟩
  · rw [shares_expected o ka kk t1 t2 k1 k2 h1 h2]
    intro h; simp only [Bool.and_eq_true] at h; exact h.2
  · intro hi
    rw [shares_expected o ka kk t1 t2 k1 k2 h1 h2]
    cases hr : o.inlineRec <;> cases hc : o.inlineCache <;> simp_all

/-- the unoptimized class is the special case of no options -/
example (ka kk t : Bool) (k : Key) (h : Allowed {} ka kk k = true) :
    siteKeys (Code.user ka kk) t k = .ok [userKey ka kk k] := by
  have e : optimize {} (Code.user ka kk) = Code.user ka kk := by cases ka <;> cases kk <;> decide
  have := siteKeys_optimize {} ka kk t k h
  rw [e] at this
  cases t <;> simpa [expectedKeys] using this

/-- **Finding** (`optimizer-inline-cache-ignores-args`): with `inline_cache` (with or without
`inline_rec`) and extra arguments not dropped, the inlined key is `(type(expr), expr)`: two
`self.rec` dispatches of `x` with different extra arguments share a cache entry although their
original keys differ. -/
theorem optimizer_inline_cache_args_cex :
    let o : Opts := { inlineRec := true, inlineCache := true }
    let k1 : Key := ⟨.var "x", { args := [.str "_a"] }⟩
    let k2 : Key := ⟨.var "x", { args := [.str "_b"] }⟩
    ∃ ks1 ks2, siteKeys (optimize o Code.stock) false k1 = .ok ks1 ∧
      siteKeys (optimize o Code.stock) false k2 = .ok ks2 ∧
      shares ks1 ks2 = true ∧ Key.eq k1 k2 = false := by
  refine ⟨_, _, rfl, rfl, ?_, ?_⟩ <;> decide

/-- **Finding** (`optimizer-inline-cache-key-mismatch`): with `inline_cache` and the stock
`get_cache_key`, `__call__` stores under `(type, expr, (), {})` but the `self.rec` sites look up
`(type, expr)`: the same dispatch at top level and inside a handler never shares an entry, so a
key is computed twice (even without extra arguments). -/
theorem optimizer_inline_cache_key_mismatch_cex :
    let o : Opts := { inlineRec := true, inlineCache := true }
    let k : Key := ⟨.var "x", {}⟩
    ∃ ks1 ks2, siteKeys (optimize o Code.stock) true k = .ok ks1 ∧
      siteKeys (optimize o Code.stock) false k = .ok ks2 ∧
      shares ks1 ks2 = false ∧ Key.eq k k = true := by
  refine ⟨_, _, rfl, rfl, ?_, ?_⟩ <;> decide

/-- **Finding** (`optimizer-inline-rec-disables-cache`): with `inline_rec` but without
`inline_cache` the `self.rec` sites call the handler directly and consult no cache at all:
subexpressions are recomputed at every occurrence. -/
theorem optimizer_inline_rec_uncached_cex :
    let o : Opts := { inlineRec := true }
    let k : Key := ⟨.var "x", {}⟩
    siteKeys (optimize o Code.stock) false k = .ok [] ∧ Key.eq k k = true := by
  refine ⟨rfl, ?_⟩; decide

/-- `drop_args` on a class that keeps the stock `get_cache_key`: the returned tuple still mentions
`args`, which is no longer a parameter — every call raises `NameError` (why `Allowed` asks for a
key that does not mention dropped arguments). -/
theorem optimizer_drop_args_stock_key_raises (e : Expr) :
    siteKeys (optimize { dropArgs := true } Code.stock) true ⟨e, {}⟩ = .error .nameError := by
  simp [optimize, Code.stock, Code.dropVarArgs, Sig.drop, Disp.dropStar, KeyExpr.dropStar,
    Disp.inlineRecCache, siteKeys, bindSig, Disp.keysFlat, KeyExpr.eval, Frame.parts, Frame.part,
    Frame.star, Frame.dstar, bind, Except.bind]

/-- the rewrites compose as the single pass does (each option is one function on the code) -/
example : optimize { dropArgs := true, dropKwargs := true } Code.stock
    = Code.stock.dropArgs.dropKwargs := by decide
example : optimize { inlineGetCacheKey := true } Code.stock = Code.stock.inlineGetCacheKey := by decide
example : optimize { inlineRec := true } Code.stock = Code.stock.inlineRec := by decide
example : optimize { inlineCache := true } Code.stock = Code.stock.inlineCache := by decide

/-! ### instances -/

/-- the keys of the instance theorems: expressions and positional arguments on which Python `==`
is identity (no bool/float constants, keyword calls, Python lists), no keyword arguments -/
abbrev UK := Memo.UK

/-- **Dependency mapper.**  `CachedDependencyMapper` (any flag set), any history on the simple
universe, fuel beyond the largest expression: every answer is the plain `DependencyMapper` answer. -/
theorem deps_cached_refines_plain (fl : DepFlags) (n : Nat) (ks : List Key)
    (hU : ∀ k ∈ ks, UK k) (hn : ∀ k ∈ ks, k.expr.size < n) :
    (runHistC (depsSpec fl) n ks {}).1 = ks.map (plain (depsSpec fl) n) :=
  have hD := descends_of_children (depsProg fl) DepErr.unhashable (depsProg_calls fl)
  cached_refines_plain hD.admissible n ks hU
    fun k hk => plain_total hD.calls n k (hU k hk) (hn k hk)

theorem deps_at_most_once (fl : DepFlags) (n : Nat) (ks : List Key) (hU : ∀ k ∈ ks, UK k)
    (k : Key) (hk : UK k) : countKey Key.eq k (runHistC (depsSpec fl) n ks {}).2.log ≤ 1 :=
  at_most_once (descends_of_children (depsProg fl) DepErr.unhashable (depsProg_calls fl)).ordered
    n ks hU k hk

/-- **CSE mix-in** on the plain dependency mapper (`DependencyMapper`: only common-subexpression
nodes are cached, by `(expr, *args)`): transparent as well. -/
theorem cse_mixin_refines_plain (fl : DepFlags) (n : Nat) (ks : List Key)
    (hU : ∀ k ∈ ks, UK k) (hn : ∀ k ∈ ks, k.expr.size < n) :
    (runHistC (cseMixinSpec (depsProg fl) DepErr.unhashable) n ks {}).1
      = ks.map (plain (cseMixinSpec (depsProg fl) DepErr.unhashable) n) :=
  have hD := descends_of_children_cse (depsProg fl) DepErr.unhashable (depsProg_calls fl)
  cached_refines_plain hD.admissible n ks hU
    fun k hk => plain_total hD.calls n k (hU k hk) (hn k hk)

/-- **Node counter** family (1 + children). -/
theorem size_cached_refines_plain (n : Nat) (ks : List Key)
    (hU : ∀ k ∈ ks, UK k) (hn : ∀ k ∈ ks, k.expr.size < n) :
    (runHistC sizeSpec n ks {}).1 = ks.map (plain sizeSpec n) :=
  have hD := descends_of_children sizeProg DepErr.unhashable sizeProg_calls
  cached_refines_plain hD.admissible n ks hU
    fun k hk => plain_total hD.calls n k (hU k hk) (hn k hk)

theorem size_at_most_once (n : Nat) (ks : List Key) (hU : ∀ k ∈ ks, UK k)
    (k : Key) (hk : UK k) : countKey Key.eq k (runHistC sizeSpec n ks {}).2.log ≤ 1 :=
  at_most_once (descends_of_children sizeProg DepErr.unhashable sizeProg_calls).ordered n ks hU k hk

/-- **Evaluator** (C02): the memoizing evaluator with both of its caches agrees with the plain one
on every history (`PV.C02.plain_eq_cached`, `PV.C02.history_eq_den`). -/
theorem eval_cached_refines_plain {env : Env} {U : Expr → Prop} (hU : Universe U)
    (es : List Expr) (h : ∀ e ∈ es, U e) :
    runHist true env es {} = runHist false env es {} ∧ runHist true env es {} = es.map (den env) :=
  ⟨(C02.plain_eq_cached hU es h).symm, C02.history_eq_den hU true es {} h C02.evInv_empty⟩

/-- Known finding shared with C02, in this model: a memoizing mapper raises on every key that
contains a Python list, whatever the plain mapper returns. -/
theorem cached_list_raises {X R : Type} (h : Key → Prog Key X R) (te : X) (n : Nat) (k : Key)
    (s : St Key R) (hl : k.expr.hasList = true) :
    callC (cachedSpec h te) (n+1) k s = some (.error te, s) := by
  simp [callC, cachedSpec, hl]

/-! ### non-vacuity -/

/-- a history with a shared subtree, a repeated call and two different extra arguments: the answers
are the plain ones; `x`, `x*x` and the sum are computed once per argument tuple -/
example :
    let x := Expr.var "x"
    let e := Expr.nary .sum [x, .nary .prod [x, x]]
    let a : ArgKey := { args := [.str "_a"] }
    let hist : List Key := [⟨e, {}⟩, ⟨e, {}⟩, ⟨.nary .prod [x, x], {}⟩, ⟨e, a⟩]
    (runHistC sizeSpec 10 hist {}).1 = [some (.ok 5), some (.ok 5), some (.ok 3), some (.ok 5)] ∧
    hist.map (plain sizeSpec 10) = [some (.ok 5), some (.ok 5), some (.ok 3), some (.ok 5)] ∧
    (runHistC sizeSpec 10 hist {}).2.log.length = 6 ∧
    hist.all (fun k => k.expr.simple && k.args.simple) = true := by
  intro x e a hist
  exact ⟨by rfl, by rfl, by rfl, by rfl⟩

/-- the dependency family on a tree with a call, both caches of the real class exercised by the
correspondence streams: here the memo table alone -/
example :
    let f := Expr.var "f"; let x := Expr.var "x"; let y := Expr.var "y"
    let e := Expr.nary .sum [.call f [x], .bin .pow y (.const (.int 2)), .call f [x]]
    (runHistC (depsSpec { calls := .no }) 10 [⟨e, {}⟩] {}).1 = [some (.ok [f, x, y])] ∧
    (runHistC (depsSpec {}) 10 [⟨e, {}⟩] {}).1 = [some (.ok [.call f [x], y])] ∧
    ((runHistC (depsSpec {}) 10 [⟨e, {}⟩] {}).2.trace.map (·.1)).reverse
      = [false, false, false, false, false, true] := by
  intro f x y e
  exact ⟨by rfl, by rfl, by rfl⟩

end PV.C05
