import PV.Proofs.MemoRefines
import PV.Proofs.MemoInst
import PV.Proofs.MemoOpt
import PV.Proofs.MemoTable
import PV.Generated.Caching
import PV.Properties.C02
/-
  C05 — memoization and mapper optimization are observationally transparent: property theorems.

  Model: PV/Model/Memo.lean.  A mapper class is a `Spec`: a handler family (`map_*` methods as
  first-order programs `Prog` that return, raise, or ask the dispatcher for another key), the
  equality of its cache keys, which keys are looked up at all, and which keys cannot be hashed.
  `plain` is `Mapper.__call__` (no cache), `callC` is `CachedMapper.__call__`/`rec` with the cache
  threaded through the recursion and through histories (`runHistC`) of calls on one instance.

  The generic theorems hold on an *admissible* set of keys `U`: closed under the requests of the
  handlers, handlers give equal keys equal answers (the purity assumption spelled out in the
  docstring of `get_cache_key`), hashing does not raise.  The instances discharge this on the
  universe of C02 where Python `==` is identity (`UK`).
-/
namespace PV.C05
open PV PV.Memo

variable {K X R : Type}

/-- **Transparency.**  For every handler family and every history of calls on ONE memoizing
instance, starting from the empty cache: every answer (value or exception) is exactly the answer
the non-memoizing dispatcher computes afresh for that call. -/
theorem cached_refines_plain {S : Spec K X R} {U : K → Prop} (hA : Admissible S U) (n : Nat)
    (ks : List K) (hU : ∀ k ∈ ks, U k) (hp : ∀ k ∈ ks, ∃ a, plain S n k = some a) :
    (runHistC S n ks {}).1 = ks.map (plain S n) :=
  (runHistC_refines hA n ks {} hU (inv_empty S U) hp).1

/-- … and one call from ANY state whose cache holds plain answers (whatever was computed, hit or
raised before). -/
theorem call_refines_plain {S : Spec K X R} {U : K → Prop} (hA : Admissible S U) (n : Nat)
    (k : K) (s : St K R) (a : Ans X R) (hk : U k) (hs : Inv S U s) (hp : plain S n k = some a) :
    ∃ s', callC S n k s = some (a, s') ∧ Inv S U s' :=
  callC_refines hA n k s a hk hs hp

/-- **Cache invariant.**  After any history, every entry of the cache is the plain answer for its
key. -/
theorem cache_inv {S : Spec K X R} {U : K → Prop} (hA : Admissible S U) (n : Nat)
    (ks : List K) (hU : ∀ k ∈ ks, U k) (hp : ∀ k ∈ ks, ∃ a, plain S n k = some a) :
    ∀ k r, (k, r) ∈ (runHistC S n ks {}).2.cache → ∃ m, plain S m k = some (.ok r) :=
  fun k r h => ((runHistC_refines hA n ks {} hU (inv_empty S U) hp).2 k r h).2

/-- A hit returns an entry stored under an EQUAL key, never anything else. -/
theorem hit_only_on_equal_key {keq : K → K → Bool} {k : K} {r : R} {c : List (K × R)}
    (h : lookup keq k c = some r) : ∃ k', (k', r) ∈ c ∧ keq k' k = true :=
  lookup_some h

/-- **At most once.**  Over any history on one instance, the handler of every key (up to key
equality) runs to completion at most once.  Needs key equality to be symmetric and transitive and
the handlers to descend in a measure respected by key equality (`Ordered`). -/
theorem at_most_once {S : Spec K X R} {U : K → Prop} {μ : K → Nat} (hO : Ordered S U μ) (n : Nat)
    (ks : List K) (hU : ∀ k ∈ ks, U k) (k : K) (hk : U k) :
    countKey S.keq k (runHistC S n ks {}).2.log ≤ 1 := by
  obtain ⟨_, u, p⟩ := runHistC_log hO n ks {} hU (logInv_empty S U)
  exact count_le_one hO k hk _ u p

/-- … equivalently: no two completed computations have equal keys, and the computed keys are
exactly the keys of the cache. -/
theorem computed_keys_distinct {S : Spec K X R} {U : K → Prop} {μ : K → Nat} (hO : Ordered S U μ)
    (n : Nat) (ks : List K) (hU : ∀ k ∈ ks, U k) :
    let s := (runHistC S n ks {}).2
    s.log = s.cache.map (·.1) ∧ s.log.Pairwise (fun a b => S.keq b a = false) := by
  obtain ⟨e, _, p⟩ := runHistC_log hO n ks {} hU (logInv_empty S U)
  exact ⟨e, p⟩

/-! ### the key separates scalar types and extra arguments -/

/-- `4`, `4.0` and `True`/`1` are equal in Python and hash alike, but their cache keys differ
(the type is part of the key); so do the keys of calls whose extra arguments differ. -/
theorem key_separates_types :
    Key.eq ⟨.const (.int 4), {}⟩ ⟨.const (.flt "4.0" 4 1), {}⟩ = false ∧
    Key.eq ⟨.const (.flt "4.0" 4 1), {}⟩ ⟨.const (.int 4), {}⟩ = false ∧
    Key.eq ⟨.const (.int 1), {}⟩ ⟨.const (.bool true), {}⟩ = false ∧
    Key.eq ⟨.const (.bool true), {}⟩ ⟨.const (.flt "1.0" 1 1), {}⟩ = false ∧
    (Expr.const (.int 4)).pyEq (.const (.flt "4.0" 4 1)) = true ∧
    (Expr.const (.int 1)).pyEq (.const (.bool true)) = true := by
  decide

theorem key_separates_tags (a b : Key) (h : a.expr.typeTag ≠ b.expr.typeTag) :
    Key.eq a b = false := by
  simp [Key.eq, Expr.keyEq, h]

theorem key_separates_args (a b : Key) (h : a.args.pyEq b.args = false) : Key.eq a b = false := by
  simp [Key.eq, h]

/-- different positional or keyword values give different keys (instances) -/
example : Key.eq ⟨.var "x", { args := [.str "_a"] }⟩ ⟨.var "x", { args := [.str "_b"] }⟩ = false ∧
    Key.eq ⟨.var "x", { kwargs := [("k", .int 1)] }⟩ ⟨.var "x", { kwargs := [("k", .int 2)] }⟩ = false ∧
    Key.eq ⟨.var "x", { args := [.int 1] }⟩ ⟨.var "x", { kwargs := [("k", .int 1)] }⟩ = false ∧
    Key.eq ⟨.var "x", { kwargs := [("k", .int 1), ("l", .int 2)] }⟩
      ⟨.var "x", { kwargs := [("l", .int 2), ("k", .int 1)] }⟩ = true := by
  decide

/-- The types of the EXTRA ARGUMENTS are not part of the key either: `m(x, 1)` and `m(x, True)`
look up the same entry (`(1,) == (True,)` in Python). -/
example : Key.eq ⟨.var "x", { args := [.int 1] }⟩ ⟨.var "x", { args := [.bool true] }⟩ = true := by
  decide

/-- Only the TOP-LEVEL type is part of the key: `Sum((x, 4))` and `Sum((x, 4.0))` are equal
expressions (C01) and share one entry. -/
theorem nested_constants_share :
    Key.eq ⟨.nary .sum [.var "x", .const (.int 4)], {}⟩
      ⟨.nary .sum [.var "x", .const (.flt "4.0" 4 1)], {}⟩ = true := by
  decide

/-! ### the optimizer -/

/-- **Optimizer, all 32 option sets.**  For a class whose `get_cache_key` takes and returns exactly
the extra arguments it uses (`Code.user`; `user true true` is the stock key), on the calls the
option set allows (`Allowed`: dropped `*args`/`**kwargs` are neither passed nor mentioned by the
key; with `inline_cache` the class key is `(type(expr), expr)` and no extra arguments are passed):
every dispatch — top level or `self.rec` site — computes its keys without raising; two dispatches
share a cache entry ONLY IF their original keys `(type, expr, args, kwargs)` are equal (no stale
answers); and, unless `inline_rec` is used without `inline_cache`, they share one WHENEVER the
original keys are equal (nothing is computed twice). -/
theorem optimizer_preserves_partial (o : Opts) (ka kk t1 t2 : Bool) (k1 k2 : Key)
    (h1 : Allowed o ka kk k1 = true) (h2 : Allowed o ka kk k2 = true) :
    ∃ ks1 ks2, siteKeys (optimize o (Code.user ka kk)) t1 k1 = .ok ks1 ∧
      siteKeys (optimize o (Code.user ka kk)) t2 k2 = .ok ks2 ∧
      (shares ks1 ks2 = true → Key.eq k1 k2 = true) ∧
      ((o.inlineRec = true → o.inlineCache = true) → shares ks1 ks2 = Key.eq k1 k2) := by
  refine ⟨_, _, siteKeys_optimize o ka kk t1 k1 h1, siteKeys_optimize o ka kk t2 k2 h2, ?_, ?_⟩
  · rw [shares_expected o ka kk t1 t2 k1 k2 h1 h2]
    intro h; simp only [Bool.and_eq_true] at h; exact h.2
  · intro hi
    rw [shares_expected o ka kk t1 t2 k1 k2 h1 h2]
    cases hr : o.inlineRec <;> cases hc : o.inlineCache <;> simp_all

/-- the unoptimized class is the special case of no options -/
example (ka kk t : Bool) (k : Key) (h : Allowed {} ka kk k = true) :
    siteKeys (Code.user ka kk) t k = .ok [userKey ka kk k] := by
  have e : optimize {} (Code.user ka kk) = Code.user ka kk := by cases ka <;> cases kk <;> decide
  have := siteKeys_optimize {} ka kk t k h
  rw [e] at this
  cases t <;> simpa [expectedKeys] using this

/-- **Finding** (`optimizer-inline-cache-ignores-args`): with `inline_cache` (with or without
`inline_rec`) and extra arguments not dropped, the inlined key is `(type(expr), expr)`: two
`self.rec` dispatches of `x` with different extra arguments share a cache entry although their
original keys differ. -/
theorem optimizer_inline_cache_args_cex :
    let o : Opts := { inlineRec := true, inlineCache := true }
    let k1 : Key := ⟨.var "x", { args := [.str "_a"] }⟩
    let k2 : Key := ⟨.var "x", { args := [.str "_b"] }⟩
    ∃ ks1 ks2, siteKeys (optimize o Code.stock) false k1 = .ok ks1 ∧
      siteKeys (optimize o Code.stock) false k2 = .ok ks2 ∧
      shares ks1 ks2 = true ∧ Key.eq k1 k2 = false := by
  refine ⟨_, _, rfl, rfl, ?_, ?_⟩ <;> decide

/-- **Finding** (`optimizer-inline-cache-key-mismatch`): with `inline_cache` and the stock
`get_cache_key`, `__call__` stores under `(type, expr, (), {})` but the `self.rec` sites look up
`(type, expr)`: the same dispatch at top level and inside a handler never shares an entry, so a
key is computed twice (even without extra arguments). -/
theorem optimizer_inline_cache_key_mismatch_cex :
    let o : Opts := { inlineRec := true, inlineCache := true }
    let k : Key := ⟨.var "x", {}⟩
    ∃ ks1 ks2, siteKeys (optimize o Code.stock) true k = .ok ks1 ∧
      siteKeys (optimize o Code.stock) false k = .ok ks2 ∧
      shares ks1 ks2 = false ∧ Key.eq k k = true := by
  refine ⟨_, _, rfl, rfl, ?_, ?_⟩ <;> decide

/-- **Finding** (`optimizer-inline-rec-disables-cache`): with `inline_rec` but without
`inline_cache` the `self.rec` sites call the handler directly and consult no cache at all:
subexpressions are recomputed at every occurrence. -/
theorem optimizer_inline_rec_uncached_cex :
    let o : Opts := { inlineRec := true }
    let k : Key := ⟨.var "x", {}⟩
    siteKeys (optimize o Code.stock) false k = .ok [] ∧ Key.eq k k = true := by
  refine ⟨rfl, ?_⟩; decide

/-- `drop_args` on a class that keeps the stock `get_cache_key`: the returned tuple still mentions
`args`, which is no longer a parameter — every call raises `NameError` (why `Allowed` asks for a
key that does not mention dropped arguments). -/
theorem optimizer_drop_args_stock_key_raises (e : Expr) :
    siteKeys (optimize { dropArgs := true } Code.stock) true ⟨e, {}⟩ = .error .nameError := by
  simp [optimize, Code.stock, Code.dropVarArgs, Sig.drop, Disp.dropStar, KeyExpr.dropStar,
    Disp.inlineRecCache, siteKeys, bindSig, Disp.keysFlat, KeyExpr.eval, Frame.parts, Frame.part,
    Frame.star, Frame.dstar, bind, Except.bind]

/-- the rewrites compose as the single pass does (each option is one function on the code) -/
example : optimize { dropArgs := true, dropKwargs := true } Code.stock
    = Code.stock.dropArgs.dropKwargs := by decide
example : optimize { inlineGetCacheKey := true } Code.stock = Code.stock.inlineGetCacheKey := by decide
example : optimize { inlineRec := true } Code.stock = Code.stock.inlineRec := by decide
example : optimize { inlineCache := true } Code.stock = Code.stock.inlineCache := by decide

/-! ### instances -/

/-- the keys of the instance theorems: expressions and positional arguments on which Python `==`
is identity (no bool/float constants, keyword calls, Python lists), no keyword arguments -/
abbrev UK := Memo.UK

/-- **Dependency mapper.**  `CachedDependencyMapper` (any flag set), any history on the simple
universe, fuel beyond the largest expression: every answer is the plain `DependencyMapper` answer. -/
theorem deps_cached_refines_plain (fl : DepFlags) (n : Nat) (ks : List Key)
    (hU : ∀ k ∈ ks, UK k) (hn : ∀ k ∈ ks, k.expr.size < n) :
    (runHistC (depsSpec fl) n ks {}).1 = ks.map (plain (depsSpec fl) n) :=
  have hD := descends_of_children (depsProg fl) DepErr.unhashable (depsProg_calls fl)
  cached_refines_plain hD.admissible n ks hU
    fun k hk => plain_total hD.calls n k (hU k hk) (hn k hk)

theorem deps_at_most_once (fl : DepFlags) (n : Nat) (ks : List Key) (hU : ∀ k ∈ ks, UK k)
    (k : Key) (hk : UK k) : countKey Key.eq k (runHistC (depsSpec fl) n ks {}).2.log ≤ 1 :=
  at_most_once (descends_of_children (depsProg fl) DepErr.unhashable (depsProg_calls fl)).ordered
    n ks hU k hk

/-- **CSE mix-in** on the plain dependency mapper (`DependencyMapper`: only common-subexpression
nodes are cached, by `(expr, *args)`): transparent as well. -/
theorem cse_mixin_refines_plain (fl : DepFlags) (n : Nat) (ks : List Key)
    (hU : ∀ k ∈ ks, UK k) (hn : ∀ k ∈ ks, k.expr.size < n) :
    (runHistC (cseMixinSpec (depsProg fl) DepErr.unhashable) n ks {}).1
      = ks.map (plain (cseMixinSpec (depsProg fl) DepErr.unhashable) n) :=
  have hD := descends_of_children_cse (depsProg fl) DepErr.unhashable (depsProg_calls fl)
  cached_refines_plain hD.admissible n ks hU
    fun k hk => plain_total hD.calls n k (hU k hk) (hn k hk)

/-- **Node counter** family (1 + children). -/
theorem size_cached_refines_plain (n : Nat) (ks : List Key)
    (hU : ∀ k ∈ ks, UK k) (hn : ∀ k ∈ ks, k.expr.size < n) :
    (runHistC sizeSpec n ks {}).1 = ks.map (plain sizeSpec n) :=
  have hD := descends_of_children sizeProg DepErr.unhashable sizeProg_calls
  cached_refines_plain hD.admissible n ks hU
    fun k hk => plain_total hD.calls n k (hU k hk) (hn k hk)

theorem size_at_most_once (n : Nat) (ks : List Key) (hU : ∀ k ∈ ks, UK k)
    (k : Key) (hk : UK k) : countKey Key.eq k (runHistC sizeSpec n ks {}).2.log ≤ 1 :=
  at_most_once (descends_of_children sizeProg DepErr.unhashable sizeProg_calls).ordered n ks hU k hk

/-- **Evaluator** (C02): the memoizing evaluator with both of its caches agrees with the plain one
on every history (`PV.C02.plain_eq_cached`, `PV.C02.history_eq_den`). -/
theorem eval_cached_refines_plain {env : Env} {U : Expr → Prop} (hU : Universe U)
    (es : List Expr) (h : ∀ e ∈ es, U e) :
    runHist true env es {} = runHist false env es {} ∧ runHist true env es {} = es.map (den env) :=
  ⟨(C02.plain_eq_cached hU es h).symm, C02.history_eq_den hU true es {} h C02.evInv_empty⟩

/-- Known finding shared with C02, in this model: a memoizing mapper raises on every key that
contains a Python list, whatever the plain mapper returns. -/
theorem cached_list_raises {X R : Type} (h : Key → Prog Key X R) (te : X) (n : Nat) (k : Key)
    (s : St Key R) (hl : k.expr.hasList = true) :
    callC (cachedSpec h te) (n+1) k s = some (.error te, s) := by
  simp [callC, cachedSpec, hl]

/-! ### non-vacuity -/

/-- a history with a shared subtree, a repeated call and two different extra arguments: the answers
are the plain ones; `x`, `x*x` and the sum are computed once per argument tuple -/
example :
    let x := Expr.var "x"
    let e := Expr.nary .sum [x, .nary .prod [x, x]]
    let a : ArgKey := { args := [.str "_a"] }
    let hist : List Key := [⟨e, {}⟩, ⟨e, {}⟩, ⟨.nary .prod [x, x], {}⟩, ⟨e, a⟩]
    (runHistC sizeSpec 10 hist {}).1 = [some (.ok 5), some (.ok 5), some (.ok 3), some (.ok 5)] ∧
    hist.map (plain sizeSpec 10) = [some (.ok 5), some (.ok 5), some (.ok 3), some (.ok 5)] ∧
    (runHistC sizeSpec 10 hist {}).2.log.length = 6 ∧
    hist.all (fun k => k.expr.simple && k.args.simple) = true := by
  intro x e a hist
  exact ⟨by rfl, by rfl, by rfl, by rfl⟩

/-- the dependency family on a tree with a call, both caches of the real class exercised by the
correspondence streams: here the memo table alone -/
example :
    let f := Expr.var "f"; let x := Expr.var "x"; let y := Expr.var "y"
    let e := Expr.nary .sum [.call f [x], .bin .pow y (.const (.int 2)), .call f [x]]
    (runHistC (depsSpec { calls := .no }) 10 [⟨e, {}⟩] {}).1 = [some (.ok [f, x, y])] ∧
    (runHistC (depsSpec {}) 10 [⟨e, {}⟩] {}).1 = [some (.ok [.call f [x], y])] ∧
    ((runHistC (depsSpec {}) 10 [⟨e, {}⟩] {}).2.trace.map (·.1)).reverse
      = [false, false, false, false, false, true] := by
  intro f x y e
  exact ⟨by rfl, by rfl, by rfl⟩

/-! ### T-gen: the cache protocol regenerated from the source of the tree under test

`extract/caching.py` reads, on every run, the live classes and the live optimizer into
`PV/Generated/Caching.lean`.  The theorems below say that what was read IS what the model above was
written from; they stop holding (and the check reports them as broken, together with the failing
histories the correspondence streams find) when the source changes the key, the order of look-up,
handler call and store, the hit test, a store on one of the two dispatch paths, the place a caching
class takes in an MRO, what a `__call__` override passes on, or what a rewrite of the optimizer
does. -/

open PV.Generated

/-- **The cache key of the current source.**  `CachedMapper.get_cache_key` takes `(expr, *args,
**kwargs)` and returns the tuple `(type(expr), expr, args, immutabledict(kwargs))` — the key the
optimizer model starts from (`Code.stock`) — and Python's `==` on two such tuples is the model's
key equality `Key.eq` (the `keq` of every `cachedSpec`).  Dropping `type(expr)` or `args` from the
tuple, or reordering it, changes the regenerated table and breaks this theorem. -/
theorem key_shape_current (a b : Key) :
    c05GetCacheKey = c05ExpectedGetKey ∧
    c05GetCacheKey.sig = Code.stock.getKeySig ∧
    c05GetCacheKey.items = Code.stock.getKeyBody.map .part ∧
    c05TupleEq c05GetCacheKey.items a b = Key.eq a b := by
  have h : c05GetCacheKey = c05ExpectedGetKey := by decide
  refine ⟨h, by rw [h]; rfl, by rw [h]; rfl, ?_⟩
  rw [h]; exact c05TupleEq_stock a b

/-- non-vacuity: the regenerated key separates `4` from `4.0` and `("_a",)` from `("_b",)`; without
its first component it would not separate the scalars -/
example :
    c05TupleEq c05GetCacheKey.items ⟨.const (.int 4), {}⟩ ⟨.const (.flt "4.0" 4 1), {}⟩ = false ∧
    c05TupleEq c05GetCacheKey.items ⟨.var "x", { args := [.str "_a"] }⟩
      ⟨.var "x", { args := [.str "_b"] }⟩ = false ∧
    c05TupleEq (c05GetCacheKey.items.drop 1) ⟨.const (.int 4), {}⟩ ⟨.const (.flt "4.0" 4 1), {}⟩
      = true := by
  decide

/-- **The key of the CSE mix-in in the current source** is `(expr, *args)`: Python's `==` on two
such tuples is `Key.cseEq` (the `keq` of `cseMixinSpec`): no type component, positional arguments
spliced in, no keyword arguments (the method takes none). -/
theorem cse_key_shape_current (a b : Key) :
    c05CseMixinKey = [.part .expr, .splatArgs] ∧
    c05CseMixinMethod.sig = ⟨true, false⟩ ∧
    c05TupleEq c05CseMixinKey a b = Key.cseEq a b := by
  have h : c05CseMixinKey = [.part .expr, .splatArgs] := by decide
  refine ⟨h, by rfl, ?_⟩
  rw [h]; exact c05TupleEq_cse a b

example : c05TupleEq c05CseMixinKey ⟨.cse (.const (.int 1)) none "", {}⟩
    ⟨.cse (.const (.bool true)) none "", {}⟩ = true ∧
    c05TupleEq c05CseMixinKey ⟨.var "x", { args := [.int 1] }⟩ ⟨.var "x", { args := [.int 2] }⟩ = false ∧
    c05TupleEq c05CseMixinKey ⟨.var "x", { args := [.int 1] }⟩ ⟨.var "x", {}⟩ = false := by
  decide

/-- **The cache protocol of the current source is `callC`.**  Run the body of
`CachedMapper.__call__` as regenerated from the source (statement by statement: `dict.get` with the
walrus-bound key and the sentinel default, `is not` test, method look-up, handler call, store,
return) for ANY handler family, cache state, dispatch path (`hasName`/`hasMethod`: method path or
`rec_fallback` path) and with `self.rec` inside the handlers being the memoizing dispatcher: the
outcome — answer or exception, cache, computation log, hit/miss trace — is exactly that of the
model's `callC`, to which `cached_refines_plain`, `cache_inv` and `at_most_once` apply.  Moving a
store before the handler call, testing the cached result for truth instead of identity with the
sentinel, or dropping the store on the fallback path changes the regenerated body and breaks this
theorem. -/
theorem cache_protocol_current (S : Spec K X R) (n : Nat) (k : K) (s : St K R)
    (hasName hasMethod : Bool) (falsy isNone : R → Bool) (hc : S.cacheable k = true) :
    c05Run c05CachedMapperCall (c05CallCtx S n k hasName hasMethod falsy isNone) s
      = .ofOption (callC S (n+1) k s) := by
  have h : c05CachedMapperCall = c05ExpectedCall := by rfl
  rw [h]; exact c05Run_expectedCall S n k s hasName hasMethod falsy isNone hc

/-- non-vacuity, and the reading is sensitive to exactly the edits it is meant to catch: on a
counter whose handler answers `0` (a falsy result) the regenerated body computes `x` once over two
calls; the same body with `result = self._cache.get(key)` / `if result:` computes it twice; with the store of the method
path moved before the handler call it has no meaning at all. -/
example :
    let S : Spec Key DepErr Nat := cachedSpec (fun _ => .ret 0) .unhashable
    let ctx := c05CallCtx S 3 ⟨.var "x", {}⟩ true true (fun r => r == 0) (fun _ => false)
    let twice (m : C05Method) : Option Nat := match c05Run m ctx {} with
      | .done _ s1 => (match c05Run m ctx s1 with | .done _ s2 => some s2.log.length | _ => none)
      | _ => none
    let truthyTest : C05Method := { c05CachedMapperCall with
      body := (c05CachedMapperCall.body.set 0 (.assign "result" (.cacheGet (.selfAttr "_cache")
          "cache_key" (some (.getKeyCall true true)) none))).set 1
        (.ifThen (.truthy "result") [.ret "result"] []) }
    let storeFirst : C05Method := { c05CachedMapperCall with
      body := c05CachedMapperCall.body.set 3 (.ifThen (.isNot "method_name" .pyNone) [
        .assign "method" (.selfMethod "method_name"),
        .ifThen (.isNot "method" .pyNone) [
          .store (.selfAttr "_cache") "cache_key" "result",
          .assign "result" (.callVar "method" true true),
          .ret "result"] []] []) }
    twice c05CachedMapperCall = some 1 ∧ twice truthyTest = some 2 ∧ twice storeFirst = none := by
  intro S ctx twice truthyTest storeFirst
  exact ⟨by rfl, by rfl, by rfl⟩

/-- … and without the store on the fallback path a constant (dispatched through `rec_fallback`:
no `mapper_method`) is computed at every call -/
example :
    let S : Spec Key DepErr Nat := cachedSpec (fun _ => .ret 7) .unhashable
    let ctx := c05CallCtx S 3 ⟨.const (.int 4), {}⟩ false false (fun r => r == 0) (fun _ => false)
    let twice (m : C05Method) : Option Nat := match c05Run m ctx {} with
      | .done _ s1 => (match c05Run m ctx s1 with | .done _ s2 => some s2.log.length | _ => none)
      | _ => none
    let noFallbackStore : C05Method := { c05CachedMapperCall with
      body := c05CachedMapperCall.body.eraseIdx 5 }
    twice c05CachedMapperCall = some 1 ∧ twice noFallbackStore = some 0 := by
  intro S ctx twice noFallbackStore
  exact ⟨by rfl, by rfl⟩

/-- **The CSE mix-in of the current source is `callC` on its own dictionary.**  The body of
`CSECachingMapperMixin.map_common_subexpression` as regenerated (dictionary created lazily per
instance, key `(expr, *args)`, `try: return ccd[key]` / `except KeyError:` compute with
`map_common_subexpression_uncached`, store, return) is, on the nodes it is the handler of
(`cacheable`), the model's `callC` — in particular `callC (cseMixinSpec h _)`. -/
theorem cse_protocol_current (S : Spec K X R) (n : Nat) (k : K) (s : St K R)
    (falsy isNone : R → Bool) (hc : S.cacheable k = true) :
    c05Run c05CseMixinMethod (c05CseCtx S n k falsy isNone) s = .ofOption (callC S (n+1) k s) := by
  have h : c05CseMixinMethod = c05ExpectedCse := by rfl
  rw [h]; exact c05Run_expectedCse S n k s falsy isNone hc

example :
    let S : Spec Key DepErr (List Expr) := cseMixinSpec (depsProg {}) .unhashable
    let k : Key := ⟨.cse (.var "x") none "", {}⟩
    (match c05Run c05CseMixinMethod (c05CseCtx S 3 k (fun _ => false) (fun _ => false)) {} with
      | .done (.ok r) s => some (r, s.cache.length, s.trace.map (·.1))
      | _ => none) = some ([.var "x"], 1, [false]) := by
  intro S k; rfl

/-- **Where the caches live, in the current source.**  The sentinel the look-up of
`CachedMapper.__call__` uses is bound exactly once, at module level, to a fresh `object()` (no
mapper result can be identical to it); `_cache` is created empty in `CachedMapper.__init__` and
`_cse_cache_dict` lazily per instance; no class body on the MRO of any caching class binds either
attribute (a class-level dictionary would be shared by all instances, where the model starts every
instance from the empty state `{}`). -/
theorem cache_state_current :
    c05Sentinels = [("_NOT_IN_CACHE", true)] ∧
    c05DictInits = [⟨"CachedMapper", "_cache", true⟩,
                    ⟨"CSECachingMapperMixin", "_cse_cache_dict", true⟩] ∧
    c05ClassLevelCaches = [] := by
  decide

/-! #### which classes the protocol governs -/

def cmCall := "pymbolic.mapper.CachedMapper.__call__"

/-- does a `__call__` override do nothing but enter `CachedMapper.__call__` on the SAME instance
with everything it received: the instance is passed, `expr` and the override's own defaulted
parameters (they become leading extra arguments, hence part of the key) come first, `*args` and
`**kwargs` follow -/
def c05HandsOver (o : C05CallOverride) : Bool :=
  o.targetFn == cmCall && o.passesSelf && o.forwardsAll

/-- is `c` dispatched by `CachedMapper.__call__`, given the `__call__` overrides `ovs`: `__call__`
is that function or an override that hands over to it (`c05HandsOver`); `rec` (what the handlers
recurse through) IS that function; `get_cache_key` is `CachedMapper`'s, `rec_fallback` is `Mapper`'s
dispatch, and `__init__` reaches `CachedMapper.__init__` -/
def c05WrappedBy (ovs : List C05CallOverride) (c : C05Class) : Bool :=
  (match c05Resolve c05Defines "__call__" c.mro with
    | some f => f == cmCall || ovs.any (fun o => o.fn == f && c05HandsOver o)
    | none => false) &&
  c05Resolve c05Defines "rec" c.mro == some cmCall &&
  c05Resolve c05Defines "get_cache_key" c.mro == some "pymbolic.mapper.CachedMapper.get_cache_key" &&
  c05Resolve c05Defines "rec_fallback" c.mro == some "pymbolic.mapper.Mapper.rec_fallback" &&
  c.initReachesCacheInit

/-- … with the overrides of the current source -/
def c05Wrapped (c : C05Class) : Bool := c05WrappedBy c05CallOverrides c

/-- **The memoizing classes of the current source**: every subclass of `CachedMapper` and of
`CSECachingMapperMixin` defined in a pymbolic module (a new one must be looked at). -/
theorem caching_classes_current :
    c05CachedClasses.map (·.name) =
      ["DerivativeSourceAndNablaComponentCollector", "PymbolicToASTMapper", "CachedCollector",
       "CachedCombineMapper", "CachedIdentityMapper", "CachedWalkMapper", "NodeCountMapper",
       "CachedDependencyMapper", "CachedEvaluationMapper", "CachedFloatEvaluationMapper",
       "FlopCounter", "CachedStringifyMapper", "CachedSubstitutionMapper"] ∧
    c05CseClasses.map (·.name) =
      ["pymbolic.geometric_algebra.mapper.ConstantFoldingMapper", "DerivativeSourceFinder",
       "Dimensionalizer", "pymbolic.geometric_algebra.mapper.EvaluationMapper",
       "NablaComponentToUnitVector", "PymbolicToSympyLikeMapper",
       "CommutativeConstantFoldingMapper", "pymbolic.mapper.constant_folder.ConstantFoldingMapper",
       "CachedDependencyMapper", "DependencyMapper", "DifferentiationMapper",
       "CachedEvaluationMapper", "CachedFloatEvaluationMapper",
       "pymbolic.mapper.evaluator.EvaluationMapper", "FloatEvaluationMapper"] := by
  decide

/-- **The cache wraps every handler — by MRO.**  For EVERY `CachedMapper` subclass of the current
source, Python's attribute look-up along the regenerated MRO (first class whose body defines the
name) gives: `rec` is `CachedMapper.__call__` (the `self.rec` calls inside every inherited handler
go through the look-up: children are memoized, not only the top-level expression); `__call__` is
that same function or — `CachedStringifyMapper` — an override that only hands over to it on the same
instance with everything it received (`c05HandsOver`); the key is `CachedMapper.get_cache_key`, the
fallback path is `Mapper.rec_fallback`, and `__init__` reaches the creation of `_cache`.  So
`cache_protocol_current` — hence `cached_refines_plain`, `at_most_once` — is about each of them:
cached identity / combine / collector / walk / dependency / evaluation / substitution / stringify
mappers, the flop and node counters.  (Before repo commit 8a72a90 this was
`cache_wraps_handlers_current_partial`, with `CachedStringifyMapper` excluded.) -/
theorem cache_wraps_handlers_current : ∀ c ∈ c05CachedClasses, c05Wrapped c = true := by
  decide

/-- **`CachedStringifyMapper` in the current source.**  Its MRO is `[CachedStringifyMapper,
StringifyMapper, CachedMapper, Mapper]`: `StringifyMapper.__call__` (which goes to the NON-memoizing
`Mapper.__call__`) would come before `CachedMapper`'s, and the class overrides `__call__` to undo
that: `def __call__(self, expr, prec=PREC_NONE, *args, **kwargs): return
CachedMapper.__call__(self, expr, prec, *args, **kwargs)` — the instance is passed, the defaulted
precedence becomes the first extra argument, everything else is forwarded.  `rec` is not
overridden on that MRO, so it is `CachedMapper.__call__` directly: every child is looked up and
stored under `(type(child), child, (prec, …), {})`.  The enclosing precedence is therefore part of
every key (`key_separates_args`): a subtree printed once with and once without parentheses has two
entries. -/
theorem cached_stringify_call_current :
    c05CallOverrides =
      [⟨"CachedStringifyMapper", "pymbolic.mapper.stringifier.CachedStringifyMapper.__call__",
        "CachedMapper", cmCall, true, [("prec", "PREC_NONE")], true⟩] ∧
    ∃ c ∈ c05CachedClasses, c.name = "CachedStringifyMapper" ∧
      c.mro = ["CachedStringifyMapper", "StringifyMapper", "CachedMapper", "Mapper"] ∧
      c05Resolve c05Defines "__call__" c.mro
        = some "pymbolic.mapper.stringifier.CachedStringifyMapper.__call__" ∧
      c05Resolve c05Defines "__call__" (c.mro.drop 1)
        = some "pymbolic.mapper.stringifier.StringifyMapper.__call__" ∧
      c05Resolve c05Defines "rec" c.mro = some cmCall ∧
      c05Wrapped c = true := by
  refine ⟨by decide, _, List.mem_of_getElem? (i := 11) rfl, ?_⟩
  decide

/-- the precedence the override inserts separates keys: `x + y` as a term of a sum (`PREC_SUM` = 11)
and as a factor of a product (`PREC_PRODUCT` = 12, printed in parentheses) are two entries; the same
precedence is one -/
example :
    let e := Expr.nary .sum [.var "x", .var "y"]
    Key.eq ⟨e, { args := [.int 11] }⟩ ⟨e, { args := [.int 12] }⟩ = false ∧
    Key.eq ⟨e, { args := [.int 11] }⟩ ⟨e, { args := [.int 11] }⟩ = true := by
  decide

/-- **The OLD override, before repo commit 8a72a90** (finding `cached-stringify-call-unbound`, now
fixed; the row below is written down here, it is NOT regenerated): `return
CachedMapper.__call__(expr, prec, *args, **kwargs)` did not pass the instance — `expr` was taken for
`self` and every top-level call raised `AttributeError` where `StringifyMapper` returns the text.
With that row the class is not wrapped; `c05Wrapped` tells the two apart, so the return of the
defect breaks `cache_wraps_handlers_current`. -/
theorem cached_stringify_old_override_cex :
    let old : C05CallOverride :=
      ⟨"CachedStringifyMapper", "pymbolic.mapper.stringifier.CachedStringifyMapper.__call__",
       "CachedMapper", cmCall, false, [("prec", "PREC_NONE")], false⟩
    ∃ c ∈ c05CachedClasses, c.name = "CachedStringifyMapper" ∧
      c05WrappedBy [old] c = false ∧ c05WrappedBy [{ old with passesSelf := true }] c = false ∧
      c05WrappedBy [{ old with passesSelf := true, forwardsAll := true }] c = true := by
  refine ⟨_, List.mem_of_getElem? (i := 11) rfl, ?_⟩
  decide

/-- **The CSE mix-in wraps the common-subexpression handler — by MRO.**  For every class of the
current source that inherits `CSECachingMapperMixin` (the evaluator and its cached variants, the
dependency mappers, the differentiation mapper, the constant folders, …) `map_common_subexpression`
resolves to the mix-in's caching method — no `IdentityMapper`/`CombineMapper`/`WalkMapper` handler
of that name comes first on the MRO — and `map_common_subexpression_uncached` to a concrete
handler, not the mix-in's abstract stub. -/
theorem cse_mixin_wraps_current :
    ∀ c ∈ c05CseClasses,
      c05Resolve c05Defines "map_common_subexpression" c.mro
        = some "pymbolic.mapper.CSECachingMapperMixin.map_common_subexpression" ∧
      (c05Resolve c05Defines "map_common_subexpression_uncached" c.mro).isSome = true ∧
      c05Resolve c05Defines "map_common_subexpression_uncached" c.mro
        ≠ some "pymbolic.mapper.CSECachingMapperMixin.map_common_subexpression_uncached" := by
  decide

/-- non-vacuity of the resolution: were `IdentityMapper` to come before the mix-in, its handler
would shadow the caching method -/
example :
    c05Resolve c05Defines "map_common_subexpression"
      ["pymbolic.mapper.IdentityMapper", "CSECachingMapperMixin"]
      = some "pymbolic.mapper.IdentityMapper.map_common_subexpression" ∧
    c05Resolve c05Defines "map_common_subexpression"
      ["CSECachingMapperMixin", "pymbolic.mapper.IdentityMapper"]
      = some "pymbolic.mapper.CSECachingMapperMixin.map_common_subexpression" := by
  decide

/-- **Finding** (`deprecated-mixin-key-ignores-type`): the deprecated `CachingMapperMixin` indexes
its `result_cache` with `expr` alone; that key does not separate `4` from `4.0`. -/
theorem deprecated_mixin_key_cex :
    c05DeprecatedMixinKey = some [.part .expr] ∧
    c05TupleEq [.part .expr] ⟨.const (.int 4), {}⟩ ⟨.const (.flt "4.0" 4 1), {}⟩ = true ∧
    Key.eq ⟨.const (.int 4), {}⟩ ⟨.const (.flt "4.0" 4 1), {}⟩ = false := by
  decide

/-! #### the optimizer, regenerated -/

/-- the option names of `optimize_mapper` in the current source are the five the model has, all
off by default -/
theorem optimizer_options_current :
    c05OptOptions = [("drop_args", false), ("drop_kwargs", false), ("inline_rec", false),
                     ("inline_cache", false), ("inline_get_cache_key", false)] := by
  decide

/-- **The rewriting loop of the current `optimize_mapper` is `optimize`.**  The steps the source
applies to every method — the in-line edit of the parameter list, then `_VarArgsRemover`, then
`_CacheKeyInliner` (only when a key expression was found, which is computed only under
`inline_get_cache_key`), then `_RecInliner` — read from the source in that order with the options
each receives, compose to the model's `optimize`. -/
theorem optimizer_pipeline_current (o : Opts) (c : Code) :
    c05RunPasses o c05OptPasses c = some (optimize o c) ∧
    c05CacheKeyExprWhen = ("inline_get_cache_key and 'get_cache_key' in method_defs",
                           "_get_cache_key_expr(method_defs['get_cache_key'])") := by
  have h : c05OptPasses = c05ExpectedPasses := by decide
  refine ⟨by rw [h]; exact c05RunPasses_expected o c, by decide⟩

/-- the four option combinations of a two-flag transformer, each on every probe expression -/
def c05ProbeGrid : List (Bool × Bool × Disp) :=
  [(false, false), (false, true), (true, false), (true, true)].flatMap fun ab =>
    c05ProbeDisps.map fun d => (ab.1, ab.2, d)

/-- **`_VarArgsRemover` of the current source is `Disp.dropStar`**: the live transformer class, run
on every dispatch expression of the model's syntax (56 expressions × 4 settings), removes `*args` /
`**kwargs` from every call exactly as the model's function does. -/
theorem varargs_remover_current :
    c05VarArgsRemoverRows.map (fun r => (r.a, r.b, r.input)) = c05ProbeGrid ∧
    ∀ r ∈ c05VarArgsRemoverRows, r.input.dropStar r.a r.b = r.output := by
  set_option maxRecDepth 20000 in decide

/-- **`_RecInliner` of the current source is `Disp.inlineRecCache`**: on every probe expression
and every setting of (`inline_rec`, `inline_cache`) the live transformer replaces each
`self.rec(…)` by the in-line method look-up and/or wraps it in a look-up of the hard-wired key
`(type(expr), expr)` exactly as the model's function does, and touches nothing else. -/
theorem rec_inliner_current :
    c05RecInlinerRows.map (fun r => (r.a, r.b, r.input)) = c05ProbeGrid ∧
    ∀ r ∈ c05RecInlinerRows, r.input.inlineRecCache r.a r.b = r.output := by
  set_option maxRecDepth 20000 in decide

/-- **`_CacheKeyInliner` of the current source is `Disp.inlineKey`**, for the four key tuples of
the user classes. -/
theorem cache_key_inliner_current :
    c05CacheKeyInlinerRows.map (fun r => (r.body, r.input)) =
      ([(false, false), (false, true), (true, false), (true, true)].flatMap fun ab =>
        c05ProbeDisps.map fun d => ((Code.user ab.1 ab.2).getKeyBody, d)) ∧
    ∀ r ∈ c05CacheKeyInlinerRows, r.input.inlineKey r.body = r.output := by
  set_option maxRecDepth 20000 in decide

/-- all option sets × the four user classes, in the order the extractor enumerates them -/
def c05OptGrid : List (Opts × Bool × Bool) :=
  let bs := [false, true]
  bs.flatMap fun ka => bs.flatMap fun kk =>
    bs.flatMap fun a => bs.flatMap fun b => bs.flatMap fun c => bs.flatMap fun d => bs.map fun e =>
      (⟨a, b, c, d, e⟩, ka, kk)

/-- **What `optimize_mapper` really wrote, all 32 option sets × 4 classes.**  The source of the
class the live optimizer produced (`_MODULE_SOURCE_CODE`), read back — signature and tuple of
`get_cache_key`, signature and look-up/dispatch of `__call__` (= `rec`), handler signature and the
expression every `self.rec(child, …)` site became — is, for each of the 128 applications, exactly
the model's `optimize o (Code.user keyArgs keyKwargs)`. -/
theorem optimizer_rewrites_current :
    c05OptRows.map (fun r => (r.opts, r.keyArgs, r.keyKwargs)) = c05OptGrid ∧
    ∀ r ∈ c05OptRows, optimize r.opts (Code.user r.keyArgs r.keyKwargs) = r.code := by
  set_option maxRecDepth 20000 in decide

/-- **Optimizer transparency, stated on the regenerated code.**  For every class the live
optimizer produced (every row of `c05OptRows`) and all calls the option set allows: every dispatch
computes its keys without raising, two dispatches share a cache entry only if their original keys
are equal, and — unless `inline_rec` is used without `inline_cache` — whenever they are. -/
theorem optimizer_preserves_current_partial :
    ∀ r ∈ c05OptRows, ∀ (t1 t2 : Bool) (k1 k2 : Key),
      Allowed r.opts r.keyArgs r.keyKwargs k1 = true →
      Allowed r.opts r.keyArgs r.keyKwargs k2 = true →
      ∃ ks1 ks2, siteKeys r.code t1 k1 = .ok ks1 ∧ siteKeys r.code t2 k2 = .ok ks2 ∧
        (shares ks1 ks2 = true → Key.eq k1 k2 = true) ∧
        ((r.opts.inlineRec = true → r.opts.inlineCache = true) →
          shares ks1 ks2 = Key.eq k1 k2) := by
  intro r hr t1 t2 k1 k2 h1 h2
  rw [← optimizer_rewrites_current.2 r hr]
  exact optimizer_preserves_partial r.opts r.keyArgs r.keyKwargs t1 t2 k1 k2 h1 h2

/-- non-vacuity: the row of `inline_rec + inline_cache` on the stock-key class has the hard-wired
two-component key at its `self.rec` sites (findings `optimizer-inline-cache-ignores-args`,
`optimizer-inline-cache-key-mismatch`) -/
example : ∃ r ∈ c05OptRows, r.opts = { inlineRec := true, inlineCache := true } ∧
    r.keyArgs = true ∧ r.keyKwargs = true ∧
    r.code.recSite = .cached (.tuple [.ty, .expr]) (.method true true) ∧
    r.code.callBody = .cached (.getKeyCall true true) (.method true true) := by
  refine ⟨_, List.mem_of_getElem? (i := 96 + 6) rfl, ?_⟩
  decide

end PV.C05
