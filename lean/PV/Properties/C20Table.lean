import PV.Properties.C20
import PV.Proofs.ImpTableFuse
import PV.Proofs.ImpTableDisamb
import PV.Proofs.ImpTableDot
/-
  C20 — T-gen tie of the statement-stream model to the source.

  `PV.Generated.c20Table` is rewritten on every run by `extract/imperative.py` from the source text
  of the working tree: the bodies of `fuse_statement_streams_with_unique_ids`,
  `disambiguate_identifiers`, `disambiguate_and_fuse` (transform.py), `get_all_used_identifiers`
  (analysis.py), `get_dot_dependency_graph` (utils.py) and, for the statement classes of
  statement.py, their MROs and the bodies of `get_written_variables`, `get_read_variables`,
  `map_expressions`, `get_dependency_mapper` — in the small Python of PV/Model/ImpTable.lean
  (assignments, in-place updates, loops, `while True`/`break`, comprehensions, method calls with
  MRO look-up and `super()`, nested `def`, function-level imports resolved to qualified names).

  `c20CallFunc` / `c20CallMethod` RUN a table: they know no function of pymbolic, only the
  language.  The theorems below prove that the hand-written model of PV/Model/Imperative.lean
  (`fuseG`, `Kind.reads`, `Kind.written`, `Stmt.mapExprs`, `usedIdentifiers`, `disambiguateG`,
  `disambiguateAndFuseG`, `dotEdges` / `dotText`) — the one the driver executes and the theorems of
  PV/Properties/C20.lean are about — IS the interpreter applied to the regenerated table, for all
  inputs.  Hence the C20 theorems restated at the end speak about what the current source text
  says.  An edit that changes a table entry (dependencies remapped inside the first loop, the
  generator seeded with one identifier set, `get_vars` scanning its argument, an edge line guarded
  or dropped, a `.copy()` removed, `add` ↦ `discard`, …) makes the corresponding theorem fail to
  check.

  Hand-written (primitives of the reading, not data): `pytools.UniqueNameGenerator` (the parameter
  `G`), `pytools.RecordWithoutPickling.copy` (field update), `Variable(...)`, `isinstance` against
  `Variable` / `Subscript`, `DependencyMapper(**flags)` = `deps`, `SubstitutionMapper` /
  `make_subst_func` = `substM`, `list`, string formatting of `str` values; `Statement.__init__`,
  `__str__` are outside the table.
-/
namespace PV.C20
open PV PV.Imp PV.Generated

variable {σ : Type}

/-- the table regenerated from the working tree -/
abbrev tableCurrent : C20Table := c20Table

/-- the run-time configuration of the table interpreter over the current table: name generator,
iteration order of `for` over a set of names, `while` budget -/
abbrev cfgCurrent (G : NameGen σ) (order : List String → List String) (whileFuel : Nat) :
    C20Cfg σ := cfgCur G order whileFuel

/-! ### entry points -/

theorem callMethod_unfold (k : C20Cfg σ) (d : Nat) (s : Stmt) (m : String) (args) :
    c20CallMethod k d s m args = c20Method (k.ctx (c20Run k d) none) (.stmt s) m args [] [] := rfl

/-! ### (b) the statement methods -/

/-- **`get_written_variables` as the current source has it is `Kind.written`.** -/
theorem written_eq_table_current (G : NameGen σ) (order) (wf n : Nat) (s : Stmt) :
    c20CallMethod (cfgCurrent G order wf) (n + 1) s "get_written_variables" [] =
      C20Res.ofExcept .strSet s.kind.written :=
  written_method_eq_table G order wf n none s

/-- **`get_read_variables` as the current source has it is `Kind.reads`** — through the MRO of the
statement's class, `super()` included, with the dependency mapper the table's
`get_dependency_mapper` builds. -/
theorem reads_eq_table_current (G : NameGen σ) (order) (wf n : Nat) (s : Stmt) :
    c20CallMethod (cfgCurrent G order wf) (n + 3) s "get_read_variables" [] =
      C20Res.ofExcept .strSet s.kind.reads :=
  reads_method_eq_table G order wf n none s

/-- **`map_expressions(mapper)` as the current source has it is `Stmt.mapExprs`.** -/
theorem mapExprs_eq_table_current (G : NameGen σ) (order) (wf n : Nat) (s : Stmt)
    (f : Expr → Expr) :
    c20CallMethod (cfgCurrent G order wf) (n + 3) s "map_expressions" [.exprMap f] =
      .ok (.stmt (s.mapExprs f)) :=
  mapExprs_method_eq_table G order wf n none s f

/-- **The dependency mapper of the current source is the modelled one**: for every statement class
`get_dependency_mapper()` passes `include_subscripts=False, include_lookups=False` and the
parameter default `include_calls="descend_args"` — the flags `stmtFlags` of the model. -/
theorem depMapper_eq_table_current (G : NameGen σ) (order) (wf n : Nat) (s : Stmt) :
    c20CallMethod (cfgCurrent G order wf) (n + 1) s "get_dependency_mapper" [] =
      .ok (.depMap stmtFlags) :=
  get_deps_eq_table G order wf n none s

mutual
/-- does an expression of the table language mention the local `x` -/
def mentionsVar (x : String) : C20Expr → Bool
  | .var y => y == x
  | .glob _ => false
  | .lit _ => false
  | .attr e _ => mentionsVar x e
  | .call f as _ kv => mentionsVar x f || mentionsVarL x as || mentionsVarL x kv
  | .meth o _ as _ kv => mentionsVar x o || mentionsVarL x as || mentionsVarL x kv
  | .superMeth _ as _ kv => mentionsVarL x as || mentionsVarL x kv
  | .index a b => mentionsVar x a || mentionsVar x b
  | .bitOr a b => mentionsVar x a || mentionsVar x b
  | .bitAnd a b => mentionsVar x a || mentionsVar x b
  | .isNone a => mentionsVar x a
  | .isNotNone a => mentionsVar x a
  | .isInstance a b => mentionsVar x a || mentionsVar x b
  | .isIn a b => mentionsVar x a || mentionsVar x b
  | .notIn a b => mentionsVar x a || mentionsVar x b
  | .boolAnd a b => mentionsVar x a || mentionsVar x b
  | .notOp a => mentionsVar x a
  | .ifExp a b c => mentionsVar x a || mentionsVar x b || mentionsVar x c
  | .tuple es => mentionsVarL x es
  | .emptyList => false
  | .emptyDict => false
  | .emptySet => false
  | .frozensetOf es => mentionsVarL x es
  | .setComp elt y it => (y != x && mentionsVar x elt) || mentionsVar x it
  | .listComp elt y it => (y != x && mentionsVar x elt) || mentionsVar x it
  | .frozensetGen elt y it => (y != x && mentionsVar x elt) || mentionsVar x it
  | .fstr _ vs => mentionsVarL x vs
  | .joinStr _ e => mentionsVar x e
  | .notModelled _ => true
def mentionsVarL (x : String) : List C20Expr → Bool
  | [] => false
  | e :: es => mentionsVar x e || mentionsVarL x es
end

/-- the helper `get_vars` that `Assignment.get_read_variables` defines, as the table has it -/
def getVarsCurrent : Option (List String × List C20Stmt) :=
  match c20MethodOf c20Cls_Assignment "get_read_variables" with
  | some (.code _ body) =>
    body.findSome? fun
      | .defLocal "get_vars" ps b => some (ps, b)
      | _ => none
  | _ => none

/-- **The regenerated table SHOWS the known finding `assignment-reads-ignore-lhs`**: in the
current source `get_vars` takes a parameter `expr`, and its one statement returns
`frozenset(dep.name for dep in get_deps(self.rhs))` — an expression that does not mention `expr`. -/
theorem get_vars_ignores_argument_current :
    ∃ ret, getVarsCurrent = some (["expr"], [.ret ret]) ∧ mentionsVar "expr" ret = false ∧
      ret = .frozensetGen (.attr (.var "dep") "name") "dep"
        (.call (.var "get_deps") [.attr (.var "self") "rhs"] [] []) :=
  ⟨_, rfl, by decide +kernel, rfl⟩

/-- … and run by the table interpreter the statement of the finding, `a[x] <- y + 1`, reports the
reads `{y}` (the scan of its left-hand side finds `x` as well: `reads_scan_cex`). -/
theorem table_reads_cex_current (G : NameGen σ) (order) (wf : Nat) :
    c20CallMethod (cfgCurrent G order wf) 3 ⟨"i", [], cexStmt⟩ "get_read_variables" [] =
      .ok (.strSet ["y"]) := by
  rw [reads_eq_table_current G order wf 0, reads_scan_cex.1]
  rfl

/-! ### `get_all_used_identifiers` -/

/-- **`get_all_used_identifiers` as the current source has it is `usedIdentifiers`.** -/
theorem usedIdentifiers_eq_table_current (G : NameGen σ) (order) (wf n : Nat) (ss : List Stmt) :
    c20CallFunc (cfgCurrent G order wf) (n + 4)
      "pymbolic.imperative.analysis.get_all_used_identifiers" [.list (ss.map .stmt)] =
      C20Res.ofExcept .strSet (usedIdentifiers ss) := by
  have h := used_eq_table G order wf n none ss
  simp only [c20CallFunc]
  c20_run [h]

/-! ### (a) fusion -/

/-- the mirrored `UniqueNameGenerator` is seeded by a set -/
theorem pyGen_seededBySet : pyGen.SeededBySet := by
  intro xs
  have : dedupS (dedupS xs) = dedupS xs := unionS_nil_left (nodup_dedupS xs)
  simp [pyGen, this]

/-- **`fuse_statement_streams_with_unique_ids` as the current source has it is `fuseG`**, for
every pair of streams and every generator that is seeded by a set. -/
theorem fuseG_eq_table_current (G : NameGen σ) (hG : G.SeededBySet) (order) (wf n : Nat)
    (A B : List Stmt) :
    c20CallFunc (cfgCurrent G order wf) (n + 1)
      "pymbolic.imperative.transform.fuse_statement_streams_with_unique_ids"
      [.list (A.map .stmt), .list (B.map .stmt)] =
      C20Res.ofExcept (fun r => .tuple [.list (r.1.map .stmt), .dict (encM r.2)]) (fuseG G A B) := by
  have h := fuse_fn_eq_table G hG order wf n none A B
  simp only [c20CallFunc]
  c20_run [h]

/-- … in particular with the mirrored pytools generator: the function the driver runs -/
theorem fuse_eq_table_current (order) (wf n : Nat) (A B : List Stmt) :
    c20CallFunc (cfgCurrent pyGen order wf) (n + 1)
      "pymbolic.imperative.transform.fuse_statement_streams_with_unique_ids"
      [.list (A.map .stmt), .list (B.map .stmt)] =
      C20Res.ofExcept (fun r => .tuple [.list (r.1.map .stmt), .dict (encM r.2)]) (fuse A B) :=
  fuseG_eq_table_current pyGen pyGen_seededBySet order wf n A B

/-! ### (c) disambiguation -/

/-- **`disambiguate_identifiers` as the current source has it is `disambiguateG`**, for every
generator, filter, pair of streams and every order `ord` in which the `for` statement visits the
clash set (the model's `order` parameter is that order restricted to the names passing the
filter). -/
theorem disambiguateG_eq_table_current (G : NameGen σ) (ord : List String → List String)
    (hperm : ∀ xs, (ord xs).Perm xs) (wf n : Nat) (filter : String → Bool) (A B : List Stmt) :
    c20CallFunc (cfgCurrent G ord wf) (n + 5)
      "pymbolic.imperative.transform.disambiguate_identifiers"
      [.list (A.map .stmt), .list (B.map .stmt), .strPred filter] =
      C20Res.ofExcept (fun r => .tuple [.list (r.1.map .stmt), .dict (encE r.2)])
        (disambiguateG G filter (clashOrder ord filter A B) A B) := by
  have h := disamb_fn_eq_table G ord hperm wf n none filter A B
  simp only [c20CallFunc]
  c20_run [h]

/-- the same without a filter (`should_disambiguate_name=None`) -/
theorem disambiguateG_default_eq_table_current (G : NameGen σ) (ord : List String → List String)
    (hperm : ∀ xs, (ord xs).Perm xs) (wf n : Nat) (A B : List Stmt) :
    c20CallFunc (cfgCurrent G ord wf) (n + 5)
      "pymbolic.imperative.transform.disambiguate_identifiers"
      [.list (A.map .stmt), .list (B.map .stmt)] =
      C20Res.ofExcept (fun r => .tuple [.list (r.1.map .stmt), .dict (encE r.2)])
        (disambiguateG G (fun _ => true) (clashOrder ord (fun _ => true) A B) A B) := by
  have h := disamb_fn_default_eq_table G ord hperm wf n none A B
  simp only [c20CallFunc]
  c20_run [h]

/-- **`disambiguate_and_fuse` as the current source has it is `disambiguateAndFuseG`.** -/
theorem disambiguateAndFuseG_eq_table_current (G : NameGen σ) (hG : G.SeededBySet)
    (ord : List String → List String) (hperm : ∀ xs, (ord xs).Perm xs) (wf n : Nat)
    (filter : String → Bool) (A B : List Stmt) :
    c20CallFunc (cfgCurrent G ord wf) (n + 6)
      "pymbolic.imperative.transform.disambiguate_and_fuse"
      [.list (A.map .stmt), .list (B.map .stmt), .strPred filter] =
      C20Res.ofExcept
        (fun r => .tuple [.list (r.1.map .stmt), .dict (encE r.2.1), .dict (encM r.2.2)])
        (disambiguateAndFuseG G filter (clashOrder ord filter A B) A B) := by
  have h := disfuse_fn_eq_table G hG ord hperm wf n none filter A B
  simp only [c20CallFunc]
  c20_run [h]

/-! ### (d) the dot export -/

/-- **`get_dot_dependency_graph` as the current source has it is `dotText`** (hence its edge
lines are `dotEdges`): for every stream, every stringifier and hooks, `use_stmt_ids` ∈ {`None`,
`True`, `False`}, sets visited in representation order, and the `while` budget the model uses. -/
theorem dotText_eq_table_current (G : NameGen σ) (n : Nat) (ss : List Stmt) (u : Option Bool)
    (pre post : List String) (str : Stmt → String) :
    c20CallFunc (cfgCurrent G (fun xs => xs) (fuelFor (buildGraph ss))) (n + 2)
      "pymbolic.imperative.utils.get_dot_dependency_graph"
      [.list (ss.map .stmt), c20OfOptBool u, .thunk (.list (pre.map .str)),
        .thunk (.list (post.map .str)), .stmtStr str, .none] =
      match dotText pre post (u.getD false) str ss with
      | .ok t => .ok (.str t)
      | .error _ => .fuel := by
  have h := dot_fn_eq_table G n none ss u pre post str
  simp only [c20CallFunc]
  c20_run [h]
  cases dotText pre post (u.getD false) str ss <;> rfl

/-- the text the model builds is: preamble, `rankdir=BT;`, one node line per statement, one
`a -> b` line per edge of `dotEdges`, the additional lines -/
theorem dotText_lines {pre post : List String} {b : Bool} {str : Stmt → String} {ss : List Stmt}
    {t : String} (h : dotText pre post b str ss = .ok t) :
    ∃ es, dotEdges ss = .ok es ∧
      t = "digraph code {\n" ++ "\n".intercalate (pre ++ ["rankdir=BT;"] ++
        ss.map (dotNodeLine b str) ++ es.map dotEdgeLine ++ post) ++ "\n}" := by
  unfold dotText at h
  cases he : dotEdges ss with
  | error e => simp [he, bind, Except.bind] at h
  | ok es =>
    simp only [he, bind, Except.bind, pure, Except.pure, Except.ok.injEq] at h
    exact ⟨es, rfl, h.symm⟩

/-! ### The C20 theorems, about the regenerated table -/

/-- **What the current source says never runs out of `while` budget**: the table interpreter run on
the regenerated `get_dot_dependency_graph` returns a text (`dot_export_total`, transported). -/
theorem table_dot_total_current (G : NameGen σ) (n : Nat) (ss : List Stmt) (u : Option Bool)
    (pre post : List String) (str : Stmt → String) :
    ∃ t es, c20CallFunc (cfgCurrent G (fun xs => xs) (fuelFor (buildGraph ss))) (n + 2)
        "pymbolic.imperative.utils.get_dot_dependency_graph"
        [.list (ss.map .stmt), c20OfOptBool u, .thunk (.list (pre.map .str)),
          .thunk (.list (post.map .str)), .stmtStr str, .none] = .ok (.str t) ∧
      dotEdges ss = .ok es ∧
      t = "digraph code {\n" ++ "\n".intercalate (pre ++ ["rankdir=BT;"] ++
        ss.map (dotNodeLine (u.getD false) str) ++ es.map dotEdgeLine ++ post) ++ "\n}" := by
  obtain ⟨es, hes⟩ := dot_export_total ss
  have ht : ∃ t, dotText pre post (u.getD false) str ss = .ok t := by
    simp [dotText, hes, bind, Except.bind, pure, Except.pure]
  obtain ⟨t, ht⟩ := ht
  obtain ⟨es', hes', rfl⟩ := dotText_lines ht
  refine ⟨_, es', ?_, hes', rfl⟩
  rw [dotText_eq_table_current, ht]

/-- **What the current source says keeps ids distinct** (`fuse_ids_distinct`, transported): if
the table interpreter run on the regenerated `fuse_statement_streams_with_unique_ids` returns the
statements `out`, and the ids of the first stream are distinct, so are those of `out`. -/
theorem table_fuse_ids_distinct_current (G : NameGen σ) (hG : G.Fresh) (hS : G.SeededBySet)
    (order) (wf n : Nat) {A B out : List Stmt} {mv : List (String × C20Val σ)}
    (hA : (A.map (·.id)).Nodup)
    (h : c20CallFunc (cfgCurrent G order wf) (n + 1)
      "pymbolic.imperative.transform.fuse_statement_streams_with_unique_ids"
      [.list (A.map .stmt), .list (B.map .stmt)] = .ok (.tuple [.list (out.map .stmt), .dict mv])) :
    (out.map (·.id)).Nodup := by
  rw [fuseG_eq_table_current G hS] at h
  cases hf : fuseG G A B with
  | error e => simp [hf, C20Res.ofExcept] at h
  | ok r =>
    obtain ⟨out', m⟩ := r
    simp only [hf, C20Res.ofExcept, C20Res.ok.injEq, C20Val.tuple.injEq, List.cons.injEq,
      C20Val.list.injEq, and_true] at h
    have hout : out' = out := by
      have := h.1
      exact List.map_injective_iff.2 (fun a b hab => by injection hab) this
    subst hout
    exact fuse_ids_distinct hG hA hf

/-! ### non-vacuity: the interpreter really runs the regenerated table -/

example : (match c20CallFunc (cfgCurrent pyGen id 0) 1
      "pymbolic.imperative.transform.fuse_statement_streams_with_unique_ids"
      [.list (demoA.map .stmt), .list (demoB.map .stmt)] with
    | .ok (.tuple [.list out, .dict m]) => out.length == 4 && m.length == 2
    | _ => false) = true := by decide +kernel

example : (match c20CallFunc (cfgCurrent pyGen id 20) 2
      "pymbolic.imperative.utils.get_dot_dependency_graph"
      [.list (demoDag.map .stmt), .bool true, .thunk (.list []), .thunk (.list []),
        .stmtStr (fun s => s.id), .none] with
    | .ok (.str t) => t == "digraph code {\nrankdir=BT;\n\"a\" [label=\"a\",shape=\"box\",tooltip=\"a\"];\n\"b\" [label=\"b\",shape=\"box\",tooltip=\"b\"];\n\"c\" [label=\"c\",shape=\"box\",tooltip=\"c\"];\na -> b\nb -> c\n}"
    | _ => false) = true := by decide +kernel

example : pyGen.SeededBySet := pyGen_seededBySet

end PV.C20
