import PV.Model.CCodeBodies
import PV.Properties.C14
import PV.Properties.C14Table
/-
  C14 — mappers constructed from an EXPLICIT assignment list, `copy(cse_name_list=L)`
  (model: `PV/Model/CCodeBodies.lean`; stream `ccode-bodies`).

  A code generator emits several C functions: the mapper of every further body is obtained from a
  configured one with `copy(cse_name_list=[])` (same settings, no assignments), or continues from
  the first `k` assignments of an earlier list, possibly with values the caller provides itself.
  Each body consists of ITS OWN mapper's `cse_name_list` followed by the texts that mapper returned.

  * `copyWithList_nil`: a copy made with the empty list is the fresh mapper with the parent's
    settings — nothing else of the parent's allocator state reaches it; hence
    `body_names_unique`, `body_assigned_once`, `body_assigned_before_use`: the single-mapper
    theorems hold for every history on such a copy, WHATEVER the parent has hoisted before.
  * `bodies_assigned_before_use`: for ALL histories of `emit` / `copy()` / `copy_with_mapped_cses` /
    `copy(cse_name_list = prefix ++ pairs)` on a pool, in every mapper each assignment refers only to
    names assigned by earlier entries of that mapper's own list and every name `cse_to_name` can
    hand out is assigned in that list (so no returned text uses a name its body never assigns).
  * `copyList_eq_table_current`: `copy` with an explicit list, as read from the current source
    (regenerated table), is `CSt.copyWithList`.
-/
namespace PV.C14
open PV

variable (S : PrintPrec)

/-- **A copy made with the empty list is a fresh mapper with the parent's settings.** -/
theorem copyWithList_nil (st : CSt) :
    st.copyWithList [] = { reverse := st.reverse, pfx := st.pfx } := rfl

/-- `copy()` is the copy made with the mapper's own list. -/
theorem copyWithList_own (st : CSt) : st.copyWithList st.nameList = st.copy := rfl

/-- **New body, names unique**: after any sequence of expressions sent through
`parent.copy(cse_name_list=[])` the names of its `cse_name_list` are pairwise distinct — for every
`parent`, whatever it has hoisted. -/
theorem body_names_unique (parent : CSt) (es : List Expr)
    (outs : List (String × List String)) (st : CSt)
    (h : emits S (parent.copyWithList []) es = .ok (outs, st)) : st.assigned.Nodup :=
  names_unique S parent.reverse parent.pfx es outs st h

/-- **New body, assigned once**: every entry was hoisted for a wrapper child sent through THIS
mapper, the children of different entries differ, `cse_to_name` lists exactly these children. -/
theorem body_assigned_once (parent : CSt) (es : List Expr)
    (outs : List (String × List String)) (st : CSt)
    (h : emits S (parent.copyWithList []) es = .ok (outs, st)) :
    (st.nameList.map entryKey).Pairwise (fun a b => a.eq b = false) ∧
    (∀ e ∈ st.nameList, e.child.isSome = true) ∧
    st.toName = st.nameList.map (fun e => (entryKey e, e.name)) ∧
    st.names = st.nameList.map (fun e => CCKey.text e.name) :=
  assigned_once S parent.reverse parent.pfx es outs st h

/-- **New body, assigned before use**: every name a returned text (or an assignment) refers to is
assigned in the body's OWN list — none is taken over from the parent. -/
theorem body_assigned_before_use (parent : CSt) (es : List Expr)
    (outs : List (String × List String)) (st : CSt)
    (h : emits S (parent.copyWithList []) es = .ok (outs, st)) :
    refsBefore [] st.nameList ∧ ∀ o ∈ outs, ∀ r ∈ o.2, r ∈ st.assigned :=
  assigned_before_use_emits S parent.reverse parent.pfx es outs st h

/-- a non-vacuity instance: the parent has hoisted `x + 1` as `_cse_u`; its empty-list copy hoists
the same subexpression again, in its own list -/
example :
    (do
      let (_, p1) ← emits Generated.printPrec {} [.cse xPlus1 (some "u") "s"]
      let (outs, st) ← emits Generated.printPrec (p1.copyWithList []) [.cse xPlus1 (some "u") "s"]
      pure (p1.assigned, outs.map (·.1), st.assigned) : Except CErr _).toOption
      = some (["_cse_u"], ["_cse_u"], ["_cse_u"]) := by decide

/-! ### all histories with explicit lists -/

theorem refsBefore_take (seen : List String) (l : List CEntry) (k : Nat)
    (h : refsBefore seen l) : refsBefore seen (l.take k) := by
  induction l generalizing seen k with
  | nil => simpa using h
  | cons x xs ih =>
    cases k with
    | zero => simp [refsBefore]
    | succ k =>
      simp only [List.take_succ_cons, refsBefore] at h ⊢
      exact ⟨h.1, ih _ _ h.2⟩

theorem refInv_copyWithList (st src : CSt) (k : Nat) (pairs : List (String × Expr))
    (h : RefInv src) : RefInv (st.copyWithList (bodyList src k pairs)) := by
  apply refInv_ofList
  apply refsBefore_append_list _ _ _ (refsBefore_take _ _ _ h.before)
  intro e he
  obtain ⟨p, _, rfl⟩ := List.mem_map.mp he
  rfl

theorem runBodyOps_ref : ∀ (ops : List CBodyOp) (pool : List CSt) (outs : List CStepOut)
    (pool' : List CSt), (∀ st ∈ pool, RefInv st) → runBodyOps S pool ops = .ok (outs, pool') →
    ∀ st ∈ pool', RefInv st := by
  intro ops
  induction ops with
  | nil =>
    intro pool outs pool' hp h
    simp only [runBodyOps, pure, Except.pure, Except.ok.injEq, Prod.mk.injEq] at h
    obtain ⟨_, rfl⟩ := h
    exact hp
  | cons op rest ih =>
    intro pool outs pool' hp h
    cases op with
    | op o =>
      simp only [runBodyOps, bind, Except.bind] at h
      cases h1 : runOps S pool [o] with
      | error err => simp [h1] at h
      | ok v =>
        obtain ⟨o1, pool1⟩ := v
        simp only [h1] at h
        cases h2 : runBodyOps S pool1 rest with
        | error err => simp [h2] at h
        | ok w =>
          obtain ⟨o2, p2⟩ := w
          simp only [h2, pure, Except.pure, Except.ok.injEq, Prod.mk.injEq] at h
          obtain ⟨_, rfl⟩ := h
          exact ih pool1 o2 _ (runOps_ref S [o] pool o1 pool1 hp h1).1 h2
    | copyList i j k pairs =>
      simp only [runBodyOps] at h
      cases hi : pool[i]? with
      | none => simp [hi, throw, throwThe, MonadExceptOf.throw] at h
      | some st =>
        cases hj : pool[j]? with
        | none => simp [hi, hj, throw, throwThe, MonadExceptOf.throw] at h
        | some src =>
          simp only [hi, hj, bind, Except.bind] at h
          cases h2 : runBodyOps S (pool ++ [st.copyWithList (bodyList src k pairs)]) rest with
          | error err => simp [h2] at h
          | ok w =>
            obtain ⟨o2, p2⟩ := w
            simp only [h2, pure, Except.pure, Except.ok.injEq, Prod.mk.injEq] at h
            obtain ⟨_, rfl⟩ := h
            refine ih _ o2 _ ?_ h2
            intro s hs
            simp only [List.mem_append, List.mem_singleton] at hs
            rcases hs with hs | rfl
            · exact hp s hs
            · exact refInv_copyWithList st src k pairs (hp src (List.mem_of_getElem? hj))

/-- **Assigned before use, in every body**: for ALL histories of `emit`, `copy()`,
`copy_with_mapped_cses(…)` and `copy(cse_name_list = first k assignments of some mapper ++ pairs)`
on a pool of mappers, in every mapper each assignment refers only to names assigned by EARLIER
entries of that mapper's own `cse_name_list`, and every name its `cse_to_name` can hand out for a
wrapped subexpression is assigned in that list: a mapper never knows a name its body lacks. -/
theorem bodies_assigned_before_use (reverse : Bool) (pfx : String) (ops : List CBodyOp)
    (outs : List CStepOut) (pool : List CSt)
    (h : runBodyOps S [{ reverse, pfx }] ops = .ok (outs, pool)) :
    ∀ st ∈ pool, refsBefore [] st.nameList ∧ ∀ kv ∈ st.toName, kv.2 ∈ st.assigned := by
  have hp : ∀ st ∈ [({ reverse, pfx } : CSt)], RefInv st := by
    intro st hst
    simp only [List.mem_singleton] at hst
    subst hst
    exact refInv_init reverse pfx
  intro st hst
  have r := runBodyOps_ref S ops _ outs pool hp h st hst
  exact ⟨r.before, r.vals⟩

/-- a non-vacuity instance: body 0 hoists `x + 1`, body 1 = `copy(cse_name_list=[])` sees it again -/
example :
    ((runBodyOps Generated.printPrec [{}]
        [.op (.emit 0 (.cse xPlus1 (some "u") "s")), .copyList 0 0 0 [],
         .op (.emit 1 (.nary .sum [.cse xPlus1 (some "u") "s", .const (.int 1)]))]).toOption.map
      fun r => (r.1.length, r.2.map (·.assigned))) = some (3, [["_cse_u"], ["_cse_u"]]) := by decide

/-! ### the tie to the current source -/

/-- **`copy(cse_name_list=l)` as read from the source is the modelled one**: the constructor is
called with the mapper's settings and `l`; the new mapper's tables are built from `l` alone. -/
theorem copyList_eq_table_current (st : CSt) (l : List CEntry) :
    c14CopyT tableCurrent.init tableCurrent.copy tableCurrent.mapper st (some l)
      = some (st.copyWithList l) := by
  have := init_eq_table_current st.reverse st.pfx l
  simp [c14CopyT, tableCurrent, Generated.c14CCodeTable, List.lookup, List.zip,
    CSt.copyWithList] at this ⊢
  exact this

end PV.C14
