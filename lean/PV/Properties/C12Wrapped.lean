import PV.Model.Cse
import PV.Proofs.SyntaxBEq
/-
  C12 — lists that already contain wrappers (the quantifier "pre-existing wrappers with and without
  prefixes and scopes"): what `UseCountMapper.map_common_subexpression` and
  `CSEMapper.map_common_subexpression` do with them, as statements about the model
  (PV/Model/Cse.lean: `useCount`, `cseMap`, `tagAll`).

  * the scope of a pre-existing wrapper plays no role in the mapper (`cseMap_wrapper_scope_irrelevant`);
  * an UNPREFIXED pre-existing wrapper of any scope around an operation that is to be eliminated is
    mapped to the canonical wrapper of that operation — the very node a bare occurrence is mapped to
    (`unprefixed_wrapper_shares`): both end up in ONE shared wrapper;
  * a wrapper met for the first time is walked through: the operations inside it are counted
    (`useCount_wrapper_first`), so that an operation occurring once inside a pre-existing wrapper and
    once elsewhere is eliminated (`inside_wrapper_shared_witness`);
  * finding: a PREFIXED pre-existing wrapper does not merge with the canonical wrapper of its child
    (`prefixed_wrapper_not_merged_cex`).

  The stream `prewrapped` of harness/props/c12.py checks the clause on the real code (operation
  handlers of one evaluator over all tagged expressions, counted per operation of the input).
-/
namespace PV.C12
open PV

/-- `CSEMapper.map_common_subexpression` does not look at the scope of the wrapper it meets. -/
theorem cseMap_wrapper_scope_irrelevant (elim : List CKey) (c : Expr) (p : Option String)
    (s s' : String) (T : Tbl) :
    cseMap elim (.cse c p s) T = cseMap elim (.cse c p s') T := by
  simp only [cseMap]

/-- what the mapper does with a pre-existing wrapper: map the child, pass it through
`wrap_in_cse` with the wrapper's prefix -/
theorem cseMap_wrapper (elim : List CKey) (c : Expr) (p : Option String) (s : String) (T : Tbl) :
    cseMap elim (.cse c p s) T = (cseMap elim c T).map fun rT => (wrapInCse rT.1 p, rT.2) := by
  simp only [cseMap]
  cases cseMap elim c T <;> rfl

/-- **An unprefixed pre-existing wrapper — of ANY scope — shares the wrapper of its child.**
Whenever the child is mapped to a wrapper `w` (it is an operation to be eliminated: `w` is its
canonical wrapper, new or looked up), the pre-existing wrapper around it is mapped to that same
node `w`, and the table of canonical wrappers is left as the child left it: the two occurrences
end up in one shared wrapper, and no wrapper is placed around a wrapper. -/
theorem unprefixed_wrapper_shares (elim : List CKey) (c : Expr) (s : String) (T T' : Tbl)
    (c' : Expr) (q : Option String) (sc : String)
    (h : cseMap elim c T = .ok (.cse c' q sc, T')) :
    cseMap elim (.cse c none s) T = .ok (.cse c' q sc, T') := by
  rw [cseMap_wrapper, h]; rfl

/-- the same for a bare occurrence that finds the canonical wrapper in the table (operations of the
property's fragment: sums, products, quotients, powers, calls): with `unprefixed_wrapper_shares`,
a bare occurrence and an unprefixed wrapper of any scope around an equal operation are mapped to
the SAME node -/
theorem bare_hit (elim : List CKey) (T : Tbl) (e w : Expr) (hop : e.isCseOp = true)
    (hl : e.hasList = false) (he : inElim elim (normalizedKey e) = true)
    (hw : T.find (normalizedKey e) = some w) : cseMap elim e T = .ok (w, T) := by
  have hm : opMode elim T e = .ok (.hit w) := by
    simp [opMode, hop, hl, he, hw, pure, Except.pure]
  cases e <;> simp_all [Expr.isCseOp]
  all_goals first
    | (rename_i o cs; cases o <;> simp_all [cseMap, bind, Except.bind, pure, Except.pure])
    | (rename_i o a b; cases o <;> simp_all [cseMap, bind, Except.bind, pure, Except.pure])
    | simp_all [cseMap, bind, Except.bind, pure, Except.pure]

/-- **A wrapper met for the first time is walked through**: the use counts after it are the use
counts of its child (every operation inside it is visited and counted), plus the entry of the
wrapper itself. -/
theorem useCount_wrapper_first (c : Expr) (p : Option String) (s : String) (cnt : Counts)
    (hl : c.hasList = false) (hn : cnt.find (normalizedKey (.cse c p s)) = none) :
    useCount (.cse c p s) cnt
      = (useCount c cnt).map fun c1 => c1.set (normalizedKey (.cse c p s)) 1 := by
  simp only [useCount, hl, hn]
  cases useCount c cnt <;> rfl

/-- … and a wrapper met again is only counted (its child is not walked a second time) -/
theorem useCount_wrapper_again (c : Expr) (p : Option String) (s : String) (cnt : Counts) (n : Nat)
    (hl : c.hasList = false) (hn : cnt.find (normalizedKey (.cse c p s)) = some n) :
    useCount (.cse c p s) cnt = .ok (cnt.incr (normalizedKey (.cse c p s))) := by
  simp only [useCount, hl, hn]; rfl

/-- non-vacuity, end to end: `[CSE(f(x), scope = expression) + 1, f(x)*2]` — the scoped wrapper and
the bare `f(x)` become ONE wrapper -/
theorem scoped_wrapper_shared_witness :
    let fx := Expr.call (.var "f") [.var "x"]
    let w := Expr.cse fx none evalScope
    (tagAll [.nary .sum [.cse fx none "pymbolic_expr", .const (.int 1)],
             .nary .prod [fx, .const (.int 2)]]).toOption
      = some [.nary .sum [w, .const (.int 1)], .nary .prod [w, .const (.int 2)]] := by
  decide

/-- `[CSE(f(x) + y), f(x)*2]` — `f(x)` occurs once inside a pre-existing wrapper and once outside:
it is counted twice, eliminated, and both occurrences become one wrapper -/
theorem inside_wrapper_shared_witness :
    let fx := Expr.call (.var "f") [.var "x"]
    let w := Expr.cse fx none evalScope
    (tagAll [.cse (.nary .sum [fx, .var "y"]) none evalScope,
             .nary .prod [fx, .const (.int 2)]]).toOption
      = some [.cse (.nary .sum [w, .var "y"]) none evalScope, .nary .prod [w, .const (.int 2)]] := by
  decide

/-- **finding**: a pre-existing wrapper WITH A PREFIX does not merge with the canonical wrapper of
its child: `[CSE(f(x), "a") + 1, f(x)*2]` — `f(x)` is held by two distinct wrappers (the prefixed
one is rebuilt by `wrap_in_cse(canonical, "a")`), so one evaluator computes it twice. -/
theorem prefixed_wrapper_not_merged_cex :
    let fx := Expr.call (.var "f") [.var "x"]
    (tagAll [.nary .sum [.cse fx (some "a") evalScope, .const (.int 1)],
             .nary .prod [fx, .const (.int 2)]]).toOption
      = some [.nary .sum [.cse fx (some "a") evalScope, .const (.int 1)],
              .nary .prod [.cse fx none evalScope, .const (.int 2)]] := by
  decide

example : (cseMap [] (.cse (.var "x") none "pymbolic_global") []).toOption.map (·.1) = some (.var "x") := by
  decide

/-- the hypothesis of `unprefixed_wrapper_shares` is met by an operation to be eliminated -/
example :
    let fx := Expr.call (.var "f") [.var "x"]
    (cseMap [normalizedKey fx] (.cse fx none "pymbolic_global") []).toOption.map (·.1)
      = some (.cse fx none evalScope) ∧
    (cseMap [normalizedKey fx] fx []).toOption.map (·.1) = some (.cse fx none evalScope) := by
  decide

end PV.C12
