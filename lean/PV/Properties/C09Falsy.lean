import PV.Properties.C09
/-
  C09 — falsy operands.  In Python every object has a truth value and pymbolic's node classes
  define theirs (`Expr.truthy`: a product with a zero factor, a quotient / floor division /
  remainder with a falsy numerator, a one-element sum of a falsy child are FALSE), so `0*n` —
  what substitution without constant folding leaves behind in `a[i*n:m]` — is a falsy object that
  has a variable in it.  An omitted slice part is `None`.  The dependency analysis must tell
  "omitted" from "present" by identity (`is not None`), never by truth value: the theorems below
  say that it does (every occurrence below a present slice part is reported, whatever the truth
  value of the part), that the truth-value idiom `filter(None, expr.children)` is a DIFFERENT
  function with a concrete missing variable, and that the two coincide exactly on slices without
  a falsy part (which is why no ordinary slice `a[:n]`, `a[1:n]`, `a[i*n:m]` can tell them apart).
-/
set_option linter.unusedTactic false
set_option linter.unreachableTactic false
namespace PV.C09
open PV

/-- **A falsy slice part is not skipped.**  For a well-formed slice, every variable occurring
(outside selected composites) in ANY of its parts is reported — in particular in a part whose
Python truth value is `False`. -/
theorem deps_slice_part_reported {fl : DepFlags} {cs : List Expr} {c : Expr} {n : String}
    {r : List Expr} (hwf : (Expr.slice cs).wf = true) (hc : c ∈ cs)
    (ho : Occurs fl c (.var n)) (h : deps fl (.slice cs) = .ok r) : .var n ∈ r :=
  deps_complete_var hwf (.slice hc ho) h

/-- the same below a subscript the analysis descends into (`a[0*n:m]`) -/
theorem deps_subscript_slice_part_reported {fl : DepFlags} {a : Expr} {cs : List Expr} {c : Expr}
    {n : String} {r : List Expr} (hs : fl.subscripts = false)
    (hwf : (Expr.subscript a (.slice cs)).wf = true) (hc : c ∈ cs)
    (ho : Occurs fl c (.var n)) (h : deps fl (.subscript a (.slice cs)) = .ok r) : .var n ∈ r :=
  deps_complete_var hwf (.subscript_r hs (.slice hc ho)) h

/-- every selected occurrence below a slice part, up to Python `==` -/
theorem deps_slice_part_complete {fl : DepFlags} {cs : List Expr} {c x : Expr}
    {r : List Expr} (hwf : (Expr.slice cs).wf = true) (hc : c ∈ cs)
    (ho : Occurs fl c x) (h : deps fl (.slice cs) = .ok r) : ∃ y ∈ r, y.pyEq x = true :=
  deps_complete hwf (.slice hc ho) h

/-- `0*n`: a falsy object with a variable in it -/
def zeroTimesN : Expr := .nary .prod [.const (.int 0), .var "n"]

example : zeroTimesN.truthy = false := by decide
example : (Expr.bin .floordiv zeroTimesN (.var "k")).truthy = false := by decide
example : (Expr.nary .sum [zeroTimesN]).truthy = false := by decide
/-- `a[0*n:m]` with all composite kinds off: `a`, `n`, `m` -/
example : deps offFlags (.subscript (.var "a") (.slice [zeroTimesN, .var "m"]))
    = .ok [.var "a", .var "n", .var "m"] := by decide
example : deps offFlags (.slice [.const .none, .bin .rem zeroTimesN (.var "k"), .const .none])
    = .ok [.var "n", .var "k"] := by decide

/-- the truth-value idiom: `self.combine(self.rec(ch) for ch in filter(None, expr.children))` -/
def depsSliceTruthy (fl : DepFlags) (cs : List Expr) : Except DepErr (List Expr) :=
  depsSlice fl (cs.filter Expr.truthy)

/-- **Sensitivity.**  Filtering the slice parts by truth value is not the analysis of the
property: on `[0*n : m]` the variable `n` occurs, and is missing from the result. -/
theorem slice_truthiness_filter_cex :
    ∃ (fl : DepFlags) (cs : List Expr) (n : String) (r : List Expr),
      (Expr.slice cs).wf = true ∧ Occurs fl (.slice cs) (.var n) ∧
      depsSliceTruthy fl cs = .ok r ∧ Expr.var n ∉ r ∧
      ∃ r', deps fl (.slice cs) = .ok r' ∧ Expr.var n ∈ r' := by
  refine ⟨offFlags, [zeroTimesN, .var "m"], "n", [.var "m"], by decide, ?_, by decide, by simp,
    [.var "n", .var "m"], by decide, by simp⟩
  exact .slice (c := zeroTimesN) (by simp) (.nary (c := .var "n") (by simp) (.var "n"))

/-- **Why ordinary slices cannot tell.**  When every present part of a slice is truthy the
truth-value idiom computes exactly what the analysis computes: only a falsy part separates
them. -/
theorem depsSliceTruthy_eq_of_truthy (fl : DepFlags) : ∀ (cs : List Expr),
    (∀ c ∈ cs, c ≠ .const .none → c.truthy = true) →
    depsSliceTruthy fl cs = depsSlice fl cs
  | [], _ => rfl
  | c :: cs, hc => by
      have ih := depsSliceTruthy_eq_of_truthy fl cs (fun d hd => hc d (by simp [hd]))
      unfold depsSliceTruthy at ih ⊢
      by_cases hn : c = .const .none
      · subst hn
        have : Expr.truthy (.const .none) = false := by decide
        simp only [List.filter_cons, this, Bool.false_eq_true, if_false, depsSlice]
        exact ih
      · have ht : c.truthy = true := hc c (by simp) hn
        simp only [List.filter_cons, ht, if_true]
        rw [depsSlice.eq_3 _ _ _ hn, depsSlice.eq_3 _ _ _ hn, ih]

example : depsSliceTruthy {} [.var "lo", .const .none, .nary .prod [.var "i", .var "n"]]
    = deps {} (.slice [.var "lo", .const .none, .nary .prod [.var "i", .var "n"]]) := by decide

end PV.C09
