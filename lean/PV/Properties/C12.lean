import PV.Proofs.CseRel
import PV.Proofs.CseNest
import PV.Proofs.CseEval
import PV.Proofs.CseValue
import PV.Proofs.CseShare
import PV.Proofs.CseErase
import PV.Proofs.CseTallyMain
import PV.Proofs.CseTallyPlanSpec
import PV.Properties.C02
/-
  C12 — common-subexpression handling keeps meaning and shares work: property theorems.

  Model (PV/Model/Cse.lean): `tagAll` = `tag_common_subexpressions` (one `UseCountMapper` walk over
  the whole list, then one `CSEMapper` with its canonical-wrapper table), `wrapInCse` /
  `makeCse` = the two wrapping helpers, `evalTr` / `runTr` = `EvaluationMapper` with the CSE
  result cache of `CSECachingMapperMixin`, instrumented with a chronological event log
  (`child w v`: the child of wrapper `w` was computed and cached; `call`: an environment function
  was invoked).  The model is tied to the code on every run by the correspondence streams of
  harness/props/c12.py (tagged trees, use counts, helper results, event logs).

  "Simple" expressions (PV/Proofs/Simple.lean): no bool / float constants, keyword calls or Python
  lists, so that Python `==` (the dict-key equality the tagger relies on) is structural identity.
-/
namespace PV.C12
open PV

/-! ### 1. equal value -/

/-- **Tagging preserves the value of every expression of the list**, for all environments: the
i-th tagged expression has a value iff the i-th input has one, and then it is the same value.
(Both may raise; the exception can differ, because a repeated sum or product is replaced by the
wrapper of its FIRST occurrence, whose operands may stand in another order — which is also why the
statement needs exact arithmetic: `den` abstains on floats.) -/
theorem tag_value (env : Env) (es outs : List Expr) (hs : ∀ e ∈ es, e.simple = true)
    (h : tagAll es = .ok outs) :
    outs.length = es.length ∧
      ∀ (i : Nat) (h1 : i < es.length) (h2 : i < outs.length) (v : Value),
        den env outs[i] = .ok v ↔ den env es[i] = .ok v := by
  unfold tagAll at h
  obtain ⟨cnt, _, h⟩ := except_bind_ok h
  obtain ⟨⟨out, T⟩, hm, h⟩ := except_bind_ok h
  simp only [pure, Except.pure] at h
  injection h with h; subst h
  obtain ⟨hr, _⟩ := cseMapL_rel (valueSpec env) (elimKeys cnt) es [] out T hs
    (by intro p hp; simp at hp) hm
  refine ⟨(relL_length hr).symm, ?_⟩
  intro i h1 h2 v
  exact ((relL_get hr i h1 h2) v).symm

/-- a tagged expression raises iff the original does -/
theorem tag_error_iff (env : Env) (es outs : List Expr) (hs : ∀ e ∈ es, e.simple = true)
    (h : tagAll es = .ok outs) (i : Nat) (h1 : i < es.length) (h2 : i < outs.length) :
    (∃ k, den env outs[i] = .error k) ↔ (∃ k, den env es[i] = .error k) := by
  have := (tag_value env es outs hs h).2 i h1 h2
  constructor <;> intro ⟨k, hk⟩
  · cases hd : den env es[i] with
    | error k' => exact ⟨k', rfl⟩
    | ok v => rw [(this v).mpr hd] at hk; cases hk
  · cases hd : den env outs[i] with
    | error k' => exact ⟨k', rfl⟩
    | ok v => rw [(this v).mp hd] at hk; cases hk

/-- the wrapper itself is transparent (C02) and `wrap_in_cse` never changes the meaning -/
theorem wrap_value (env : Env) (e : Expr) (p : Option String) :
    den env (wrapInCse e p) = den env e := den_wrapInCse e p

/-- non-vacuity: two commuted sums inside two calls; both sums become ONE wrapper -/
example :
    let x := Expr.var "x"
    let f := Expr.var "f"
    let one := Expr.const (.int 1)
    let w := Expr.cse (.nary .sum [x, one]) none evalScope
    tagAll [.call f [.nary .sum [x, one]], .bin .pow (.nary .sum [one, x]) (.const (.int 2))]
      = .ok [.call f [w], .bin .pow w (.const (.int 2))] := by rfl

/-! ### 2. no wrapper directly around a wrapper -/

/-- **The output contains no wrapper directly around a wrapper, given the input has none** — for
ALL expression lists (any node types, pre-existing wrappers with or without prefixes/scopes). -/
theorem no_cse_of_cse (es outs : List Expr) (hn : ∀ e ∈ es, e.noNest = true)
    (h : tagAll es = .ok outs) : ∀ o ∈ outs, o.noNest = true := by
  unfold tagAll at h
  obtain ⟨cnt, _, h⟩ := except_bind_ok h
  obtain ⟨⟨out, T⟩, hm, h⟩ := except_bind_ok h
  simp only [pure, Except.pure] at h
  injection h with h; subst h
  obtain ⟨hr, _⟩ := cseMapL_rel noNestSpec (elimKeys cnt) es [] out T hn
    (by intro p hp; simp at hp) hm
  intro o ho
  obtain ⟨c, hc, hco⟩ := relL_mem hr o ho
  exact hco (hn c hc)

/-- `wrap_in_cse` (the only place where the mapper creates wrappers) never puts a wrapper
directly around a wrapper, whatever it is given -/
theorem wrapInCse_never_nests (r : Expr) (p : Option String) (c : Expr) (q : Option String)
    (s : String) (h : wrapInCse r p = .cse c q s) (hc : c.isCse = true) :
    ∃ q' s', r = .cse c q' s' := wrapInCse_top r p c q s h hc

/-- non-vacuity: a pre-existing wrapper around a repeated sum is merged with the canonical one -/
example :
    let s := Expr.nary .sum [.var "a", .var "b"]
    tagAll [.cse s none "pymbolic_expr", s] = .ok [.cse s none evalScope, .cse s none evalScope] := by
  rfl

/-! ### 3. repeated operations share one wrapper -/

/-- **Sharing.**  On the fragment of the property (variables, integer constants, sums, products,
divisions, powers, calls) tagging never fails in the mapper, and all outputs are obtained from the
inputs by the STATELESS function `applyTbl` reading one final table `Tf`: at every operation node
whose normalised key was counted more than once it returns the wrapper stored under that key —
the same wrapper at every occurrence, in every expression of the list — and it rebuilds all other
nodes.  Every entry of `Tf` is a prefix-less, evaluation-scope wrapper directly around an
operation node, stored under the key of a simple expression. -/
theorem tag_shares (es outs : List Expr) (hf : Expr.fragL es = true) (h : tagAll es = .ok outs) :
    ∃ cnt Tf, useCountL es [] = .ok cnt ∧ outs = applyTblL (elimKeys cnt) Tf es ∧ TblKeys Tf ∧
      ∀ p ∈ Tf, ∃ r, p.2 = .cse r none evalScope ∧ r.isCseOp = true := by
  unfold tagAll at h
  obtain ⟨cnt, hc, h⟩ := except_bind_ok h
  obtain ⟨⟨out, T⟩, hm, h⟩ := except_bind_ok h
  simp only [pure, Except.pure] at h
  injection h with h; subst h
  obtain ⟨cs', Tf, h1, _, had, hap⟩ := cseMapL_frag (elimKeys cnt) es [] hf
  rw [hm] at h1
  injection h1 with h1; injection h1 with e1 e2; subst e1; subst e2
  refine ⟨cnt, T, hc, (hap T (Tbl.le_refl T)).symm, tblKeys_of_added had, ?_⟩
  intro p hp
  rcases had p hp with h | ⟨_, hw⟩
  · simp at h
  · exact hw

/-- … and `applyTbl` maps any two operation nodes with Python-equal normalised keys that are to be
eliminated to the SAME wrapper (two sums or two products with the same operands in another order
have equal keys: `keyEq_of_perm`). -/
theorem same_key_same_wrapper (elim : List CKey) (Tf : Tbl) (hT : TblKeys Tf) (a b w : Expr)
    (ha : a.simple = true) (hb : b.simple = true) (oa : a.isCseOp = true) (ob : b.isCseOp = true)
    (ea : inElim elim (normalizedKey a) = true) (eb : inElim elim (normalizedKey b) = true)
    (hk : (normalizedKey a).eq (normalizedKey b) = true)
    (hw : Tf.find (normalizedKey a) = some w) :
    applyTbl elim Tf a = w ∧ applyTbl elim Tf b = w := by
  have hw' : Tf.find (normalizedKey b) = some w := by rw [← Tbl.find_congr ha hb hk hT]; exact hw
  have key : ∀ (e : Expr), e.isCseOp = true → inElim elim (normalizedKey e) = true →
      Tf.find (normalizedKey e) = some w → applyTbl elim Tf e = w := by
    intro e oe ee fe
    cases e <;> simp only [Expr.isCseOp, Bool.false_eq_true] at oe <;>
      simp only [applyTbl, choose, modeOf, Expr.isCseOp, oe, ee, fe, Bool.and_self, if_true]
  exact ⟨key a oa ea hw, key b ob eb hw'⟩

/-- sums / products of the same simple operands in another order have Python-equal keys -/
theorem keyEq_of_perm (o : NaryOp) (ho : o.isComm = true) (cs cs' : List Expr)
    (hs : Expr.simpleL cs = true) (hp : cs.Perm cs') :
    (normalizedKey (.nary o cs)).eq (normalizedKey (.nary o cs')) = true := by
  cases o <;> simp only [NaryOp.isComm, Bool.false_eq_true] at ho <;>
    simp only [normalizedKey] <;> exact PV.keyEq_of_perm _ hs hp

/-- non-vacuity of the sharing theorem: its hypotheses hold for a list with a repeated call, a
commuted sum and a nested repeated product -/
example :
    let a := Expr.var "a"; let b := Expr.var "b"; let f := Expr.var "f"
    let es := [Expr.call f [.nary .sum [a, b]], .nary .prod [.nary .sum [b, a], .call f [.nary .sum [a, b]]]]
    Expr.fragL es = true ∧
    tagAll es = .ok [.cse (.call f [.cse (.nary .sum [a, b]) none evalScope]) none evalScope,
      .nary .prod [.cse (.nary .sum [a, b]) none evalScope,
        .cse (.call f [.cse (.nary .sum [a, b]) none evalScope]) none evalScope]] := by
  exact ⟨by decide, by rfl⟩

/-! ### 4. the evaluator computes the child of each distinct wrapper once -/

/-- **Each distinct wrapper's child is computed at most once per evaluator instance**, however
often the wrapper occurs and however many expressions are evaluated: in the event log of ANY
history of evaluations on one evaluator (fresh: `t = []`, or reused: any log reached before),
the wrappers of the `child` events (`computed`) are pairwise different.  (A computation that
raises aborts the whole `evaluate` call and stores nothing.) -/
theorem cse_child_once (env : Env) (es : List Expr) (hs : ∀ e ∈ es, e.simple = true) :
    (computed (runTr env es []).2).Nodup :=
  (runTr_good env es [] hs goodLog_nil).1

/-- the same on a reused evaluator -/
theorem cse_child_once_reused (env : Env) (es : List Expr) (t : Log)
    (hs : ∀ e ∈ es, e.simple = true) (ht : GoodLog t) : (computed (runTr env es t).2).Nodup :=
  (runTr_good env es t hs ht).1

/-- … **and at least once**: after a wrapper has been evaluated successfully it is in the cache
(so "exactly once"), and a wrapper that is in the cache is answered from it without any new event -/
theorem cse_child_cached (env : Env) (c : Expr) (p : Option String) (sc : String) (t : Log)
    (hs : (Expr.cse c p sc).simple = true) (v : Value)
    (h : (evalTr env (.cse c p sc) t).1 = .ok v) :
    findBy Expr.pyEq (.cse c p sc) (cacheOf (evalTr env (.cse c p sc) t).2) = some v := by
  have hl : c.hasList = false := by
    have := simple_nolist _ hs; simpa [Expr.hasList] using this
  simp only [evalTr, hl, Bool.false_eq_true, if_false] at h ⊢
  cases hf : findBy Expr.pyEq (.cse c p sc) (cacheOf t) with
  | some v' =>
    simp only [hf] at h ⊢
    injection h with h; subst h; rfl
  | none =>
    simp only [hf] at h ⊢
    cases hr : evalTr env c t with
    | mk r t1 =>
      simp only [hr] at h ⊢
      cases r with
      | error e => cases h
      | ok v' =>
        simp only at h ⊢
        injection h with h; subst h
        simp [cacheOf, findBy, pyEq_self_simple _ hs]

theorem cse_hit_no_event (env : Env) (c : Expr) (p : Option String) (sc : String) (t : Log)
    (v : Value) (hl : c.hasList = false)
    (h : findBy Expr.pyEq (.cse c p sc) (cacheOf t) = some v) :
    evalTr env (.cse c p sc) t = (.ok v, t) := by
  simp [evalTr, hl, h]

/-- forgetting the log, the instrumented evaluator is the plain evaluator of C02 … -/
theorem evalTr_is_evalG (env : Env) (es : List Expr) (t : Log) (mem : List (Expr × Value)) :
    (runTr env es t).1 = runHist false env es ⟨cacheOf t, mem⟩ :=
  runTr_eq_runHist env es t mem

/-- … hence (C02) every result of every history is the standard meaning `den` -/
theorem runTr_eq_den (env : Env) (es : List Expr) (hs : ∀ e ∈ es, e.simple = true) :
    (runTr env es []).1 = es.map (den env) := by
  rw [runTr_eq_runHist env es [] []]
  exact C02.history_eq_den universe_simple false es _ hs C02.evInv_empty

theorem runTr_inv (env : Env) : ∀ (es : List Expr) (t : Log), (∀ e ∈ es, e.simple = true) →
    EvInv env (fun e => e.simple = true) ⟨cacheOf t, []⟩ →
    EvInv env (fun e => e.simple = true) ⟨cacheOf (runTr env es t).2, []⟩
  | [], t, _, h => by simpa [runTr] using h
  | e :: es, t, hs, h => by
    obtain ⟨s', h1, i1⟩ := C02.evalG_eq_den universe_simple false e (hs e (by simp)) _ h
    have h2 := (node_er env e t []).2
    simp only [evalG, withMemo_false] at h1
    rw [h1] at h2
    simp only at h2
    subst h2
    simp only [runTr]
    cases hr : evalTr env e t with
    | mk r t1 =>
      rw [hr] at i1
      simp only
      cases hr2 : runTr env es t1 with
      | mk rs t2 =>
        have := runTr_inv env es t1 (fun x hx => hs x (by simp [hx])) i1
        rw [hr2] at this
        exact this

/-- every value stored for a wrapper (and returned for all its later occurrences) is the
standard meaning of the wrapper -/
theorem cse_child_value (env : Env) (es : List Expr) (hs : ∀ e ∈ es, e.simple = true)
    (w : Expr) (v : Value) (h : EvEvent.child w v ∈ (runTr env es []).2) : den env w = .ok v := by
  have inv := runTr_inv env es [] hs C02.evInv_empty
  exact (inv.1 w v (mem_cacheOf.mpr h)).2

/-- non-vacuity: one wrapper five times in one sum and again in a second evaluation: one
`child` event, one call of `f` -/
example :
    let w := Expr.cse (.call (.var "f") [.var "x"]) none evalScope
    let env : Env := [("x", .int 1), ("f", .func "f")]
    (runTr env [.tuple [w, w, w, w, w], w] []).2 =
      [.child w (.app "f" [.int 1] [] []), .call "f" [.int 1] [] []] := by rfl

/-! ### 5. the wrapping helpers, each as the code defines it -/

/-- what the property sentence calls "left unwrapped" -/
def leafKind : Expr → Bool
  | .const (.int _) | .const (.bool _) | .const (.flt ..) => true
  | .var _ | .subscript _ _ | .cse .. => true
  | _ => false

/-- `wrap_in_cse` leaves variables and subscripts alone … -/
theorem wrapInCse_var (x : String) (p : Option String) : wrapInCse (.var x) p = .var x := rfl
theorem wrapInCse_subscript (a i : Expr) (p : Option String) :
    wrapInCse (.subscript a i) p = .subscript a i := rfl

/-- … and wrapped nodes wrapped ONCE: the child is kept; only a missing prefix is filled in -/
theorem wrapInCse_wrapper (c : Expr) (q p : Option String) (s : String) :
    ∃ q' s', wrapInCse (.cse c q s) p = .cse c q' s' ∧ (p = none → q' = q ∧ s' = s) ∧
      (q ≠ none → q' = q ∧ s' = s) := by
  cases p with
  | none => exact ⟨q, s, rfl, fun _ => ⟨rfl, rfl⟩, fun _ => ⟨rfl, rfl⟩⟩
  | some pp =>
    cases q with
    | none => exact ⟨some pp, evalScope, rfl, (fun h => (by cases h)), (fun h => absurd rfl h)⟩
    | some qq => exact ⟨some qq, s, rfl, (fun h => (by cases h)), (fun _ => ⟨rfl, rfl⟩)⟩

/-- everything else (constants included) gets one evaluation-scope wrapper with the prefix -/
theorem wrapInCse_wraps (e : Expr) (p : Option String)
    (h : ∀ x, e ≠ .var x) (h2 : ∀ a i, e ≠ .subscript a i) (h3 : ∀ c q s, e ≠ .cse c q s) :
    wrapInCse e p = .cse e p evalScope := by
  cases e <;> first
    | rfl
    | exact absurd rfl (h _)
    | exact absurd rfl (h2 _ _)
    | exact absurd rfl (h3 _ _ _)

/-- the sentence restricted to what `wrap_in_cse` really does: every leaf kind except constants -/
theorem wrap_leaves_wrapInCse_partial (e : Expr) (p : Option String) (hk : leafKind e = true)
    (hc : e.isConstant = false) :
    wrapInCse e p = e ∨ ∃ c q s q' s', e = .cse c q s ∧ wrapInCse e p = .cse c q' s' := by
  cases e <;> simp only [leafKind, Bool.false_eq_true] at hk
  case const c => cases c <;> simp_all [Expr.isConstant]
  case var x => exact Or.inl rfl
  case subscript a i => exact Or.inl rfl
  case cse c q s =>
    obtain ⟨q', s', h, _⟩ := wrapInCse_wrapper c q p s
    exact Or.inr ⟨c, q, s, q', s', rfl, h⟩

/-- **finding**: `wrap_in_cse` wraps a constant -/
theorem wrap_leaves_wrapInCse_cex :
    wrapInCse (.const (.int 3)) none = .cse (.const (.int 3)) none evalScope := rfl

/-- `make_common_subexpression` leaves constants alone … -/
theorem makeCse_constant (e : Expr) (p s : Option String) (h : e.isConstant = true) :
    makeCse e p s = e := by
  cases e <;> simp_all [makeCse, Expr.isConstant]

/-- … and wrappers whose scope is compatible with the requested one -/
theorem makeCse_wrapper (c : Expr) (q : Option String) (s : String) (p sc : Option String)
    (h : sc = none ∨ sc = some evalScope ∨ sc = some s) : makeCse (.cse c q s) p sc = .cse c q s := by
  rcases h with rfl | rfl | rfl <;> simp [makeCse]

/-- everything else gets one wrapper with the prefix and the scope (default: evaluation) -/
theorem makeCse_wraps (e : Expr) (p sc : Option String) (hc : e.isConstant = false)
    (h3 : ∀ c q s, e ≠ .cse c q s) : makeCse e p sc = .cse e p (sc.getD evalScope) := by
  cases e <;> first
    | exact absurd rfl (h3 _ _ _)
    | simp_all [makeCse]

/-- the sentence restricted to what `make_common_subexpression` really does -/
theorem wrap_leaves_makeCse_partial (e : Expr) (p sc : Option String)
    (h : e.isConstant = true ∨ ∃ c q s, e = .cse c q s ∧
      (sc = none ∨ sc = some evalScope ∨ sc = some s)) : makeCse e p sc = e := by
  rcases h with h | ⟨c, q, s, rfl, h⟩
  · exact makeCse_constant e p sc h
  · exact makeCse_wrapper c q s p sc h

/-- **findings**: `make_common_subexpression` wraps a variable, a subscript, and a wrapper whose
scope differs from a requested non-default scope (a wrapper directly around a wrapper) -/
theorem wrap_leaves_makeCse_variable_cex :
    makeCse (.var "x") none none = .cse (.var "x") none evalScope := rfl
theorem wrap_leaves_makeCse_subscript_cex :
    makeCse (.subscript (.var "a") (.var "x")) none none =
      .cse (.subscript (.var "a") (.var "x")) none evalScope := rfl
theorem wrap_leaves_makeCse_wrapper_cex :
    makeCse (.cse (.var "x") none evalScope) (some "p") (some "pymbolic_expr") =
      .cse (.cse (.var "x") none evalScope) (some "p") "pymbolic_expr" := rfl

/-! ### 6. end to end: tag, then evaluate everything with ONE evaluator — each operation once

Model (PV/Model/CseTally.lean): `evalCnt` is `evalTr` with two more kinds of events in its log —
`arithN` / `arithB` (one `+`, `*`, `/`, `//`, `%`, `**` was performed: what a counting number in
the environment observes) and `node e` (the handler of operation node `e` returned) — and with the
functions of the environment as a parameter `sem` (ANY pure functions).  `c12PlanL es []` is the
reference "every distinct operation once" of the harness oracle (`reference_counts` with the
one-level classifier): one representative per normalised key (`NormalizedKeyGetter`: sums and
products up to the order of their operands, the operands AS WRITTEN), in evaluation order.
`c12Count k` counts the operations of kind `k` in a log, `c12Cost k` those a list of operation
nodes stands for (a sum of n operands: n additions, as `sum(...)` performs them).

Which notion of "the same operation" does the code achieve?  NEITHER of the two the oracle
computes, exactly:
  * one-level (`onelevel_class`, the tagger's own key): each class is performed AT MOST once
    (`tagged_ops_once`, unconditional) and EXACTLY once — the run performs precisely the reference
    plan — when no two canonical wrappers are structurally equal (`tagged_ops_reference_partial`);
    two classes that differ only in the operand order of a NESTED sum/product and are both
    repeated get equal wrappers, and then the evaluator's cache merges them too: fewer operations
    than one per class (`tagged_tally_onelevel_cex`);
  * recursive (`recursive_class`): false in the other direction — `(a+b)*c` and `c*(b+a)` share
    `a+b` but the product is performed twice (`tagged_tally_recursive_cex`, the known finding
    nested-commuted-operands-not-merged). -/

/-- the counting evaluator is a thin copy of the instrumented evaluator of §4: forgetting the
arithmetic and handler events, same results and same `child` / `call` log — hence (C02,
`evalTr_is_evalG`) the values are those of `evalG` and `den` -/
theorem counting_is_evalTr (env : Env) (e : Expr) (t : C12Log) :
    (evalCnt c12SemApp env e t).1 = (evalTr env e (c12Erase t)).1 ∧
      c12Erase (evalCnt c12SemApp env e t).2 = (evalTr env e (c12Erase t)).2 :=
  cnt_er env e t

theorem counting_list_is_evalTr (env : Env) (es : List Expr) (t : C12Log) :
    (evalCntList c12SemApp env es t).1 = (evalTrList env es (c12Erase t)).1 ∧
      c12Erase (evalCntList c12SemApp env es t).2 = (evalTrList env es (c12Erase t)).2 :=
  cntList_er env es t

/-- **what the use counts mean.**  Counting a fragment list never fails, and wherever the
memoising reference walk over the inputs meets a key it has met before (`c12HitsElimL`: every memo
hit), that key has been counted at least twice, i.e. is in `to_eliminate`.  (Conversely an
operation that is not in `to_eliminate` is met once.) -/
theorem repeats_are_eliminated (es : List Expr) (hf : Expr.fragL es = true) :
    ∃ cnt, useCountL es [] = .ok cnt ∧ c12HitsElimL (elimKeys cnt) es [] = true :=
  let ⟨cnt, h1, h2, _⟩ := useCountL_hitsElim es hf
  ⟨cnt, h1, h2⟩

/-- non-vacuity: `a+b`, `b+a` and `(a+b)**2`: one key (the sum) is counted twice and eliminated,
and the reference walk has exactly one memo hit, on that key -/
example :
    let a := Expr.var "a"; let b := Expr.var "b"
    let es := [Expr.nary .sum [a, b], .bin .pow (.nary .sum [b, a]) (.const (.int 2))]
    Expr.fragL es = true ∧ (c12Elim es).length = 1 ∧ c12HitsElimL (c12Elim es) es [] = true ∧
      c12HitsElimL [] es [] = false := by
  refine ⟨by decide, by decide, by decide, by decide⟩

/-- **the reference plan is "every distinct operation once".**  For a fragment list: no two
members of `c12PlanL es []` have the same normalised key, every member is an operation subterm of
the inputs (`c12OpsL`), and every operation subterm of the inputs has the key of a member. -/
theorem reference_plan_spec (es : List Expr) (hf : Expr.fragL es = true) :
    (c12PlanL es []).Pairwise (fun a b => c12SameKey a b = false) ∧
    (∀ s ∈ c12PlanL es [], s ∈ c12OpsL es) ∧
    (∀ x ∈ c12OpsL es, c12Has (c12PlanL es []) x = true) := by
  obtain ⟨dn, h, hI, hs, ha⟩ := c12PlanL_ok es [] hf
    ⟨by intro s hs; simp at hs, List.Pairwise.nil, by intro s hs; simp at hs⟩
  simp only [List.nil_append] at h
  refine ⟨hI.pw, ?_, ha⟩
  intro s hs'
  rw [h] at hs'
  exact (hs s hs').2

/-- non-vacuity: three operations, two keys (the commuted sum is the same operation) -/
example :
    let a := Expr.var "a"; let b := Expr.var "b"
    c12PlanL [.nary .sum [a, b], .bin .pow (.nary .sum [b, a]) (.const (.int 2))] [] =
      [.nary .sum [a, b], .bin .pow (.nary .sum [b, a]) (.const (.int 2))] := by decide

/-- **every successful run follows the value-free schedule**, for all environments and all
function semantics: the handlers that return (`c12Nodes`, oldest first) are `c12SchedL`, the
wrappers computed are its cache, and for every kind of operation the number performed is the
cost of the scheduled nodes. -/
theorem eval_follows_schedule (sem : C12Sem) (env : Env) (outs : List Expr) (vals : List Value)
    (t : C12Log) (hf : Expr.tfragL outs = true)
    (hr : evalCntList sem env outs [] = (.ok vals, t)) :
    (c12Nodes t).reverse = (c12SchedL outs []).1 ∧ c12Computed t = (c12SchedL outs []).2 ∧
      ∀ k, c12Count k t = c12Cost k (c12SchedL outs []).1 := by
  obtain ⟨new, e1, a1, b1, _, d1⟩ :=
    evalCntList_sched sem env outs [] t vals hf (by intro w hw; simp [c12Computed, c12CacheOf] at hw) hr
  simp only [List.append_nil] at e1; subst e1
  have hc : c12Computed ([] : C12Log) = [] := rfl
  rw [hc] at a1 b1 d1
  exact ⟨a1, b1, fun k => by simpa using d1 k⟩

/-- **End to end, at most once (unconditional).**  For inputs built from variables, integer
constants, sums, products, divisions, powers and calls: `tag_common_subexpressions` succeeds, and
whenever ALL its outputs are evaluated with ONE evaluator without an exception (any environment,
any pure functions in it), the operation nodes whose handler ran, in order, are a SUBLIST of the
tagged forms (`c12Rebuild`: operands replaced by their tagged versions) of the reference plan —
one representative per normalised key.  So no operation the tagger identifies (same normalised
key) is performed twice, and for every kind of operation the number performed is at most the
reference tally. -/
theorem tagged_ops_once (sem : C12Sem) (env : Env) (es : List Expr)
    (hf : Expr.fragL es = true) :
    ∃ outs, tagAll es = .ok outs ∧ ∀ vals t, evalCntList sem env outs [] = (.ok vals, t) →
      (c12Nodes t).reverse.Sublist
        ((c12PlanL es []).map (c12Rebuild (c12Elim es) (c12Table es))) ∧
      ∀ k, c12Count k t ≤ c12Cost k (c12PlanL es []) := by
  obtain ⟨outs, h1, _, h3, h4, _⟩ := tagAll_sched es hf
  refine ⟨outs, h1, fun vals t hr => ?_⟩
  obtain ⟨a, _, c⟩ := eval_follows_schedule sem env outs vals t h3 hr
  refine ⟨a ▸ h4, fun k => ?_⟩
  rw [c k, ← c12Cost_map_rebuild k (c12Elim es) (c12Table es) (c12PlanL es [])]
  exact c12Cost_sublist k h4

/-- **End to end, exactly the reference (when the canonical wrappers are pairwise distinct).**
Then the handlers that ran are EXACTLY the tagged forms of the reference plan, in its order: every
normalised key among the operations of the input is performed exactly once, and the tally of the
run (additions, multiplications, divisions, powers, calls) is the reference tally
`c12RefTally es` = "every distinct operation once" with the one-level classifier. -/
theorem tagged_ops_reference_partial (sem : C12Sem) (env : Env) (es : List Expr)
    (hf : Expr.fragL es = true) (hnc : c12NoCollapse es) :
    ∃ outs, tagAll es = .ok outs ∧ ∀ vals t, evalCntList sem env outs [] = (.ok vals, t) →
      (c12Nodes t).reverse = (c12PlanL es []).map (c12Rebuild (c12Elim es) (c12Table es)) ∧
      (∀ k, c12Count k t = c12Cost k (c12PlanL es [])) ∧
      c12TallyOfLog t = c12RefTally es := by
  obtain ⟨outs, h1, _, h3, _, h5⟩ := tagAll_sched es hf
  refine ⟨outs, h1, fun vals t hr => ?_⟩
  obtain ⟨a, _, c⟩ := eval_follows_schedule sem env outs vals t h3 hr
  have hk : ∀ k, c12Count k t = c12Cost k (c12PlanL es []) := by
    intro k
    rw [c k, h5 hnc, c12Cost_map_rebuild]
  refine ⟨by rw [a, h5 hnc], hk, ?_⟩
  simp only [c12TallyOfLog, c12RefTally, c12TallyOfNodes, hk]

/-- the same on the level of tallies, unconditional: never more than the reference -/
theorem tagged_tally_le_reference (sem : C12Sem) (env : Env) (es outs : List Expr)
    (vals : List Value) (t : C12Log) (hf : Expr.fragL es = true) (h : tagAll es = .ok outs)
    (hr : evalCntList sem env outs [] = (.ok vals, t)) :
    (c12TallyOfLog t).add ≤ (c12RefTally es).add ∧ (c12TallyOfLog t).mul ≤ (c12RefTally es).mul ∧
    (c12TallyOfLog t).div ≤ (c12RefTally es).div ∧ (c12TallyOfLog t).pow ≤ (c12RefTally es).pow ∧
    (c12TallyOfLog t).call ≤ (c12RefTally es).call := by
  obtain ⟨outs', h1, h2⟩ := tagged_ops_once sem env es hf
  rw [h] at h1; injection h1 with h1; subst h1
  have := (h2 vals t hr).2
  exact ⟨this _, this _, this _, this _, this _⟩

/-- non-vacuity: the hypotheses of the exact theorem hold for a list with a repeated call, a
commuted sum and a nested repeated product, evaluated with the counting function of the harness;
the run performs 2 additions, 2 multiplications and one call -/
example :
    let a := Expr.var "a"; let b := Expr.var "b"; let f := Expr.var "f"
    let es := [Expr.call f [.nary .sum [a, b]], .nary .prod [.nary .sum [b, a], .call f [.nary .sum [a, b]]]]
    let env : Env := [("a", .int 1), ("b", .int 2), ("f", .func "f")]
    Expr.fragL es = true ∧ c12NoCollapse es ∧
    c12RunTally c12SemAffine env es = some ⟨2, 2, 0, 0, 0, 0, 1⟩ ∧
    c12RefTally es = ⟨2, 2, 0, 0, 0, 0, 1⟩ := by
  refine ⟨by decide, by decide, by decide, by decide⟩

/-- **the one-level notion is not exact**: `[(a+b)*c, (a+b)*c, (b+a)*c, (b+a)*c]` — the two
products have different keys (their first operands are different expressions), both are repeated,
and both canonical wrappers are `CSE(CSE(a+b)*c)`; the run performs 2 multiplications, one per
class would be 4. -/
theorem tagged_tally_onelevel_cex :
    let a := Expr.var "a"; let b := Expr.var "b"; let c := Expr.var "c"
    let e0 := Expr.nary .prod [.nary .sum [a, b], c]
    let e1 := Expr.nary .prod [.nary .sum [b, a], c]
    let es := [e0, e0, e1, e1]
    let env : Env := [("a", .int 1), ("b", .int 2), ("c", .int 3)]
    Expr.fragL es = true ∧ ¬ c12NoCollapse es ∧ c12SameKey e0 e1 = false ∧
    c12RunTally c12SemApp env es = some ⟨2, 2, 0, 0, 0, 0, 0⟩ ∧
    c12RefTally es = ⟨2, 4, 0, 0, 0, 0, 0⟩ := by
  refine ⟨by decide, by decide, by decide, by decide, by decide⟩

/-- **the recursive notion fails**: `[(a+b)*c, c*(b+a)]` — `a+b` is shared, but the two products
have different keys, each occurs once, and both are performed (4 multiplications); as tagged
operations they ARE the same up to operand order: the handlers that ran include two products with
equal normalised key. -/
theorem tagged_tally_recursive_cex :
    let a := Expr.var "a"; let b := Expr.var "b"; let c := Expr.var "c"
    let w := Expr.cse (.nary .sum [a, b]) none evalScope
    let es := [Expr.nary .prod [.nary .sum [a, b], c], .nary .prod [c, .nary .sum [b, a]]]
    let env : Env := [("a", .int 1), ("b", .int 2), ("c", .int 3)]
    Expr.fragL es = true ∧ c12NoCollapse es ∧
    c12RunNodes c12SemApp env es =
      some [.nary .sum [a, b], .nary .prod [w, c], .nary .prod [c, w]] ∧
    c12SameKey (.nary .prod [w, c]) (.nary .prod [c, w]) = true ∧
    c12RunTally c12SemApp env es = some ⟨2, 4, 0, 0, 0, 0, 0⟩ := by
  refine ⟨by decide, by decide, by decide, by decide, by decide⟩

end PV.C12
