import PV.Proofs.CseRel
import PV.Proofs.CseNest
import PV.Proofs.CseEval
import PV.Proofs.CseValue
import PV.Proofs.CseShare
import PV.Proofs.CseErase
import PV.Properties.C02
/-
  C12 — common-subexpression handling keeps meaning and shares work: property theorems.

  Model (PV/Model/Cse.lean): `tagAll` = `tag_common_subexpressions` (one `UseCountMapper` walk over
  the whole list, then one `CSEMapper` with its canonical-wrapper table), `wrapInCse` /
  `makeCse` = the two wrapping helpers, `evalTr` / `runTr` = `EvaluationMapper` with the CSE
  result cache of `CSECachingMapperMixin`, instrumented with a chronological event log
  (`child w v`: the child of wrapper `w` was computed and cached; `call`: an environment function
  was invoked).  The model is tied to the code on every run by the correspondence streams of
  harness/props/c12.py (tagged trees, use counts, helper results, event logs).

  "Simple" expressions (PV/Proofs/Simple.lean): no bool / float constants, keyword calls or Python
  lists, so that Python `==` (the dict-key equality the tagger relies on) is structural identity.
-/
namespace PV.C12
open PV

/-! ### 1. equal value -/

/-- **Tagging preserves the value of every expression of the list**, for all environments: the
i-th tagged expression has a value iff the i-th input has one, and then it is the same value.
(Both may raise; the exception can differ, because a repeated sum or product is replaced by the
wrapper of its FIRST occurrence, whose operands may stand in another order — which is also why the
statement needs exact arithmetic: `den` abstains on floats.) -/
theorem tag_value (env : Env) (es outs : List Expr) (hs : ∀ e ∈ es, e.simple = true)
    (h : tagAll es = .ok outs) :
    outs.length = es.length ∧
      ∀ (i : Nat) (h1 : i < es.length) (h2 : i < outs.length) (v : Value),
        den env outs[i] = .ok v ↔ den env es[i] = .ok v := by
  unfold tagAll at h
  obtain ⟨cnt, _, h⟩ := except_bind_ok h
  obtain ⟨⟨out, T⟩, hm, h⟩ := except_bind_ok h
  simp only [pure, Except.pure] at h
  injection h with h; subst h
  obtain ⟨hr, _⟩ := cseMapL_rel (valueSpec env) (elimKeys cnt) es [] out T hs
    (by intro p hp; simp at hp) hm
  refine ⟨(relL_length hr).symm, ?_⟩
  intro i h1 h2 v
  exact ((relL_get hr i h1 h2) v).symm

/-- a tagged expression raises iff the original does -/
theorem tag_error_iff (env : Env) (es outs : List Expr) (hs : ∀ e ∈ es, e.simple = true)
    (h : tagAll es = .ok outs) (i : Nat) (h1 : i < es.length) (h2 : i < outs.length) :
    (∃ k, den env outs[i] = .error k) ↔ (∃ k, den env es[i] = .error k) := by
  have := (tag_value env es outs hs h).2 i h1 h2
  constructor <;> intro ⟨k, hk⟩
  · cases hd : den env es[i] with
    | error k' => exact ⟨k', rfl⟩
    | ok v => rw [(this v).mpr hd] at hk; cases hk
  · cases hd : den env outs[i] with
    | error k' => exact ⟨k', rfl⟩
    | ok v => rw [(this v).mp hd] at hk; cases hk

/-- the wrapper itself is transparent (C02) and `wrap_in_cse` never changes the meaning -/
theorem wrap_value (env : Env) (e : Expr) (p : Option String) :
    den env (wrapInCse e p) = den env e := den_wrapInCse e p

/-- non-vacuity: two commuted sums inside two calls; both sums become ONE wrapper -/
example :
    let x := Expr.var "x"
    let f := Expr.var "f"
    let one := Expr.const (.int 1)
    let w := Expr.cse (.nary .sum [x, one]) none evalScope
    tagAll [.call f [.nary .sum [x, one]], .bin .pow (.nary .sum [one, x]) (.const (.int 2))]
      = .ok [.call f [w], .bin .pow w (.const (.int 2))] := by rfl

/-! ### 2. no wrapper directly around a wrapper -/

/-- **The output contains no wrapper directly around a wrapper, given the input has none** — for
ALL expression lists (any node types, pre-existing wrappers with or without prefixes/scopes). -/
theorem no_cse_of_cse (es outs : List Expr) (hn : ∀ e ∈ es, e.noNest = true)
    (h : tagAll es = .ok outs) : ∀ o ∈ outs, o.noNest = true := by
  unfold tagAll at h
  obtain ⟨cnt, _, h⟩ := except_bind_ok h
  obtain ⟨⟨out, T⟩, hm, h⟩ := except_bind_ok h
  simp only [pure, Except.pure] at h
  injection h with h; subst h
  obtain ⟨hr, _⟩ := cseMapL_rel noNestSpec (elimKeys cnt) es [] out T hn
    (by intro p hp; simp at hp) hm
  intro o ho
  obtain ⟨c, hc, hco⟩ := relL_mem hr o ho
  exact hco (hn c hc)

/-- `wrap_in_cse` (the only place where the mapper creates wrappers) never puts a wrapper
directly around a wrapper, whatever it is given -/
theorem wrapInCse_never_nests (r : Expr) (p : Option String) (c : Expr) (q : Option String)
    (s : String) (h : wrapInCse r p = .cse c q s) (hc : c.isCse = true) :
    ∃ q' s', r = .cse c q' s' := wrapInCse_top r p c q s h hc

/-- non-vacuity: a pre-existing wrapper around a repeated sum is merged with the canonical one -/
example :
    let s := Expr.nary .sum [.var "a", .var "b"]
    tagAll [.cse s none "pymbolic_expr", s] = .ok [.cse s none evalScope, .cse s none evalScope] := by
  rfl

/-! ### 3. repeated operations share one wrapper -/

/-- **Sharing.**  On the fragment of the property (variables, integer constants, sums, products,
divisions, powers, calls) tagging never fails in the mapper, and all outputs are obtained from the
inputs by the STATELESS function `applyTbl` reading one final table `Tf`: at every operation node
whose normalised key was counted more than once it returns the wrapper stored under that key —
the same wrapper at every occurrence, in every expression of the list — and it rebuilds all other
nodes.  Every entry of `Tf` is a prefix-less, evaluation-scope wrapper directly around an
operation node, stored under the key of a simple expression. -/
theorem tag_shares (es outs : List Expr) (hf : Expr.fragL es = true) (h : tagAll es = .ok outs) :
    ∃ cnt Tf, useCountL es [] = .ok cnt ∧ outs = applyTblL (elimKeys cnt) Tf es ∧ TblKeys Tf ∧
      ∀ p ∈ Tf, ∃ r, p.2 = .cse r none evalScope ∧ r.isCseOp = true := by
  unfold tagAll at h
  obtain ⟨cnt, hc, h⟩ := except_bind_ok h
  obtain ⟨⟨out, T⟩, hm, h⟩ := except_bind_ok h
  simp only [pure, Except.pure] at h
  injection h with h; subst h
  obtain ⟨cs', Tf, h1, _, had, hap⟩ := cseMapL_frag (elimKeys cnt) es [] hf
  rw [hm] at h1
  injection h1 with h1; injection h1 with e1 e2; subst e1; subst e2
  refine ⟨cnt, T, hc, (hap T (Tbl.le_refl T)).symm, tblKeys_of_added had, ?_⟩
  intro p hp
  rcases had p hp with h | ⟨_, hw⟩
  · simp at h
  · exact hw

/-- … and `applyTbl` maps any two operation nodes with Python-equal normalised keys that are to be
eliminated to the SAME wrapper (two sums or two products with the same operands in another order
have equal keys: `keyEq_of_perm`). -/
theorem same_key_same_wrapper (elim : List CKey) (Tf : Tbl) (hT : TblKeys Tf) (a b w : Expr)
    (ha : a.simple = true) (hb : b.simple = true) (oa : a.isCseOp = true) (ob : b.isCseOp = true)
    (ea : inElim elim (normalizedKey a) = true) (eb : inElim elim (normalizedKey b) = true)
    (hk : (normalizedKey a).eq (normalizedKey b) = true)
    (hw : Tf.find (normalizedKey a) = some w) :
    applyTbl elim Tf a = w ∧ applyTbl elim Tf b = w := by
  have hw' : Tf.find (normalizedKey b) = some w := by rw [← Tbl.find_congr ha hb hk hT]; exact hw
  have key : ∀ (e : Expr), e.isCseOp = true → inElim elim (normalizedKey e) = true →
      Tf.find (normalizedKey e) = some w → applyTbl elim Tf e = w := by
    intro e oe ee fe
    cases e <;> simp only [Expr.isCseOp, Bool.false_eq_true] at oe <;>
      simp only [applyTbl, choose, modeOf, Expr.isCseOp, oe, ee, fe, Bool.and_self, if_true]
  exact ⟨key a oa ea hw, key b ob eb hw'⟩

/-- sums / products of the same simple operands in another order have Python-equal keys -/
theorem keyEq_of_perm (o : NaryOp) (ho : o.isComm = true) (cs cs' : List Expr)
    (hs : Expr.simpleL cs = true) (hp : cs.Perm cs') :
    (normalizedKey (.nary o cs)).eq (normalizedKey (.nary o cs')) = true := by
  cases o <;> simp only [NaryOp.isComm, Bool.false_eq_true] at ho <;>
    simp only [normalizedKey] <;> exact PV.keyEq_of_perm _ hs hp

/-- non-vacuity of the sharing theorem: its hypotheses hold for a list with a repeated call, a
commuted sum and a nested repeated product -/
example :
    let a := Expr.var "a"; let b := Expr.var "b"; let f := Expr.var "f"
    let es := [Expr.call f [.nary .sum [a, b]], .nary .prod [.nary .sum [b, a], .call f [.nary .sum [a, b]]]]
    Expr.fragL es = true ∧
    tagAll es = .ok [.cse (.call f [.cse (.nary .sum [a, b]) none evalScope]) none evalScope,
      .nary .prod [.cse (.nary .sum [a, b]) none evalScope,
        .cse (.call f [.cse (.nary .sum [a, b]) none evalScope]) none evalScope]] := by
  exact ⟨by decide, by rfl⟩

/-! ### 4. the evaluator computes the child of each distinct wrapper once -/

/-- **Each distinct wrapper's child is computed at most once per evaluator instance**, however
often the wrapper occurs and however many expressions are evaluated: in the event log of ANY
history of evaluations on one evaluator (fresh: `t = []`, or reused: any log reached before),
the wrappers of the `child` events (`computed`) are pairwise different.  (A computation that
raises aborts the whole `evaluate` call and stores nothing.) -/
theorem cse_child_once (env : Env) (es : List Expr) (hs : ∀ e ∈ es, e.simple = true) :
    (computed (runTr env es []).2).Nodup :=
  (runTr_good env es [] hs goodLog_nil).1

/-- the same on a reused evaluator -/
theorem cse_child_once_reused (env : Env) (es : List Expr) (t : Log)
    (hs : ∀ e ∈ es, e.simple = true) (ht : GoodLog t) : (computed (runTr env es t).2).Nodup :=
  (runTr_good env es t hs ht).1

/-- … **and at least once**: after a wrapper has been evaluated successfully it is in the cache
(so "exactly once"), and a wrapper that is in the cache is answered from it without any new event -/
theorem cse_child_cached (env : Env) (c : Expr) (p : Option String) (sc : String) (t : Log)
    (hs : (Expr.cse c p sc).simple = true) (v : Value)
    (h : (evalTr env (.cse c p sc) t).1 = .ok v) :
    findBy Expr.pyEq (.cse c p sc) (cacheOf (evalTr env (.cse c p sc) t).2) = some v := by
  have hl : c.hasList = false := by
    have := simple_nolist _ hs; simpa [Expr.hasList] using this
  simp only [evalTr, hl, Bool.false_eq_true, if_false] at h ⊢
  cases hf : findBy Expr.pyEq (.cse c p sc) (cacheOf t) with
  | some v' =>
    simp only [hf] at h ⊢
    injection h with h; subst h; rfl
  | none =>
    simp only [hf] at h ⊢
    cases hr : evalTr env c t with
    | mk r t1 =>
      simp only [hr] at h ⊢
      cases r with
      | error e => cases h
      | ok v' =>
        simp only at h ⊢
        injection h with h; subst h
        simp [cacheOf, findBy, pyEq_self_simple _ hs]

theorem cse_hit_no_event (env : Env) (c : Expr) (p : Option String) (sc : String) (t : Log)
    (v : Value) (hl : c.hasList = false)
    (h : findBy Expr.pyEq (.cse c p sc) (cacheOf t) = some v) :
    evalTr env (.cse c p sc) t = (.ok v, t) := by
  simp [evalTr, hl, h]

/-- forgetting the log, the instrumented evaluator is the plain evaluator of C02 … -/
theorem evalTr_is_evalG (env : Env) (es : List Expr) (t : Log) (mem : List (Expr × Value)) :
    (runTr env es t).1 = runHist false env es ⟨cacheOf t, mem⟩ :=
  runTr_eq_runHist env es t mem

/-- … hence (C02) every result of every history is the standard meaning `den` -/
theorem runTr_eq_den (env : Env) (es : List Expr) (hs : ∀ e ∈ es, e.simple = true) :
    (runTr env es []).1 = es.map (den env) := by
  rw [runTr_eq_runHist env es [] []]
  exact C02.history_eq_den universe_simple false es _ hs C02.evInv_empty

theorem runTr_inv (env : Env) : ∀ (es : List Expr) (t : Log), (∀ e ∈ es, e.simple = true) →
    EvInv env (fun e => e.simple = true) ⟨cacheOf t, []⟩ →
    EvInv env (fun e => e.simple = true) ⟨cacheOf (runTr env es t).2, []⟩
  | [], t, _, h => by simpa [runTr] using h
  | e :: es, t, hs, h => by
    obtain ⟨s', h1, i1⟩ := C02.evalG_eq_den universe_simple false e (hs e (by simp)) _ h
    have h2 := (node_er env e t []).2
    simp only [evalG, withMemo_false] at h1
    rw [h1] at h2
    simp only at h2
    subst h2
    simp only [runTr]
    cases hr : evalTr env e t with
    | mk r t1 =>
      rw [hr] at i1
      simp only
      cases hr2 : runTr env es t1 with
      | mk rs t2 =>
        have := runTr_inv env es t1 (fun x hx => hs x (by simp [hx])) i1
        rw [hr2] at this
        exact this

/-- every value stored for a wrapper (and returned for all its later occurrences) is the
standard meaning of the wrapper -/
theorem cse_child_value (env : Env) (es : List Expr) (hs : ∀ e ∈ es, e.simple = true)
    (w : Expr) (v : Value) (h : EvEvent.child w v ∈ (runTr env es []).2) : den env w = .ok v := by
  have inv := runTr_inv env es [] hs C02.evInv_empty
  exact (inv.1 w v (mem_cacheOf.mpr h)).2

/-- non-vacuity: one wrapper five times in one sum and again in a second evaluation: one
`child` event, one call of `f` -/
example :
    let w := Expr.cse (.call (.var "f") [.var "x"]) none evalScope
    let env : Env := [("x", .int 1), ("f", .func "f")]
    (runTr env [.tuple [w, w, w, w, w], w] []).2 =
      [.child w (.app "f" [.int 1] [] []), .call "f" [.int 1] [] []] := by rfl

/-! ### 5. the wrapping helpers, each as the code defines it -/

/-- what the property sentence calls "left unwrapped" -/
def leafKind : Expr → Bool
  | .const (.int _) | .const (.bool _) | .const (.flt ..) => true
  | .var _ | .subscript _ _ | .cse .. => true
  | _ => false

/-- `wrap_in_cse` leaves variables and subscripts alone … -/
theorem wrapInCse_var (x : String) (p : Option String) : wrapInCse (.var x) p = .var x := rfl
theorem wrapInCse_subscript (a i : Expr) (p : Option String) :
    wrapInCse (.subscript a i) p = .subscript a i := rfl

/-- … and wrapped nodes wrapped ONCE: the child is kept; only a missing prefix is filled in -/
theorem wrapInCse_wrapper (c : Expr) (q p : Option String) (s : String) :
    ∃ q' s', wrapInCse (.cse c q s) p = .cse c q' s' ∧ (p = none → q' = q ∧ s' = s) ∧
      (q ≠ none → q' = q ∧ s' = s) := by
  cases p with
  | none => exact ⟨q, s, rfl, fun _ => ⟨rfl, rfl⟩, fun _ => ⟨rfl, rfl⟩⟩
  | some pp =>
    cases q with
    | none => exact ⟨some pp, evalScope, rfl, (fun h => (by cases h)), (fun h => absurd rfl h)⟩
    | some qq => exact ⟨some qq, s, rfl, (fun h => (by cases h)), (fun _ => ⟨rfl, rfl⟩)⟩

/-- everything else (constants included) gets one evaluation-scope wrapper with the prefix -/
theorem wrapInCse_wraps (e : Expr) (p : Option String)
    (h : ∀ x, e ≠ .var x) (h2 : ∀ a i, e ≠ .subscript a i) (h3 : ∀ c q s, e ≠ .cse c q s) :
    wrapInCse e p = .cse e p evalScope := by
  cases e <;> first
    | rfl
    | exact absurd rfl (h _)
    | exact absurd rfl (h2 _ _)
    | exact absurd rfl (h3 _ _ _)

/-- the sentence restricted to what `wrap_in_cse` really does: every leaf kind except constants -/
theorem wrap_leaves_wrapInCse_partial (e : Expr) (p : Option String) (hk : leafKind e = true)
    (hc : e.isConstant = false) :
    wrapInCse e p = e ∨ ∃ c q s q' s', e = .cse c q s ∧ wrapInCse e p = .cse c q' s' := by
  cases e <;> simp only [leafKind, Bool.false_eq_true] at hk
  case const c => cases c <;> simp_all [Expr.isConstant]
  case var x => exact Or.inl rfl
  case subscript a i => exact Or.inl rfl
  case cse c q s =>
    obtain ⟨q', s', h, _⟩ := wrapInCse_wrapper c q p s
    exact Or.inr ⟨c, q, s, q', s', rfl, h⟩

/-- **finding**: `wrap_in_cse` wraps a constant -/
theorem wrap_leaves_wrapInCse_cex :
    wrapInCse (.const (.int 3)) none = .cse (.const (.int 3)) none evalScope := rfl

/-- `make_common_subexpression` leaves constants alone … -/
theorem makeCse_constant (e : Expr) (p s : Option String) (h : e.isConstant = true) :
    makeCse e p s = e := by
  cases e <;> simp_all [makeCse, Expr.isConstant]

/-- … and wrappers whose scope is compatible with the requested one -/
theorem makeCse_wrapper (c : Expr) (q : Option String) (s : String) (p sc : Option String)
    (h : sc = none ∨ sc = some evalScope ∨ sc = some s) : makeCse (.cse c q s) p sc = .cse c q s := by
  rcases h with rfl | rfl | rfl <;> simp [makeCse]

/-- everything else gets one wrapper with the prefix and the scope (default: evaluation) -/
theorem makeCse_wraps (e : Expr) (p sc : Option String) (hc : e.isConstant = false)
    (h3 : ∀ c q s, e ≠ .cse c q s) : makeCse e p sc = .cse e p (sc.getD evalScope) := by
  cases e <;> first
    | exact absurd rfl (h3 _ _ _)
    | simp_all [makeCse]

/-- the sentence restricted to what `make_common_subexpression` really does -/
theorem wrap_leaves_makeCse_partial (e : Expr) (p sc : Option String)
    (h : e.isConstant = true ∨ ∃ c q s, e = .cse c q s ∧
      (sc = none ∨ sc = some evalScope ∨ sc = some s)) : makeCse e p sc = e := by
  rcases h with h | ⟨c, q, s, rfl, h⟩
  · exact makeCse_constant e p sc h
  · exact makeCse_wrapper c q s p sc h

/-- **findings**: `make_common_subexpression` wraps a variable, a subscript, and a wrapper whose
scope differs from a requested non-default scope (a wrapper directly around a wrapper) -/
theorem wrap_leaves_makeCse_variable_cex :
    makeCse (.var "x") none none = .cse (.var "x") none evalScope := rfl
theorem wrap_leaves_makeCse_subscript_cex :
    makeCse (.subscript (.var "a") (.var "x")) none none =
      .cse (.subscript (.var "a") (.var "x")) none evalScope := rfl
theorem wrap_leaves_makeCse_wrapper_cex :
    makeCse (.cse (.var "x") none evalScope) (some "p") (some "pymbolic_expr") =
      .cse (.cse (.var "x") none evalScope) (some "p") "pymbolic_expr" := rfl

end PV.C12
