import PV.Properties.C20
/-
  C20 — the statements that COME OUT of the utilities.

  "The read and written variable sets a statement reports equal those found by an independent scan
  of its left-hand side, right-hand side and condition" is said of every statement — also of the
  copies `disambiguate_identifiers` / `disambiguate_and_fuse` / `fuse_statement_streams_with_unique_ids`
  return, which later calls take as input again ("repeated fusion of already fused streams").
  In the model a statement is its fields (`Stmt` has no other component: `Kind.reads` and
  `Kind.written` are functions of the kind), so `reads_sound`, `reads_scan_partial`,
  `written_scan` hold for the returned statements as for any other.  The theorems below say what
  that means for a RENAMED statement: it reports the renamed read / written names — none of the
  names the renaming replaced — and the hypotheses of the scan theorems survive the renaming.
  The tie to the code is `reads_eq_table_current` / `mapExprs_eq_table_current` (the method bodies
  and the class records — no stored set of names — are re-read from the source) and the
  correspondence stream `derived-statements` (`imp-hist`: histories on long-lived objects).
-/
namespace PV.C20
open PV PV.Imp

section derived
variable {σ : Type} {G : NameGen σ}

/-- **A renamed statement reports the renamed reads**: whatever `get_read_variables` answers for
`stmt.map_expressions(renaming)` is the image of what the original statement reads (right-hand
side and condition) under the renaming — each name once. -/
theorem reads_of_renamed {ρ : String → String} {k : Kind} {ns : List String}
    (h : (k.mapExprs (renameVars ρ)).reads = .ok ns) :
    ns.Nodup ∧ ∀ x, x ∈ ns ↔ ∃ y ∈ k.codedReads, ρ y = x := by
  obtain ⟨hnd, hmem⟩ := reads_spec h
  refine ⟨hnd, fun x => ?_⟩
  rw [hmem x, codedReads_rename, List.mem_map]

/-- … and the renamed written name (errors for left-hand sides outside the quantifier are kept). -/
theorem written_of_renamed (ρ : String → String) (k : Kind) :
    (k.mapExprs (renameVars ρ)).written = (k.written).map (List.map ρ) := by
  cases k with
  | nop => rfl
  | assign l r c =>
    cases l with
    | var n => rfl
    | subscript a i => cases a <;> rfl
    | _ => rfl

/-- the quantifier of the property (left-hand side a variable or a subscripted variable) is kept
by a renaming … -/
theorem lhsOk_of_renamed (ρ : String → String) {k : Kind} (h : k.LhsOk) :
    (k.mapExprs (renameVars ρ)).LhsOk := by
  cases k with
  | nop => trivial
  | assign l r c =>
    cases l with
    | var n => trivial
    | subscript a i =>
      cases a with
      | var n => trivial
      | _ => exact absurd h (by simp [Kind.LhsOk])
    | _ => exact absurd h (by simp [Kind.LhsOk])

/-- … and so is the hypothesis of `reads_scan_partial` (no variable only in the left-hand-side
index). -/
theorem lhsCovered_of_renamed (ρ : String → String) {k : Kind} (h : k.LhsCovered) :
    (k.mapExprs (renameVars ρ)).LhsCovered := by
  cases k with
  | nop => trivial
  | assign l r c =>
    intro x hx
    have hl : lhsIndexVars (renameVars ρ l) = (lhsIndexVars l).map ρ := by
      cases l <;> simp [lhsIndexVars, renameVars, scanVars_rename]
    have hc : condVars (c.map (renameVars ρ)) = (condVars c).map ρ := by
      cases c <;> simp [condVars, scanVars_rename]
    rw [hl, List.mem_map] at hx
    obtain ⟨y, hy, rfl⟩ := hx
    rw [scanVars_rename, hc, ← List.map_append]
    exact List.mem_map_of_mem (h y hy)

/-- **Read set of a renamed statement = scan of the renamed statement**, under the hypothesis of
`reads_scan_partial` on the ORIGINAL statement. -/
theorem reads_scan_of_renamed {ρ : String → String} {k : Kind} {ns : List String}
    (hc : k.LhsCovered) (h : (k.mapExprs (renameVars ρ)).reads = .ok ns) :
    ∀ x, x ∈ ns ↔ x ∈ (k.mapExprs (renameVars ρ)).specReads :=
  reads_scan_partial (lhsCovered_of_renamed ρ hc) h

/-- **The statements `disambiguate_identifiers` returns report the renamed reads**: the i-th
returned statement reads exactly the images, under the returned renaming, of what the i-th
statement of the second stream reads. -/
theorem disambiguate_result_reads {filter : String → Bool} {order : List String}
    {A B B' : List Stmt} {m : List (String × String)}
    (hz : ∀ s ∈ B, KindNoCseZero s.kind)
    (h : disambiguateG G filter order A B = .ok (B', m)) :
    B'.length = B.length ∧
    ∀ i (h₁ : i < B.length) (h₂ : i < B'.length) (ns : List String),
      B'[i].kind.reads = .ok ns →
      ∀ x, x ∈ ns ↔ ∃ y ∈ B[i].kind.codedReads, renamingFn m y = x := by
  have hB' := disambiguate_consistent hz h
  subst hB'
  refine ⟨by simp, ?_⟩
  intro i h₁ h₂ ns hr
  simp only [List.getElem_map, Stmt.mapExprs] at hr
  exact (reads_of_renamed hr).2

/-- **No returned statement still reports a name that was renamed away**: an identifier the
returned substitution replaces is not in the read set any returned statement reports (in
particular not an identifier that occurred only in a condition). -/
theorem disambiguate_result_reads_no_old_name (hG : G.Fresh) {filter : String → Bool}
    {order : List String} {A B B' : List Stmt} {m : List (String × String)}
    (hz : ∀ s ∈ B, KindNoCseZero s.kind)
    (h : disambiguateG G filter order A B = .ok (B', m)) :
    ∀ s' ∈ B', ∀ ns, s'.kind.reads = .ok ns → ∀ x ∈ m.map (·.1), x ∉ ns := by
  intro s' hs' ns hr x hx hxn
  have hB' := disambiguate_consistent hz h
  rw [hB', List.mem_map] at hs'
  obtain ⟨s, -, rfl⟩ := hs'
  simp only [Stmt.mapExprs] at hr
  obtain ⟨y, -, rfl⟩ := ((reads_of_renamed hr).2 x).1 hxn
  rcases renamingFn_cases m y with ⟨-, hv⟩ | ⟨hk, he⟩
  · -- a fresh name is not an identifier of the first stream, a renamed one is
    have hA := (((disambiguate_exact hG h).2 _).1 hx).1
    exact ((disambiguate_fresh hG h).2 _ hv).1 hA
  · rw [he] at hx
    exact hk hx

/-- **Read sets of the returned statements = scan of the returned statements**, when no
identifier of the second stream hides in a left-hand-side index; the hypothesis holds again for
the returned stream, so the result can be fed to the next disambiguation / fusion. -/
theorem disambiguate_result_reads_scan {filter : String → Bool} {order : List String}
    {A B B' : List Stmt} {m : List (String × String)} (hB : AllCovered B)
    (hz : ∀ s ∈ B, KindNoCseZero s.kind)
    (h : disambiguateG G filter order A B = .ok (B', m)) :
    AllCovered B' ∧
    ∀ s' ∈ B', ∀ ns, s'.kind.reads = .ok ns → ∀ x, x ∈ ns ↔ x ∈ s'.kind.specReads := by
  have hcov : AllCovered B' := by
    rw [disambiguate_consistent hz h]
    intro s' hs'
    rw [List.mem_map] at hs'
    obtain ⟨s, hs, rfl⟩ := hs'
    exact lhsCovered_of_renamed _ (hB s hs)
  exact ⟨hcov, fun s' hs' ns hr => reads_scan_partial (hcov s' hs') hr⟩

/-- **Fusion changes no field**: every statement of the fused stream reports the read and written
sets of the statement it was made from (the first stream's statements are the same objects; the
second stream's keep left-hand side, right-hand side and condition). -/
theorem fuse_result_reads_writes (hG : G.Fresh) {A B out : List Stmt} {m : List (String × String)}
    (h : fuseG G A B = .ok (out, m)) :
    out.length = A.length + B.length ∧
    (∀ i (h₁ : i < A.length) (h₂ : i < out.length), out[i] = A[i]) ∧
    (∀ i (h₁ : i < B.length) (h₂ : A.length + i < out.length),
      out[A.length + i].kind.reads = B[i].kind.reads ∧
      out[A.length + i].kind.written = B[i].kind.written) := by
  obtain ⟨bs', rfl, hlen, hk⟩ := fuse_prefix hG h
  refine ⟨by simp [hlen], ?_, ?_⟩
  · intro i h₁ h₂
    rw [List.getElem_append_left h₁]
  · intro i h₁ h₂
    have h₃ : i < bs'.length := hlen ▸ h₁
    have : (A ++ bs')[A.length + i] = bs'[i] := by
      rw [List.getElem_append_right (by omega)]
      simp
    rw [this, hk i h₁ h₃]
    exact ⟨rfl, rfl⟩

end derived

/-! non-vacuity: `flag` occurs only in the condition of `y <- t*3 if flag < n`; the first stream
uses `flag` too.  The returned statement reports the new name, not the old one. -/

def condA : List Stmt :=
  [⟨"s0", [], .assign (.var "z") (.var "u") (some (.cmp .gt (.var "flag") (.const (.int 0))))⟩]
def condB : List Stmt :=
  [⟨"s0", [], .assign (.var "y") (.nary .prod [.var "t", .const (.int 3)])
      (some (.cmp .lt (.var "flag") (.var "n")))⟩]

/-- reads reported by the statements of a disambiguation result -/
def readsOfResult (r : Except ImpErr (List Stmt × List (String × String))) :
    Option (List (Except ImpErr (List String))) :=
  match r with
  | .ok (bs, _) => some (bs.map fun s => s.kind.reads)
  | .error _ => none

example : renamingOf (disambiguate (fun _ => true) ["flag"] condA condB) = some [("flag", "flag_0")] := by
  decide +kernel
example : readsOfResult (disambiguate (fun _ => true) ["flag"] condA condB)
    = some [.ok ["t", "flag_0", "n"]] := by decide +kernel

end PV.C20
