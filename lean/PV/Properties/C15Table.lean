import PV.Generated.Coefficient
import PV.Proofs.CoeffTableMain
import PV.Proofs.CoeffTableGauss
import PV.Proofs.CoeffTableSolve
import PV.Properties.C15
/-
  C15 — T-gen tie: the theorems of PV/Properties/C15.lean as statements about the CURRENT SOURCE.

  `extract/coefficient.py` re-reads, on every run, `CoefficientCollector` (every handler, the
  dispatch table, `__init__`, `Mapper.map_foreign`) and `gaussian_elimination`,
  `solve_affine_equations_for`, `lcm`, `gcd`, `gcd_many` from the working tree and writes them,
  statement by statement, into `PV/Generated/Coefficient.lean`.  Here:

    * `table_current` (+ the per-part `…_current` theorems): the regenerated table IS the literal the
      model was written against (`c15ExpTable`, PV/Proofs/CoeffTableLit.lean);
    * `coeffs_eq_table_current`, `gauss_eq_table_current`: for ALL inputs the
      hand-written model is the table interpreter (PV/Model/CoeffTable.lean) run on the regenerated
      table (PV/Proofs/CoeffTable*.lean prove this for the literal by induction over expressions,
      dictionaries, row lists and loop counters — no sampling);
    * `coeffs_sound_current`, `gauss_preserves_solutions_current`, …: the property theorems restated
      for the interpreter of the regenerated table.

  An edit of the source that changes what a handler or a loop does changes the regenerated table:
  `table_current` (and everything below it) no longer checks, while the streams `table-*` keep
  agreeing (the interpreter follows the new table) and the streams `coefficients` / `gauss` /
  `solve` with their oracles produce the failing input.
-/
namespace PV.C15
open PV PV.Coeff

/-! ## the regenerated table is the literal -/

/-- **The table regenerated from the source on this run is the table the model was written
against** — every handler body, the class ↦ handler dispatch, `map_foreign`, `__init__`, and the
five functions of algorithm.py, statement by statement. -/
theorem table_current : Generated.c15Table = c15ExpTable := by rfl

/-- the handlers of `CoefficientCollector` (own and inherited), as read from the source -/
theorem collector_handlers_current : Generated.c15Handlers = c15ExpHandlers := by rfl

/-- which handler the dispatch reaches for every node class of the IR (own `mapper_method`, else
the first one along the MRO that the collector implements), the foreign-object rules, `__init__` -/
theorem collector_dispatch_current :
    Generated.c15Classes = c15ExpClasses ∧ Generated.c15Init = c15ExpInit ∧
    Generated.c15Table.foreign = c15ExpTable.foreign ∧
    Generated.c15Table.foreignElse = c15ExpTable.foreignElse ∧
    Generated.c15Table.constKinds = c15ExpTable.constKinds := by
  refine ⟨by rfl, by rfl, by rfl, by rfl, by rfl⟩

/-- `gaussian_elimination` as read from the source: the loop nest, the pivot search
`for k in range(i, m)`, both row exchanges with their four `.copy()`s, `lcm`, the two floor
divisions, the row updates `u_fac*X[u] - i_fac*X[i]`, the `assert`, the gcd normalisation -/
theorem gaussian_elimination_current :
    Generated.c15Table.fn "gaussian_elimination" = some expGaussFn := by rfl

/-- `lcm`, `gcd`, `gcd_many` as read from the source; `extended_euclidean` is the only function
called but not translated (it is `Algo.extEuclid`, C19) -/
theorem helpers_current :
    Generated.c15Table.fn "lcm" = some expLcmFn ∧ Generated.c15Table.fn "gcd" = some expGcdFn ∧
    Generated.c15Table.fn "gcd_many" = some expGcdManyFn ∧
    Generated.c15Table.primitives = ["extended_euclidean"] := by
  refine ⟨by rfl, by rfl, by rfl, by rfl⟩

/-- `solve_affine_equations_for` as read from the source: the look-up tables, the parameter set, the
matrix assembly with its three-way key test and the accumulating `+=`, the call of the elimination,
the read-off (`np.where`, `len(...) != 1`, `abs(...) != 1`, `int(...) // div`, the `zip` loop with
`unknown_val += …`), `result[unknown] = unknown_val` -/
theorem solve_affine_equations_for_current :
    Generated.c15Table.fn "solve_affine_equations_for" = some expSolveFn := by rfl

/-! ## the model is the interpreter of the regenerated table -/

/-- **`coeffs` is what the current source prescribes.**  For every expression (every node class of
the IR, foreign objects included) and every `target_names`, running the regenerated handler table —
dispatch, the delegating handlers of `Mapper`, the bodies of `map_sum`, `map_product` (search for
the child with variables, the `assert`, the dictionary comprehension), `map_quotient` (the test
`len(d_den) > 1 or 1 not in d_den`, the scaling by `Quotient(1, val)`), `map_power`, `map_constant`,
`map_algebraic_leaf` (the target test `target_names is None or getattr(expr, "name", None) in
target_names`) — with the table interpreter gives exactly `coeffs tg e`: the same dictionary, in the
same order, or the same exception. -/
theorem coeffs_eq_table_current (tg : Option (List String)) (e : Expr) :
    c15CoeffsT Generated.c15Table tg e = coeffs tg e := by
  rw [table_current]; exact coeffsT_exp tg e

/-- non-vacuity: the interpreter really runs the table (`x/p + 3*x + y` for the target `x`) -/
example : c15CoeffsT Generated.c15Table (some ["x"]) demoExpr =
    .ok [(.var "x", .nary .sum [.bin .quot one (.var "p"), .const (.int 3)]), (one, .var "y")] := by
  rw [coeffs_eq_table_current]; rfl

/-- **`gaussElim` is what the current source prescribes.**  For every integer system (`s`: the
rows of `mat` and `rhs`, `n`: the column count of `mat`), running the regenerated body of
`gaussian_elimination` with the table interpreter — row views as references, `.copy()` as a
snapshot, the two assignments of an exchange in source order — returns `gaussElim`; in
particular no `ZeroDivisionError`, `IndexError` or failing `assert` is ever reached. -/
theorem gauss_eq_table_current (n : Nat) (s : List ARow) :
    c15RunGauss Generated.c15Table n s = .ok (gaussElim s.length n s) := by
  rw [table_current]; exact runGauss_exp n s

example : c15RunGauss Generated.c15Table 2 [([1, 1], [5]), ([1, -1], [1])] =
    .ok [([1, 0], [3]), ([0, 1], [2])] := by
  rw [gauss_eq_table_current]; decide +kernel

/-- **`solveAffine` is what the current source prescribes.**  Run the regenerated body of
`solve_affine_equations_for` (which calls the regenerated `gaussian_elimination`, `lcm`, `gcd`,
`gcd_many` and the regenerated collector) with the table interpreter, for distinct unknown names.
`S` is the parameter set as the loop `parameters.update(dep_map(lhs) - unknowns_set) …` builds it
(`paramSetL`), `order S` the order in which `list(parameters)` enumerates it — the one thing the
program text does not determine.  Then:
* an error of the dependency mapper is the error of the run;
* for every enumeration `params` of `S` (a permutation without `==`-duplicates) the run returns
  exactly `solveAffine names eqs params`: the same dictionary or the same exception
  (`nonlinear expression`, `key … not understood`, `cannot uniquely solve`, `division with
  remainder`, or the model's abstention on non-integer entries). -/
theorem solve_eq_table_current (order : List Expr → Option (List Expr)) (names : List String)
    (eqs : List (Expr × Expr)) (hn : names.Nodup) :
    match paramSetL (names.map Expr.var) [] eqs with
    | .error e => c15RunSolve Generated.c15Table order names eqs = .error (.py e)
    | .ok S => match order S with
      | none => c15RunSolve Generated.c15Table order names eqs = .error (.py .noClaim)
      | some params => DistinctE params → params.Perm S →
        c15RunSolve Generated.c15Table order names eqs = c15LiftCR (solveAffine names eqs params) := by
  rw [table_current]; exact runSolve_exp order names eqs hn

/-- the parameter set the loop builds has no `==`-duplicates, so its own order is an admissible
enumeration: with `order = some` the hypotheses of `solve_eq_table_current` are discharged -/
theorem solve_eq_table_own_order_current (names : List String) (eqs : List (Expr × Expr))
    (hn : names.Nodup) (S : List Expr) (hS : paramSetL (names.map Expr.var) [] eqs = .ok S) :
    c15RunSolve Generated.c15Table some names eqs = c15LiftCR (solveAffine names eqs S) := by
  have h := solve_eq_table_current some names eqs hn
  simp only [hS] at h
  exact h (paramSetL_distinct _ eqs [] S List.Pairwise.nil hS) (List.Perm.refl S)

/-- non-vacuity: `x + y = 2p + 1`, `x - y = 1` through the regenerated table -/
example : (match c15RunSolve Generated.c15Table some ["x", "y"] demoEqs with
    | .ok [(_, v1), (_, v2)] => v1 == .nary .sum [.const (.int 1), .var "p"] && v2 == .var "p"
    | _ => false) = true := by
  rw [solve_eq_table_own_order_current ["x", "y"] demoEqs (by decide) [.var "p"] (by rfl)]
  decide +kernel

/-! ## the property theorems about the current source -/

/-- `coeffs_sound` for the collector as the current source has it. -/
theorem coeffs_sound_current (env : Env) (tg : Option (List String)) (e : Expr) (d : Dict) (v : Value)
    (h : c15CoeffsT Generated.c15Table tg e = .ok d) (hs : e.simple = true)
    (hr : recipOK env tg e = true) (hv : den env e = .ok v) (hex : v.num?.isSome = true) :
    ∃ w, den env (recon d) = .ok w ∧ w.pyEq v = true :=
  coeffs_sound env tg e d v (by rwa [coeffs_eq_table_current] at h) hs hr hv hex

/-- `coeffs_rejects_nonaffine` for the collector as the current source has it. -/
theorem coeffs_rejects_nonaffine_current (tg : Option (List String)) :
    (∀ cs, 2 ≤ (cs.filter (armT tg)).length →
      ∃ err, c15CoeffsT Generated.c15Table tg (.nary .prod cs) = .error err) ∧
    (∀ a b, armT tg b = true → ∃ err, c15CoeffsT Generated.c15Table tg (.bin .quot a b) = .error err) ∧
    (∀ a b, armT tg a = true ∨ armT tg b = true →
      ∃ err, c15CoeffsT Generated.c15Table tg (.bin .pow a b) = .error err) := by
  simp only [coeffs_eq_table_current]
  exact coeffs_rejects_nonaffine tg

/-- `coeffs_complete_affine` for the collector as the current source has it. -/
theorem coeffs_complete_affine_current (tg : Option (List String)) (e : Expr)
    (h : affClass tg e = true) :
    ∃ d, c15CoeffsT Generated.c15Table tg e = .ok d ∧ (armT tg e = false → ∃ c, d = [(one, c)]) := by
  rw [coeffs_eq_table_current]; exact coeffs_complete_affine tg e h

/-- **No two keys of a returned dictionary are `==`** (what makes the dictionary comprehension of
`map_product` keep every entry): a fact about the model that the table tie needed. -/
theorem coeffs_keys_distinct (tg : Option (List String)) (e : Expr) (d : Dict)
    (h : coeffs tg e = .ok d) : d.Pairwise fun a b => a.1.pyEq b.1 = false :=
  coeffs_ok tg e d h

example : coeffs (some ["x"]) demoExpr = .ok [(.var "x", .nary .sum [.bin .quot one (.var "p"),
    .const (.int 3)]), (one, .var "y")] := rfl

/-- `gauss_preserves_solutions` for `gaussian_elimination` as the current source has it. -/
theorem gauss_preserves_solutions_current (n n' w : ℕ) (s s' : List ARow) (h : Rect n' w s)
    (hr : c15RunGauss Generated.c15Table n s = .ok s') (x p : ℕ → ℚ) :
    AllHold x p s' ↔ AllHold x p s := by
  rw [gauss_eq_table_current] at hr
  cases hr
  exact gauss_preserves_solutions s.length n n' w s h x p

/-- `solve_affine_sound_partial` for the solver as the current source has it: what the table run
returns for an admissible enumeration `params` of the parameter set satisfies every original
equation (under the single-entry shape `reducedOK`, which excludes the two known findings). -/
theorem solve_affine_sound_current_partial (env env' : Env) (order : List Expr → Option (List Expr))
    (names : List String) (eqs : List (Expr × Expr)) (S params : List Expr) (sol : List (Expr × Expr))
    (qs : List Rat) (hn : names.Nodup) (hS : paramSetL (names.map Expr.var) [] eqs = .ok S)
    (hord : order S = some params) (hd : DistinctE params) (hperm : params.Perm S)
    (h : c15RunSolve Generated.c15Table order names eqs = .ok sol)
    (hq : nvL env params = some qs) (hq' : nvL env' params = some qs)
    (hps : ∀ u ∈ params, u.simple = true)
    (hbind : ∀ kv ∈ sol, ∃ x, nv env kv.2 = some x ∧ nv env' kv.1 = some x)
    (hred : ∀ mat, eqs.mapM (assembleRow (names.map Expr.var) params) = .ok mat →
      reducedOK (gaussElim eqs.length (names.map Expr.var).length mat) = true) :
    ∀ eq ∈ eqs, eq.1.simple = true → eq.2.simple = true →
      recipOK env' none eq.1 = true → recipOK env' none eq.2 = true →
      ∀ ql qr, nv env' eq.1 = some ql → nv env' eq.2 = some qr → ql = qr := by
  have ht := solve_eq_table_current order names eqs hn
  simp only [hS, hord] at ht
  rw [ht hd hperm] at h
  have hsol : solveAffine names eqs params = .ok sol := by
    cases hsa : solveAffine names eqs params with
    | error e => rw [hsa] at h; cases h
    | ok s' => rw [hsa] at h; cases h; rfl
  exact solve_affine_sound_partial env env' names eqs params sol qs hsol hq hq' hps hbind hred

/-! ## the reading is sensitive to the edits it is meant to catch

Each witness runs the interpreter on the literal table with ONE piece of `gaussian_elimination` /
`solve_affine_equations_for` / `map_quotient` replaced the way a plausible source edit would replace
it, on a concrete input, and gets an answer different from the model's (the model's answer is what
the unedited table gives, by the theorems above). -/

def c15ElimVariant (upd : String → C15S) : List C15S := [
  .ifThen (.cmp .eq (.var "u") (.var "i")) [.continue_] [],
  .ifThen (.not_ (.index2 (.var "mat") (.var "u") (.var "j"))) [.continue_] [],
  .assign (.name "ell") (.call "lcm"
    [.index2 (.var "mat") (.var "u") (.var "j"), .index2 (.var "mat") (.var "i") (.var "j")]),
  .assign (.name "u_fac") (.bin .floordiv (.var "ell") (.index2 (.var "mat") (.var "u") (.var "j"))),
  .assign (.name "i_fac") (.bin .floordiv (.var "ell") (.index2 (.var "mat") (.var "i") (.var "j"))),
  upd "mat",
  upd "rhs",
  .assert_ (.cmp .eq (.index2 (.var "mat") (.var "u") (.var "j")) (.lit 0))]

/-- `gaussian_elimination` with the exchange of the right-hand rows, the row update and the start of
the pivot search as parameters -/
def c15GaussVariant (swapRhs : C15S) (upd : String → C15S) (pivotLo : C15E) : C15Fn :=
  { expGaussFn with body := [
      .assign (.tup2 (.name "m") (.name "n")) (.attr (.var "mat") "shape"),
      .assign (.name "i") (.lit 0),
      .assign (.name "j") (.lit 0),
      .while_ expWhileCond [
        .assign (.name "nonz_row") .pyNone,
        .forIn (.name "k") (.call "range" [pivotLo, .var "m"]) expPivotBody,
        .ifThen (.isNot (.var "nonz_row") .pyNone) [
          expSwap "mat",
          swapRhs,
          .forIn (.name "u") (.call "range" [.lit 0, .var "m"]) (c15ElimVariant upd),
          .aug "i" .add (.lit 1)] [],
        .aug "j" .add (.lit 1)],
      .forIn (.name "i") (.call "range" [.var "m"]) expNormBody,
      .ret (.tuple2 (.var "mat") (.var "rhs"))] }

/-- with the source's own pieces the variant IS the function read from the source -/
theorem c15GaussVariant_id : c15GaussVariant (expSwap "rhs") expRowUpdate (.var "i") = expGaussFn := rfl

def c15WithFn (f : C15Fn) : C15Table :=
  { c15ExpTable with fns := c15ExpTable.fns.map fun g => if g.name = f.name then f else g }

def c15WithHandler (f : C15Fn) : C15Table :=
  { c15ExpTable with handlers := c15ExpTable.handlers.map fun g => if g.name = f.name then f else g }

/-- `rhs[i], rhs[nonz_row] = rhs[nonz_row], rhs[i]`: views instead of copies -/
def c15AliasSwap : C15S :=
  .setSubs ["rhs", "rhs"] [.var "i", .var "nonz_row"]
    [.index (.var "rhs") (.var "nonz_row"), .index (.var "rhs") (.var "i")]

/-- `X[u] = u_fac*X[u] + i_fac*X[i]`: the sign lost -/
def c15PlusUpdate (x : String) : C15S :=
  .setSubs [x] [.var "u"]
    [.bin .add (.bin .mul (.var "u_fac") (.index (.var x) (.var "u")))
      (.bin .mul (.var "i_fac") (.index (.var x) (.var "i")))]

/-- **Aliased exchange.**  With the two right-hand rows exchanged through views the first assignment
overwrites the row the second one reads: `y = 3, x = 2` comes back as `x = 2, y = 2`. -/
theorem aliased_exchange_table_cex :
    c15RunGauss (c15WithFn (c15GaussVariant c15AliasSwap expRowUpdate (.var "i"))) 2
        [([0, 1], [3]), ([1, 0], [2])] = .ok [([1, 0], [2]), ([0, 1], [2])] ∧
    gaussElim 2 2 [([0, 1], [3]), ([1, 0], [2])] = [([1, 0], [2]), ([0, 1], [3])] :=
  ⟨by decide +kernel, by decide +kernel⟩

/-- **Sign lost in the row update.**  `u_fac*X[u] + i_fac*X[i]` does not clear the pivot column: the
`assert mat[u, j] == 0` of the source fires. -/
theorem sign_lost_table_cex :
    c15RunGauss (c15WithFn (c15GaussVariant (expSwap "rhs") c15PlusUpdate (.var "i"))) 2
        [([1, 1], [3]), ([1, 2], [5])] = .error (.py .assertion) ∧
    gaussElim 2 2 [([1, 1], [3]), ([1, 2], [5])] = [([1, 0], [1]), ([0, 1], [2])] :=
  ⟨by decide +kernel, by decide +kernel⟩

/-- **Pivot search from row 0.**  `for k in range(0, m)` finds the row already used as a pivot and
exchanges it back: the second unknown keeps a non-zero entry in two rows. -/
theorem pivot_from_zero_table_cex :
    c15RunGauss (c15WithFn (c15GaussVariant (expSwap "rhs") expRowUpdate (.lit 0))) 2
        [([1, 1], [3]), ([0, 1], [5])] = .ok [([1, 0], [-2]), ([1, 1], [3])] ∧
    gaussElim 2 2 [([1, 1], [3]), ([0, 1], [5])] = [([1, 0], [-2]), ([0, 1], [5])] :=
  ⟨by decide +kernel, by decide +kernel⟩

/-- `map_quotient` with the test `len(d_den) > 1 or 1 not in d_den` loosened to `1 not in d_den` -/
def c15LooseQuot : C15Fn := mkFn "map_quotient" "CoefficientCollector.map_quotient" [
  .importName "pymbolic.primitives" "Quotient" "Quotient",
  .assign (.name "d_num") (.recField "numerator"),
  .assign (.name "d_den") (.recField "denominator"),
  .ifThen (.notIn (.lit 1) (.var "d_den")) [.raise_ "RuntimeError" "nonlinear expression"] [],
  .assign (.name "val") (.index (.var "d_den") (.lit 1)),
  .mapValues "d_num" .mul (.mkNode "Quotient" [.lit 1, .var "val"]),
  .ret (.var "d_num")]

/-- **Loosened denominator check.**  `x / (x + 2)` is not affine in `x`; with the loosened test it is
accepted, with the coefficient `1/2`. -/
theorem loose_denominator_table_cex :
    (match c15CoeffsT (c15WithHandler c15LooseQuot) (some ["x"])
        (.bin .quot (.var "x") (.nary .sum [.var "x", .const (.int 2)])) with
      | .ok [(k, c)] => k == .var "x" && c == .bin .quot one (.const (.int 2))
      | _ => false) = true ∧
    coeffs (some ["x"]) (.bin .quot (.var "x") (.nary .sum [.var "x", .const (.int 2)]))
      = .error .nonlinear :=
  ⟨by decide +kernel, by rfl⟩

/-- the key test of the matrix assembly with `=` in place of `+=` -/
def c15AssignKeyBody : List C15S := [
  .ifThen (.in_ (.var "key") (.var "unknowns_set"))
    [.setSub2 "mat" (.var "i_eqn") (.index (.var "unknown_idx_lut") (.var "key"))
      (.bin .mul (.var "lhs_factor") (.var "coeff"))]
    [.ifThen (.in_ (.var "key") (.var "parameters"))
      [.setSub2 "rhs_mat" (.var "i_eqn") (.index (.var "parameter_idx_lut") (.var "key"))
        (.bin .mul (.neg (.var "lhs_factor")) (.var "coeff"))]
      [.ifThen (.cmp .eq (.var "key") (.lit 1))
        [.setSub2 "rhs_mat" (.var "i_eqn") (.lit (-1))
          (.bin .mul (.neg (.var "lhs_factor")) (.var "coeff"))]
        [.raise_ "ValueError" "key '{}' not understood"]]]]

def c15SolveVariant (keyBody : List C15S) : C15Fn :=
  { expSolveFn with body := expSolveBody.map fun s => match s with
      | .forIn (.tup2 (.name "i_eqn") p) it _ =>
          .forIn (.tup2 (.name "i_eqn") p) it
            [.forIn (.tup2 (.name "lhs_factor") (.name "coeffs")) expSidesList
              [.forIn (.tup2 (.name "key") (.name "coeff")) (.meth (.var "coeffs") "items") keyBody]]
      | s => s }

theorem c15SolveVariant_id : c15SolveVariant expKeyBody = expSolveFn := rfl

/-- **`=` for `+=` in the assembly** (the defect repaired by 0e8d81e): for `x + 1 = 0` the constant
of the right-hand side overwrites the one of the left-hand side and the run answers `x = 0`; the
source as it is answers `x = -1`. -/
theorem assign_for_accumulate_table_cex :
    (match c15RunSolve (c15WithFn (c15SolveVariant c15AssignKeyBody)) some ["x"]
        [(.nary .sum [.var "x", .const (.int 1)], .const (.int 0))] with
      | .ok [(k, v)] => k == .var "x" && v == .const (.int 0)
      | _ => false) = true ∧
    (match c15RunSolve c15ExpTable some ["x"]
        [(.nary .sum [.var "x", .const (.int 1)], .const (.int 0))] with
      | .ok [(k, v)] => k == .var "x" && v == .const (.int (-1))
      | _ => false) = true :=
  ⟨by decide +kernel, by decide +kernel⟩

end PV.C15
