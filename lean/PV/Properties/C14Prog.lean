import PV.Model.CCodeProg
import PV.Generated.Prec
import PV.Proofs.CCodeProg
import PV.Properties.C14
import PV.Properties.C14Table
/-
  C14, program level — the emitted expression TOGETHER WITH the hoisted assignments computes the
  evaluator's value.

  Model: `PV/Model/CCodeProg.lean` (`cFragCse`: `cFrag` with `CommonSubexpression` wrappers anywhere;
  `emitProg` / `emitsP`: the mapper of `CCode.lean` returning in addition the new assignments as
  printed structures; `runProg`: declarations `long name = rhs;` executed in order, then the
  expression, every right-hand side read by C's grammar `denC`; `denVCse`: the reference meaning, a
  wrapper means its child).

  * `emit_is_ccode`, `emits_is_emits`, `assigns_are_name_list`, `emits_as_runOps`: the program-level
    mapper IS the mapper of `CCode.lean` (same text, same names, same allocator state; the
    assignments are the entries appended to `cse_name_list`; a history of emits on one mapper is a
    `runOps` history without copies).
  * `program_value_partial`: one call on a fresh mapper.
  * `history_value_partial`: any sequence of calls on one mapper — EVERY expression text of the
    history, the earlier ones included, computes its tree's value under the assignment list
    accumulated by the whole history.
  * `history_value_current_partial`: the same for the texts and the `cse_name_list` the table
    interpreter produces on the handler table regenerated from the current source.
  * hypotheses, each with a witness that it cannot be dropped:
      - the environment declares none of the generated names (`program_value_env_clash_cex`; the
        real mapper does not check this),
      - every hoisted subexpression has a value (`program_value_lazy_cex`: the program computes ALL
        hoisted assignments, also those of a branch the evaluator does not take),
      - no `copy()` in the history (`program_value_after_copy_cex`: the copy declares one C
        variable twice).
-/
namespace PV.C14
open PV

variable (S : PrintPrec)

/-! ### the program-level mapper is the mapper -/

/-- **`emitProg` is `ccode`**: forgetting the assignments gives exactly the printed structure, the
names and the allocator state of the mapper model (which `C14Table.lean` ties to the source). -/
theorem emit_is_ccode (st : CSt) (e : Expr) : (emitProg S st e).map proj = ccode S st e :=
  emitProg_ccode S st e

/-- **`emitsP` is `emits`**: same texts, same final allocator state. -/
theorem emits_is_emits (st : CSt) (es : List Expr) :
    (emitsP S st es).map (fun o => (o.1.map Doc.render, o.2.2)) =
      (emits S st es).map (fun o => (o.1.map (·.1), o.2)) := emitsP_emits S es st

/-- **the assignments are `cse_name_list`**: after a history on a fresh mapper the `(name, text)`
pairs of `cse_name_list` are the names and rendered right-hand sides of the assignments, in
order. -/
theorem assigns_are_name_list (reverse : Bool) (pfx : String) (es : List Expr) (ds : List Doc)
    (as : Assigns) (st' : CSt) (h : emitsP S { reverse, pfx } es = .ok (ds, as, st')) :
    st'.nameList.map entryPair = as.map assignPair := by
  simpa using emitsP_list S es _ ds as st' h

/-- a history of calls on one mapper is a `runOps` history without copies -/
theorem emits_as_runOps : ∀ (es : List Expr) (st : CSt),
    runOps S [st] (es.map (COpn.emit 0)) =
      (emits S st es).map (fun o => (o.1.map (fun t => CStepOut.text t.1 t.2), [o.2]))
  | [], st => rfl
  | e :: es, st => by
      simp only [List.map_cons, runOps, emits, List.getElem?_cons_zero, bind, Except.bind]
      cases h1 : ccode S st e with
      | error err => rfl
      | ok w =>
        obtain ⟨d, r, st1⟩ := w
        simp only [List.set_cons_zero, emits_as_runOps es st1]
        cases emits S st1 es with
        | error err => rfl
        | ok w2 => rfl

/-! ### the value of the program -/

/-- **The generated program computes the evaluator's value (one call, fresh mapper).**  Let `e` be
in `cFragCse` — the C-expressible integer fragment `cFrag` with `CommonSubexpression` wrappers at
any place, nested wrappers included —, let the mapper be fresh (any sorting direction, any
`cse_prefix`), `prog` = the assignments `long name = rhs;` the call hoists, in emission order,
followed by the expression text.  Let the environment be in range: `denVCse env e = some w` (the
evaluation of the tree, a wrapper meaning its child, succeeds inside the guards of
`ccode_value_c_partial`), every hoisted subexpression has a value (`cseTotal`), and the environment
declares none of the names the program declares (`hdisj`; decidable; the real mapper does NOT check
it).  Then running the program — each assignment binds its name to the C value `denC` of its
right-hand side in the environment extended so far, then the expression is read by C's grammar —
gives `w.toInt`, and `w` is the evaluator's value (`True`/`False` as 1/0). -/
theorem program_value_partial (hS : PrecA S ∧ PrecB S) (env : Env) (reverse : Bool) (pfx : String)
    (e : Expr) (d : Doc) (refs : List String) (as : Assigns) (st' : CSt) (w : CVal)
    (hfrag : cFragCse e = true) (htot : cseTotal env e = true)
    (hrun : emitProg S { reverse, pfx } e = .ok (d, refs, as, st'))
    (hdisj : ∀ a ∈ as, env.get a.1 = none) (hv : denVCse env e = some w) :
    runProg env { assigns := as, expr := d } = some w.toInt ∧ den env e = .ok w.toValue := by
  obtain ⟨hi, _, hr, hc, hA⟩ := progE_good S hS.1 hS.2 env _ _ e _ d refs as st' [] hfrag htot hrun
    (progInv_init env reverse pfx) hdisj
  have hp : Printed S st'.toName st'.reverse e d := ⟨hfrag, hc, fun M hM st0 h0 => hA M hM st0 (h0.trans hr)⟩
  exact printed_value S hS.1 hS.2 (by simpa using hi) hp w hv

/-- **… after ANY history of calls on the same mapper.**  Let `es` be trees of `cFragCse` sent
through one mapper one after the other (the allocator state reached by `runOps` from the initial
state without copies: `emits_as_runOps`), `ds` the expression structures returned, `as` the
assignment list accumulated by ALL calls (= `cse_name_list`: `assigns_are_name_list`).  Let the
environment be in range for every tree, every hoisted subexpression have a value, and the
environment declare none of the assigned names.  Then EVERY returned expression — the last one and
every earlier one — computes the value of its tree when run after the whole assignment list: a
wrapped subexpression is assigned once, under one name that no later call re-binds, and the names
an expression refers to keep their values however the list grows.  (Applied to a prefix of the
history: the list accumulated so far followed by the new expression computes the new tree's
value.) -/
theorem history_value_partial (hS : PrecA S ∧ PrecB S) (env : Env) (reverse : Bool) (pfx : String)
    (es : List Expr) (ds : List Doc) (as : Assigns) (st' : CSt)
    (hfrag : ∀ e ∈ es, cFragCse e = true) (htot : ∀ e ∈ es, cseTotal env e = true)
    (hrun : emitsP S { reverse, pfx } es = .ok (ds, as, st'))
    (hdisj : ∀ a ∈ as, env.get a.1 = none) :
    ds.length = es.length ∧
    ∀ p ∈ es.zip ds, ∀ w, denVCse env p.1 = some w →
      runProg env { assigns := as, expr := p.2 } = some w.toInt ∧ den env p.1 = .ok w.toValue := by
  obtain ⟨hi, _, hr, hl, hP⟩ := emitsP_good S hS.1 hS.2 env es _ ds as st' []
    (fun e he => ⟨hfrag e he, htot e he⟩) hrun (progInv_init env reverse pfx) hdisj
  refine ⟨hl, fun p hp w hw => ?_⟩
  have := hP p hp
  rw [← hr] at this
  exact printed_value S hS.1 hS.2 (by simpa using hi) this w hw

/-- … and the assigned names are pairwise distinct (`names_unique` read on the program) -/
theorem history_names_unique (reverse : Bool) (pfx : String) (es : List Expr) (ds : List Doc)
    (as : Assigns) (st' : CSt) (hrun : emitsP S { reverse, pfx } es = .ok (ds, as, st')) :
    (as.map (·.1)).Nodup := by
  have h1 := emits_is_emits S { reverse, pfx } es
  rw [hrun] at h1
  cases h2 : emits S { reverse, pfx } es with
  | error err => rw [h2] at h1; cases h1
  | ok w =>
    obtain ⟨outs, st2⟩ := w
    rw [h2] at h1
    simp only [Except.map, Except.ok.injEq, Prod.mk.injEq] at h1
    have hn := names_unique S reverse pfx es outs st2 h2
    rw [← h1.2] at hn
    have hl := assigns_are_name_list S reverse pfx es ds as st' hrun
    have : st'.assigned = as.map (·.1) := by
      have := congrArg (List.map Prod.fst) hl
      simpa [CSt.assigned, entryPair, assignPair, Function.comp_def] using this
    rwa [this] at hn

/-- **… for what the current source says** (`history_value_partial` transported through
`emits_eq_table_current`): the texts the table interpreter — run on the handler table regenerated
from the source of `CCodeMapper` — returns for a history on a fresh mapper, and the `cse_name_list`
it builds, are the renderings of a program (assignments and expressions as printed structures)
each of whose expressions computes the value of its tree after the whole assignment list. -/
theorem history_value_current_partial (hS : PrecA S ∧ PrecB S) (env : Env) (reverse : Bool)
    (pfx : String) (es : List Expr) (outs : List (String × List String)) (st' : CSt)
    (hfrag : ∀ e ∈ es, cFragCse e = true) (htot : ∀ e ∈ es, cseTotal env e = true)
    (hrun : c14EmitsT tableCurrent S { reverse, pfx } es = .ok (outs, st')) :
    ∃ (ds : List Doc) (as : Assigns),
      ds.map Doc.render = outs.map (·.1) ∧ st'.nameList.map entryPair = as.map assignPair ∧
      ds.length = es.length ∧
      ((∀ a ∈ as, env.get a.1 = none) → ∀ p ∈ es.zip ds, ∀ w, denVCse env p.1 = some w →
        runProg env { assigns := as, expr := p.2 } = some w.toInt ∧ den env p.1 = .ok w.toValue) := by
  rw [← emits_eq_table_current] at hrun
  have h1 := emits_is_emits S { reverse, pfx } es
  rw [hrun] at h1
  cases h2 : emitsP S { reverse, pfx } es with
  | error err => rw [h2] at h1; cases h1
  | ok v =>
    obtain ⟨ds, as, st2⟩ := v
    rw [h2] at h1
    simp only [Except.map, Except.ok.injEq, Prod.mk.injEq] at h1
    obtain ⟨h3, h4⟩ := h1
    subst h4
    refine ⟨ds, as, h3, assigns_are_name_list S reverse pfx es ds as _ h2, ?_, ?_⟩
    · exact emitsP_length S es _ ds as _ h2
    · intro hdisj
      exact (history_value_partial S hS env reverse pfx es ds as _ hfrag htot h2 hdisj).2

/-! ### the hypotheses cannot be dropped -/

def progText (r : Except CErr POut) : Option (List (String × String) × String) :=
  match r with
  | .ok (d, _, as, _) => some (CProg.text { assigns := as, expr := d })
  | .error _ => none

def progRun (env : Env) (r : Except CErr POut) : Option Int :=
  match r with
  | .ok (d, _, as, _) => runProg env { assigns := as, expr := d }
  | .error _ => none

def envXY : Env := [("x", .int 6), ("y", .int 0)]

/-- `If(y != 0, CSE(x // y), 0)` -/
def lazyTree : Expr :=
  .ite (.cmp .ne (.var "y") (.const (.int 0)))
    (.cse (.bin .floordiv (.var "x") (.var "y")) none "s") (.const (.int 0))

/-- **false without `cseTotal`**: the wrapper stands in the branch the evaluator does not take; the
program nevertheless computes the hoisted `x/y` first and divides by zero, where the evaluator
returns 0. -/
theorem program_value_lazy_cex :
    cFragCse lazyTree = true ∧ denVCse envXY lazyTree = some (.i 0) ∧
      den envXY lazyTree = .ok (.int 0) ∧ cseTotal envXY lazyTree = false ∧
      progText (emitProg Generated.printPrec {} lazyTree) =
        some ([("_cse0", "(x/y)")], "(y != 0 ? _cse0 : 0)") ∧
      progRun envXY (emitProg Generated.printPrec {} lazyTree) = none := by
  refine ⟨by decide, by decide, ?_, by decide, by decide, by decide⟩
  rw [← den_strip]
  exact denV_sound _ _ (.i 0) (by decide)

def envClash : Env := [("x", .int 1), ("_cse0", .int 5)]

/-- `CSE(x + 1) * _cse0`: the user's variable `_cse0` has the name the mapper generates -/
def clashTree : Expr :=
  .nary .prod [.cse (.nary .sum [.var "x", .const (.int 1)]) none "s", .var "_cse0"]

/-- **false without `hdisj`**: the mapper does not look at the variables of the expression when it
generates names; the program declares `_cse0` although the environment has a variable of that name
(a redeclaration for the C compiler; with shadowing instead, `_cse0 * _cse0` would be 4, not 10). -/
theorem program_value_env_clash_cex :
    cFragCse clashTree = true ∧ cseTotal envClash clashTree = true ∧
      denVCse envClash clashTree = some (.i 10) ∧
      progText (emitProg Generated.printPrec {} clashTree) =
        some ([("_cse0", "x + 1")], "_cse0 * _cse0") ∧
      progRun envClash (emitProg Generated.printPrec {} clashTree) = none := by
  decide

/-- an entry of `cse_name_list` as `(name, text)` -/
def entryText (e : CEntry) : String × String :=
  (e.name, match e.val with
    | .text s => s
    | .expr _ => "?")

/-- `m(e1); m2 = m.copy(); m2(e2)`: the `cse_name_list` of the copy, the program (all assignments
of the two calls, the expression of the second), whether the environment declares one of the
assigned names, the C value of the program -/
def afterCopy (env : Env) (e1 e2 : Expr) :
    Option (List (String × String) × (List (String × String) × String) × Bool × Option Int) :=
  match emitProg Generated.printPrec {} e1 with
  | .ok (_, _, as1, st1) =>
    match emitProg Generated.printPrec st1.copy e2 with
    | .ok (d, _, as2, st2) =>
      let prog : CProg := { assigns := as1 ++ as2, expr := d }
      some (st2.nameList.map entryText, prog.text,
        prog.assigns.any (fun a => (env.get a.1).isSome), runProg env prog)
    | .error _ => none
  | .error _ => none

def copyTree1 : Expr := .cse xPlus1 (some "u") "s"
def copyTree2 : Expr := .nary .sum [.cse (.var "y") (some "u") "s", .var "x"]

def envCopy : Env := [("x", .int 2), ("y", .int 7)]

/-- **false after `copy()`** (`m(CSE(x+1,"u")); m2 = m.copy(); m2(CSE(y,"u") + x)`): the copy
inherits the assignment `_cse_u = x + 1` in its `cse_name_list` but not the name in `cse_names`, so
it hands out `_cse_u` again; its program — its whole `cse_name_list`, then the expression —
declares ONE C variable twice with two different right-hand sides: it does not compile, where the
evaluator returns 9; the environment declares none of the names, both trees are in the fragment,
every hoisted subexpression has a value. -/
theorem program_value_after_copy_cex :
    cFragCse copyTree1 = true ∧ cFragCse copyTree2 = true ∧
    cseTotal envCopy copyTree1 = true ∧ cseTotal envCopy copyTree2 = true ∧
    denVCse envCopy copyTree2 = some (.i 9) ∧
    afterCopy envCopy copyTree1 copyTree2 =
      some ([("_cse_u", "x + 1"), ("_cse_u", "y")],
            ([("_cse_u", "x + 1"), ("_cse_u", "y")], "x + _cse_u"), false, none) := by
  decide

/-! ### non-vacuity -/

def envP : Env := [("x", .int 2), ("y", .int 5), ("a", .int 7), ("b", .int 3)]

/-- a shared wrapper, a nested wrapper, equal children under different prefixes, a wrapper in a
condition and one of a Boolean value: text and value as gcc computes them -/
def progTree : Expr :=
  .nary .sum [
    .cse (.nary .prod [.cse xPlus1 (some "u") "s", .var "y"]) none "s",
    .cse xPlus1 (some "v") "s",
    .ite (.cse (.cmp .lt (.var "b") (.var "a")) (some "c") "s")
      (.bin .floordiv (.var "a") (.cse xPlus1 (some "u") "s")) (.const (.int 0)),
    .nary .prod [.const (.int (-1)), .cse (.bin .rem (.var "a") (.var "b")) none "s"]]

set_option maxRecDepth 16000 in
/-- non-vacuity of `program_value_partial` -/
example :
    cFragCse progTree = true ∧ cseTotal envP progTree = true ∧
      denVCse envP progTree = some (.i 19) ∧
      progText (emitProg Generated.printPrec {} progTree) =
        some ([("_cse_u", "x + 1"), ("_cse0", "_cse_u * y"), ("_cse_c", "b < a"), ("_cse1", "a % b")],
          "_cse_u + _cse0 + (_cse_c ? (a/_cse_u) : 0) - _cse1") ∧
      progRun envP (emitProg Generated.printPrec {} progTree) = some 19 := by
  decide

def histRun (env : Env) (es : List Expr) : Option (List (String × String) × List (String × Option Int)) :=
  match emitsP Generated.printPrec {} es with
  | .ok (ds, as, _) =>
    some (as.map (fun a => (a.1, a.2.render)),
          ds.map (fun d => (d.render, runProg env { assigns := as, expr := d })))
  | .error _ => none

set_option maxRecDepth 16000 in
/-- non-vacuity of `history_value_partial`: three calls; the first expression `_cse_u * y` still
means 15 under the list of four assignments, the third call reuses `_cse_u` and `_cse0` -/
example :
    let es : List Expr := [
      .nary .prod [.cse xPlus1 (some "u") "s", .var "y"],
      .nary .sum [.cse (.nary .prod [.cse xPlus1 (some "u") "s", .var "y"]) none "s",
                  .cse (.var "a") (some "u") "s"],
      .cmp .lt (.cse (.nary .prod [.cse xPlus1 (some "u") "s", .var "y"]) (some "p") "s")
               (.cse (.nary .sum [.var "a", .cse xPlus1 none "s"]) none "s")]
    (∀ e ∈ es, cFragCse e = true ∧ cseTotal envP e = true) ∧
    es.map (denVCse envP) = [some (.i 15), some (.i 22), some (.b false)] ∧
    histRun envP es = some (
      [("_cse_u", "x + 1"), ("_cse0", "_cse_u * y"), ("_cse_u_2", "a"), ("_cse1", "a + _cse_u")],
      [("_cse_u * y", some 15), ("_cse_u_2 + _cse0", some 22), ("_cse0 < _cse1", some 0)]) := by
  decide

end PV.C14
