import PV.Properties.C13
import PV.Proofs.CompileHistory
/-
  C13 — compiled objects over time (model: PV/Model/CompileHistory.lean).

  The property says "takes the explicitly listed variables first …" about the variables listed
  WHEN `compile()` IS CALLED, and "behaves identically after a pickle round trip".  Here this is
  stated for whole programs of the caller: lists that go on being changed in place, several
  objects built from one list, pickle round trips and calls in any order.  The correspondence
  stream `compile-history` of harness/props/c13.py runs such programs on the real code and compares
  the argument names of the lambdas that really run with `HState.run`; its oracle checks the
  values against the reference interpreter.
-/
namespace PV.C13
open PV

/-- **An object never changes after it was made**: whatever the caller does next — changing the
list it was compiled from (or any other list) in place, compiling other expressions, pickling,
calling — the object bound to an id stays the one that was bound. -/
theorem history_objects_stable (S : PrintPrec) (exprs : List Expr) (st : HState) (steps : List HStep)
    (fid : Nat) (c : Compiled) (h : lookupObj st.objs fid = some c) :
    lookupObj (st.run S exprs steps).objs fid = some c := by
  obtain ⟨extra, hx⟩ := run_objs_extend S exprs steps st
  rw [hx]
  exact lookupObj_append_of_some h

/-- the compile step binds the object `_compile` makes of the list's content AT THAT MOMENT -/
theorem compile_step_binds (S : PrintPrec) (exprs : List Expr) (st : HState) (fid e l : Nat)
    (ex : Expr) (L : List String) (c : Compiled)
    (hfid : lookupObj st.objs fid = none) (he : exprs[e]? = some ex) (hl : st.lists[l]? = some L)
    (hd : hasDup L = false) (hc : compileModel S ex L = .ok c) :
    lookupObj (st.step S exprs (.compile fid e l)).objs fid = some c := by
  simp only [HState.step, hfid, he, hl, hd, hc]
  exact lookupObj_append_new c hfid

/-- a call observes the argument names of the object bound to the id -/
theorem call_step_observes (S : PrintPrec) (exprs : List Expr) (st : HState) (fid : Nat) (c : Compiled)
    (h : lookupObj st.objs fid = some c) :
    (st.step S exprs (.call fid)).seen = st.seen ++ [(fid, c.args)] := by
  simp only [HState.step, h]

/-- **The listed variables are those listed when `compile()` was called.**  Let `f = compile(e, L)`
be made at some point of a program, `L` being the content of the caller's list at that moment.
After ANY further steps `rest` (in-place changes of that very list included) a call of `f` runs a
lambda whose arguments are `L` followed by a strictly increasing tail that consists exactly of the
variables of `e` that are neither in `L` nor context names. -/
theorem history_call_spec (S : PrintPrec) (exprs : List Expr) (st : HState) (fid e l : Nat)
    (ex : Expr) (L : List String) (c : Compiled) (rest : List HStep)
    (hfid : lookupObj st.objs fid = none) (he : exprs[e]? = some ex) (hl : st.lists[l]? = some L)
    (hd : hasDup L = false) (hc : compileModel S ex L = .ok c) :
    ∃ tail, (st.run S exprs (.compile fid e l :: rest ++ [.call fid])).seen
        = (st.run S exprs (.compile fid e l :: rest)).seen ++ [(fid, L ++ tail)] ∧
      tail.Pairwise (· < ·) ∧
      ∀ x, x ∈ tail ↔ (x ∈ C09.fv ex ∧ x ∉ L ∧ x ∉ contextNames) := by
  obtain ⟨_, _, tail, hargs, hstrict, hmem⟩ := compile_args S ex L c hc
  refine ⟨tail, ?_, hstrict, hmem⟩
  have hb := compile_step_binds S exprs st fid e l ex L c hfid he hl hd hc
  have hstable := history_objects_stable S exprs (st.step S exprs (.compile fid e l)) rest fid c hb
  have hrun : st.run S exprs (.compile fid e l :: rest)
      = (st.step S exprs (.compile fid e l)).run S exprs rest := by simp [HState.run]
  rw [show HStep.compile fid e l :: rest ++ [HStep.call fid]
        = (HStep.compile fid e l :: rest) ++ [HStep.call fid] from rfl, run_append, hrun]
  have : ∀ s : HState, s.run S exprs [HStep.call fid] = s.step S exprs (.call fid) := by
    intro s; simp [HState.run]
  rw [this, call_step_observes S exprs _ fid c hstable, hargs]

/-- every object of a state is a fixed point of the pickle round trip -/
def PickleStable (S : PrintPrec) (st : HState) : Prop :=
  ∀ q ∈ st.objs, setstate S q.2.getstate = .ok q.2

/-- every step keeps `PickleStable`: a new object comes out of `_compile` (`pickle_same`) -/
theorem pickleStable_step (S : PrintPrec) (exprs : List Expr) (st : HState) (s : HStep)
    (h : PickleStable S st) : PickleStable S (st.step S exprs s) := by
  cases s with
  | mutate l op =>
    simp only [HState.step]
    split <;> exact h
  | compile fid e l =>
    simp only [HState.step]
    split
    · split
      · exact h
      · split
        · rename_i c hc
          intro q hq
          rcases List.mem_append.mp hq with hq | hq
          · exact h q hq
          · simp only [List.mem_singleton] at hq
            subst hq
            exact pickle_same S _ _ c hc
        · exact h
    · exact h
  | pickle fid src =>
    simp only [HState.step]
    split
    · split
      · rename_i c' hc'
        intro q hq
        rcases List.mem_append.mp hq with hq | hq
        · exact h q hq
        · simp only [List.mem_singleton] at hq
          subst hq
          exact pickle_same S _ _ c' hc'
      · exact h
    · exact h
  | call fid =>
    simp only [HState.step]
    split <;> exact h

/-- … hence every program does -/
theorem pickleStable_run (S : PrintPrec) (exprs : List Expr) (steps : List HStep) :
    ∀ st : HState, PickleStable S st → PickleStable S (st.run S exprs steps) := by
  induction steps with
  | nil => intro st h; simpa [HState.run] using h
  | cons s rest ih =>
    intro st h
    have : st.run S exprs (s :: rest) = (st.step S exprs s).run S exprs rest := by
      simp [HState.run]
    rw [this]
    exact ih _ (pickleStable_step S exprs st s h)

/-- **A pickle round trip anywhere in a program gives the same object** (same stored expression
and variables, same argument list, same source): in every state reached from a program's start
(no objects yet), `pickle.loads(pickle.dumps(f))` binds exactly what `f` is bound to — so by
`history_call_spec` / `history_objects_stable` it is called with the same arguments in the same
order, before or after anything else that happens. -/
theorem history_pickle_same (S : PrintPrec) (exprs : List Expr) (lists : List (List String))
    (steps : List HStep) (fid src : Nat) (c : Compiled)
    (hsrc : lookupObj (HState.run S exprs ⟨lists, [], []⟩ steps).objs src = some c)
    (hfid : lookupObj (HState.run S exprs ⟨lists, [], []⟩ steps).objs fid = none) :
    lookupObj (HState.run S exprs ⟨lists, [], []⟩ (steps ++ [.pickle fid src])).objs fid = some c := by
  have hst : PickleStable S (HState.run S exprs ⟨lists, [], []⟩ steps) :=
    pickleStable_run S exprs steps _ (by intro q hq; cases hq)
  obtain ⟨q, hq, hqc⟩ := lookupObj_mem hsrc
  have hfix : setstate S c.getstate = .ok c := hqc ▸ hst q hq
  rw [run_append]
  have : ∀ s : HState, s.run S exprs [HStep.pickle fid src] = s.step S exprs (.pickle fid src) := by
    intro s; simp [HState.run]
  rw [this]
  simp only [HState.step, hfid, hsrc, hfix]
  exact lookupObj_append_new c hfid

/-! ### Non-vacuity, and what the statement excludes -/

/-- `x*3 + y` compiled with the caller's list `[]`, which then gets `"y"` appended -/
def historySample : List HStep :=
  [.compile 0 0 0, .mutate 0 (.append "y"), .compile 1 0 0, .pickle 2 0, .call 0, .call 1, .call 2]

def historyExpr : Expr := .nary .sum [.nary .prod [.var "x", .const (.int 3)], .var "y"]

example : (HState.run Generated.printPrec [historyExpr] ⟨[[]], [], []⟩ historySample).seen
    = [(0, ["x", "y"]), (1, ["y", "x"]), (2, ["x", "y"])] := by decide +kernel

/-- **Witness: an object that looks at the caller's list only when it is first called is
excluded.**  In the program above the first object was compiled from `[]`; resolving the list at
call time (after the `append`) would give it the argument order `y, x` — another function. -/
theorem deferred_listed_cex :
    let st := HState.run Generated.printPrec [historyExpr] ⟨[[]], [], []⟩ historySample
    (st.seen.head?.map (·.2)) = some ["x", "y"] ∧
    deferredArgs Generated.printPrec [historyExpr] st 0 0 = some ["y", "x"] := by
  decide +kernel

end PV.C13
