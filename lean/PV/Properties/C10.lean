import PV.Proofs.DiffMore
import PV.Proofs.DiffZero
import PV.Proofs.DiffTableCurrent
/-
  C10 — symbolic differentiation yields the true derivative.

  Model: `PV/Model/Diff.lean` (`diff`: the rules of `DifferentiationMapper` and
  `map_math_functions_by_name`; `diffC` / `differentiate`: the same with the CSE cache of one
  mapper instance).  Semantics: `evalR` (`PV/Proofs/DiffEval.lean`), a total real-valued meaning
  of trees over environments that map leaves (variables, subscripted variables) to reals;
  `updL ρ v t` sets every leaf that is Python-`==` to `v` to `t`; `Dom` is the domain predicate
  (`PV/Proofs/DiffSound.lean`).
-/
namespace PV.C10

open PV Real Filter Topology

/-! ### the derivative is the derivative -/

/-- **Main theorem.**  For every expression `e`, every differentiation variable `v` (a variable, a
subscripted variable — any tree; leaves are compared with Python `==` as the code does), every
setting `cfg`, every environment `ρ` and every value `t0` of `v`: if the differentiator returns
the tree `d` and the point lies in the domain of `e`, then the real function
`t ↦ ⟦e⟧(ρ[v ↦ t])` has the derivative `⟦d⟧(ρ[v ↦ t0])` at `t0` — Mathlib's `HasDerivAt`, the
real derivative, not a finite difference.

Partial in one respect only: under `"discontinuous"` every `copysign(a, b)` in `e` must have a
numeric literal as first argument (`csOk`; `copysign_first_argument_cex` shows that the code is
wrong otherwise).  For `If` the domain predicate demands that the condition is locally constant
in `v` (at a switching point the function need not be differentiable at all). -/
theorem diff_hasDerivAt_partial (cfg : Smooth) (v : Expr) (ρ : Expr → ℝ) (t0 : ℝ) (e d : Expr)
    (h : diff cfg v e = .ok d)
    (hcs : cfg = .discontinuous → csOk e = true)
    (hd : Dom v t0 (updL ρ v t0) e) :
    HasDerivAt (fun t => evalR (updL ρ v t) e) (evalR (updL ρ v t0) d) t0 := by
  have hfix : ∀ l, l.pyEq v = true → updL ρ v t0 l = t0 := by
    intro l hl; simp [updL, hl]
  have key := diff_sound cfg v (updL ρ v t0) t0 hfix e d h hcs hd
  have e2 : ∀ t, updL (updL ρ v t0) v t = updL ρ v t := by
    intro t; funext l; simp only [updL]; split <;> rfl
  simpa only [e2] using key

/-- environments keyed by variable names -/
def envOf (ρ : String → ℝ) : Expr → ℝ
  | .var x => ρ x
  | _ => 0

theorem updL_envOf (ρ : String → ℝ) (x : String) (t : ℝ) :
    updL (envOf ρ) (.var x) t = envOf (Function.update ρ x t) := by
  funext l
  cases l <;> simp [updL, envOf, Expr.pyEq, Function.update]

/-- **Full strength for the settings `"none"` and `"continuous"`** (where `copysign` and `If` are
refused), in the usual form: differentiation with respect to the variable named `x` at the point
`ρ`.  `HasDerivAt (t ↦ ⟦e⟧(ρ[x ↦ t])) ⟦d⟧(ρ) (ρ x)`. -/
theorem diff_hasDerivAt (cfg : Smooth) (hcfg : cfg ≠ .discontinuous) (x : String)
    (ρ : String → ℝ) (e d : Expr) (h : diff cfg (.var x) e = .ok d)
    (hd : Dom (.var x) (ρ x) (envOf ρ) e) :
    HasDerivAt (fun t => evalR (envOf (Function.update ρ x t)) e) (evalR (envOf ρ) d) (ρ x) := by
  have e0 : updL (envOf ρ) (.var x) (ρ x) = envOf ρ := by
    rw [updL_envOf, Function.update_eq_self]
  have := diff_hasDerivAt_partial cfg (.var x) (envOf ρ) (ρ x) e d h
    (fun hc => absurd hc hcfg) (by rw [e0]; exact hd)
  simpa only [updL_envOf, Function.update_eq_self] using this

private def X : Expr := .var "x"
private def Y : Expr := .var "y"

/-- non-vacuity: `d/dx (x*x)/y` at `x = 3, y = 2` (third branch of the quotient rule) -/
example : HasDerivAt
    (fun t => evalR (envOf (Function.update (fun s => if s = "x" then 3 else 2) "x" t))
      (.bin .quot (.nary .prod [X, X]) Y))
    (evalR (envOf (fun s => if s = "x" then 3 else 2)) (.bin .quot (.nary .sum [X, X]) Y)) 3 :=
  diff_hasDerivAt .none (by decide) "x" (fun s => if s = "x" then 3 else 2) _ _ rfl
    (by simp [Dom, DomL, evalR, envOf, X, Y])

/-- non-vacuity: subscripted variable, `d/da[1] sin(a[1] * x)` -/
example (ρ : Expr → ℝ) (t0 : ℝ) :
    HasDerivAt (fun t => evalR (updL ρ (.subscript (.var "a") one) t)
        (mcall .sin [.nary .prod [.subscript (.var "a") one, X]]))
      (evalR (updL ρ (.subscript (.var "a") one) t0)
        (.nary .prod [mcall .cos [.nary .prod [.subscript (.var "a") one, X]], X])) t0 :=
  diff_hasDerivAt_partial .none _ ρ t0 _ _ rfl (by intro h; cases h)
    (by simp [Dom, DomL, DomCall, callFn_mathf, mcall, X])

/-! ### the cache of one mapper instance does not change the answers -/

/-- `differentiate` (a fresh mapper with its CSE cache) computes exactly what the rules compute,
whenever Python `==` identifies no two different CSE nodes of the input (`S`: any duplicate-free
— up to `==` — list containing the CSE nodes of `e`). -/
theorem differentiate_eq_diff (cfg : Smooth) (v : Expr) (S : List Expr) (hS : Coherent S)
    (e : Expr) (hin : CsesIn S e) : differentiate cfg v e = diff cfg v e :=
  (diffC_agrees cfg v S hS e hin [] (by intro k r hm; cases hm)).1

/-- … and so does every later call on the same mapper instance -/
theorem diffHist_eq_diff (cfg : Smooth) (v : Expr) (S : List Expr) (hS : Coherent S) :
    ∀ (es : List Expr) (c : DCache), (∀ e ∈ es, CsesIn S e) → CacheOk cfg v S c →
      diffHist cfg v es c = es.map (diff cfg v)
  | [], _, _, _ => rfl
  | e :: es, c, hin, hc => by
      obtain ⟨h1, h2⟩ := diffC_agrees cfg v S hS e (hin e List.mem_cons_self) c hc
      simp only [diffHist, List.map_cons]
      rw [h1, diffHist_eq_diff cfg v S hS es _ (fun e' he' => hin e' (List.mem_cons_of_mem _ he')) h2]

/-- the main theorem for the entry point -/
theorem differentiate_hasDerivAt_partial (cfg : Smooth) (v : Expr) (ρ : Expr → ℝ) (t0 : ℝ)
    (e d : Expr) (S : List Expr) (hS : Coherent S) (hin : CsesIn S e)
    (h : differentiate cfg v e = .ok d)
    (hcs : cfg = .discontinuous → csOk e = true)
    (hd : Dom v t0 (updL ρ v t0) e) :
    HasDerivAt (fun t => evalR (updL ρ v t) e) (evalR (updL ρ v t0) d) t0 :=
  diff_hasDerivAt_partial cfg v ρ t0 e d
    (by rw [← differentiate_eq_diff cfg v S hS e hin]; exact h) hcs hd

/-- non-vacuity: the same CSE twice; the second occurrence is answered from the cache -/
example : differentiate .none X
      (.nary .sum [.cse (.nary .prod [X, X]) none "s", .cse (.nary .prod [X, X]) none "s"])
    = diff .none X
      (.nary .sum [.cse (.nary .prod [X, X]) none "s", .cse (.nary .prod [X, X]) none "s"]) :=
  differentiate_eq_diff .none X [.cse (.nary .prod [X, X]) none "s"]
    (by intro k hk k' hk' _; simp only [List.mem_singleton] at hk hk'; rw [hk, hk']) _
    (by simp [CsesIn, CsesInL, X])

/-! ### refusal -/

/-- `fabs` is refused with ValueError unless non-smoothness is allowed -/
theorem refuses_fabs (v p : Expr) : diff .none v (mcall .fabs [p]) = .error .valueError := rfl

/-- `copysign` is refused with ValueError unless discontinuities are allowed -/
theorem refuses_copysign (cfg : Smooth) (hcfg : cfg ≠ .discontinuous) (v a b : Expr) :
    diff cfg v (mcall .copysign [a, b]) = .error .valueError := by
  cases cfg
  · rfl
  · rfl
  · exact absurd rfl hcfg

/-- `If` is refused with ValueError unless discontinuities are allowed -/
theorem refuses_if (cfg : Smooth) (hcfg : cfg ≠ .discontinuous) (v c t e : Expr) :
    diff cfg v (.ite c t e) = .error .valueError := by
  cases cfg
  · rfl
  · rfl
  · exact absurd rfl hcfg

/-- a function that is not in the table, applied to at least one argument, is refused with
RuntimeError — whatever the setting -/
theorem refuses_unknown (cfg : Smooth) (v f p : Expr) (ps : List Expr) (hf : mathFn? f = none) :
    diff cfg v (.call f (p :: ps)) = .error .runtimeError := by
  have : funcMap cfg f (p :: ps) = .error .runtimeError := by
    unfold funcMap
    split <;> simp_all [throw, throwThe, MonadExceptOf.throw]
  simp only [diff, this]
  rfl

/-- **Refusal, anywhere in the tree.**  If a position the differentiator visits holds an `If` the
setting does not allow, or a call the table refuses (`callRefused`: unknown function or wrong
number of arguments; `fabs` under "none"; `copysign` unless "discontinuous"), then no derivative
tree is returned at all — in particular no wrong one. -/
theorem diff_refuses (cfg : Smooth) (v e : Expr) (h : needsRefusal cfg e = true) :
    ∀ d, diff cfg v e ≠ .ok d :=
  diff_refuses_aux cfg v e h

/-- the table refuses with ValueError or RuntimeError -/
theorem table_refuses (cfg : Smooth) (f : Expr) (args : List Expr)
    (h : callRefused cfg f args = true) :
    funcMap cfg f args = .error .valueError ∨ funcMap cfg f args = .error .runtimeError :=
  funcMap_refused h

/-- non-vacuity: `x * fabs(y)` under "none" -/
example : ∀ d, diff .none X (.nary .prod [X, mcall .fabs [Y]]) ≠ .ok d :=
  diff_refuses .none X _ rfl

/-- non-vacuity of the permission: under "continuous" `fabs` differentiates to `sign` -/
example : diff .continuous X (mcall .fabs [X]) = .ok (mcall .copysign [one, X]) := rfl

/-! ### the regenerated table (T-gen)

`Generated.c10DiffTable` is rewritten by `extract/differentiator.py` from the SOURCE of
`pymbolic/mapper/differentiator.py` before every build.  The theorems of this section are
re-checked against it: an edit of the source that changes a derivative, a sign, a gate, an error
class, the children a handler differentiates or the order in which it does so changes the table
and makes one of them fail. -/

open Generated in
/-- **The function table.**  `map_math_functions_by_name`, read as data from the source (the
`if func == make_f(name) and len(pars) == k` chain with the expression each branch returns, the
non-smoothness gates and the errors raised) and interpreted with the overloaded operators,
answers exactly what the hand-written `funcMap` answers — for every setting, every function
expression and every argument list. -/
theorem funcMap_eq_table_current (cfg : Smooth) (f : Expr) (pars : List Expr) :
    funcMap cfg f pars
      = c10FuncMapT c10DiffTable.fnModule c10DiffTable.fnElse cfg f pars c10DiffTable.fns :=
  (c10_funcMap_current cfg f pars).symm

open Generated in
/-- **The quotient rule** as written in `map_quotient` (four branches on the truthiness of the
children's derivatives, `-f*dg/g**2`, `self.rec(f)/g`, `(df*g-dg*f)/g**2`) is `quotRule`. -/
theorem quotRule_eq_table_current (f g df dg : Expr) :
    liftOp (quotRule f g df dg) = c10RuleEval c10DiffTable.quot f g df dg :=
  (c10_quot_current f g df dg).symm

open Generated in
/-- **The power rule** as written in `map_power` is `powRule`. -/
theorem powRule_eq_table_current (f g df dg : Expr) :
    liftOp (powRule f g df dg) = c10RuleEval c10DiffTable.pow f g df dg :=
  (c10_pow_current f g df dg).symm

open Generated in
/-- **The handlers.**  Every handler defined in the class body, in source order, has the shape
the model implements: `map_sum` sums the derivatives of all `children`; `map_product` sums, over
every split, the flattened product of the undifferentiated prefix, the differentiated child and
the undifferentiated suffix; `map_call` sums `function_map(i, function, parameters, setting) *
rec(parameter)`; `map_quotient` / `map_power` read (`numerator`, `denominator`) / (`base`,
`exponent`), differentiate the first child first, and `map_power` builds its logarithm with
`pymbolic.var("log")`; `map_if` is gated and rebuilds `(condition, rec(then), rec(else_))`; the
CSE handler differentiates `child` ONCE, answers the int literal `0` when `primitives.is_zero`
accepts the result (`cseZero = some 0`; `is_zero` is `not bool(·)`, read from primitives.py) and
otherwise rebuilds `(result, prefix, scope)`; `map_subscript` is `map_variable`;
`rec_undiff` is the identity; `differentiate` wraps a `variable` that is neither a `Variable`
nor a `Subscript`.  The only `self.rec` call written inside a result is `self.rec(f)` in the third
branch of `map_quotient` (performed by `diffC`); the accepted settings are the three of `Smooth`,
`None` stands for `"none"`. -/
theorem handler_shapes_current :
    c10DiffTable.shapes = c10ModelShapes ∧
    c10DiffTable.quot.recalls = [[], [], [.f], []] ∧
    c10DiffTable.pow.recalls = [[], [], [], []] ∧
    c10DiffTable.cseZero = some 0 ∧
    c10DiffTable.settings.map Smooth.ofName? = [some .none, some .continuous, some .discontinuous] ∧
    Smooth.ofName? c10DiffTable.noneSetting = some .none ∧
    c10DiffTable.bases = ["pymbolic.mapper.RecursiveMapper",
      "pymbolic.mapper.CSECachingMapperMixin"] :=
  ⟨rfl, rfl, rfl, rfl, rfl, rfl, rfl⟩

/-- **The table-driven differentiator is `diff`.**  `c10DiffT T` runs the differentiator with
the function table, the quotient and power rules, the `If` gate, the CSE handler's answer for a
vanishing child derivative and the leaf rules taken from a table `T`; on the table regenerated from the source it computes, for every setting, variable and
tree, exactly what the hand-written `diff` computes (tree or error). -/
theorem diff_eq_table_current (cfg : Smooth) (v e : Expr) :
    diff cfg v e = c10DiffT Generated.c10DiffTable cfg v e :=
  (c10DiffT_current cfg v e).symm

/-- The main theorem for EVERY table that denotes the proved rules (`c10RulesOf T =
c10ModelRules`: same function table, quotient rule, power rule, gate and leaf rules as functions,
however they are written down) … -/
theorem table_hasDerivAt_partial (T : C10DiffTable) (hT : c10RulesOf T = c10ModelRules)
    (cfg : Smooth) (v : Expr) (ρ : Expr → ℝ) (t0 : ℝ) (e d : Expr)
    (h : c10DiffT T cfg v e = .ok d)
    (hcs : cfg = .discontinuous → csOk e = true)
    (hd : Dom v t0 (updL ρ v t0) e) :
    HasDerivAt (fun t => evalR (updL ρ v t) e) (evalR (updL ρ v t0) d) t0 := by
  refine diff_hasDerivAt_partial cfg v ρ t0 e d ?_ hcs hd
  rw [← h]
  unfold c10DiffT
  rw [hT]
  exact (diffG_model cfg v e).symm

/-- … and for the table regenerated from the source on this run: what the source's rules,
read as data, build is the true derivative. -/
theorem generated_table_hasDerivAt_partial (cfg : Smooth) (v : Expr) (ρ : Expr → ℝ) (t0 : ℝ)
    (e d : Expr) (h : c10DiffT Generated.c10DiffTable cfg v e = .ok d)
    (hcs : cfg = .discontinuous → csOk e = true)
    (hd : Dom v t0 (updL ρ v t0) e) :
    HasDerivAt (fun t => evalR (updL ρ v t) e) (evalR (updL ρ v t0) d) t0 :=
  table_hasDerivAt_partial _ c10_rules_current cfg v ρ t0 e d h hcs hd

/-- refusal, for the regenerated table -/
theorem generated_table_refuses (cfg : Smooth) (v e : Expr) (h : needsRefusal cfg e = true) :
    ∀ d, c10DiffT Generated.c10DiffTable cfg v e ≠ .ok d := by
  intro d
  rw [← diff_eq_table_current]
  exact diff_refuses cfg v e h d

/-- non-vacuity: the regenerated table has the eleven entries, and running it on
`d/dx (x*x)/y` gives the tree of the third branch of the quotient rule -/
example : Generated.c10DiffTable.fns.length = 11 := rfl
example : c10DiffT Generated.c10DiffTable .none X (.bin .quot (.nary .prod [X, X]) Y)
    = .ok (.bin .quot (.nary .sum [X, X]) Y) := rfl
example : c10DiffT Generated.c10DiffTable .continuous X (mcall .fabs [X])
    = .ok (mcall .copysign [one, X]) := rfl
example : ∀ d, c10DiffT Generated.c10DiffTable .none X (.nary .prod [X, mcall .fabs [Y]]) ≠ .ok d :=
  generated_table_refuses .none X _ rfl

/-! ### a variable that does not occur -/

/-- If no leaf of `e` is `==` to the differentiation variable, the derivative tree evaluates to 0
in every environment (it is the literal `0` unless an `If` is kept around zeros:
`diff_var_absent_literal`). -/
theorem diff_var_absent (cfg : Smooth) (v e d : Expr) (h : diff cfg v e = .ok d)
    (ha : absent v e = true) (ρ : Expr → ℝ) : evalR ρ d = 0 :=
  diff_absent cfg v ρ e d h ha

example : diff .none (.var "w") (.bin .quot (.nary .prod [X, X]) (mcall .exp [Y])) = .ok zero := rfl
example (ρ : Expr → ℝ) :
    evalR ρ (.ite (.cmp .lt X Y) zero zero) = 0 :=
  diff_var_absent .discontinuous (.var "w") (.ite (.cmp .lt X Y) X Y) _ rfl rfl ρ

/-- **… and it is the literal `0`.**  If no leaf of `e` is `==` to the differentiation variable
and `e` contains no `If` (under "none" / "continuous" an `If` is refused anyway), the derivative is
the int literal `0` itself — not merely a tree that evaluates to 0.  This is what the product,
quotient and power rules test (`not df`): it holds since the CSE handler answers `0` for a
vanishing child derivative instead of a (truthy) wrapper around it
(`cse_zero_wrapped_table_cex`: the old handler); `If(c, 0, 0)` is the one remaining wrapper. -/
theorem diff_var_absent_literal (cfg : Smooth) (v e d : Expr) (h : diff cfg v e = .ok d)
    (ha : absent v e = true) (hi : cfg = .discontinuous → iteFree e = true) : d = zero :=
  diff_absent_zero cfg v e d h ha hi

/-- non-vacuity: nested wrappers, a product and a call around a variable that is not `w` -/
example : diff .none (.var "w")
    (.cse (.nary .prod [.cse X none "s", mcall .sin [.cse (.bin .pow X Y) (some "u") "t"]]) none "s")
    = .ok zero := rfl
example : diff .none (.var "w") (.cse X none "s") = .ok zero ∧
    diff .discontinuous (.var "w") (.ite (.cmp .lt X Y) X Y) = .ok (.ite (.cmp .lt X Y) zero zero) :=
  ⟨rfl, rfl⟩

/-! ### an exponent that does not depend on the variable: the plain power rule -/

/-- **The repaired behaviour.**  If the exponent `g` of `f ** g` does not depend on the
differentiation variable (no leaf of `g` is `==` to it; `g` may be any differentiable tree without
`If` — a constant, another variable, `CommonSubexpression(y)`, `sin(CSE(y*z))`, …), then the
derivative is the plain power rule `g * f**(g-1) * f'` (`plainPowRule`, no `log(f)` term — so the
tree can be evaluated wherever `f**(g-1)` can, in particular at `f <= 0` for an integer-valued
`g >= 1`, and needs no free variable `log`), or the literal `0` when `f'` vanishes as well. -/
theorem diff_pow_absent_exponent (cfg : Smooth) (v f g df dg : Expr)
    (hf : diff cfg v f = .ok df) (hg : diff cfg v g = .ok dg)
    (ha : absent v g = true) (hi : cfg = .discontinuous → iteFree g = true) :
    diff cfg v (.bin .pow f g)
      = if df.truthy then liftOp (plainPowRule f g df) else .ok zero := by
  have e := diff_absent_zero cfg v g dg hg ha hi
  subst e
  simp only [diff, hf, hg]
  show liftOp (powRule f g df zero) = _
  rw [powRule_dg_zero]
  split <;> rfl

/-- … in particular for an exponent wrapped in a `CommonSubexpression` (the shape the defect was
found on): `d/dv f ** CSE(g) = CSE(g) * f**(CSE(g) - 1) * f'`. -/
theorem diff_pow_cse_exponent (cfg : Smooth) (v f g df dg : Expr) (p : Option String) (s : String)
    (hf : diff cfg v f = .ok df) (hg : diff cfg v g = .ok dg) (hl : g.hasList = false)
    (ha : absent v g = true) (hi : cfg = .discontinuous → iteFree g = true) :
    diff cfg v (.bin .pow f (.cse g p s))
      = if df.truthy then liftOp (plainPowRule f (.cse g p s) df) else .ok zero :=
  diff_pow_absent_exponent cfg v f (.cse g p s) df (cseRule dg p s) hf
    (by simp only [diff, hl, hg]; rfl) (by simpa [absent] using ha)
    (fun hc => by simpa [iteFree] using hi hc)

/-- non-vacuity: `d/dx x ** CSE(y) = CSE(y) * x ** (CSE(y) + -1)`, and `d/da[1]` of it is `0` -/
example : diff .none X (.bin .pow X (.cse Y none "s"))
    = .ok (.nary .prod [.cse Y none "s", .bin .pow X (.nary .sum [.cse Y none "s", negOne])]) := rfl
example : diff .none X (.bin .pow X (.cse Y none "s"))
    = liftOp (plainPowRule X (.cse Y none "s") one) :=
  diff_pow_cse_exponent .none X X Y one zero none "s" rfl rfl rfl rfl (by intro h; cases h)
example : differentiate .none (.subscript (.var "a") one) (.bin .pow X (.cse Y none "s")) = .ok zero :=
  rfl

/-! ### known findings as theorems -/

/-- the table as `extract/differentiator.py` reads it from the source BEFORE the repair: the CSE
handler `return type(expr)(self.rec(expr.child, *args), expr.prefix, expr.scope)` wraps whatever
the child's derivative is -/
def c10OldCseTable : C10DiffTable :=
  { Generated.c10DiffTable with
    cseZero := none
    shapes := Generated.c10DiffTable.shapes.map fun (n, sh) =>
      if n = "map_common_subexpression_uncached" then
        (n, .rebuild false [(true, "child"), (false, "prefix"), (false, "scope")])
      else (n, sh) }

/-- **a wrapper around a vanishing derivative (repaired).**  With the old CSE handler (the table
edited back: it wraps unconditionally) the derivative of `x ** CSE(y)` with respect to `x` is
`log(x)*x**CSE(y)*CSE(0) + CSE(y)*x**(CSE(y) + -1)`: `CSE(0)` is truthy, so `map_power` does not
see that the exponent's derivative vanishes and emits the `log(x)` term (the tree cannot be
evaluated at `x <= 0`, where `x**y` is differentiable for an integer `y >= 1`, and calls the free
variable `log`); with respect to `a[1]`, which does not occur at all, it is
`log(x)*x**CSE(y)*CSE(0)` instead of `0`.  The table regenerated from the repaired source gives the
plain power rule and the literal `0`. -/
theorem cse_zero_wrapped_table_cex :
    let G : Expr := .cse Y none "s"
    let a1 : Expr := .subscript (.var "a") one
    c10DiffT c10OldCseTable .none X (.bin .pow X G)
      = .ok (.nary .sum [.nary .prod [logCall X, .bin .pow X G, .cse zero none "s"],
                         .nary .prod [G, .bin .pow X (.nary .sum [G, negOne])]]) ∧
    c10DiffT Generated.c10DiffTable .none X (.bin .pow X G)
      = .ok (.nary .prod [G, .bin .pow X (.nary .sum [G, negOne])]) ∧
    c10DiffT c10OldCseTable .none a1 (.bin .pow X G)
      = .ok (.nary .prod [logCall X, .bin .pow X G, .cse zero none "s"]) ∧
    c10DiffT Generated.c10DiffTable .none a1 (.bin .pow X G) = .ok zero ∧
    c10OldCseTable.shapes ≠ c10ModelShapes ∧ c10RulesOf c10OldCseTable ≠ c10ModelRules := by
  refine ⟨rfl, rfl, rfl, rfl, by decide, ?_⟩
  intro h
  have := congrArg C10Rules.cseZero h
  simp [c10RulesOf, c10OldCseTable, c10ModelRules] at this

/-- **copysign, first argument.**  Under "discontinuous" the code differentiates
`copysign(x, 1)` with respect to `x` to the literal `0`; the function is `|x|`, whose derivative
at `1` is `1`.  (`csOk` fails exactly on this shape.) -/
theorem copysign_first_argument_cex :
    diff .discontinuous X (mcall .copysign [X, one]) = .ok zero ∧
    csOk (mcall .copysign [X, one]) = false ∧
    ∀ ρ : Expr → ℝ, ¬ HasDerivAt (fun t => evalR (updL ρ X t) (mcall .copysign [X, one]))
      (evalR (updL ρ X 1) zero) 1 := by
  refine ⟨rfl, rfl, ?_⟩
  intro ρ hder
  have efun : (fun t => evalR (updL ρ X t) (mcall .copysign [X, one])) = fun t => |t| := by
    funext t
    simp [mcall, evalR, callFn_mathf, evalArgs, evalCall, updL, X, Expr.pyEq, one, Const.toReal]
  rw [efun] at hder
  have h1 : HasDerivAt (fun t : ℝ => |t|) ((SignType.sign (1 : ℝ) : ℝ)) 1 :=
    hasDerivAt_abs one_ne_zero
  have := hder.unique h1
  simp at this

/-- **`If` around vanishing derivatives.**  `map_if` rebuilds `If(c, then', else_')` also when
both branch derivatives vanish; `If(c, 0, 0)` is truthy (the hypothesis `iteFree` of
`diff_var_absent_literal` / `diff_pow_absent_exponent` cannot be dropped): with an exponent
`If(y < 1, 2, 3)`, which does not depend on `x`, the power rule keeps the term
`log(x) * x**If(..) * If(y < 1, 0, 0)`. -/
theorem if_zero_wrapped_cex :
    let G : Expr := .ite (.cmp .lt Y one) two (.const (.int 3))
    let Z : Expr := .ite (.cmp .lt Y one) zero zero
    diff .discontinuous X (.bin .pow X G)
      = .ok (.nary .sum [.nary .prod [logCall X, .bin .pow X G, Z],
                         .nary .prod [G, .bin .pow X (.nary .sum [G, negOne])]]) ∧
    absent X G = true ∧ iteFree G = false ∧
    diff .discontinuous X G = .ok Z ∧ Z.truthy = true ∧ Z ≠ zero ∧
    ∀ ρ : Expr → ℝ, evalR ρ Z = 0 := by
  refine ⟨rfl, rfl, rfl, rfl, rfl, (fun h => by cases h), ?_⟩
  intro ρ
  simp only [evalR, evalR_zero ρ, ite_self]

/-- **log of an integer constant.**  `log(2)` — a constant — cannot be differentiated: the rule
builds `pymbolic.rational.Rational(1, 2)` whose product with `0` raises AttributeError. -/
theorem log_integer_constant_cex :
    diff .none X (mcall .log [.const (.int 2)]) = .error .attributeError ∧
    diff .none X (.nary .prod [X, mcall .log [.const (.int 2)]]) = .error .attributeError :=
  ⟨rfl, rfl⟩

/-- **the power rule's `log`.**  The derivative of `x**y` with respect to `y` calls the free
variable `log`, not `math.log`; it is not a function of the table, so differentiating once more
is refused. -/
theorem power_rule_unqualified_log_witness :
    differentiate .none Y (.bin .pow X Y) = .ok (.nary .prod [.call (.var "log") [X], .bin .pow X Y]) ∧
    mathFn? (.var "log") = none ∧
    differentiate .none X (.nary .prod [.call (.var "log") [X], .bin .pow X Y])
      = .error .runtimeError :=
  ⟨rfl, rfl, rfl⟩

end PV.C10
