import PV.Model.Coeff
import PV.Proofs.CoeffSound
import PV.Proofs.CoeffFree
import PV.Proofs.Gauss
import PV.Proofs.CoeffSolve
import PV.Proofs.CoeffComplete
/-
  C15 — property theorems.

  "For every expression that is affine in the chosen target variables, the coefficient collector
  returns coefficients, free of those variables, such that the sum of coefficient times variable
  plus the constant term evaluates to the original expression everywhere; for input that is not
  affine in them it raises instead of returning coefficients.  The affine equation solver returns,
  for every system it accepts, assignments to the unknowns that satisfy all given equations
  identically in the remaining parameters, and it raises when an unknown is not uniquely
  determined or not integral."

  Model: `PV/Model/Coeff.lean` (`coeffs` = CoefficientCollector, `gaussElim` =
  gaussian_elimination, `solveMat`/`solveAffine` = solve_affine_equations_for), tied to the real
  code by the correspondence streams of `harness/props/c15.py`.

  What holds and what does not:
    * `coeffs_sound`            the returned linear form evaluates to the input            (holds)
    * `coeffs_free_partial`     coefficients are free of the targets — only when no target hides
                                inside a composite leaf (`a[x]`, `f(x)`): `coeffs_free_cex`
    * `coeffs_complete_affine`  every expression of the syntactic affine class is accepted   (holds)
    * `coeffs_rejects_*`        two target-dependent factors, target in a denominator / in a power
                                are rejected                                               (holds)
    * `gauss_preserves_solutions` every row operation and the gcd division keep the rational
                                solution set                                               (holds)
    * `solve_sound_partial`     the values read off satisfy every row — only when the reduced
                                matrix has the single-entry shape: `solve_sound_underdetermined_cex`,
                                `solve_sound_inconsistent_cex`
    * `solve_affine_sound_partial` under the same shape hypothesis the ORIGINAL equations hold
                                when the unknowns are bound to the returned expressions' values
    * `assemble_row_value`      the integer row assembled for an equation represents lhs - rhs
                                (also for terms that occur on both sides)                  (holds)
-/
namespace PV.C15
open PV PV.Coeff

/-! ## 1. The coefficient collector -/

/-- **Soundness of the linear form.**  If the collector returns the dictionary `d` for `e`, then in
every environment in which `e` evaluates to an exact number `v` (int, bool or Fraction; the model
makes no claim about floats) the tree `Σ coefficient·key` (`recon d`: a `Sum` of `Product`s, the
constant term being the coefficient of the key `1`) evaluates too, to a value Python-equal to `v`.

Hypotheses, all decidable:
* `e.simple`: no bool/float constants, keyword calls or lists in `e` (on such trees the `==` used
  by the dictionary is structural equality, so two keys that are merged have the same value);
* `recipOK env tg e`: every reciprocal `Quotient(1, val)` the collector builds for a `Quotient`
  node evaluates exactly (in Python `1/2` is a float but `1/Fraction(2)` and `1/p` with a
  Fraction-valued parameter are exact). -/
theorem coeffs_sound (env : Env) (tg : Option (List String)) (e : Expr) (d : Dict) (v : Value)
    (h : coeffs tg e = .ok d) (hs : e.simple = true) (hr : recipOK env tg e = true)
    (hv : den env e = .ok v) (hex : v.num?.isSome = true) :
    ∃ w, den env (recon d) = .ok w ∧ w.pyEq v = true := by
  obtain ⟨x, hx⟩ := Option.isSome_iff_exists.1 hex
  have hview := num_some_view hx
  have hq : nv env e = some x.toRat := nv_iff.2 ⟨v, _, hv, hview⟩
  have hd := coeffs_nv (env := env) tg e d _ hs h hr hq
  obtain ⟨w, fw, hw, hwv⟩ := nv_iff.1 (recon_den hd)
  exact ⟨w, hw, by rw [pyEq_of_view hwv hview]; simp⟩

/-- The same statement entry by entry: every coefficient and every key of the returned dictionary
evaluates to an exact number and `Σ value(coefficient)·value(key)` is the value of `e`. -/
theorem coeffs_sound_entries (env : Env) (tg : Option (List String)) (e : Expr) (d : Dict) (q : Rat)
    (h : coeffs tg e = .ok d) (hs : e.simple = true) (hr : recipOK env tg e = true)
    (hq : nv env e = some q) : dictNV env d = some q :=
  coeffs_nv tg e d q hs h hr hq

/-- non-vacuity of `coeffs_sound`: `x/p + 3*x + y` for the target `x` at `x = 1/2`, `p = 3/2`,
`y = 2` (a reciprocal of a parameter, a product, a constant term) -/
def demoExpr : Expr :=
  .nary .sum [.bin .quot (.var "x") (.var "p"), .nary .prod [.const (.int 3), .var "x"], .var "y"]
def demoEnv : Env := [("x", .frac (1/2)), ("p", .frac (3/2)), ("y", .int 2)]

example : coeffs (some ["x"]) demoExpr =
    .ok [(.var "x", .nary .sum [.bin .quot one (.var "p"), .const (.int 3)]), (one, .var "y")] := rfl
example : demoExpr.simple = true := rfl
example : recipOK demoEnv (some ["x"]) demoExpr = true := by decide +kernel
example : (match den demoEnv demoExpr with | .ok v => v.num?.isSome | _ => false) = true := by
  decide +kernel

/-- **Freeness (partial).**  No returned coefficient mentions a target — provided no target hides
inside a composite leaf that is not itself a target (`leavesClean`).  `tOcc tg c`: a variable
named in `target_names` occurs somewhere in `c` (with `target_names = None`: any variable,
subscript, call or lookup occurs). -/
theorem coeffs_free_partial (tg : Option (List String)) (e : Expr) (d : Dict)
    (h : coeffs tg e = .ok d) (hc : leavesClean tg e = true) :
    ∀ kc ∈ d, tOcc tg kc.2 = false :=
  coeffs_free tg e d h hc

/-- The excluded shape is real: for the target `x` the collector returns `a[x]` as the constant
term of `a[x]` (confirmed on the real code: known finding `coefficient-mentions-target:leaf`). -/
theorem coeffs_free_cex : ∃ (tg : Option (List String)) (e : Expr) (d : Dict),
    coeffs tg e = .ok d ∧ ∃ kc ∈ d, tOcc tg kc.2 = true :=
  ⟨some ["x"], .subscript (.var "a") (.var "x"), [(one, .subscript (.var "a") (.var "x"))], rfl,
    (one, .subscript (.var "a") (.var "x")), by simp, by decide⟩

example : leavesClean (some ["x"]) demoExpr = true := by decide
example : leavesClean (some ["x"]) (.subscript (.var "a") (.var "x")) = false := by decide

/-- Every key of a returned dictionary is the constant `1` or an algebraic leaf of the input, and
a target leaf in arithmetic position always shows up as a key (no cancellation removes it). -/
theorem coeffs_keys_shape (tg : Option (List String)) (e : Expr) (d : Dict)
    (h : coeffs tg e = .ok d) :
    (∀ kc ∈ d, kc.1 = one ∨ kc.1.isAlgLeaf = true) ∧ (armT tg e = true → hasVarKey d = true) :=
  ⟨(coeffs_keys tg e d h).1, fun ha => leafKey_hasVarKey ((coeffs_keys tg e d h).2 ha)⟩

/-- Every key of a returned dictionary is the constant `1` or an algebraic leaf that passed the
collector's own target test (`target_names is None or getattr(leaf, "name", None) in
target_names` — for a `Variable`: its name is a target name). -/
theorem coeffs_keys_are_targets (tg : Option (List String)) (e : Expr) (d : Dict)
    (h : coeffs tg e = .ok d) :
    ∀ kc ∈ d, kc.1 = one ∨ (kc.1.isAlgLeaf = true ∧ isTarget tg kc.1 = true) :=
  coeffs_keys_target tg e d h

/-- **Acceptance of the affine class.**  Every expression of the syntactic class `affClass tg` —
int constants, algebraic leaves, non-empty sums of class members, products of class members with
at most one factor that has a target in arithmetic position, quotients of a class member by a
class member without such a target, powers of two class members without such targets — is
accepted: the collector returns a dictionary (it does not raise, and the model does not abstain).
If no target occurs in arithmetic position the dictionary is `{1: c}`. -/
theorem coeffs_complete_affine (tg : Option (List String)) (e : Expr) (h : affClass tg e = true) :
    ∃ d, coeffs tg e = .ok d ∧ (armT tg e = false → ∃ c, d = [(one, c)]) := by
  obtain ⟨d, hd, _, hs⟩ := coeffs_accepts tg e h
  exact ⟨d, hd, fun ha => (hs ha).imp fun c hc => hc.1⟩

example : affClass (some ["x"]) demoExpr = true := by decide
example : affClass (some ["x"]) (.nary .prod [.var "x", .var "x"]) = false := by decide
/-- the two shapes the class leaves out on purpose (both are known findings): an empty `Sum` as a
factor, and a `Lookup` whose attribute name is a target name next to a target -/
example : coeffs (some ["x"]) (.nary .prod [.nary .sum [], .const (.int 2)]) = .error .assertion := rfl
example : coeffs (some ["x"]) (.nary .prod [.lookup (.var "r") "x", .var "x"]) = .error .nonlinear := rfl

/-- **Rejection, products.**  A product with two factors that contain a target in arithmetic
position (`armT`: a target leaf reachable through Sum/Product/Quotient/Power nodes) is never
accepted: the collector raises. -/
theorem coeffs_rejects_nonaffine_product (tg : Option (List String)) (cs : List Expr)
    (h2 : 2 ≤ (cs.filter (armT tg)).length) : ∃ err, coeffs tg (.nary .prod cs) = .error err := by
  cases h : coeffs tg (.nary .prod cs) with
  | error err => exact ⟨err, rfl⟩
  | ok d =>
    exfalso
    have count : ∀ ds v os, coeffsL tg cs = .ok ds → splitVars ds = .ok (v, os) → False := by
      intro ds v os hds hsp
      have h1 := armT_count tg cs ds hds
      have h3 := (splitVars_count ds v os hsp).1
      omega
    cases coeffs_view tg _ d h with
    | leaf _ hl => simp [Expr.isAlgLeaf] at hl
    | num _ hn => simp [Expr.isNumConst] at hn
    | prodConst _ ds os other hds hsp ho => exact count ds _ os hds hsp
    | prodVar _ ds os dv _ other hds hsp ho hsc => exact count ds _ os hds hsp

/-- **Rejection, denominators.**  A quotient whose denominator contains a target in arithmetic
position is never accepted. -/
theorem coeffs_rejects_nonaffine_denominator (tg : Option (List String)) (a b : Expr)
    (hb : armT tg b = true) : ∃ err, coeffs tg (.bin .quot a b) = .error err := by
  cases h : coeffs tg (.bin .quot a b) with
  | error err => exact ⟨err, rfl⟩
  | ok d =>
    exfalso
    cases coeffs_view tg _ d h with
    | leaf _ hl => simp [Expr.isAlgLeaf] at hl
    | num _ hn => simp [Expr.isNumConst] at hn
    | quot _ _ dn dd _ val hdn hdd hc hsc =>
      have := (constOnly_noVar hc).1
      rw [leafKey_hasVarKey ((coeffs_keys tg b dd hdd).2 hb)] at this
      cases this

/-- **Rejection, powers.**  A power whose base or exponent contains a target in arithmetic
position is never accepted. -/
theorem coeffs_rejects_nonaffine_power (tg : Option (List String)) (a b : Expr)
    (hab : armT tg a = true ∨ armT tg b = true) : ∃ err, coeffs tg (.bin .pow a b) = .error err := by
  cases h : coeffs tg (.bin .pow a b) with
  | error err => exact ⟨err, rfl⟩
  | ok d =>
    exfalso
    cases coeffs_view tg _ d h with
    | leaf _ hl => simp [Expr.isAlgLeaf] at hl
    | num _ hn => simp [Expr.isNumConst] at hn
    | pow _ _ db de vb ve hdb hde hce hcb =>
      rcases hab with ha | hb
      · have := (constOnly_noVar hcb).1
        rw [leafKey_hasVarKey ((coeffs_keys tg a db hdb).2 ha)] at this
        cases this
      · have := (constOnly_noVar hce).1
        rw [leafKey_hasVarKey ((coeffs_keys tg b de hde).2 hb)] at this
        cases this

/-- the three syntactic classes of non-affine input together -/
theorem coeffs_rejects_nonaffine (tg : Option (List String)) :
    (∀ cs, 2 ≤ (cs.filter (armT tg)).length → ∃ err, coeffs tg (.nary .prod cs) = .error err) ∧
    (∀ a b, armT tg b = true → ∃ err, coeffs tg (.bin .quot a b) = .error err) ∧
    (∀ a b, armT tg a = true ∨ armT tg b = true → ∃ err, coeffs tg (.bin .pow a b) = .error err) :=
  ⟨coeffs_rejects_nonaffine_product tg, coeffs_rejects_nonaffine_denominator tg,
    coeffs_rejects_nonaffine_power tg⟩

example : coeffs (some ["x"]) (.nary .prod [.var "x", .nary .sum [.var "x", .const (.int 1)]]) =
    .error .nonlinear := rfl
example : coeffs (some ["x"]) (.bin .quot (.const (.int 1)) (.var "x")) = .error .nonlinear := rfl
example : coeffs none (.bin .pow (.var "y") (.const (.int 2))) = .error .nonlinear := rfl
example : 2 ≤ ([Expr.var "x", .nary .sum [.var "x", .const (.int 1)]].filter (armT (some ["x"]))).length := by
  decide

/-! ## 2. Gaussian elimination

An augmented row is `(a | b)`: `a` the row of `mat`, `b` the row of `rhs`.  It *holds* at unknown
values `x : ℕ → ℚ` and column values `p : ℕ → ℚ` of the right-hand side (the parameters, and `1`
for the constant column) when `Σ aⱼ xⱼ = Σ b_c p_c`.  -/

/-- one elimination step `mat[u] = u_fac*mat[u] - i_fac*mat[i]` (with `u_fac`, `i_fac` from the
`lcm`) does not change whether row `u` holds, given that the pivot row holds -/
theorem row_operation_preserves (x p : ℕ → ℚ) (j : ℕ) (piv r : ARow) (hp : Holds x p piv)
    (hpj : rowGet piv.1 j ≠ 0) (h1 : r.1.length = piv.1.length) (h2 : r.2.length = piv.2.length) :
    Holds x p (elimRow j piv r) ↔ Holds x p r :=
  holds_elimRow hp hpj h1 h2

/-- the division of a row by the gcd of its non-zero entries does not change whether it holds -/
theorem gcd_division_preserves (x p : ℕ → ℚ) (r : ARow) : Holds x p (normRow r) ↔ Holds x p r :=
  holds_normRow r

/-- **`gaussian_elimination` preserves the rational solution set**, for every rectangular integer
system (any shape, any loop bounds `m`, `n`): pivot search, row swaps, fraction-free elimination
with `lcm` scaling and the final gcd normalisation. -/
theorem gauss_preserves_solutions (m n n' w : ℕ) (s : List ARow) (h : Rect n' w s)
    (x p : ℕ → ℚ) : AllHold x p (gaussElim m n s) ↔ AllHold x p s :=
  (gaussElim_spec m n s h).1

example : gaussElim 2 2 [([1, 1], [5]), ([1, -1], [1])] = [([1, 0], [3]), ([0, 1], [2])] := by
  decide +kernel
example : Rect 2 1 [([1, 1], [5]), ([1, -1], [1])] := by
  intro r hr; simp at hr; rcases hr with rfl | rfl <;> exact ⟨rfl, rfl⟩

/-! ## 3. The solver -/

/-- **Soundness of the values read off (partial).**  If `solve_affine_equations_for` accepts the
`m × n` integer system `s` (every column of the reduced matrix has exactly one non-zero entry, and
that entry is ±1) and the reduced matrix has the single-entry shape `reducedOK` — every row has at
most one non-zero unknown entry, and a row without unknown entries has a zero right-hand side —
then the returned values (unknown `j` = the linear form `vals[j]` in the right-hand columns)
satisfy every equation of the ORIGINAL system, identically in the right-hand columns `p`. -/
theorem solve_sound_partial (m n w : ℕ) (s : List ARow) (vals : List Row) (hrect : Rect n w s)
    (h : solveMat m n s = .ok vals) (hred : reducedOK (gaussElim m n s) = true) (p : ℕ → ℚ) :
    AllHold (fun j => dot p (vals.getD j [])) p s := by
  unfold solveMat at h
  rw [List.range_eq_range'] at h
  obtain ⟨_, hv⟩ := mapM_range'_ok _ n 0 vals h
  obtain ⟨hiff, hrect'⟩ := gaussElim_spec (x := fun j => dot p (vals.getD j [])) (p := p) m n s hrect
  apply hiff.1
  apply solveCol_holds p (n := n) _ hred (fun r hr => (hrect' r hr).1)
  intro j hj
  obtain ⟨v, h1, h2⟩ := hv j hj
  exact ⟨v, h1, by simpa using h2⟩

/-- non-vacuity: `x + y = 5, x - y = 1` is accepted, reduces to the single-entry shape, `x = 3`,
`y = 2` -/
example : (match solveMat 2 2 [([1, 1], [5]), ([1, -1], [1])] with
    | .ok vals => vals == [[3], [2]] | _ => false) = true := by decide +kernel
example : reducedOK (gaussElim 2 2 [([1, 1], [5]), ([1, -1], [1])]) = true := by decide +kernel

/-- with a parameter column: `2x = 4p + 2` gives `x = 2p + 1` -/
example : (match solveMat 1 1 [([2], [4, 2])] with
    | .ok vals => vals == [[2, 1]] | _ => false) = true := by decide +kernel

theorem solveMat_underdetermined : solveMat 1 2 [([1, 1], [5])] = .ok [[5], [5]] := by
  decide +kernel

theorem solveMat_inconsistent : solveMat 2 1 [([1], [5]), ([1], [6])] = .ok [[5]] := by
  decide +kernel

/-- The solver accepts the underdetermined system `x + y = 5` and returns `x = 5, y = 5`, which
does not satisfy it (confirmed on the real code: known finding `solver-accepts-underdetermined`). -/
theorem solve_sound_underdetermined_cex : ∃ (m n w : ℕ) (s : List ARow) (vals : List Row) (p : ℕ → ℚ),
    Rect n w s ∧ solveMat m n s = .ok vals ∧ ¬ AllHold (fun j => dot p (vals.getD j [])) p s := by
  refine ⟨1, 2, 1, [([1, 1], [5])], [[5], [5]], fun _ => 1, ?_, solveMat_underdetermined, ?_⟩
  · intro r hr; simp at hr; subst hr; exact ⟨rfl, rfl⟩
  · intro hall
    have := hall ([1, 1], [5]) (by simp)
    revert this
    simp [Holds, res, dot, dotFrom]
    try norm_num

/-- The solver accepts the inconsistent system `x = 5, x = 6` and returns `x = 5` (confirmed on the
real code: known finding `solver-accepts-inconsistent`). -/
theorem solve_sound_inconsistent_cex : ∃ (m n w : ℕ) (s : List ARow) (vals : List Row) (p : ℕ → ℚ),
    Rect n w s ∧ solveMat m n s = .ok vals ∧ ¬ AllHold (fun j => dot p (vals.getD j [])) p s := by
  refine ⟨2, 1, 1, [([1], [5]), ([1], [6])], [[5]], fun _ => 1, ?_, solveMat_inconsistent, ?_⟩
  · intro r hr; simp at hr; rcases hr with rfl | rfl <;> exact ⟨rfl, rfl⟩
  · intro hall
    have := hall ([1], [6]) (by simp)
    revert this
    simp [Holds, res, dot, dotFrom]
    try norm_num

/-- the excluded shapes are exactly what `reducedOK` tests -/
example : reducedOK (gaussElim 1 2 [([1, 1], [5])]) = false := by decide +kernel
example : reducedOK (gaussElim 2 1 [([1], [5]), ([1], [6])]) = false := by decide +kernel

/-- **The assembled value.**  The expression built for one unknown from its row
(`unknown_val = int(row[-1]) // div; unknown_val += (int(c) // div) * parameter …`, with the
overloaded `+`/`*` and their folds) evaluates to `row[-1] + Σ row[i]·value(parameterᵢ)` whenever
the parameters evaluate to exact numbers. -/
theorem assemble_value (env : Env) (params : List Expr) (row : Row) (t : Expr) (qs : List Rat)
    (h : assembleVal params row = .ok t) (hq : nvL env params = some qs) :
    nv env t = some ((row.getLastD 0 : Int) + dotQ row qs) :=
  assembleVal_nv h hq

example : assembleVal [.var "p", .var "q"] [2, 0, 1] = .ok (.nary .sum [.const (.int 1),
    .nary .prod [.const (.int 2), .var "p"]]) := rfl

/-- **The solver on expressions, matrix level (partial).**  If `solve_affine_equations_for`
returns `sol` for the unknowns `names` and the equations `eqs` (`params`: the parameters in the
order in which the Python set is iterated), then the equations were assembled into an integer
matrix `mat`, every returned expression evaluates — in any environment `env` in which the
parameters are exact numbers `qs` — to an exact number `xs[j]`, and, when the reduced matrix has
the single-entry shape `reducedOK`, these values satisfy every row of `mat`:
`Σ_j a_j · xs[j] = Σ_c b_c · qs[c] + b_last`. -/
theorem solve_affine_rows_sound_partial (env : Env) (names : List String) (eqs : List (Expr × Expr))
    (params : List Expr) (sol : List (Expr × Expr)) (qs : List Rat)
    (h : solveAffine names eqs params = .ok sol) (hq : nvL env params = some qs) :
    ∃ (mat : List ARow) (vals : List Expr) (xs : List Rat),
      eqs.mapM (assembleRow (names.map Expr.var) params) = .ok mat ∧
      sol = (names.map Expr.var).zip vals ∧ vals.length = (names.map Expr.var).length ∧
      List.Forall₂ (fun v x => nv env v = some x) vals xs ∧
      (reducedOK (gaussElim eqs.length (names.map Expr.var).length mat) = true →
        ∀ r ∈ mat, dot (fun j => xs.getD j 0) r.1 = dot (pOf qs) r.2) := by
  obtain ⟨mat, rows, vals, hm, hsm, hsol, hf2⟩ := solveAffine_spec h
  have hrect : Rect (names.map Expr.var).length (qs.length + 1) mat := by
    intro r hr
    obtain ⟨eq, _, heq⟩ := mapM_mem eqs mat hm r hr
    have := assembleRow_length heq
    rw [nvL_length params qs hq]
    exact this
  have hrect' := (gaussElim_spec (x := fun _ => 0) (p := fun _ => 0) eqs.length
    (names.map Expr.var).length mat hrect).2
  have hlen : ∀ row ∈ rows, row.length = qs.length + 1 := by
    intro row hrow
    unfold solveMat at hsm
    obtain ⟨j, _, hj⟩ := mapM_mem _ rows hsm row hrow
    obtain ⟨r, hr, hl⟩ := solveCol_length hj
    rw [hl]; exact (hrect' r hr).2
  have hrl : rows.length = (names.map Expr.var).length := by
    have hsm' := hsm
    unfold solveMat at hsm'
    rw [List.range_eq_range'] at hsm'
    exact (mapM_range'_ok _ _ 0 rows hsm').1
  refine ⟨mat, vals, rows.map (dot (pOf qs)), hm, hsol, by rw [← forall2_length hf2, hrl],
    vals_values hq rows vals hf2 hlen, ?_⟩
  intro hred r hr
  have := solve_sound_partial eqs.length (names.map Expr.var).length (qs.length + 1) mat rows hrect
    hsm hred (pOf qs) r hr
  unfold Holds res at this
  have hfun : (fun j => (rows.map (dot (pOf qs))).getD j 0) = fun j => dot (pOf qs) (rows.getD j []) := by
    funext j; exact getD_map_dot _ rows j
  rw [hfun]
  linarith

/-- **The assembled row represents `lhs - rhs`.**  In an environment in which unknown `j` has the
exact value `x j` and parameter `c` the exact value `p c` (and `p (number of parameters) = 1` for
the constant column), the residual `a·x - b·p` of the integer row `(a | b)` assembled for the
equation `lhs = rhs` is `value(lhs) - value(rhs)`: the contributions of both sides accumulate
(`mat[i, j] += …`), also when a term occurs on both sides. -/
theorem assemble_row_value (env : Env) (unknowns params : List Expr) (eq : Expr × Expr) (row : ARow)
    (x p : ℕ → ℚ) (ql qr : Rat)
    (hx : ∀ j u, unknowns[j]? = some u → nv env u = some (x j))
    (hp : ∀ c u, params[c]? = some u → nv env u = some (p c))
    (hp1 : p params.length = 1)
    (hus : ∀ u ∈ unknowns, u.simple = true) (hps : ∀ u ∈ params, u.simple = true)
    (h : assembleRow unknowns params eq = .ok row)
    (hs1 : eq.1.simple = true) (hs2 : eq.2.simple = true)
    (hr1 : recipOK env none eq.1 = true) (hr2 : recipOK env none eq.2 = true)
    (hl : nv env eq.1 = some ql) (hr : nv env eq.2 = some qr) :
    dot x row.1 - dot p row.2 = ql - qr :=
  assembleRow_value x p hx hp hp1 hus hps h hs1 hs2 hr1 hr2 hl hr

/-- two-sided terms accumulate: `x + 1 = 0` gives the row `(1 | -1)`, `2x = x + 3` gives `(1 | 3)` -/
example : assembleRow [.var "x"] [] (.nary .sum [.var "x", .const (.int 1)], .const (.int 0))
    = .ok ([1], [-1]) := rfl
example : assembleRow [.var "x"] [] (.nary .prod [.const (.int 2), .var "x"],
    .nary .sum [.var "x", .const (.int 3)]) = .ok ([1], [3]) := rfl

/-- **The solver on the original equations (partial).**  Let `solve_affine_equations_for` return
`sol` for the unknowns `names`, the equations `eqs` and the parameter order `params`, and let the
reduced matrix have the single-entry shape `reducedOK` (this excludes the two known-bad shapes:
underdetermined and inconsistent systems).  Take any environment `env` in which the parameters are
exact numbers `qs`, and any environment `env'` that gives the parameters the same values and binds
every unknown to the value its returned expression has in `env` (`hbind`).  Then every ORIGINAL
equation holds in `env'`: whenever both sides evaluate to exact numbers, these are equal.

Side conditions as in `coeffs_sound`: the equation sides and the parameters are `simple` trees,
and the reciprocals the collector builds evaluate exactly (`recipOK`; vacuous for equations
without `Quotient`). -/
theorem solve_affine_sound_partial (env env' : Env) (names : List String)
    (eqs : List (Expr × Expr)) (params : List Expr) (sol : List (Expr × Expr)) (qs : List Rat)
    (h : solveAffine names eqs params = .ok sol)
    (hq : nvL env params = some qs) (hq' : nvL env' params = some qs)
    (hps : ∀ u ∈ params, u.simple = true)
    (hbind : ∀ kv ∈ sol, ∃ x, nv env kv.2 = some x ∧ nv env' kv.1 = some x)
    (hred : ∀ mat, eqs.mapM (assembleRow (names.map Expr.var) params) = .ok mat →
      reducedOK (gaussElim eqs.length (names.map Expr.var).length mat) = true) :
    ∀ eq ∈ eqs, eq.1.simple = true → eq.2.simple = true →
      recipOK env' none eq.1 = true → recipOK env' none eq.2 = true →
      ∀ ql qr, nv env' eq.1 = some ql → nv env' eq.2 = some qr → ql = qr := by
  obtain ⟨mat, vals, xs, hm, hsol, hvl, hf2, hrows⟩ :=
    solve_affine_rows_sound_partial env names eqs params sol qs h hq
  have hall := hrows (hred mat hm)
  intro eq heq hs1 hs2 hr1 hr2 ql qr hl hr
  obtain ⟨r, hrm, hre⟩ := mapM_of_mem eqs mat hm eq heq
  have hx : ∀ j u, (names.map Expr.var)[j]? = some u →
      nv env' u = some ((fun j => xs.getD j 0) j) := by
    intro j u hu
    have hj : j < vals.length := by
      rw [hvl]; exact (List.getElem?_eq_some_iff.1 hu).1
    have hv : vals[j]? = some vals[j] := List.getElem?_eq_getElem hj
    have hmem : (u, vals[j]) ∈ sol := by
      rw [hsol, List.mem_iff_getElem?]
      exact ⟨j, by rw [List.getElem?_zip_eq_some]; exact ⟨hu, hv⟩⟩
    obtain ⟨x0, h1, h2⟩ := hbind _ hmem
    obtain ⟨b, hb, hvb⟩ := forall2_get hf2 j _ hv
    rw [h1] at hvb
    simp only [Option.some.injEq] at hvb
    subst hvb
    simp only [List.getD_eq_getElem?_getD, hb, Option.getD_some]
    exact h2
  have hp : ∀ c u, params[c]? = some u → nv env' u = some (pOf qs c) := by
    intro c u hu
    obtain ⟨q, h1, h2⟩ := nvL_get params qs c u hq' hu
    simp only [pOf, h1, Option.getD_some]
    exact h2
  have hp1 : pOf qs params.length = 1 := by
    have := nvL_length params qs hq
    simp [pOf, ← this]
  have hus : ∀ u ∈ names.map Expr.var, u.simple = true := by
    intro u hu
    obtain ⟨n, _, rfl⟩ := List.mem_map.1 hu
    rfl
  have hval := assembleRow_value (env := env') (fun j => xs.getD j 0) (pOf qs) hx hp hp1 hus hps hre
    hs1 hs2 hr1 hr2 hl hr
  have h0 := hall r hrm
  unfold res at hval
  linarith

/-- non-vacuity: `x + y = 2p + 1`, `x - y = 1` with the parameter `p`: accepted, single-entry
shape, `x = 1 + p`, `y = p` -/
def demoEqs : List (Expr × Expr) :=
  [(.nary .sum [.var "x", .var "y"], .nary .sum [.nary .prod [.const (.int 2), .var "p"], .const (.int 1)]),
   (.nary .sum [.var "x", .nary .prod [.const (.int (-1)), .var "y"]], .const (.int 1))]

example : (match solveAffine ["x", "y"] demoEqs [.var "p"] with
    | .ok [(_, v1), (_, v2)] => v1 == .nary .sum [.const (.int 1), .var "p"] && v2 == .var "p"
    | _ => false) = true := by decide +kernel
example : (match demoEqs.mapM (assembleRow [.var "x", .var "y"] [.var "p"]) with
    | .ok mat => reducedOK (gaussElim 2 2 mat) | _ => false) = true := by decide +kernel

/-- the hypotheses of `solve_affine_sound_partial` at `p = 2`: `env'` binds `x ↦ 3 = value of 1 + p`,
`y ↦ 2 = value of p`; both sides of both equations are `5 = 5` and `1 = 1` -/
def demoEnvP : Env := [("p", .int 2)]
def demoEnvXY : Env := [("p", .int 2), ("x", .int 3), ("y", .int 2)]
example : nvL demoEnvP [.var "p"] = some [2] := by decide +kernel
example : nvL demoEnvXY [.var "p"] = some [2] := by decide +kernel
example : nv demoEnvP (.nary .sum [.const (.int 1), .var "p"]) = nv demoEnvXY (.var "x") := by
  decide +kernel
example : nv demoEnvP (.var "p") = nv demoEnvXY (.var "y") := by decide +kernel
example : demoEqs.all (fun eq => eq.1.simple && eq.2.simple && recipOK demoEnvXY none eq.1 &&
    recipOK demoEnvXY none eq.2) = true := by decide +kernel
example : demoEqs.map (fun eq => (nv demoEnvXY eq.1, nv demoEnvXY eq.2)) =
    [(some 5, some 5), (some 1, some 1)] := by decide +kernel

/-- the whole solver as the model computes it: `x + 1 = 0` gives `x = -1` (the repaired two-sided
accumulation), and the two remaining known-bad inputs -/
example : (match solveAffine ["x"] [(.nary .sum [.var "x", .const (.int 1)], .const (.int 0))] [] with
    | .ok [(k, v)] => k == .var "x" && v == .const (.int (-1)) | _ => false) = true := by
  decide +kernel
example : (match solveAffine ["x", "y"] [(.nary .sum [.var "x", .var "y"], .const (.int 5))] [] with
    | .ok [(_, v1), (_, v2)] => v1 == .const (.int 5) && v2 == .const (.int 5) | _ => false) = true := by
  decide +kernel
example : (match solveAffine ["x"] [(.var "x", .const (.int 5)), (.var "x", .const (.int 6))] [] with
    | .ok [(_, v)] => v == .const (.int 5) | _ => false) = true := by
  decide +kernel

end PV.C15
