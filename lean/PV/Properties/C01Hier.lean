import PV.Properties.C01
/-
  C01 — legacy classes several levels below a decorated class.

  The generated `__eq__` / `__hash__` of a decorated class `D` also answer for every undecorated
  class below `D`, at any depth: an undecorated class whose init args are `D`'s fields takes the
  dataclass path, one that brings other init args (`init_arg_names` / `__getinitargs__`) takes the
  legacy path (`is_equal` / `get_hash` over the init args).  In the model this decision is a function
  of the class's OWN table row (`kind`, `fields`); no row of an ancestor between the class and `D`
  (e.g. an undecorated alias that adds nothing) takes part, and there is no per-class state.  The
  theorems below state that for every `Ok` table and pin it down on the regenerated table for the
  harness's three-level shape `MAliasTag(MAlias(DMid))` — the shape of a user class with an extra
  init arg below the library's own undecorated `MultiVectorVariable(Variable)`.  The run-time side
  (the order in which the classes of a hierarchy are first hashed / compared) is the oracle-only
  stream `class-hierarchies` of harness/props/c01.py.
-/
namespace PV.C01
open PV PV.Pickle PV.EqHash

/-- **legacy_sub_eq_iff_init_args.**  Two instances of one legacy subclass (other init args than
its decorated ancestor's fields), however many undecorated classes lie between it and that
ancestor: the generated `__eq__` answers True exactly when the init args are pairwise `==`. -/
theorem legacy_sub_eq_iff_init_args {tbl : ClassTable} (ok : tbl.Ok = true) {P : HashParams}
    (hP : P.Ok) (c : String) (fs fs' : List Obj) (h h' : Option Nat)
    (wa : (Obj.inst c .legacySub fs h).wf = true) (wb : (Obj.inst c .legacySub fs' h').wf = true)
    (ca : conforms tbl (.inst c .legacySub fs h) = true)
    (cb : conforms tbl (.inst c .legacySub fs' h') = true) :
    eqGen tbl P (.inst c .legacySub fs h) (.inst c .legacySub fs' h') = true ↔
      fs.length = fs'.length ∧ ∀ p ∈ fs.zip fs', p.1.pyEq p.2 = true := by
  rw [eq_iff_structural_inst ok hP c c .legacySub .legacySub fs fs' h h' wa wb ca cb]
  simp

/-- non-vacuity: the hypotheses hold for the legacy subclass of the example table, and the answer
really follows the extra init arg -/
example :
    let t1 : Obj := .inst "Tagged" .legacySub [strAtom "v", .atom (.int 1)] none
    let t2 : Obj := .inst "Tagged" .legacySub [strAtom "v", .atom (.int 2)] none
    t1.wf = true ∧ t2.wf = true ∧ conforms exTbl t1 = true ∧ conforms exTbl t2 = true ∧
    eqGen exTbl (C17.exP 0) t1 t2 = false ∧ eqGen exTbl (C17.exP 0) t1 t1 = true := by decide

/-- **legacy_sub_eq_hash.**  … and then the two hash alike, whichever of them is hashed first. -/
theorem legacy_sub_eq_hash {tbl : ClassTable} (ok : tbl.Ok = true) {P : HashParams}
    (hP : P.Ok) (c : String) (fs fs' : List Obj) (h h' : Option Nat)
    (wa : (Obj.inst c .legacySub fs h).wf = true) (wb : (Obj.inst c .legacySub fs' h').wf = true)
    (ca : conforms tbl (.inst c .legacySub fs h) = true)
    (cb : conforms tbl (.inst c .legacySub fs' h') = true)
    (he : eqGen tbl P (.inst c .legacySub fs h) (.inst c .legacySub fs' h') = true) :
    hashGen tbl P (.inst c .legacySub fs h) = hashGen tbl P (.inst c .legacySub fs' h') :=
  eq_hash ok hP _ _ wa wb ca cb he

/-- **three_level_legacy_current.**  On the table regenerated from the working tree, for the
harness classes `DMid` (decorated) ← `MAlias` (undecorated, no init arg of its own) ← `MAliasTag`
(undecorated, init args `u, v, t`): the alias is a dataclass-path row with `DMid`'s fields, the
class below it is a legacy-path row of the SAME decorated base with its own three init args;
instances that differ only in the third-level init arg `t` are unequal, equal ones are equal and
hash alike, an alias instance with the same leading fields is a different node. -/
theorem three_level_legacy_current :
    let P := C17.exP 0
    let x : Obj := .inst "Variable" .dataclass [strAtom "x"] none
    let t1 : Obj := .inst "MAliasTag" .legacySub [x, x, .atom (.int 1)] none
    let t1' : Obj := .inst "MAliasTag" .legacySub [x, x, .atom (.flt "1.0" 1 1)] none
    let t2 : Obj := .inst "MAliasTag" .legacySub [x, x, .atom (.int 2)] none
    let a : Obj := .inst "MAlias" .dataclass [x, x] none
    (Generated.classes.find? "MAlias").map (fun i => (i.kind, i.base, i.fields))
        = some (.sub, "DMid", ["u", "v"]) ∧
    (Generated.classes.find? "MAliasTag").map (fun i => (i.kind, i.base, i.fields))
        = some (.sub, "DMid", ["u", "v", "t"]) ∧
    conforms Generated.classes t1 = true ∧ conforms Generated.classes a = true ∧
    eqGen Generated.classes P t1 t1' = true ∧ hashGen Generated.classes P t1 = hashGen Generated.classes P t1' ∧
    eqGen Generated.classes P t1 t2 = false ∧ eqGen Generated.classes P t2 t1 = false ∧
    eqGen Generated.classes P a t1 = false ∧ eqGen Generated.classes P t1 a = false := by decide

end PV.C01
