import PV.Proofs.ParserTableMain
import PV.Proofs.SyntaxGrouping
import PV.Proofs.SyntaxStrFlatten
import PV.Generated.Parser
import PV.Generated.Prec
/-
  C07 (also C06), T-gen — the hand-written parser model IS what the current source of
  `pymbolic/parser.py` prescribes.

  `extract/parser.py` re-reads, on every run, the source of `Parser.parse_terminal`,
  `parse_prefix`, `parse_expression`, `parse_postfix`, `parse_arglist`, `__call__`, `parse_float`,
  `_join_to_slice` and the value of `_COMP_TABLE` into the table `PV.Generated.c07ParserTable`
  (`PV/Generated/Parser.lean`): every `elif` branch is a row — tag test, precedence NAME of the
  guard, `>` or `>=`, and the branch body statement by statement (which level each operand is
  parsed at, which node is built from which locals in which order, `did_something = True`).
  `PV/Model/ParserTable.lean` gives the table a meaning: an interpreter with the same fuel
  discipline as the hand-written model in which every decision is looked up in the table.

  * `parser_table_current` — the regenerated table is the table the model is tied to
    (`c07ModelTable`, `PV/Model/ParserTableRef.lean`); re-checked whenever the source changes.
  * `parse_eq_table_current` (+ `parse_prefix_…`, `postfix_loop_…`, `parse_arglist_…`,
    `parse_top_eq_table_current`) — for EVERY precedence table, token list, level, loop state and
    fuel, the hand-written `parseExpr` / `parsePrefix` / `postfixLoop` / `parseArglist` /
    `parseTop` equal the interpreter run on the regenerated table.  Hence every theorem about the
    hand-written parser (`two_operator_grouping`, `grouping_deviations_current`,
    `consumes_all_or_error`, C06 `roundtrip_*`) is a theorem about what the current source says.
  * `infix_levels_current`, `prefix_levels_current`, `conditional_levels_current`,
    `arglist_levels_current`, `row_summary_current` — the guard / operand levels that the grouping
    theorems use (`BinTok.guard`, `BinTok.rhs`, `P.unary`) read off the regenerated rows.
  * witnesses: the edits the task names (else-branch at `_PREC_IF`, unary minus operand at
    `_PREC_PLUS`, left-associative `**`, swapped operands, no end-of-input check) change the
    table AND the parse (`*_table_cex`).
-/
namespace PV.C07
open PV PV.Syntax

/-- **The regenerated parser table is the table the model was written against.**  Any edit of
`pymbolic/parser.py` that changes a tag test, a guard, the level of an operand, the node built,
the order of its arguments, a statement of a branch, the order of the branches, `_COMP_TABLE`,
`_join_to_slice`, the tail of `parse_expression`, a tag or level of `parse_arglist` or the
end-of-input check of `__call__` changes the left-hand side and breaks this theorem (an edit the
reader does not understand is an extraction error instead). -/
theorem parser_table_current : Generated.c07ParserTable = c07ModelTable := by decide

/-- **`parse_expression` of the model is the interpreter of the regenerated table** — for every
precedence table, fuel, level and token list. -/
theorem parse_eq_table_current (P : ParserPrec) (fuel m : Nat) (ts : List Tok) :
    parseExpr P fuel m ts = c07ExprT Generated.c07ParserTable P fuel m ts := by
  rw [parser_table_current]; exact ((c07Agree_all P fuel).1 m ts).symm

/-- the same for `parse_prefix` (with `parse_terminal`) -/
theorem parse_prefix_eq_table_current (P : ParserPrec) (fuel : Nat) (ts : List Tok) :
    parsePrefix P fuel ts = c07PrefixT Generated.c07ParserTable P fuel ts := by
  rw [parser_table_current]; exact ((c07Agree_all P fuel).2.1 ts).symm

/-- the same for the `while did_something` loop around `parse_postfix`, from every loop state -/
theorem postfix_loop_eq_table_current (P : ParserPrec) (fuel m : Nat) (left : Expr) (fin : Bool)
    (ts : List Tok) :
    postfixLoop P fuel m left fin ts = c07LoopT Generated.c07ParserTable P fuel m left fin ts := by
  rw [parser_table_current]; exact ((c07Agree_all P fuel).2.2.1 m left fin ts).symm

/-- the same for `parse_arglist`, from every state of its loop -/
theorem parse_arglist_eq_table_current (P : ParserPrec) (fuel : Nat) (ts : List Tok)
    (args : List Expr) (kn : List String) (kv : List Expr) (commaAllowed : Bool) :
    parseArglist P fuel ts args kn kv commaAllowed =
      c07ArglistT Generated.c07ParserTable P fuel ts args kn kv commaAllowed := by
  rw [parser_table_current]; exact ((c07Agree_all P fuel).2.2.2 ts args kn kv commaAllowed).symm

/-- the same for `Parser.__call__` (end-of-input check included) -/
theorem parse_top_eq_table_current (P : ParserPrec) (m : Nat) (ts : List Tok) :
    parseTop P m ts = c07TopT Generated.c07ParserTable P m ts := by
  rw [parser_table_current]; exact (c07TopT_model P m ts).symm

example : c07TopT Generated.c07ParserTable Generated.parserPrec 0
    [.ident "a", .sym "*", .ident "b", .sym "/", .ident "c"]
    = .ok (.nary .prod [.var "a", .bin .quot (.var "b") (.var "c")]) := by decide +kernel
example : c07TopT Generated.c07ParserTable Generated.parserPrec 0
    [.ident "f", .sym "(", .ident "a", .sym ",", .ident "k", .sym "=", .int 1, .sym ")", .sym "[",
     .sym ":", .ident "b", .sym "]", .sym ".", .ident "u"]
    = .ok (.lookup (.subscript (.callKw (.var "f") [.var "a"] ["k"] [.const (.int 1)])
        (.slice [.const .none, .var "b"])) "u") := by decide +kernel
example : c07TopT Generated.c07ParserTable Generated.parserPrec 0 [.ident "a", .sym ")"]
    = .error .parse := by decide +kernel

/-! ### the levels the grouping theorems use, read off the regenerated rows -/

/-- the row of a table whose tag test holds for a token (the guard aside) -/
def rowFor (T : C07ParserTable) (tok : Tok) : Option C07PostRow :=
  T.postfixes.find? fun r => r.test.holds T.compTable tok

def stmtLevels : C07Stmt → List C07Lvl
  | .parse _ l => [l]
  | .tryParse _ l _ _ _ _ => [l]
  | _ => []

def cmdLevels : C07Cmd → List C07Lvl
  | .s st => stmtLevels st
  | .ifc _ thn els => thn.flatMap stmtLevels ++ els.flatMap stmtLevels

/-- the levels at which a body calls `self.parse_expression`, in source order -/
def bodyLevels (body : List C07Cmd) : List C07Lvl := body.flatMap cmdLevels

/-- **Binary operators: guard and right-operand level of the current source.**  For each of the
binary operator tokens of `two_operator_grouping` (`+ - * / // % ** << >> & | ^ and or` and the six
comparisons) the regenerated table has a row for the token, its guard is the strict comparison
`BinTok.guard P > min_precedence`, and its body parses exactly ONE operand, at `BinTok.rhs P`:
the two numbers from which `absorbs2` (and with it `grouping_deviations_current`) is computed. -/
theorem infix_levels_current (P : ParserPrec) (o : BinTok) :
    (rowFor Generated.c07ParserTable (.sym o.sym)).map (fun row => (row.strict, row.prec.get P,
        (bodyLevels row.body).map (C07Lvl.get P Generated.c07ParserTable.exprDefault))) =
      some (true, o.guard P, [o.rhs P]) := by
  cases o with
  | minus => rfl
  | op o =>
    cases o with
    | cmp c => cases c <;> rfl
    | _ => rfl

/-- `*`: guard `_PREC_TIMES` = 220, right operand at `_PREC_PLUS` = 210; `**`: guard 230, right
operand at `_PREC_TIMES` = 220 (right-associative) -/
example : (rowFor Generated.c07ParserTable (.sym "*")).map (fun row =>
    (row.prec.get Generated.parserPrec, (bodyLevels row.body).map (C07Lvl.get Generated.parserPrec 0)))
    = some (220, [210]) := by decide
example : (rowFor Generated.c07ParserTable (.sym "**")).map (fun row =>
    (row.prec.get Generated.parserPrec, (bodyLevels row.body).map (C07Lvl.get Generated.parserPrec 0)))
    = some (230, [220]) := by decide

/-- **Prefix operators: operand level of the current source.**  The branches of `parse_prefix`
for `-`, `~`, `not` (and `+`) parse exactly one operand, at `_PREC_UNARY`: the number
`absorbsPre` is computed from. -/
theorem prefix_levels_current (P : ParserPrec) (s : String) (h : s ∈ ["-", "~", "not", "+"]) :
    (c07FindPre (.sym s) Generated.c07ParserTable.prefixes).map (fun row =>
        (bodyLevels row.body).map (C07Lvl.get P Generated.c07ParserTable.exprDefault)) =
      some [P.unary] := by
  simp only [List.mem_cons, List.not_mem_nil, or_false] at h
  rcases h with h | h | h | h <;> subst h <;> rfl

example : (c07FindPre (.sym "-") Generated.c07ParserTable.prefixes).map (fun row =>
    (bodyLevels row.body).map (C07Lvl.get Generated.parserPrec 0)) = some [240] := by decide

/-- **The conditional of the current source**: guard `_PREC_IF > min_precedence`; the condition is
parsed at `_PREC_IF`, the else-branch at the default level `0` (it swallows everything, also a
following comma). -/
theorem conditional_levels_current (P : ParserPrec) :
    (rowFor Generated.c07ParserTable (.sym "if")).map (fun row => (row.strict, row.prec.get P,
        (bodyLevels row.body).map (C07Lvl.get P Generated.c07ParserTable.exprDefault))) =
      some (true, P.ifp, [P.ifp, 0]) := rfl

/-- positional and keyword arguments are parsed at `_PREC_COMMA`; the whole input must be
consumed; `min_precedence` defaults to 0 -/
theorem arglist_levels_current (P : ParserPrec) :
    Generated.c07ParserTable.arglist.posLvl.get P 0 = P.comma ∧
    Generated.c07ParserTable.arglist.kwLvl.get P 0 = P.comma ∧
    Generated.c07ParserTable.call.endCheck = true ∧
    Generated.c07ParserTable.call.dflt = 0 ∧ Generated.c07ParserTable.exprDefault = 0 :=
  ⟨rfl, rfl, rfl, rfl, rfl⟩

def testName : C07Test → String
  | .is t => t.name
  | .inComp => "<comparison>"

/-- **The branches of `parse_postfix` of the current source, in source order**: tag, precedence
name of the guard, strictness, levels of the operands. -/
theorem row_summary_current :
    Generated.c07ParserTable.postfixes.map
        (fun r => (testName r.test, r.prec, r.strict, bodyLevels r.body)) =
      [("openpar", .call, true, []), ("openbracket", .call, true, [.dflt]),
       ("if", .ifp, true, [.prec .ifp, .dflt]), ("dot", .call, true, []),
       ("plus", .plus, true, [.prec .plus]), ("minus", .plus, true, [.prec .plus]),
       ("times", .times, true, [.prec .plus]), ("floordiv", .times, true, [.prec .times]),
       ("over", .times, true, [.prec .times]), ("modulo", .times, true, [.prec .times]),
       ("exp", .power, true, [.prec .times]), ("and", .land, true, [.prec .land]),
       ("or", .lor, true, [.prec .lor]), ("bitwiseor", .bor, true, [.prec .bor]),
       ("bitwisexor", .bxor, true, [.prec .bxor]), ("bitwiseand", .band, true, [.prec .band]),
       ("rightshift", .shift, true, [.prec .shift]), ("leftshift", .shift, true, [.prec .shift]),
       ("<comparison>", .comparison, true, [.prec .comparison]),
       ("colon", .slice, false, [.prec .slice]), ("comma", .comma, true, [.prec .comma])] := by
  decide

/-! ### the grouping and round-trip theorems, stated for the interpreter of the current table -/

/-- **Two-operator grouping of the CURRENT SOURCE.**  The interpreter of the regenerated table
parses `a o1 b o2 c` to the right grouping iff the guard of the row of `o2` exceeds the level at
which the row of `o1` parses its operand (`infix_levels_current` reads both numbers off the rows). -/
theorem two_operator_grouping_table_current {P : ParserPrec} (hpos : ∀ o : BinTok, o.guard P > 0)
    (o1 o2 : BinTok) (a b c : String) :
    c07TopT Generated.c07ParserTable P 0 [.ident a, .sym o1.sym, .ident b, .sym o2.sym, .ident c] =
      if o2.guard P > o1.rhs P then o2.build (.var b) (.var c) >>= o1.build (.var a)
      else o1.build (.var a) (.var b) >>= fun l => o2.build l (.var c) := by
  rw [← parse_top_eq_table_current]; exact grouping hpos o1 o2 a b c

/-- the same for a prefix operator followed by a binary one -/
theorem prefix_operator_grouping_table_current {P : ParserPrec} (hpos : ∀ o : BinTok, o.guard P > 0)
    (p : PreTok) (o : BinTok) (a b : String) :
    c07TopT Generated.c07ParserTable P 0 [.sym p.sym, .ident a, .sym o.sym, .ident b] =
      if o.guard P > P.unary then o.build (.var a) (.var b) >>= p.build
      else p.build (.var a) >>= fun l => o.build l (.var b) := by
  rw [← parse_top_eq_table_current]; exact prefix_grouping hpos p o a b

example : c07TopT Generated.c07ParserTable Generated.parserPrec 0
    [.ident "a", .sym "|", .ident "b", .sym "^", .ident "c"]
    = .ok (.nary .bxor [.nary .bor [.var "a", .var "b"], .var "c"]) := by decide +kernel

open PV.Generated in
/-- **C06 for the current source, parser side included**: for every tree of the fragment computed
from the regenerated precedence tables, the interpreter of the regenerated PARSER table reads the
printed token list back, completely, as the parser's normal form of the tree. -/
theorem roundtrip_table_current {e : Expr} {ps : Pieces}
    (h : InFragment parserPrec printPrec e = true) (hs : strTop printPrec e = .ok ps) :
    c07TopT c07ParserTable parserPrec 0 (toks ps) = .ok (pnf e) := by
  rw [← parse_top_eq_table_current]
  simp only [InFragment, Bool.and_eq_true] at h
  exact parseTop_str h.1 h.2 hs

/-- the hypothesis of `roundtrip_table_current` is satisfiable: `a + b*c` is in the fragment and
is read back by the interpreter of the regenerated table -/
example : InFragment Generated.parserPrec Generated.printPrec
    (.nary .sum [.var "a", .nary .prod [.var "b", .var "c"]]) = true := by decide +kernel
example : c07TopT Generated.c07ParserTable Generated.parserPrec 0
    [.ident "a", .sym "+", .ident "b", .sym "*", .ident "c"]
    = .ok (.nary .sum [.var "a", .nary .prod [.var "b", .var "c"]]) := by decide +kernel

/-! ### edits of the table change the parse -/

/-- replace the body / guard of the rows selected by `p` -/
def editPost (T : C07ParserTable) (p : C07PostRow → Bool) (g : C07PostRow → C07PostRow) :
    C07ParserTable :=
  { T with postfixes := T.postfixes.map fun r => if p r then g r else r }

def editPre (T : C07ParserTable) (name : String) (g : C07PreRow → C07PreRow) : C07ParserTable :=
  { T with prefixes := T.prefixes.map fun r => if r.tag.name == name then g r else r }

def relevel (old new : C07Lvl) : C07Cmd → C07Cmd
  | .s (.parse x l) => .s (.parse x (if l = old then new else l))
  | c => c

def isTag (name : String) (r : C07PostRow) : Bool := testName r.test == name

/-- the else-branch parsed at `_PREC_IF`: `a if b else c if d else e` nests to the LEFT -/
theorem else_at_if_table_cex :
    c07TopT (editPost Generated.c07ParserTable (isTag "if")
        fun r => { r with body := r.body.map (relevel .dflt (.prec .ifp)) })
      Generated.parserPrec 0
      [.ident "a", .sym "if", .ident "b", .sym "else", .ident "c", .sym "if", .ident "d",
       .sym "else", .ident "e"]
      = .ok (.ite (.var "d") (.ite (.var "b") (.var "a") (.var "c")) (.var "e")) ∧
    parseTop Generated.parserPrec 0
      [.ident "a", .sym "if", .ident "b", .sym "else", .ident "c", .sym "if", .ident "d",
       .sym "else", .ident "e"]
      = .ok (.ite (.var "b") (.var "a") (.ite (.var "d") (.var "c") (.var "e"))) := by
  decide +kernel

/-- a unary minus whose operand is parsed at `_PREC_PLUS`: `-a / b` negates the quotient -/
theorem neg_at_plus_table_cex :
    c07TopT (editPre Generated.c07ParserTable "minus"
        fun r => { r with body := r.body.map (relevel (.prec .unary) (.prec .plus)) })
      Generated.parserPrec 0 [.sym "-", .ident "a", .sym "/", .ident "b"]
      = .ok (.nary .prod [.const (.int (-1)), .bin .quot (.var "a") (.var "b")]) ∧
    parseTop Generated.parserPrec 0 [.sym "-", .ident "a", .sym "/", .ident "b"]
      = .ok (.bin .quot (.nary .prod [.const (.int (-1)), .var "a"]) (.var "b")) := by
  decide +kernel

/-- `**` with its right operand parsed at `_PREC_POWER`: `a ** b ** c` nests to the LEFT -/
theorem pow_left_assoc_table_cex :
    c07TopT (editPost Generated.c07ParserTable (isTag "exp")
        fun r => { r with body := r.body.map (relevel (.prec .times) (.prec .power)) })
      Generated.parserPrec 0 [.ident "a", .sym "**", .ident "b", .sym "**", .ident "c"]
      = .ok (.bin .pow (.bin .pow (.var "a") (.var "b")) (.var "c")) ∧
    parseTop Generated.parserPrec 0 [.ident "a", .sym "**", .ident "b", .sym "**", .ident "c"]
      = .ok (.bin .pow (.var "a") (.bin .pow (.var "b") (.var "c"))) := by
  decide +kernel

def swapArgs : C07Cmd → C07Cmd
  | .s (.assign x (.mk2 c a b)) => .s (.assign x (.mk2 c b a))
  | c => c

/-- swapped constructor arguments in the `//` branch: `a // b` is read as `b // a` -/
theorem swapped_floordiv_table_cex :
    c07TopT (editPost Generated.c07ParserTable (isTag "floordiv")
        fun r => { r with body := r.body.map swapArgs })
      Generated.parserPrec 0 [.ident "a", .sym "//", .ident "b"]
      = .ok (.bin .floordiv (.var "b") (.var "a")) ∧
    parseTop Generated.parserPrec 0 [.ident "a", .sym "//", .ident "b"]
      = .ok (.bin .floordiv (.var "a") (.var "b")) := by
  decide +kernel

/-- `__call__` without the end-of-input check returns a tree and drops the rest -/
theorem no_end_check_table_cex :
    c07TopT { Generated.c07ParserTable with call := { Generated.c07ParserTable.call with endCheck := false } }
      Generated.parserPrec 0 [.ident "a", .sym ")", .ident "b"] = .ok (.var "a") ∧
    parseTop Generated.parserPrec 0 [.ident "a", .sym ")", .ident "b"] = .error .parse := by
  decide +kernel

/-- a branch that forgets `did_something = True` ends the loop after one operator -/
theorem no_did_something_table_cex :
    c07TopT (editPost Generated.c07ParserTable (isTag "plus")
        fun r => { r with body := r.body.filter fun c => c != .s .setDid })
      Generated.parserPrec 0 [.ident "a", .sym "+", .ident "b", .sym "+", .ident "c"]
      = .error .parse ∧
    parseTop Generated.parserPrec 0 [.ident "a", .sym "+", .ident "b", .sym "+", .ident "c"]
      = .ok (.nary .sum [.var "a", .var "b", .var "c"]) := by
  decide +kernel

end PV.C07
