import PV.Proofs.EvalSim
import PV.Proofs.Simple
/-
  C02 — property theorems.

  `den` (PV/Model/Eval.lean) is the standard meaning: each node applies the Python operator it
  denotes, bottom-up, operands in order.  `evalG` is the evaluator as coded, with the CSE result
  cache and (flag `cached`) the memo table of `CachedMapper`; its agreement with the real code is
  checked by the correspondence streams of harness/props/c02.py on every run.
-/
namespace PV.C02
open PV

variable {env : Env} {U : Expr → Prop}

mutual
theorem node_sim (hU : Universe U) (cached : Bool) :
    ∀ e, U e → Sim env U (evalNode cached env e) (den env e)
  | .const c, _ => by simp only [evalNode, den]; exact Sim.lift _
  | .var x, _ => by
      simp only [evalNode, den]
      cases env.get x with
      | none => exact Sim.throw _
      | some v => exact Sim.pure _
  | .nary .sum cs, h => by
      simp only [evalNode, den]
      exact fold_sim hU cached .sum (.int 0) cs (hU.closed _ h)
  | .nary .prod cs, h => by
      simp only [evalNode, den]
      exact fold_sim hU cached .prod (.int 1) cs (hU.closed _ h)
  | .nary .bor cs, h => by
      simp only [evalNode, den]; exact reduce_sim hU cached .bor cs (hU.closed _ h)
  | .nary .bxor cs, h => by
      simp only [evalNode, den]; exact reduce_sim hU cached .bxor cs (hU.closed _ h)
  | .nary .band cs, h => by
      simp only [evalNode, den]; exact reduce_sim hU cached .band cs (hU.closed _ h)
  | .nary .lor cs, h => by
      simp only [evalNode, den]; exact any_sim hU cached cs (hU.closed _ h)
  | .nary .land cs, h => by
      simp only [evalNode, den]; exact all_sim hU cached cs (hU.closed _ h)
  | .nary .min cs, h => by
      simp only [evalNode, den]; exact minmax_sim hU cached true none cs (hU.closed _ h)
  | .nary .max cs, h => by
      simp only [evalNode, den]; exact minmax_sim hU cached false none cs (hU.closed _ h)
  | .bin o a b, h => by
      have ha : U a := hU.closed _ h a (by simp [Expr.children])
      have hb : U b := hU.closed _ h b (by simp [Expr.children])
      simp only [evalNode, den]
      exact Sim.bind (Sim.memo hU ha (node_sim hU cached a ha)) fun x =>
        Sim.bind (Sim.memo hU hb (node_sim hU cached b hb)) fun y => Sim.lift _
  | .un .bnot a, h => by
      have ha : U a := hU.closed _ h a (by simp [Expr.children])
      simp only [evalNode, den]
      exact Sim.bind (Sim.memo hU ha (node_sim hU cached a ha)) fun x => Sim.lift _
  | .un .lnot a, h => by
      have ha : U a := hU.closed _ h a (by simp [Expr.children])
      simp only [evalNode, den]
      exact Sim.bind (Sim.memo hU ha (node_sim hU cached a ha)) fun x =>
        Sim.bind (Sim.lift _) fun t => Sim.pure _
  | .cmp o a b, h => by
      have ha : U a := hU.closed _ h a (by simp [Expr.children])
      have hb : U b := hU.closed _ h b (by simp [Expr.children])
      simp only [evalNode, den]
      exact Sim.bind (Sim.memo hU ha (node_sim hU cached a ha)) fun x =>
        Sim.bind (Sim.memo hU hb (node_sim hU cached b hb)) fun y => Sim.lift _
  | .ite c t e, h => by
      have hc : U c := hU.closed _ h c (by simp [Expr.children])
      have ht : U t := hU.closed _ h t (by simp [Expr.children])
      have he : U e := hU.closed _ h e (by simp [Expr.children])
      simp only [evalNode, den]
      exact Sim.bind (Sim.memo hU hc (node_sim hU cached c hc)) fun cv =>
        Sim.bind (Sim.lift _) fun tv =>
          Sim.ite (Sim.memo hU ht (node_sim hU cached t ht)) (Sim.memo hU he (node_sim hU cached e he))
  | .call f as, h => by
      have hf : U f := hU.closed _ h f (by simp [Expr.children])
      have has : ∀ c ∈ as, U c := fun c hc => hU.closed _ h c (by simp [Expr.children, hc])
      simp only [evalNode, den]
      exact Sim.bind (Sim.memo hU hf (node_sim hU cached f hf)) fun fv =>
        Sim.bind (list_sim hU cached as has) fun avs => Sim.lift _
  | .callKw f as ns vs, h => by
      have hf : U f := hU.closed _ h f (by simp [Expr.children])
      have has : ∀ c ∈ as, U c := fun c hc => hU.closed _ h c (by simp [Expr.children, hc])
      have hvs : ∀ c ∈ vs, U c := fun c hc => hU.closed _ h c (by simp [Expr.children, hc])
      simp only [evalNode, den]
      exact Sim.bind (list_sim hU cached as has) fun avs =>
        Sim.bind (list_sim hU cached vs hvs) fun kvs =>
          Sim.bind (Sim.memo hU hf (node_sim hU cached f hf)) fun fv => Sim.lift _
  | .subscript a i, h => by
      have ha : U a := hU.closed _ h a (by simp [Expr.children])
      have hi : U i := hU.closed _ h i (by simp [Expr.children])
      simp only [evalNode, den]
      exact Sim.bind (Sim.memo hU ha (node_sim hU cached a ha)) fun x =>
        Sim.bind (Sim.memo hU hi (node_sim hU cached i hi)) fun y => Sim.lift _
  | .lookup a n, h => by
      have ha : U a := hU.closed _ h a (by simp [Expr.children])
      simp only [evalNode, den]
      exact Sim.bind (Sim.memo hU ha (node_sim hU cached a ha)) fun x => Sim.lift _
  | .cse c p sc, h => by
      have hc : U c := hU.closed _ h c (by simp [Expr.children])
      exact Sim.cse hU h (Sim.memo hU hc (node_sim hU cached c hc))
  | .subst .., _ => by simp only [evalNode, den]; exact Sim.throw _
  | .deriv .., _ => by simp only [evalNode, den]; exact Sim.throw _
  | .slice _, _ => by simp only [evalNode, den]; exact Sim.throw _
  | .nan, _ => by simp only [evalNode, den]; exact Sim.pure _
  | .wildcard, _ => by simp only [evalNode, den]; exact Sim.throw _
  | .dotWild _, _ => by simp only [evalNode, den]; exact Sim.throw _
  | .starWild _, _ => by simp only [evalNode, den]; exact Sim.throw _
  | .funcSym, _ => by simp only [evalNode, den]; exact Sim.throw _
  | .tuple cs, h => by
      simp only [evalNode, den]
      exact Sim.bind (list_sim hU cached cs (hU.closed _ h)) fun vs => Sim.pure _
  | .list cs, h => by
      simp only [evalNode, den]
      exact Sim.bind (list_sim hU cached cs (hU.closed _ h)) fun vs => Sim.pure _
theorem fold_sim (hU : Universe U) (cached : Bool) (o : NaryOp) :
    ∀ (acc : Value) (cs : List Expr), (∀ c ∈ cs, U c) →
      Sim env U (evalFold cached env o acc cs) (denFold env o acc cs)
  | acc, [], _ => by simp only [evalFold, denFold]; exact Sim.pure _
  | acc, c :: cs, h => by
      have hc : U c := h c (by simp)
      simp only [evalFold, denFold]
      exact Sim.bind (Sim.memo hU hc (node_sim hU cached c hc)) fun v =>
        Sim.bind (Sim.lift _) fun acc' => fold_sim hU cached o acc' cs (fun c hc => h c (by simp [hc]))
theorem reduce_sim (hU : Universe U) (cached : Bool) (o : NaryOp) :
    ∀ (cs : List Expr), (∀ c ∈ cs, U c) →
      Sim env U (evalReduce cached env o cs) (denReduce env o cs)
  | [], _ => by simp only [evalReduce, denReduce]; exact Sim.throw _
  | c :: cs, h => by
      have hc : U c := h c (by simp)
      simp only [evalReduce, denReduce]
      exact Sim.bind (Sim.memo hU hc (node_sim hU cached c hc)) fun v =>
        fold_sim hU cached o v cs (fun c hc => h c (by simp [hc]))
theorem any_sim (hU : Universe U) (cached : Bool) :
    ∀ (cs : List Expr), (∀ c ∈ cs, U c) → Sim env U (evalAny cached env cs) (denAny env cs)
  | [], _ => by simp only [evalAny, denAny]; exact Sim.pure _
  | c :: cs, h => by
      have hc : U c := h c (by simp)
      simp only [evalAny, denAny]
      exact Sim.bind (Sim.memo hU hc (node_sim hU cached c hc)) fun v =>
        Sim.bind (Sim.lift _) fun t =>
          Sim.ite (Sim.pure _) (any_sim hU cached cs (fun c hc => h c (by simp [hc])))
theorem all_sim (hU : Universe U) (cached : Bool) :
    ∀ (cs : List Expr), (∀ c ∈ cs, U c) → Sim env U (evalAll cached env cs) (denAll env cs)
  | [], _ => by simp only [evalAll, denAll]; exact Sim.pure _
  | c :: cs, h => by
      have hc : U c := h c (by simp)
      simp only [evalAll, denAll]
      exact Sim.bind (Sim.memo hU hc (node_sim hU cached c hc)) fun v =>
        Sim.bind (Sim.lift _) fun t =>
          Sim.ite (all_sim hU cached cs (fun c hc => h c (by simp [hc]))) (Sim.pure _)
theorem minmax_sim (hU : Universe U) (cached : Bool) (isMin : Bool) :
    ∀ (cur : Option Value) (cs : List Expr), (∀ c ∈ cs, U c) →
      Sim env U (evalMinMax cached env isMin cur cs) (denMinMax env isMin cur cs)
  | cur, [], _ => by
      simp only [evalMinMax, denMinMax]
      cases cur with
      | none => exact Sim.throw _
      | some m => exact Sim.pure _
  | cur, c :: cs, h => by
      have hc : U c := h c (by simp)
      have hcs : ∀ c ∈ cs, U c := fun c hc => h c (by simp [hc])
      simp only [evalMinMax, denMinMax]
      refine Sim.bind (Sim.memo hU hc (node_sim hU cached c hc)) fun v => ?_
      cases cur with
      | none => exact minmax_sim hU cached isMin (some v) cs hcs
      | some m =>
        exact Sim.bind (Sim.lift _) fun better => minmax_sim hU cached isMin _ cs hcs
theorem list_sim (hU : Universe U) (cached : Bool) :
    ∀ (cs : List Expr), (∀ c ∈ cs, U c) → Sim env U (evalList cached env cs) (denList env cs)
  | [], _ => by simp only [evalList, denList]; exact Sim.pure _
  | c :: cs, h => by
      have hc : U c := h c (by simp)
      simp only [evalList, denList]
      exact Sim.bind (Sim.memo hU hc (node_sim hU cached c hc)) fun v =>
        Sim.bind (list_sim hU cached cs (fun c hc => h c (by simp [hc]))) fun vs => Sim.pure _
end


/-- **Main theorem.**  On any coherent universe of expressions (closed under children, Python `==`
is identity, no Python lists) and from any evaluator state whose caches hold denotations, the
evaluator as coded — plain (`cached = false`) or memoizing (`cached = true`) — returns exactly the
standard meaning `den env e` (value *or* error), and keeps its caches sound. -/
theorem evalG_eq_den (hU : Universe U) (cached : Bool) (e : Expr) (he : U e) (s : EvState)
    (hs : EvInv env U s) :
    ∃ s', evalG cached env e s = (den env e, s') ∧ EvInv env U s' :=
  Sim.memo hU he (node_sim hU cached e he) s hs

theorem evInv_empty : EvInv env U {} := by
  constructor <;> intro k v h <;> simp at h

/-- Every call in any history of calls on ONE evaluator instance returns the standard meaning,
whatever was evaluated (or raised) before. -/
theorem history_eq_den (hU : Universe U) (cached : Bool) :
    ∀ (es : List Expr) (s : EvState), (∀ e ∈ es, U e) → EvInv env U s →
      runHist cached env es s = es.map (den env)
  | [], _, _, _ => by simp [runHist]
  | e :: es, s, h, hs => by
      obtain ⟨s', h1, i1⟩ := evalG_eq_den hU cached e (h e (by simp)) s hs
      simp only [runHist, h1, List.map_cons]
      rw [history_eq_den hU cached es s' (fun e he => h e (by simp [he])) i1]

/-- The plain and the memoizing evaluator always agree (fresh instances, any history). -/
theorem plain_eq_cached (hU : Universe U) (es : List Expr) (h : ∀ e ∈ es, U e) :
    runHist (env := env) false es {} = runHist (env := env) true es {} := by
  rw [history_eq_den hU false es {} h evInv_empty, history_eq_den hU true es {} h evInv_empty]

/-- An arithmetic (or any other) error of the meaning surfaces as that error, never as a value. -/
theorem error_never_value (hU : Universe U) (cached : Bool) (e : Expr) (he : U e) (s : EvState)
    (hs : EvInv env U s) (k : Err) (hk : den env e = .error k) :
    (evalG cached env e s).1 = .error k := by
  obtain ⟨s', h1, _⟩ := evalG_eq_den hU cached e he s hs
  rw [h1, hk]

/-- Conditionals evaluate only the selected branch: the other one may be anything (e.g. erroring). -/
theorem if_lazy_then (c t e : Expr) (cv : Value) (hc : den env c = .ok cv)
    (ht : cv.truthy = .ok true) : den env (.ite c t e) = den env t := by
  simp [den, hc, ht, bind, Except.bind]

theorem if_lazy_else (c t e : Expr) (cv : Value) (hc : den env c = .ok cv)
    (ht : cv.truthy = .ok false) : den env (.ite c t e) = den env e := by
  simp [den, hc, ht, bind, Except.bind]

/-- A missing variable is reported as an unknown-variable error naming it. -/
theorem unknown_var_named (x : String) (hx : env.get x = none) :
    den env (.var x) = .error (.unknownVar x) := by
  simp [den, hx]; rfl

/-- A common subexpression means its child. -/
theorem cse_means_child (c : Expr) (p : Option String) (sc : String) :
    den env (.cse c p sc) = den env c := by
  simp [den]

/-- The syntactic universe of `PV/Proofs/Simple.lean` instantiates the main theorem: for all
expressions without bool/float constants, keyword calls and Python lists. -/
theorem evalG_eq_den_simple (cached : Bool) (e : Expr) (he : e.simple = true) :
    (evalG cached env e {}).1 = den env e := by
  obtain ⟨s', h1, _⟩ := evalG_eq_den universe_simple cached e he {} evInv_empty
  rw [h1]

/-- Known finding, stated formally: the memoizing evaluator raises `TypeError` on every expression
that is or contains a Python list (the cache key is unhashable), whatever its meaning. -/
theorem cached_list_raises (e : Expr) (s : EvState) (h : e.hasList = true) :
    evalG true env e s = (.error .typeError, s) := by
  simp [evalG, withMemo, h]

/-- … while the meaning of such an expression can be a perfectly good value (witness). -/
example : den [] (.list [.const (.int 1)]) = .ok (.list [.int 1]) := by rfl

/-- Non-vacuity: a non-trivial expression with a shared common subexpression, a conditional and a
call lies in the simple universe, and both evaluators compute its meaning. -/
example :
    let cse := Expr.cse (.nary .sum [.var "x", .const (.int 1)]) none "s"
    let e := Expr.ite (.cmp .lt cse (.const (.int 5)))
               (.nary .prod [cse, cse]) (.call (.var "f") [cse])
    e.simple = true ∧
    (evalG true [("x", .int 2)] e {}).1 = .ok (.int 9) ∧
    (evalG false [("x", .int 2)] e {}).1 = .ok (.int 9) := by
  refine ⟨by decide, ?_, ?_⟩ <;>
  · rw [evalG_eq_den_simple _ _ (by decide)]; rfl

end PV.C02
