import PV.Model.Eval
