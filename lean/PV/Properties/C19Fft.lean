import PV.Proofs.Algo
import PV.Proofs.AlgoFftMod

/-!
  C19 (continued) — the ARITHMETIC of `fft` / `ifft` (`pymbolic/algorithm.py`): property theorems
  about the executable model `PV.Model.AlgoFft`, each with a small non-vacuity example.
  (Separate from `C19.lean` because the `ZMod` imports would make `gcd`/`lcm` ambiguous there.)
-/

namespace PV.Properties.C19

open PV.Algo

/-! ## b'. the arithmetic of `fft` / `ifft` (model `PV.Model.AlgoFft`)

`c19Fft add mul zero rp x` mirrors the whole recursion of `fft(x, sign, …)`; `rp m k` stands for
the twiddle `exp(sign·(-2πi)·k/m)`.  The theorems instantiate `add mul zero` with the operations
of an arbitrary commutative ring `R`. -/

/-- **`fft` computes the discrete Fourier transform** `F[x]_k = ∑_{j<n} z^(k j) x_j` — for every
commutative ring, every length `n ≥ 1` (prime, prime power, composite alike: the code does not
special-case them), every `z` with `z^n = 1`, every twiddle function `rp` that returns, for each
divisor `m` of `n`, the powers of the root `z^(n/m)` of length `m`.  NO primitivity of `z` is
needed for the forward transform. -/
theorem fft_eq_dft {R : Type*} [CommRing R] (z : R) (rp : ℕ → ℕ → R) (x : List R)
    (hpos : 1 ≤ x.length) (hz : z ^ x.length = 1)
    (hrp : ∀ m k, m ∣ x.length → rp m k = z ^ (x.length / m * k)) :
    c19Fft (· + ·) (· * ·) 0 rp x =
      (List.range x.length).map fun k =>
        ∑ j ∈ Finset.range x.length, z ^ (k * j) * x.getD j 0 :=
  c19Fft_eq_dft z rp x hpos hz hrp

example : c19Fft (· + ·) (· * ·) 0 (fun m k => (-1 : ℤ) ^ (2 / m * k)) [3, 5] = [8, -2] := by
  decide +kernel
example : ((-1 : ℤ)) ^ ([3, 5] : List ℤ).length = 1 := by decide
-- a length with two recursion levels (6 = 2·3) in Z_7, root 3 (3^6 = 729 = 1 mod 7)
example : c19FftMod 7 3 [1, 2, 3, 4, 5, 6] = some [0, 3, 6, 4, 2, 5] := by decide +kernel

/-- The transform as a function on `Fin n → R` (the shape of the docstring of `fft`). -/
def fftModel {R : Type*} [CommRing R] {n : ℕ} (z : R) (x : Fin n → R) : Fin n → R :=
  fun k => (c19Fft (· + ·) (· * ·) 0 (fun m k => z ^ (n / m * k)) (List.ofFn x)).getD k 0

/-- `fftModel z x = fun k => ∑ j, z^(k*j) * x j` for every commutative ring, `n ≥ 1`, `z^n = 1`. -/
theorem fft_eq_dft_fun {R : Type*} [CommRing R] {n : ℕ} (hn : 1 ≤ n) (z : R) (hz : z ^ n = 1)
    (x : Fin n → R) :
    fftModel z x = fun k : Fin n => ∑ j : Fin n, z ^ ((k : ℕ) * (j : ℕ)) * x j := by
  funext k
  unfold fftModel
  have hl : (List.ofFn x).length = n := List.length_ofFn
  rw [c19Fft_eq_dft z _ (List.ofFn x) (by omega) (by rw [hl]; exact hz)
    (by intro m k _; rw [hl]), c19Dft_getD _ _ _ (by rw [hl]; exact k.2), hl, Finset.sum_range]
  refine Finset.sum_congr rfl fun j _ => ?_
  congr 1
  rw [List.getD_eq_getElem?_getD, List.getElem?_ofFn]
  simp

example : fftModel (-1 : ℤ) ![3, 5] = fun k : Fin 2 => ∑ j : Fin 2, (-1 : ℤ) ^ ((k : ℕ) * (j : ℕ)) * ![3, 5] j :=
  fft_eq_dft_fun (by decide) (-1) (by decide) _

/-- **The recombination step in general**: one level of `fft`
(`N1, N2 = find_factors(n)`; `sub_ffts[n1] = sub(x[n1::N1]) * z^(n1·k2)`;
`result[k1·N2 + k2] = ∑_{n1} sub_ffts[n1][k2] · z^(N2·n1·k1)`) yields the DFT for the root `z`
provided only that the sub-transforms are DFTs for the root `z^N1` and `z^n = 1`. -/
theorem fft_step_recombination {R : Type*} [CommRing R] (z : R) (rp : ℕ → ℕ → R)
    (sub : List R → List R) (x : List R)
    (hN1 : 1 ≤ (findFactors x.length).1)
    (hz : z ^ x.length = 1)
    (hsub : ∀ n1 < (findFactors x.length).1,
      sub (stride x n1 (findFactors x.length).1) =
        c19Dft (z ^ (findFactors x.length).1) (stride x n1 (findFactors x.length).1))
    (htw : ∀ k, rp ((findFactors x.length).1 * (findFactors x.length).2) k = z ^ k)
    (htw1 : ∀ k, rp (findFactors x.length).1 k = z ^ ((findFactors x.length).2 * k)) :
    c19FftStep (· + ·) (· * ·) 0 rp sub x = c19Dft z x :=
  c19FftStep_eq_dft z rp sub x hN1 (findFactors_mul x.length) hz hsub htw htw1

/-- The exponent identity that makes the recombination work:
`z^((k1·N2+k2)·(n1+N1·j2)) = (z^N1)^(k2·j2) · z^(n1·k2) · z^(N2·n1·k1)` when `z^(N1·N2) = 1`. -/
theorem fft_twiddle_identity {R : Type*} [CommRing R] (z : R) (N1 N2 k1 k2 n1 j2 : ℕ)
    (hz : z ^ (N1 * N2) = 1) :
    z ^ ((k1 * N2 + k2) * (n1 + N1 * j2)) =
      (z ^ N1) ^ (k2 * j2) * z ^ (n1 * k2) * z ^ (N2 * (n1 * k1)) :=
  c19_twiddle_identity z N1 N2 k1 k2 n1 j2 hz

example : (2 : ZMod 5) ^ (2 * 2) = 1 := by decide

/-- Base cases exactly as coded: `len(x) == 1` returns `x` itself; `len(x) == 0` raises
(`find_factors(0)` divides by zero). -/
theorem fft_base_cases {α : Type*} (add mul : α → α → α) (zero : α) (rp : ℕ → ℕ → α) (a : α) :
    c19FftPy add mul zero rp [a] = some [a] ∧ c19FftPy add mul zero rp [] = none := by
  refine ⟨?_, ?_⟩
  · have h : findFactorsPy 1 = some (findFactors 1) := by decide +kernel
    simp [c19FftPy, h, c19Fft, c19FftAux]
  · have h : findFactorsPy 0 = none := by decide +kernel
    simp [c19FftPy, h]

/-- The fuel of the model recursion (`len(x)`) never runs out: any larger fuel gives the same
answer (termination of the Python recursion: sub-vectors are strictly shorter). -/
theorem fft_fuel_irrelevant {R : Type*} [CommRing R] (fuel : ℕ) (z : R) (rp : ℕ → ℕ → R)
    (x : List R) (hfuel : x.length ≤ fuel) (hpos : 1 ≤ x.length) (hz : z ^ x.length = 1)
    (hrp : ∀ m k, m ∣ x.length → rp m k = z ^ (x.length / m * k)) :
    c19FftAux (· + ·) (· * ·) 0 rp fuel x = c19Fft (· + ·) (· * ·) 0 rp x :=
  c19FftAux_fuel_irrelevant fuel z rp x hfuel hpos hz hrp

/-- **`ifft` inverts `fft`**: `ifft(x) = (1/n)·fft(x, sign=-1)`; for every commutative ring in
which `n` is invertible (`ninv`), every `z` with `z^n = 1`, inverse `zinv` and the orthogonality
`∑_{k<n} z^(k d) = 0` for `0 < d < n` (`c19Principal`: exactly the primitivity the inverse needs,
see `ifft_inverts_only_if`). -/
theorem ifft_inverts {R : Type*} [CommRing R] (z zinv ninv : R) (rp rpInv : ℕ → ℕ → R)
    (x : List R) (hpos : 1 ≤ x.length)
    (hz : z ^ x.length = 1) (hzi : z * zinv = 1) (hn : ninv * (x.length : R) = 1)
    (horth : c19Principal z x.length)
    (hrp : ∀ m k, m ∣ x.length → rp m k = z ^ (x.length / m * k))
    (hrpInv : ∀ m k, m ∣ x.length → rpInv m k = zinv ^ (x.length / m * k)) :
    c19Ifft (· + ·) (· * ·) 0 rpInv ninv (c19Fft (· + ·) (· * ·) 0 rp x) = x :=
  c19Ifft_fft z zinv ninv rp rpInv x hpos hz hzi hn horth hrp hrpInv

-- non-vacuity: Z_5, n = 2, z = 4 = -1, 1/2 = 3
example : c19Principal (4 : ZMod 5) 2 := by
  intro d h0 h1
  obtain rfl : d = 1 := by omega
  decide
example : (4 : ZMod 5) ^ 2 = 1 ∧ (4 : ZMod 5) * 4 = 1 ∧ (3 : ZMod 5) * ((2 : ℕ) : ZMod 5) = 1 := by
  decide

/-- The orthogonality hypothesis of `ifft_inverts` is necessary: if `(1/n)·DFT_{zinv}` undoes
`DFT_z` on all vectors of length `n` then `z` is a principal `n`-th root of unity. -/
theorem ifft_inverts_only_if {R : Type*} [CommRing R] (z zinv ninv : R) (n : ℕ)
    (hn : ninv * (n : R) = 1)
    (hinv : ∀ x : List R, x.length = n →
      (c19Dft zinv (c19Dft z x)).map (fun v => ninv * v) = x) :
    c19Principal z n :=
  c19Principal_of_inverts z zinv ninv n hn hinv

/-- In an integral domain (the complex numbers, `Z_p` for prime `p`) every primitive `n`-th root
of unity is principal, so `ifft_inverts` applies to `exp(-2πi/n)`. -/
theorem principal_of_primitive_root {R : Type*} [CommRing R] [IsDomain R] {z : R} {n : ℕ}
    (h : IsPrimitiveRoot z n) : c19Principal z n :=
  c19Principal_of_isPrimitiveRoot h

/-- A root of unity that is not principal does not invert: in `Z_15`, `n = 2`, `z = 4`
(`4² = 1`, `1/2 = 8`), `ifft(fft([1, 0])) = [1, 10]`. (Not a defect of the code: the complex
`exp(-2πi/n)` is primitive.) -/
theorem ifft_nonprincipal_witness :
    c19FftMod 15 4 [1, 0] = some [1, 1] ∧ c19IfftMod 15 4 8 [1, 1] = some [1, 10] := by
  decide +kernel

/-- The model is natural in its carrier: a map preserving `add`, `mul`, `zero` and the twiddles
commutes with `fft` (used to transport the ring theorem to the machine representation). -/
theorem fft_natural {A B : Type*} (f : A → B) (addA mulA : A → A → A) (zeroA : A)
    (addB mulB : B → B → B) (zeroB : B)
    (hadd : ∀ a b, f (addA a b) = addB (f a) (f b))
    (hmul : ∀ a b, f (mulA a b) = mulB (f a) (f b)) (hzero : f zeroA = zeroB)
    (rpA : ℕ → ℕ → A) (rpB : ℕ → ℕ → B) (hrp : ∀ m k, f (rpA m k) = rpB m k) (x : List A) :
    (c19Fft addA mulA zeroA rpA x).map f = c19Fft addB mulB zeroB rpB (x.map f) :=
  c19Fft_map f addA mulA zeroA addB mulB zeroB hadd hmul hzero rpA rpB hrp x

/-- **What the compiled driver answers** to `(c19-fft p z (x…))` — the instance compared
exactly with the real `fft` — is the DFT modulo `p`, for every modulus `p ≥ 1`, every `z` with
`z^n ≡ 1 (mod p)` and every vector of length `n ≥ 1`. -/
theorem fft_mod_eq_dft (p : ℕ) [NeZero p] (z : ℕ) (x : List ℕ) (hpos : 1 ≤ x.length)
    (hz : z ^ x.length % p = 1 % p) :
    c19FftMod p z x = some ((List.range x.length).map fun k =>
      (∑ j ∈ Finset.range x.length, z ^ (k * j) * x.getD j 0) % p) :=
  c19FftMod_eq_dftMod p z x hpos hz

example : c19FftMod 97 22 [1, 2, 3, 4] = some [10, 51, 95, 42] := by decide +kernel
example : 22 ^ 4 % 97 = 1 % 97 := by decide

/-- The driver's `(c19-ifft p zinv ninv (y…))` applied to the transform gives the input back
(mod `p`) whenever `z` is a principal `n`-th root in `ZMod p`. -/
theorem ifft_mod_inverts (p : ℕ) [NeZero p] (z zinv ninv : ℕ) (x : List ℕ) (hpos : 1 ≤ x.length)
    (hz : z ^ x.length % p = 1 % p) (hzi : z * zinv % p = 1 % p)
    (hn : ninv * x.length % p = 1 % p) (horth : c19Principal (z : ZMod p) x.length) :
    c19IfftMod p zinv ninv (c19DftMod p z x) = some (x.map (· % p)) :=
  c19IfftMod_fftMod p z zinv ninv x hpos hz hzi hn horth

example : c19IfftMod 97 75 73 [10, 51, 95, 42] = some [1, 2, 3, 4] := by decide +kernel
example : 22 * 75 % 97 = 1 % 97 ∧ 73 * 4 % 97 = 1 % 97 := by decide

end PV.Properties.C19
