import PV.Properties.C19
import PV.Properties.C19Fft
import PV.Proofs.AlgoTableMap
import PV.Proofs.AlgoTableFft
/-!
  C19 — T-gen tie of the exact-arithmetic model to the source.

  `PV.Generated.c19Table` is rewritten on every run by `extract/algorithm.py` from the source text of
  the working tree: the BODY of every function under this property (`integer_power`,
  `extended_euclidean`, `gcd`, `lcm`, `find_factors`, `fft`, `ifft`, `_sort_uniq`, the `Polynomial`
  methods and properties, `traits`, `IntegerTraits`, `Rational.__init__`,
  `EvaluationMapper.map_polynomial`, `IdentityMapper.map_polynomial`), statement by statement, in
  the small imperative language of PV/Model/AlgoTable.lean (loops with their state and update order,
  early returns, tuple assignments, list mutation, comprehensions, `try/except`, method and
  constructor calls).

  `c19RunFn ops T ext fuel name args` RUNS a function of a table: it knows no function, only the
  language.  The theorems below prove that the hand-written model functions of PV/Model/Algo.lean
  and AlgoFft.lean — the ones the driver executes and the theorems of PV/Properties/C19.lean and
  C19Fft.lean are about — ARE what the interpreter computes on the regenerated table, for ALL
  inputs (induction on the loops' termination measures, symbolic execution of the bodies).  Hence
  the C19 theorems speak about what the current source text says.  An edit that changes behaviour
  (`aux *= x` moved after the squaring, the Euclid swap done in place, `last_exp` not reset in
  `_sort_uniq`, a twiddle exponent or a recombination index of `fft`, `any` for `all` in
  `IdentityMapper.map_polynomial`, …) changes the table, and the `…_body_current` literal or the
  symbolic run of the changed statement no longer checks.

  `fuel` bounds the call depth and the iterations of every `while` loop; every theorem gives an
  explicit bound (or, for `__divmod__`, the existence of one) from which on the run succeeds.
  Names outside the table (`ext`) are the environment: the defaulted callables of `fft` (`wrap_intermediate_with_level` returns its
  second argument, `scalar_tp` is the identity on scalars), `self.rec` of the two mappers.
-/

namespace PV.Properties.C19

open PV.Algo PV.Generated

/-- the table regenerated from the working tree -/
abbrev tableCurrent : C19Table := c19Table

variable {α : Type}

/-! ## a. `integer_power` -/

/-- **`integer_power` as regenerated IS `integerPower`** — on values of ANY kind (`emb`) whose `*`
the interpreter computes as `mul` at this call depth: carrier elements, Python ints, `Polynomial`
objects.  The `while n > 0` loop with `aux *= x` BEFORE the squaring and the early return at
`n == 1` is `integerPowerLoop`. -/
theorem integer_power_eq_table_current {β : Type} (ops : C19Ops α)
    (ext : String → List (C19V α) → C19R (C19V α)) (emb : β → C19V α) (mul : β → β → β) (n : ℕ)
    (hmul : ∀ a b, c19BinOp (c19CxAt ops tableCurrent ext n (n + 1)) .mul (emb a) (emb b)
      = .ok (emb (mul a b)))
    (x one : β) (m : ℕ) (hn : m ≤ n) :
    c19RunFn ops tableCurrent ext (n + 1) "algorithm.integer_power" [emb x, .int m, emb one]
      = .ok (emb (integerPower mul one x m)) :=
  c19_integer_power_run ops ext emb mul n hmul x one m hn

/-- on elements of any carrier (any monoid: the operation is `ops.mul`) -/
theorem integer_power_elem_eq_table_current (ops : C19Ops α)
    (ext : String → List (C19V α) → C19R (C19V α)) (x one : α) (m n : ℕ) (hn : m ≤ n) :
    c19RunFn ops tableCurrent ext (n + 1) "algorithm.integer_power" [.elem x, .int m, .elem one]
      = .ok (.elem (integerPower ops.mul one x m)) :=
  c19_integer_power_run ops ext C19V.elem ops.mul n (fun _ _ => rfl) x one m hn

/-- what `integer_power` answers on Python ints -/
def encIntPow : Option ℤ → C19R (C19V α)
  | some v => .ok (.int v)
  | none => .raise "RuntimeError"

/-- on Python ints, negative exponents included (`RuntimeError`): the regenerated body IS
`integerPowerInt` -/
theorem integer_power_int_eq_table_current (ops : C19Ops α)
    (ext : String → List (C19V α) → C19R (C19V α)) (x i : ℤ) (n : ℕ) (hn : i.natAbs ≤ n) :
    c19RunFn ops tableCurrent ext (n + 1) "algorithm.integer_power" [.int x, .int i, .int 1]
      = encIntPow (integerPowerInt x i) := by
  unfold integerPowerInt encIntPow
  by_cases hi : i < 0
  · simp only [hi, if_true]
    exact c19_integer_power_negative ops ext _ _ i hi n
  · simp only [hi, if_false]
    have h := c19_integer_power_run ops ext (fun v : ℤ => (C19V.int v : C19V α)) (· * ·) n
      (fun _ _ => rfl) x 1 i.toNat (by omega)
    have hc : ((i.toNat : ℕ) : ℤ) = i := by omega
    rw [hc] at h
    exact h

/-- **The regenerated `integer_power` computes `x ^ n` in every monoid.** -/
theorem integer_power_table_eq_pow {M : Type} [Monoid M]
    (ext : String → List (C19V M) → C19R (C19V M)) (ofInt : ℤ → M) (ofFrac : ℤ → ℤ → M)
    (tw : ℤ → ℤ → ℤ → M) (x : M) (m n : ℕ) (hn : m ≤ n) :
    c19RunFn ⟨(· * ·), (· * ·), ofInt, ofFrac, tw⟩ tableCurrent ext (n + 1)
        "algorithm.integer_power" [.elem x, .int m, .elem 1] = .ok (.elem (x ^ m)) := by
  rw [integer_power_elem_eq_table_current _ ext x 1 m n hn]
  exact congrArg _ (congrArg _ (integer_power_eq_pow x m))

example : c19RunFn ⟨(· * ·), (· * ·), id, fun a _ => a, fun _ _ _ => 0⟩ tableCurrent
    (fun _ _ => .stuck "") 6 "algorithm.integer_power" [.elem (3 : ℤ), .int (5 : ℕ), .elem 1]
    = .ok (.elem 243) := by
  rw [integer_power_table_eq_pow (fun _ _ => .stuck "") id (fun a _ => a) (fun _ _ _ => 0) 3 5 5
    (by decide)]
  rfl

/-! ## b. `extended_euclidean`, `gcd`, `lcm`, `find_factors` -/

section
variable (ops : C19Ops α) (ext : String → List (C19V α) → C19R (C19V α))

/-- **`extended_euclidean` as regenerated IS `extEuclid`** on Python ints: `common_traits(q, r)`
(`traits` of both arguments from the table, reduced by the table's rule chain: `IntegerTraits`),
the norm test (`IntegerTraits.norm = abs`, read from the table too) with ONE recursive call on the swapped
arguments and the coefficients swapped back, then the loop on `(q, r, Q, R)` whose simultaneous
assignments `q, r = r, t` and `Q, R = R, T` are `extEuclidLoop`. -/
theorem ext_euclid_eq_table_current (q r : ℤ) (n : ℕ) (hn : q.natAbs + r.natAbs + 3 ≤ n) :
    c19RunFn ops tableCurrent ext (n + 1) "algorithm.extended_euclidean" [.int q, .int r]
      = .ok (c19Enc3 (extEuclid q r)) :=
  c19_extended_euclidean_run ops ext q r n hn

/-- `gcd` as regenerated IS the model's `gcd` -/
theorem gcd_eq_table_current (q r : ℤ) (n : ℕ) (hn : q.natAbs + r.natAbs + 4 ≤ n) :
    c19RunFn ops tableCurrent ext (n + 1) "algorithm.gcd" [.int q, .int r]
      = .ok (.int (PV.Algo.gcd q r)) :=
  c19_gcd_run ops ext q r n hn

/-- `lcm` as regenerated IS the model's `lcm` (`ZeroDivisionError` when the gcd is zero) -/
theorem lcm_eq_table_current (q r : ℤ) (n : ℕ) (hn : q.natAbs + r.natAbs + 5 ≤ n) :
    c19RunFn ops tableCurrent ext (n + 1) "algorithm.lcm" [.int q, .int r]
      = c19EncLcm (PV.Algo.lcm q r) :=
  c19_lcm_run ops ext q r n hn

/-- **The regenerated `extended_euclidean` satisfies Bézout and returns a gcd**: the theorems of
PV/Properties/C19.lean restated for what the interpreter returns. -/
theorem ext_euclid_table_bezout (q r : ℤ) (n : ℕ) (hn : q.natAbs + r.natAbs + 3 ≤ n) :
    ∃ g a b : ℤ, c19RunFn ops tableCurrent ext (n + 1) "algorithm.extended_euclidean"
        [.int q, .int r] = .ok (.tup [.int g, .int a, .int b]) ∧
      g = a * q + b * r ∧ g.natAbs = Int.gcd q r :=
  ⟨(extEuclid q r).1, (extEuclid q r).2.1, (extEuclid q r).2.2,
    c19_extended_euclidean_run ops ext q r n hn, ext_euclid_bezout q r,
    (ext_euclid_gcd q r).2.2.2⟩
end

example : c19RunFn (⟨(· + ·), (· * ·), id, fun a _ => a, fun _ _ _ => 0⟩ : C19Ops ℤ) tableCurrent
    (fun _ _ => .stuck "") 300 "algorithm.extended_euclidean"
    [.int 240, .int 46] = .ok (.tup [.int 2, .int (-9), .int 47]) := by
  rw [ext_euclid_eq_table_current _ _ 240 46 299 (by decide)]
  have : extEuclid 240 46 = (2, -9, 47) := by decide +kernel
  rw [this]
  rfl

/-- **`find_factors` as regenerated IS `findFactorsPy`** (with the exact integer square root for
`int(sqrt(n))`): the search loop `while n % n1 != 0 and n1 <= max_n1`, the reset `n1 = n`, the
quotient — `ZeroDivisionError` for `n = 0`. -/
theorem find_factors_eq_table_current (ops : C19Ops α)
    (ext : String → List (C19V α) → C19R (C19V α)) (n d : ℕ) (hd : Nat.sqrt n + 2 ≤ d) :
    c19RunFn ops tableCurrent ext (d + 1) "algorithm.find_factors" [.int n]
      = c19EncFactors (findFactorsPy n) :=
  c19_find_factors_run ops ext n d hd

/-! ## c. `_sort_uniq` and the `Polynomial` methods -/

section
variable (ops : C19Ops α) (ext : String → List (C19V α) → C19R (C19V α))

/-- **`_sort_uniq` as regenerated IS `sortUniq`**: a stable sort by exponent, then the merge loop
in which `last_exp` IS reset after `uniq_result.pop()` (the repaired loop `mergeFix`; the loop
without the reset is `mergePy`, which differs: `sortUniqPy_defect`). -/
theorem sort_uniq_eq_table_current (l : List Term) (n : ℕ) :
    c19RunFn ops tableCurrent ext (n + 1) "polynomial._sort_uniq" [.tup (c19EncTerms l)]
      = .ok (.tup (c19EncTerms (sortUniq l))) :=
  c19_sort_uniq_run ops ext l n

/-- `Polynomial.__neg__` as regenerated IS `neg` -/
theorem poly_neg_eq_table_current (b : String) (p : Poly) (n : ℕ) :
    c19RunFn ops tableCurrent ext (n + 1 + 1) "Polynomial.__neg__" [c19EncPoly b p]
      = .ok (c19EncPoly b (neg p)) :=
  c19_poly_neg_run ops ext (.sym b) p n

/-- **`Polynomial.__add__` as regenerated IS `add`** (same base): the three `while` loops -/
theorem poly_add_eq_table_current (b : String) (p q : Poly) (n : ℕ)
    (hn : p.length + q.length + 1 ≤ n) :
    c19RunFn ops tableCurrent ext (n + 1) "Polynomial.__add__" [c19EncPoly b p, c19EncPoly b q]
      = .ok (c19EncPoly b (add p q)) :=
  c19_poly_add_run ops ext b p q n hn

/-- `Polynomial.__sub__` as regenerated IS `sub` -/
theorem poly_sub_eq_table_current (b : String) (p q : Poly) (n : ℕ)
    (hn : p.length + q.length + 2 ≤ n) :
    c19RunFn ops tableCurrent ext (n + 1) "Polynomial.__sub__" [c19EncPoly b p, c19EncPoly b q]
      = .ok (c19EncPoly b (sub p q)) :=
  c19_poly_sub_run ops ext b p q n hn

/-- **`Polynomial.__mul__` as regenerated IS `mul`** (same base): the double loop builds
`mulRaw p q`, `_sort_uniq` merges it. -/
theorem poly_mul_eq_table_current (b : String) (p q : Poly) (n : ℕ) :
    c19RunFn ops tableCurrent ext (n + 1 + 1) "Polynomial.__mul__" [c19EncPoly b p, c19EncPoly b q]
      = .ok (c19EncPoly b (mul p q)) :=
  c19_poly_mul_run ops ext b p q n

/-- **`Polynomial.__pow__` as regenerated IS `pow`**: the regenerated `integer_power` run on
polynomial objects whose `*` is the regenerated `__mul__`. -/
theorem poly_pow_eq_table_current (b : String) (p : Poly) (m n : ℕ) (hn : m ≤ n + 2) :
    c19RunFn ops tableCurrent ext (n + 1 + 1 + 1 + 1) "Polynomial.__pow__" [c19EncPoly b p, .int m]
      = .ok (c19EncPoly b (pow p m)) :=
  c19_poly_pow_run ops ext b p m n hn

/-- **`Polynomial.__divmod__` as regenerated IS `divmodPy`** (same base, integer coefficients):
`ZeroDivisionError` for an empty divisor, otherwise the loop `while rem.degree >= other.degree`
with `divmod` of the leading coefficients, the early return on a non-zero remainder, and the
updates `quot += this_fac`, `rem -= this_fac * other` through the regenerated `__add__`,
`__sub__`, `__mul__`.  (`hfuel`: the fuel of the model's `divmodLoop` suffices; it always does on
well-formed operands: `divmod_total`.) -/
theorem poly_divmod_eq_table_current (b : String) (p other : Poly)
    (hfuel : degree other ≠ -1 → (leadTerm other).2 ≠ 0 → divmodPy p other ≠ none) :
    ∃ N, ∀ n, N ≤ n →
      c19RunFn ops tableCurrent ext n "Polynomial.__divmod__" [c19EncPoly b p, c19EncPoly b other]
        = c19EncDivmod b (divmodPy p other) :=
  c19_poly_divmod_run ops ext b p other hfuel
end

/-- the exact mirror `divmodPy` agrees with `divmod` (about which `divmod_spec` and
`divmod_total` speak) whenever the leading coefficient of the divisor is not a stored zero -/
theorem divmodPy_eq_divmod (p other : Poly) (h : (leadTerm other).2 ≠ 0 ∨ other = []) :
    divmodPy p other = divmod p other := by
  unfold divmodPy divmod
  rcases h with h | h
  · simp [h]
  · subst h; rfl

/-- the corner the regenerated body revealed: with a STORED zero leading coefficient of the
divisor (`poly * 0` produces such data) and a dividend of smaller degree the code returns
`(0, self)` — it never divides — where the older model `divmod` reported `ZeroDivisionError`. -/
theorem divmodPy_zero_lead_discrepancy :
    divmodPy [(0, 5)] [(1, 0)] = some ([], [(0, 5)]) ∧ divmod [(0, 5)] [(1, 0)] = none := by
  decide +kernel

example : divmodPy [(0, -1), (2, 1)] [(0, 1), (1, 1)] = some ([(0, -1), (1, 1)], []) := by
  decide +kernel

example (ops : C19Ops ℤ) (ext : String → List (C19V ℤ) → C19R (C19V ℤ)) :
    c19RunFn ops tableCurrent ext 2 "Polynomial.__mul__"
      [c19EncPoly "x" [(0, 1), (1, 1)], c19EncPoly "x" [(0, -1), (1, 1)]]
      = .ok (c19EncPoly "x" [(0, -1), (2, 1)]) := by
  rw [poly_mul_eq_table_current ops ext "x" _ _ 0]
  rfl

/-! ## d. the mapper handlers of polynomials, `Rational.__init__` -/

section
variable (ops : C19Ops α) (ext : String → List (C19V α) → C19R (C19V α))

/-- **`EvaluationMapper.map_polynomial` as regenerated IS `evalHornerPy`** (Horner's scheme over
`expr.data[::-1]` with the look-ahead `next_exp`): `self.rec` gives `x` for the base and the
coefficient for an integer coefficient. -/
theorem horner_eq_table_current (ks : List String) (vs : List (C19V α)) (b : String) (x : ℤ)
    (hb : ext "EvaluationMapper.rec" [c19EvalMapper ks vs, .sym b] = .ok (.int x))
    (hc : ∀ c : ℤ, ext "EvaluationMapper.rec" [c19EvalMapper ks vs, .int c] = .ok (.int c))
    (p : Poly) (v : ℤ) (hv : evalHornerPy p x = some v) (n : ℕ) :
    c19RunFn ops tableCurrent ext (n + 1 + 1) "EvaluationMapper.map_polynomial"
        [c19EvalMapper ks vs, c19EncPoly b p] = .ok (.int v) :=
  c19_horner_run ops ext ks vs b x hb hc p v hv n

/-- **`IdentityMapper.map_polynomial` as regenerated IS `c19IdentMapPoly`**: `expr` itself comes
back only when the base AND ALL coefficients came back identical (`all(…)`), otherwise a new
polynomial of the mapped base and ALL mapped coefficients. -/
theorem ident_map_polynomial_eq_table_current (ks : List String) (vs : List (C19V α))
    (args kwargs : C19V α) (rec : String → String)
    (hrec : ∀ s, ext "IdentityMapper.rec" [c19IdentMapper ks vs, .sym s, args, kwargs]
      = .ok (.sym (rec s)))
    (b : String) (data : List (ℕ × String)) (n : ℕ) :
    c19RunFn ops tableCurrent ext (n + 1 + 1) "IdentityMapper.map_polynomial"
        [c19IdentMapper ks vs, c19PolyObj (.sym b) (c19EncSTerms data), args, kwargs]
      = .ok (c19PolyObj (.sym (c19IdentMapPolyResult rec b data).1)
          (c19EncSTerms (c19IdentMapPolyResult rec b data).2)) :=
  c19_ident_map_polynomial_run ops ext ks vs args kwargs rec hrec b data n

/-- **`Rational.__init__` as regenerated IS `c19RationalInit`** on Python ints -/
theorem rational_init_eq_table_current (num den : ℤ) (n : ℕ) :
    c19RunFn ops tableCurrent ext (n + 1 + 1 + 1) "Rational.__init__"
        [.obj "Rational" [] [], .int num, .int den] = c19EncRational (c19RationalInit num den) :=
  c19_rational_init_run ops ext num den n
end

/-- **A mapper rewrites EVERY coefficient** ("also after a mapper has rewritten their
coefficients"): whatever `map_polynomial` returns — `expr` itself or a new polynomial — its base is
the mapped base and its data are the mapped data, term by term.  (With `any` in place of `all` the
unchanged polynomial would come back as soon as ONE coefficient is untouched.) -/
theorem ident_map_polynomial_maps_all (rec : String → String) (b : String)
    (data : List (ℕ × String)) :
    c19IdentMapPolyResult rec b data = (rec b, data.map fun t => (t.1, rec t.2)) := by
  unfold c19IdentMapPolyResult c19IdentMapPoly
  split_ifs with h
  · obtain ⟨hb, hall⟩ := h
    have : data.map (fun t => (t.1, rec t.2)) = data := by
      rw [List.all_eq_true] at hall
      conv_rhs => rw [← List.map_id data]
      apply List.map_congr_left
      intro t ht
      have := hall t ht
      simp only [beq_iff_eq] at this
      simp [this]
    simp [hb, this]
  · rfl

example : c19IdentMapPoly (fun s => if s = "a" then "c" else s) "x" [(0, "a"), (2, "b")]
    = some ("x", [(0, "c"), (2, "b")]) := by decide
example : c19IdentMapPoly id "x" [(0, "a"), (2, "b")] = none := by decide

/-- the value of a `Rational` built from two ints is their quotient: both fields are divided by
the same unit `±1` -/
theorem rational_init_value (num den : ℤ) (r : (ℤ × ℤ) × (ℤ × ℤ))
    (h : c19RationalInit num den = some r) :
    r.1.1 = num ∧ r.2.1 = den ∧ r.1.2 = r.2.2 ∧ (r.1.2 = 1 ∨ r.1.2 = -1) ∧ 0 < r.2.1 * r.2.2 := by
  unfold c19RationalInit at h
  split_ifs at h with h1 h2
  · cases h; refine ⟨rfl, rfl, rfl, Or.inr rfl, ?_⟩; simp; omega
  · cases h; refine ⟨rfl, rfl, rfl, Or.inl rfl, ?_⟩; simp; omega

/-- a zero denominator is refused (`RuntimeError` from `IntegerTraits.get_unit`) -/
theorem rational_init_zero (num : ℤ) : c19RationalInit num 0 = none := by
  simp [c19RationalInit]

example : c19RationalInit 2 (-6) = some ((2, -1), (-6, -1)) := by decide

/-! ## e. `fft`, `ifft` -/

section
variable (ops : C19Ops α) (ext : String → List (C19V α) → C19R (C19V α))
  (hwrap : ∀ l v, ext "fft.wrap_intermediate_with_level" [l, v] = .ok v)
  (hstp : ∀ v, ext "fft.scalar_tp" [v] = .ok v)
include hwrap hstp

/-- **`fft` as regenerated IS `c19FftPy`**, over every carrier and for every length: the
recursion on `x[n1::N1]`, the twiddles `exp(sign·(-2πi)·n1·k2/(N1·N2))`, the recombination
`sum(subvec · exp(sign·(-2πi)·n1·k1/N1))` block by block, `ZeroDivisionError` for the empty
vector.  (`c19Rp ops sign m k = ops.tw sign m k` is the twiddle function the model takes.) -/
theorem fft_eq_table_current (x : List α) (sign : ℤ) (wi wil dt np : C19V α) (level : ℤ) (n : ℕ)
    (hn : 2 * x.length + 3 ≤ n) :
    c19RunFn ops tableCurrent ext (n + 1) "algorithm.fft"
        [c19EncVec x, .int sign, wi, wil, dt, np, .int level]
      = c19EncVecOpt (c19FftPy ops.add ops.mul (ops.ofInt 0) (c19Rp ops sign) x) :=
  c19_fft_run ops ext hwrap hstp x sign wi wil dt np level n hn

/-- **`ifft` as regenerated IS `c19IfftPy`**: `(1/len(x)) * fft(x, sign=-1, …)` -/
theorem ifft_eq_table_current (x : List α) (wi wil dt np : C19V α) (n : ℕ)
    (hn : 2 * x.length + 4 ≤ n) :
    c19RunFn ops tableCurrent ext (n + 1) "algorithm.ifft" [c19EncVec x, wi, wil, dt, np]
      = c19EncVecOpt (c19IfftPy ops.add ops.mul (ops.ofInt 0) (c19Rp ops (-1))
          (ops.ofFrac 1 x.length) x) :=
  c19_ifft_run ops ext hwrap hstp x wi wil dt np n hn
end

/-- **The regenerated `fft` computes the discrete Fourier transform** over every commutative
ring: with twiddles `tw sign m k = z^((n/m)·k)` for a `z` with `zⁿ = 1` (`n = len(x) ≥ 1`) the
interpreter returns `[∑_j z^(k·j)·x_j | k < n]`. -/
theorem fft_table_eq_dft {R : Type} [CommRing R] (z : R) (x : List R) (hpos : 1 ≤ x.length)
    (hz : z ^ x.length = 1) (ext : String → List (C19V R) → C19R (C19V R))
    (hwrap : ∀ l v, ext "fft.wrap_intermediate_with_level" [l, v] = .ok v)
    (hstp : ∀ v, ext "fft.scalar_tp" [v] = .ok v) (ofFrac : ℤ → ℤ → R)
    (sign : ℤ) (wi wil dt np : C19V R) (level : ℤ) (n : ℕ) (hn : 2 * x.length + 3 ≤ n) :
    c19RunFn ⟨(· + ·), (· * ·), fun i => (i : R), ofFrac,
        fun _ m k => z ^ (x.length / m.toNat * k.toNat)⟩ tableCurrent ext (n + 1) "algorithm.fft"
        [c19EncVec x, .int sign, wi, wil, dt, np, .int level]
      = .ok (c19EncVec ((List.range x.length).map fun k =>
          ∑ j ∈ Finset.range x.length, z ^ (k * j) * x.getD j 0)) := by
  rw [fft_eq_table_current _ ext hwrap hstp x sign wi wil dt np level n hn]
  have hpy : findFactorsPy x.length ≠ none := by
    rw [Ne, find_factors_fails_iff]; omega
  unfold c19FftPy
  cases h : findFactorsPy x.length with
  | none => exact absurd h hpy
  | some _ =>
    simp only [c19EncVecOpt]
    congr 2
    have := fft_eq_dft z (fun m k => z ^ (x.length / m * k)) x hpos hz (fun _ _ _ => rfl)
    rw [← this]
    have hrp : c19Rp (⟨(· + ·), (· * ·), fun i => (i : R), ofFrac,
        fun _ m k => z ^ (x.length / m.toNat * k.toNat)⟩ : C19Ops R) sign
        = fun m k => z ^ (x.length / m * k) := by
      funext m k
      simp [c19Rp]
    rw [hrp]
    simp

/-! ## f. what is read by shape only -/

/-- the parameter-processing statements of `fft` (the `TypeError` for two wrappers, the legacy
adapter, the default `wrap_intermediate_with_level(level, x) = x`, `pi`, the numpy and dtype
defaults, `scalar_tp = complex_dtype.type`) are the recognised ones, in this order -/
theorem fft_preamble_current :
    c19FftPreamble = ["atMostOneWrap", "legacyWrapAdapter", "defaultWrapIsSecondArgument",
      "importPi", "defaultNumpy", "defaultDtype", "normaliseDtype", "scalarTpIsDtypeType"] := by
  decide

/-- `traits.common_traits` reduces its arguments' traits with the rule chain
"the more special of two traits objects, else `NoCommonTraitsError`" -/
theorem common_traits_rules_current :
    tableCurrent.commonTraits = ["ySubX", "xSubY", "raiseNoCommonTraits"] := by decide

/-- `sym_fft` is plain data flow around `fft`: the input wrapped term by term, `fft` with the
wrapper passed on, the near-zero killer applied to the result -/
theorem sym_fft_flow_current :
    c19SymFftFlow = "NearZeroKiller()(fft(wrap_intermediate(x), sign=sign, wrap_intermediate=wrap_intermediate))" := by
  decide

/-- the classes of the table with their MRO (method and property resolution, `isinstance`) -/
theorem table_classes_current :
    tableCurrent.classes = [
      ⟨"Polynomial", ["Polynomial", "Expression"]⟩,
      ⟨"PolynomialTraits", ["PolynomialTraits", "EuclideanRingTraits", "IntegralDomainTraits", "Traits"]⟩,
      ⟨"LexicalMonomialOrder", ["LexicalMonomialOrder"]⟩,
      ⟨"Traits", ["Traits"]⟩,
      ⟨"IntegralDomainTraits", ["IntegralDomainTraits", "Traits"]⟩,
      ⟨"EuclideanRingTraits", ["EuclideanRingTraits", "IntegralDomainTraits", "Traits"]⟩,
      ⟨"FieldTraits", ["FieldTraits", "IntegralDomainTraits", "Traits"]⟩,
      ⟨"IntegerTraits", ["IntegerTraits", "EuclideanRingTraits", "IntegralDomainTraits", "Traits"]⟩,
      ⟨"Rational", ["Rational", "Expression"]⟩,
      ⟨"EvaluationMapper", ["EvaluationMapper", "Mapper", "CSECachingMapperMixin", "ABC"]⟩,
      ⟨"IdentityMapper", ["IdentityMapper", "Mapper"]⟩] := by
  decide

/-- the functions of the table, in source order -/
theorem table_functions_current :
    tableCurrent.fns.map (·.name) = [
      "algorithm.integer_power", "algorithm.extended_euclidean", "algorithm.gcd", "algorithm.lcm",
      "algorithm.find_factors", "algorithm.fft", "algorithm.ifft", "polynomial._sort_uniq",
      "polynomial.leading_coefficient", "traits.traits", "primitives.quotient", "Polynomial.__init__",
      "Polynomial.traits",
      "Polynomial.__neg__", "Polynomial.__add__", "Polynomial.__radd__", "Polynomial.__sub__",
      "Polynomial.__mul__", "Polynomial.__rmul__", "Polynomial.__pow__", "Polynomial.__divmod__",
      "Polynomial.__floordiv__", "Polynomial.__mod__", "Polynomial.data", "Polynomial.base",
      "Polynomial.unit", "Polynomial.degree", "PolynomialTraits.norm", "PolynomialTraits.get_unit",
      "EuclideanRingTraits.gcd_extended", "EuclideanRingTraits.gcd", "EuclideanRingTraits.lcm",
      "IntegerTraits.norm", "IntegerTraits.get_unit", "Rational.__init__", "Rational.__neg__",
      "Rational.__bool__", "Rational.numerator", "Rational.denominator", "Rational.reciprocal",
      "Rational.__add__", "Rational.__radd__", "Rational.__sub__", "Rational.__rsub__",
      "Rational.__mul__", "Rational.__rmul__", "Rational.__div__", "Rational.__rdiv__",
      "Rational.__pow__",
      "EvaluationMapper.map_polynomial", "EvaluationMapper.map_quotient",
      "IdentityMapper.map_polynomial"] := by
  decide

end PV.Properties.C19
