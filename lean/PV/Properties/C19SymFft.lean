import PV.Properties.C19Table
import PV.Proofs.AlgoTableFftW
import PV.Proofs.SymFft
import PV.Proofs.SyntaxBEq
/-!
  C19 — "… the symbolic FFT evaluates to the same transform."

  `sym_fft(x, sign)` is `NearZeroKiller()(fft(wrap_intermediate(x), sign=sign,
  wrap_intermediate=wrap_intermediate))` (`sym_fft_flow_current`): the SAME routine `fft` whose
  regenerated body the theorems of PV/Properties/C19Table.lean are about, run on numpy object
  arrays of expressions — `+` and `*` are the overloaded operators of `Expression` (C03's model
  `Ops.bin`) — with every block of sub-transforms wrapped in `CommonSubexpression`.

  * `fft_wrap_eq_table_current`: the regenerated `fft` with ANY wrapper (the meaning of the
    external name `fft.wrap_intermediate_with_level`, a hypothesis) is the recursion `c19FftW`;
    `fft_wrap_id`: with the default wrapper that is `c19Fft`, the transform `fft_eq_dft` is about.
  * `sym_fft_eq_table_current`: run with the expression-building operators, the
    `CommonSubexpression` wrapper and SYMBOLIC twiddle factors `tw e` (the expression standing for
    `exp(sign·(-2πi)·e/n)`), the regenerated `fft` returns the trees `symFft tw xs`
    (PV/Model/SymFft.lean; compared node for node with the real code by the stream
    `symfft-trees`).
  * `sym_fft_den` — the property: for every environment in which the inputs have exact values
    (int / bool / Fraction) and `tw e` has the value `ζ^e` with `ζ^n = 1`, every operator
    application succeeds and the `k`-th tree EVALUATES (`den`, PV/Model/Eval.lean) to an exact
    number with value `∑_j ζ^(k·j) · value(x_j)`.  The homomorphism step is C03's `bin_sound`
    (the tree built by `Ops.bin` evaluates to the plain value), the transform itself is
    `c19Fft_eq_dft`, over ℚ.  `sym_fft_den_power`: the instance `tw e = Power(z, e)` (`1` for
    `e = 0`) for a variable `z` holding `ζ`.

  What stays outside: numpy's complex exponential (the root of unity is a parameter here; over the
  exact values of the model, ℚ, it is ±1 — the statement and its proof do not use more than
  `ζ^n = 1`), `NearZeroKiller` (an identity mapper that rewrites complex float constants only:
  `sym_fft_parts_current`; on the trees above it changes nothing), the parameter-processing block
  of `fft`, and the float rounding of the real twiddles (runtime oracle, tolerance).
-/

namespace PV.Properties.C19

open PV PV.Algo PV.Generated

/-! ## a. `fft` with a wrapper is the same recursion -/

section
variable {α : Type} (ops : C19Ops α) (ext : String → List (C19V α) → C19R (C19V α))
  (wrap : List α → List α)
  (hwrap : ∀ (l : C19V α) (v : List α),
    ext "fft.wrap_intermediate_with_level" [l, .vec (v.map C19V.elem)]
      = .ok (.vec ((wrap v).map C19V.elem)))
  (hstp : ∀ v, ext "fft.scalar_tp" [v] = .ok v)
include hwrap hstp

/-- **`fft` as regenerated, with a wrapper, IS `c19FftW`**: over every carrier, for every length
≥ 1 and every function `wrap` that `wrap_intermediate_with_level(level, ·)` computes on a block
(at every level: `sym_fft` passes the legacy `wrap_intermediate`, which IS handed down) -/
theorem fft_wrap_eq_table_current (x : List α) (hpos : 1 ≤ x.length) (sign : ℤ)
    (wi wil dt np : C19V α) (level : ℤ) (n : ℕ) (hn : 2 * x.length + 3 ≤ n) :
    c19RunFn ops tableCurrent ext (n + 1) "algorithm.fft"
        [c19EncVec x, .int sign, wi, wil, dt, np, .int level]
      = .ok (c19EncVec (c19FftW ops.add ops.mul (ops.ofInt 0) (c19Rp ops sign) wrap x)) :=
  c19_fftW_run ops ext wrap hwrap hstp x hpos sign wi wil dt np level n hn
end

/-- with the default wrapper (`wrap_intermediate_with_level(level, x) = x`) `c19FftW` is the
transform of `fft_eq_dft` -/
theorem fft_wrap_id {α : Type} (add mul : α → α → α) (zero : α) (rp : ℕ → ℕ → α) (x : List α) :
    c19FftW add mul zero rp (fun v => v) x = c19Fft add mul zero rp x :=
  c19FftW_id add mul zero rp x

/-- the two nested definitions of `sym_fft` have the recognised shapes: `NearZeroKiller` is an
identity mapper whose `map_constant` rewrites COMPLEX constants only, `wrap_intermediate` wraps
every entry of an array longer than one in a `CommonSubexpression` and returns shorter arrays
unchanged -/
theorem sym_fft_parts_current :
    c19SymFftParts = ["nearZeroKillerRewritesComplexConstantsOnly",
      "wrapIsCseEachIfLongerThanOne"] := by decide

/-! ## b. the regenerated `fft` on expression objects -/

/-- the carrier operations of the symbolic run: objects are expression trees (`none`: an operator
refused), `+` / `*` the overloaded operators, the int `0` of `sum`, the twiddle
`exp(sign·(-2πi)·k/m)` the symbol `tw ((n/m·k) mod n)` -/
def symOps (tw : ℕ → Expr) (n : ℕ) : C19Ops (Option Expr) where
  add := symOp .add
  mul := symOp .mul
  ofInt i := some (.const (.int i))
  ofFrac _ _ := none
  tw _ m k := some (tw ((n / m.toNat * k.toNat) % n))

/-- **the regenerated `fft`, run the way `sym_fft` runs it, returns the trees `symFft tw xs`**:
carrier = expression objects, wrapper = `CommonSubexpression` on every entry of a block longer
than one, input = the wrapped `xs` (at least two: a single input is returned as it is,
`sym_fft_singleton`) -/
theorem sym_fft_eq_table_current (tw : ℕ → Expr) (xs : List Expr) (hlen : 1 ≤ xs.length)
    (ext : String → List (C19V (Option Expr)) → C19R (C19V (Option Expr)))
    (hwrap : ∀ (l : C19V (Option Expr)) (v : List (Option Expr)),
      ext "fft.wrap_intermediate_with_level" [l, .vec (v.map C19V.elem)]
        = .ok (.vec ((symWrap v).map C19V.elem)))
    (hstp : ∀ v, ext "fft.scalar_tp" [v] = .ok v)
    (sign : ℤ) (wi wil dt np : C19V (Option Expr)) (level : ℤ) (n : ℕ)
    (hn : 2 * xs.length + 3 ≤ n) :
    c19RunFn (symOps tw xs.length) tableCurrent ext (n + 1) "algorithm.fft"
        [c19EncVec (symWrap (xs.map some)), .int sign, wi, wil, dt, np, .int level]
      = .ok (c19EncVec (symFft tw xs)) := by
  have hl : (symWrap (xs.map some)).length = xs.length := by
    unfold symWrap; split_ifs <;> simp
  rw [fft_wrap_eq_table_current (symOps tw xs.length) ext symWrap hwrap hstp _ (by omega) sign
    wi wil dt np level n (by omega)]
  have hrp : c19Rp (symOps tw xs.length) sign
      = fun m k => some (tw ((xs.length / m * k) % xs.length)) := by
    funext m k
    simp [c19Rp, symOps]
  rw [hrp]
  rfl

/-! ## c. the trees evaluate to the transform -/

/-- **The symbolic FFT evaluates to the same transform.**  For every environment `env`, all input
expressions `xs` (ANY expressions — `sym_fft` wraps each in a `CommonSubexpression` first — at
least two) with exact values in `env`, twiddle symbols `tw e` (`e < n`) that are not bool constants
and have the exact value `ζ^e`, `ζ^n = 1`:  every operator application inside `fft` succeeds
(`symFft tw xs` has no `none`), and the `k`-th tree evaluates to an exact number whose value is
the `k`-th entry of the discrete Fourier transform of the values of the inputs. -/
theorem sym_fft_den (env : Env) (tw : ℕ → Expr) (xs : List Expr) (ζ : ℚ) (hlen : 2 ≤ xs.length)
    (hx : ∀ x ∈ xs, ∃ q, SymHas env x q) (hζ : ζ ^ xs.length = 1)
    (htw : ∀ e < xs.length, (tw e).isBoolConst = false ∧ SymHas env (tw e) (ζ ^ e)) :
    ∃ ts : List Expr, symFft tw xs = ts.map some ∧ ts.length = xs.length ∧
      ∀ k (hk : k < ts.length), SymHas env ts[k]
        (∑ j ∈ Finset.range xs.length, ζ ^ (k * j) * (xs.map (symValue env)).getD j 0) :=
  symFft_den env tw xs ζ hlen hx hζ htw

/-- a single input is returned as it is -/
theorem sym_fft_singleton (tw : ℕ → Expr) (x : Expr) : symFft tw [x] = [some x] :=
  symFft_singleton tw x

/-- **the instance with the root as a variable**: `tw e = Power(z, e)` (`1` for `e = 0`), the
variable `z` bound to an exact number `ζ` with `ζ^n = 1`; `n ≤ 4097` because the model of Python
numbers abstains on exponents above 4096 -/
theorem sym_fft_den_power (env : Env) (z : String) (v : Value) (ζ : ℚ) (f : Bool)
    (hz : env.get z = some v) (hv : v.view = some (ζ, f)) (xs : List Expr)
    (hlen : 2 ≤ xs.length) (hbig : xs.length ≤ 4097)
    (hx : ∀ x ∈ xs, ∃ q, SymHas env x q) (hζ : ζ ^ xs.length = 1) :
    ∃ ts : List Expr, symFft (symTw z) xs = ts.map some ∧ ts.length = xs.length ∧
      ∀ k (hk : k < ts.length), SymHas env ts[k]
        (∑ j ∈ Finset.range xs.length, ζ ^ (k * j) * (xs.map (symValue env)).getD j 0) :=
  symFft_den env (symTw z) xs ζ hlen hx hζ
    (fun e he => symTw_has env z v ζ f hz hv e (by omega))

/-- what "evaluates to an exact number with value `q`" means: `den` answers an int, a bool or a
Fraction whose rational value is `q` -/
theorem symHas_iff (env : Env) (t : Expr) (q : ℚ) :
    SymHas env t q ↔ ∃ w, den env t = .ok w ∧
      ((∃ n : ℤ, w = .int n ∧ q = n) ∨ (∃ b : Bool, w = .bool b ∧ q = ((if b then 1 else 0 : ℤ) : ℚ))
        ∨ w = .frac q) := by
  constructor
  · rintro ⟨w, f, hw, hv⟩
    refine ⟨w, hw, ?_⟩
    rcases view_cases hv with ⟨n, rfl, rfl, rfl⟩ | ⟨b, rfl, rfl, rfl⟩ | ⟨rfl, rfl⟩
    · exact Or.inl ⟨n, rfl, rfl⟩
    · exact Or.inr (Or.inl ⟨b, rfl, rfl⟩)
    · exact Or.inr (Or.inr rfl)
  · rintro ⟨w, hw, ⟨n, rfl, rfl⟩ | ⟨b, rfl, rfl⟩ | rfl⟩
    · exact ⟨_, false, hw, rfl⟩
    · exact ⟨_, false, hw, rfl⟩
    · exact ⟨_, true, hw, rfl⟩

/-- non-vacuity: the two-point transform of `x0`, `x1` -/
example : symFft (symTw "z") [.var "x0", .var "x1"]
    = [some (.nary .sum [symCse (.var "x0"), symCse (.var "x1")]),
       some (.nary .sum [symCse (.var "x0"),
         .nary .prod [symCse (.var "x1"), .bin .pow (.var "z") (.const (.int 1))]])] := by
  decide +kernel

/-- the hypotheses of `sym_fft_den_power` are satisfiable: `x0 = 3`, `x1 = 1/2`, `z = -1` -/
example : ∃ ts : List Expr, symFft (symTw "z") [.var "x0", .var "x1"] = ts.map some ∧
    ts.length = 2 ∧ ∀ k (hk : k < ts.length),
      SymHas [("x0", .int 3), ("x1", .frac (1/2)), ("z", .int (-1))] ts[k]
        (∑ j ∈ Finset.range 2, (-1 : ℚ) ^ (k * j) *
          ([Expr.var "x0", .var "x1"].map
            (symValue [("x0", .int 3), ("x1", .frac (1/2)), ("z", .int (-1))])).getD j 0) :=
  sym_fft_den_power [("x0", .int 3), ("x1", .frac (1/2)), ("z", .int (-1))] "z" (.int (-1)) (-1)
    false rfl (by simp [Value.view]) [.var "x0", .var "x1"] (by decide) (by decide)
    (fun x hx => by
      simp only [List.mem_cons, List.mem_nil_iff, or_false] at hx
      rcases hx with rfl | rfl
      · exact ⟨3, .int 3, false, rfl, by simp [Value.view]⟩
      · exact ⟨1/2, .frac (1/2), true, rfl, by simp [Value.view]⟩)
    (by norm_num)

end PV.Properties.C19
