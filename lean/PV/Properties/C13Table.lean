import PV.Properties.C13
import PV.Proofs.CodegenTable
/-
  C13 — T-gen tie of the code-generation models to the source.

  `PV.Generated.c13FromTable / c13ToTable / c13CompileMapperTable / c13CompiledTable /
  c13FuncSrcTable` are rewritten on every run by `extract/codegen.py` from the source text of
  pymbolic/interop/ast.py and pymbolic/compiler.py in the working tree: the operator dictionaries
  of `ASTToPymbolic` with the helper functions they point to, every `map_*` handler of both AST
  mappers in a small handler language (which `ast` class / node class, which operator object,
  arguments in evaluation order under their field names, the fold of n-ary nodes), the class body
  of `CompileMapper`, and `CompiledExpression` statement by statement.

  The interpreters of PV/Model/CodegenTable.lean RUN such tables; they know no handler, only the
  languages.  The theorems below prove that the hand-written models of PV/Model/Compile.lean
  (`fromAst`, `toAst`, `toAstNode` / `toAstC`, `foldBin`, `compilePieces`, `compileModel`,
  `argOrder` inside it, `getstate`, `setstate`, `lambdaSrc`) — the ones the driver executes and the
  theorems of PV/Properties/C13.lean are about — ARE the interpreters applied to the regenerated
  tables, for ALL inputs.  Hence the C13 theorems restated at the end speak about what the current
  source text says.  An edit that changes a table entry (`ast.LtE ↦ "<"`, `~a` imported as `-a`,
  the fold nested the other way, `used + listed`, a state tuple without the variables, …) makes
  the corresponding case fail to check; the streams of harness/props/c13.py then give the input.
-/
namespace PV.C13
open PV

/-! ## A. `ASTToPymbolic` -/

/-- the operator dictionaries the importer was modelled from (`bool_op_map` does not exist:
`BoolOp` nodes have no handler) -/
def opMapsExpected : List (String × List (String × C13MapVal)) :=
  [("bin_op_map", [
      ("Add", .fn "_add" 2 (.node "Sum" [.tuple [.arg 0, .arg 1]])),
      ("Sub", .fn "_sub" 2 (.node "Sum" [.tuple [.arg 0, .node "Product" [.tuple [.int (-1), .arg 1]]]])),
      ("Mult", .fn "_mult" 2 (.node "Product" [.tuple [.arg 0, .arg 1]])),
      ("Div", .cls "Quotient"), ("FloorDiv", .cls "FloorDiv"), ("Mod", .cls "Remainder"),
      ("Pow", .cls "Power"), ("LShift", .cls "LeftShift"), ("RShift", .cls "RightShift"),
      ("BitOr", .fn "_bitwise_or" 2 (.node "BitwiseOr" [.tuple [.arg 0, .arg 1]])),
      ("BitXor", .fn "_bitwise_xor" 2 (.node "BitwiseXor" [.tuple [.arg 0, .arg 1]])),
      ("BitAnd", .fn "_bitwise_and" 2 (.node "BitwiseAnd" [.tuple [.arg 0, .arg 1]]))]),
   ("comparison_op_map", [
      ("Eq", .str "=="), ("NotEq", .str "!="), ("Lt", .str "<"), ("LtE", .str "<="),
      ("Gt", .str ">"), ("GtE", .str ">=")]),
   ("unary_op_map", [
      ("Invert", .cls "BitwiseNot"), ("Not", .cls "LogicalNot"), ("USub", .fn "_neg" 1 (.neg (.arg 0)))])]

/-- **The operator dictionaries of the current source are the modelled ones**, entry by entry and
in order: keys (classes of Python's `ast`), node classes, comparison strings, and the bodies of the
module-level helpers `_add _sub _mult _neg _bitwise_or _bitwise_xor _bitwise_and`. -/
theorem op_maps_current : fromTableCurrent.maps = opMapsExpected := rfl

example : c13Assoc "LtE" ((fromTableCurrent.map? "comparison_op_map").getD []) matches some (.str "<=") :=
  rfl

/-- `ASTToPymbolic` has no `bool_op_map` (and no `map_BoolOp`): `a and b` is refused -/
theorem bool_op_map_absent_current : (fromTableCurrent.map? "bool_op_map").isNone = true := rfl

/-- **`PyBin.construct` is `bin_op_map` of the current source, applied**: for every operator and
operands, looking the operator class up in the regenerated dictionary and calling the value it
holds (a node class, or the body of the helper function it names) gives the modelled node; the
operators without an entry (`@`) are exactly those the model refuses. -/
theorem bin_op_construct_current (op : PyBin) (x y : Expr) :
    (match op.construct with
     | some mk => (c13Assoc op.name ((fromTableCurrent.map? "bin_op_map").getD [])).map
          (fun v => (c13ApplyMapVal v [.expr x, .expr y] >>= C13FVal.toExpr)) = some (.ok (mk x y))
     | none => (c13Assoc op.name ((fromTableCurrent.map? "bin_op_map").getD [])).isNone = true) := by
  cases op <;> rfl

example : (c13Assoc "Sub" ((fromTableCurrent.map? "bin_op_map").getD [])).map
    (fun v => (c13ApplyMapVal v [.expr (.var "a"), .expr (.var "b")] >>= C13FVal.toExpr))
    = some (.ok (.nary .sum [.var "a", .nary .prod [negOne, .var "b"]])) := rfl

/-- constructor argument order the table interpreter assumes = dataclass field order of the
regenerated class table (C04) -/
theorem ctor_fields_current :
    c13CtorFields.all (fun p => (c04FindClass classesCurrent p.1).map (·.fields) == some p.2) = true := by
  decide

/-- MRO handler names and `_fields` of the `ast` classes the model speaks, as CPython has them -/
theorem ast_classes_current : fromTableCurrent.classes =
    [⟨"Constant", ["map_Constant", "map_expr", "map_AST", "map_object"], ["value", "kind"]⟩,
     ⟨"Name", ["map_Name", "map_expr", "map_AST", "map_object"], ["id", "ctx"]⟩,
     ⟨"BinOp", ["map_BinOp", "map_expr", "map_AST", "map_object"], ["left", "op", "right"]⟩,
     ⟨"UnaryOp", ["map_UnaryOp", "map_expr", "map_AST", "map_object"], ["op", "operand"]⟩,
     ⟨"BoolOp", ["map_BoolOp", "map_expr", "map_AST", "map_object"], ["op", "values"]⟩,
     ⟨"IfExp", ["map_IfExp", "map_expr", "map_AST", "map_object"], ["test", "body", "orelse"]⟩,
     ⟨"Compare", ["map_Compare", "map_expr", "map_AST", "map_object"], ["left", "ops", "comparators"]⟩,
     ⟨"Call", ["map_Call", "map_expr", "map_AST", "map_object"], ["func", "args", "keywords"]⟩,
     ⟨"Attribute", ["map_Attribute", "map_expr", "map_AST", "map_object"], ["value", "attr", "ctx"]⟩,
     ⟨"Subscript", ["map_Subscript", "map_expr", "map_AST", "map_object"], ["value", "slice", "ctx"]⟩,
     ⟨"Tuple", ["map_Tuple", "map_expr", "map_AST", "map_object"], ["elts", "ctx"]⟩,
     ⟨"List", ["map_List", "map_expr", "map_AST", "map_object"], ["elts", "ctx"]⟩,
     ⟨"Slice", ["map_Slice", "map_expr", "map_AST", "map_object"], ["lower", "upper", "step"]⟩,
     ⟨"NoneType", ["map_NoneType", "map_object"], []⟩] := by decide

mutual
/-- **The hand-written importer is the regenerated table, run.**  For EVERY Python AST of the
model (every constructor, every operator, comparison chains of any length, calls with and without
keywords, a `None` slice) `fromAst` equals the table interpreter `c13FromAstT` on the table of the
current tree: the dispatch (first `map_<class>` along the MRO, else `not_supported`), the operator
looked up in the class-level dictionary (`KeyError` ↦ the exception the handler raises), the order
in which the operands are mapped, the node class built and its argument order, `x, = expr.ops`
(`ValueError` on chains), the `keywords` branch of `map_Call`, all read from the table. -/
theorem fromAst_eq_table_current : ∀ a : PyAst, fromAst a = c13FromAstT fromTableCurrent a
  | .const _ => rfl
  | .name _ => rfl
  | .binop l op r => by
      simp only [c13FromAstT, ← fromAst_eq_table_current l, ← fromAst_eq_table_current r, fromAst]
      cases op <;> rfl
  | .unop .invert a => by
      simp only [c13FromAstT, ← fromAst_eq_table_current a, fromAst]; rfl
  | .unop .not a => by
      simp only [c13FromAstT, ← fromAst_eq_table_current a, fromAst]; rfl
  | .unop .uadd a => by
      simp only [c13FromAstT, ← fromAst_eq_table_current a, fromAst]; rfl
  | .unop .usub a => by
      simp only [c13FromAstT, ← fromAst_eq_table_current a, fromAst]
      show (fromAst a >>= astNeg) = (fromAst a >>= fun e =>
        (astNeg e >>= fun v => pure (C13FVal.expr v)) >>= C13FVal.toExpr)
      cases fromAst a with
      | error _ => rfl
      | ok x =>
        show astNeg x = ((astNeg x >>= fun v => pure (C13FVal.expr v)) >>= C13FVal.toExpr)
        cases astNeg x <;> rfl
  | .boolop _ _ => by simp only [c13FromAstT, fromAst]; rfl
  | .ifexp c t e => by
      simp only [c13FromAstT, ← fromAst_eq_table_current c, ← fromAst_eq_table_current t,
        ← fromAst_eq_table_current e, fromAst]
      rfl
  | .compare l ops rs => by
      simp only [c13FromAstT, ← fromAst_eq_table_current l, ← fromAstRuns_eq_table_current rs]
      rcases ops with _ | ⟨op, _ | ⟨op2, ops⟩⟩ <;> rcases rs with _ | ⟨r, _ | ⟨r2, rs⟩⟩ <;>
        simp only [fromAst, c13ModelRunsF] <;> (try cases op) <;> rfl
  | .call f as ns vs => by
      simp only [c13FromAstT, ← fromAst_eq_table_current f, ← fromAstRuns_eq_table_current as,
        ← fromAstRuns_eq_table_current vs, fromAst, fromAstL_eq_seq]
      rfl
  | .attribute v _ => by
      simp only [c13FromAstT, ← fromAst_eq_table_current v, fromAst]
      rfl
  | .subscript v s => by
      simp only [c13FromAstT, ← fromAst_eq_table_current v, ← fromAst_eq_table_current s]
      cases s <;> simp only [fromAst] <;> rfl
  | .tuple es => by
      simp only [c13FromAstT, ← fromAstRuns_eq_table_current es, fromAst, fromAstL_eq_seq]
      rfl
  | .list _ => by simp only [c13FromAstT, fromAst]; rfl
  | .slice _ => by simp only [c13FromAstT, fromAst]; rfl
  | .absent => rfl
/-- the suspended recursive calls on the elements of a list-valued attribute agree -/
theorem fromAstRuns_eq_table_current : ∀ as : List PyAst,
    c13ModelRunsF as = c13FromAstRunsT fromTableCurrent as
  | [] => rfl
  | a :: as => by
      simp only [c13ModelRunsF, c13FromAstRunsT, ← fromAst_eq_table_current a,
        fromAstRuns_eq_table_current as]
end

example : c13FromAstT fromTableCurrent (.compare (.name "a") [.le] [.name "b"])
    = .ok (.cmp .le (.var "a") (.var "b")) := rfl
example : c13FromAstT fromTableCurrent (.unop .invert (.name "a")) = .ok (.un .bnot (.var "a")) := rfl

/-- WHAT AN EDIT DOES: with `ast.LtE` mapped to `"<"` the table interpreter imports `a <= b` as
`a < b` — not what `fromAst` does, so `fromAst_eq_table_current` cannot be proved for that table -/
theorem lte_as_lt_table_cex :
    let T := { fromTableCurrent with maps := [("comparison_op_map", [("LtE", .str "<")])] }
    c13FromAstT T (.compare (.name "a") [.le] [.name "b"]) = .ok (.cmp .lt (.var "a") (.var "b"))
      ∧ fromAst (.compare (.name "a") [.le] [.name "b"]) = .ok (.cmp .le (.var "a") (.var "b")) :=
  ⟨rfl, rfl⟩

/-- the same for `~a` imported through `_neg` (the defect repaired by `fix: ASTToPymbolic maps ~a
to BitwiseNot`): the table interpreter then answers `-a` -/
theorem invert_as_neg_table_cex :
    let T := { fromTableCurrent with maps := [("unary_op_map", [("Invert", .fn "_neg" 1 (.neg (.arg 0)))])] }
    c13FromAstT T (.unop .invert (.name "a")) = .ok (.nary .prod [negOne, .var "a"])
      ∧ fromAst (.unop .invert (.name "a")) = .ok (.un .bnot (.var "a")) :=
  ⟨rfl, rfl⟩

/-! ## B. `PymbolicToASTMapper` -/

/-- **The folding helper of the current source is the modelled one**: `result = rec_children[-1]`,
`for child in rec_children[-2::-1]: result = ast.BinOp(child, op_type, result)` -/
theorem fold_row_current : toTableCurrent.folds = [foldRowExpected] := by decide

/-- **`foldBin` is that loop**, for every operator and every operand list (right nesting, the last
operand innermost; `IndexError` without operands) -/
theorem foldBin_eq_table_current (o : PyBin) (xs : List PyAst) :
    (toTableCurrent.folds.head?).map (fun row => c13FoldT row (.opB o) xs) = some (foldBin o xs) := by
  rw [fold_row_current, foldBin_eq_table]; rfl

example : (toTableCurrent.folds.head?).map
    (fun row => c13FoldT row (.opB .add) [.name "a", .name "b", .name "c"])
    = some (.ok (.binop (.name "a") .add (.binop (.name "b") .add (.name "c")))) := rfl

/-- WHAT AN EDIT DOES: the loop written the other way (`result = rec_children[0]`,
`for child in rec_children[1:]: result = ast.BinOp(result, op_type, child)`) nests to the left -/
theorem fold_left_table_cex :
    let row : C13FoldRow :=
      { foldRowExpected with
        init := 0, lo := some 1, hi := none, step := none, argRoles := [.acc, .opParam, .item] }
    c13FoldT row (.opB .sub) [.name "a", .name "b", .name "c"]
        = .ok (.binop (.binop (.name "a") .sub (.name "b")) .sub (.name "c"))
      ∧ foldBin .sub [.name "a", .name "b", .name "c"]
        = .ok (.binop (.name "a") .sub (.binop (.name "b") .sub (.name "c"))) :=
  ⟨rfl, rfl⟩

/-- the memo-free reading of the regenerated table -/
abbrev toAstTP : Expr → Except AErr PyAst :=
  c13ToAstT (M := Except AErr) c13LiftId classesCurrent toTableCurrent c13NoMemo

/-- the mapper as coded: every `self.rec` goes through the memo protocol `withAstCache` -/
abbrev toAstTC : Expr → AstM PyAst :=
  c13ToAstT (M := AstM) AstM.lift classesCurrent toTableCurrent withAstCache

mutual
/-- **The hand-written exporter is the regenerated table, run** (memo-free reading, the one the
C13 theorems are about).  For EVERY expression `toAst` equals the table interpreter: the handler
`Mapper.__call__` reaches (class table of C04, `map_foreign` for constants and containers), the
`ast` class it builds, the operator object, the arguments in evaluation order under the field
names Python binds them to, n-ary nodes through the folding helper, keyword arguments sorted by
name, `ast.Slice(*parts)`, the `isinstance` / sign tests of `map_constant`, the refusals. -/
theorem toAst_eq_table_current : ∀ e : Expr, toAst e = toAstTP e
  | .const c => by
      cases c with
      | int n =>
        show constToAst (.int n) = (match (some (decide (n < 0)) : Option Bool) with
          | some true => pure (PyAst.unop .usub (.const (.int (-n))))
          | some false => pure (PyAst.const (.int n))
          | none => throw .noClaim)
        by_cases h : n < 0 <;> simp [constToAst, h]
      | bool b => rfl
      | flt r n d =>
        show constToAst (.flt r n d)
          = (match (some (decide ((d = 0 ∧ r = "-inf") ∨ (d ≠ 0 ∧ n < 0))) : Option Bool) with
          | some true => pure (PyAst.unop .usub (.const (.flt (r.drop 1).toString (-n) d)))
          | some false => pure (PyAst.const (.flt r n d))
          | none => throw .noClaim)
        by_cases h : (d = 0 ∧ r = "-inf") ∨ (d ≠ 0 ∧ n < 0) <;> simp only [constToAst, h] <;> rfl
      | str s => rfl
      | none => rfl
  | .var _ => rfl
  | .nary o cs => by
      simp only [toAstTP, c13ToAstT, ← toAstRuns_eq_table_current cs]
      cases o <;> simp only [toAst, toAstL_eq_seq, foldBin_eq_table] <;> rfl
  | .bin o a b => by
      simp only [toAstTP, c13ToAstT, ← toAst_eq_table_current a, ← toAst_eq_table_current b, toAst]
      show (toAst a >>= fun x => toAst b >>= fun y => pure (PyAst.binop x o.pyBin y)) = _
      rw [← seq2_fold_except]
      cases o <;> rfl
  | .un o a => by
      simp only [toAstTP, c13ToAstT, ← toAst_eq_table_current a]
      cases o <;> simp only [toAst] <;> rfl
  | .cmp .. => rfl
  | .ite c t e => by
      simp only [toAstTP, c13ToAstT, ← toAst_eq_table_current c, ← toAst_eq_table_current t,
        ← toAst_eq_table_current e, toAst]
      rfl
  | .call f as => by
      simp only [toAstTP, c13ToAstT, ← toAst_eq_table_current f, ← toAstRuns_eq_table_current as,
        toAst, toAstL_eq_seq]
      rfl
  | .callKw f as ns vs => by
      simp only [toAstTP, c13ToAstT, ← toAst_eq_table_current f, ← toAstRuns_eq_table_current as,
        ← toAstRuns_eq_table_current vs, toAst, toAstL_eq_seq, mapIdxE_eq, toAstNth_eq_run]
      rfl
  | .subscript a i => by
      simp only [toAstTP, c13ToAstT, ← toAst_eq_table_current a, ← toAst_eq_table_current i, toAst]
      rfl
  | .lookup a _ => by
      simp only [toAstTP, c13ToAstT, ← toAst_eq_table_current a, toAst]
      rfl
  | .cse .. => rfl
  | .subst .. => rfl
  | .deriv .. => rfl
  | .slice cs => by
      simp only [toAstTP, c13ToAstT, ← toAstRuns_eq_table_current cs, toAst, toAstL_eq_seq,
        mkSlice_eq_table]
      rfl
  | .nan => rfl
  | .wildcard => rfl
  | .dotWild _ => rfl
  | .starWild _ => rfl
  | .funcSym => rfl
  | .tuple cs => by
      simp only [toAstTP, c13ToAstT, ← toAstRuns_eq_table_current cs, toAst, toAstL_eq_seq]
      rfl
  | .list cs => by
      simp only [toAstTP, c13ToAstT, ← toAstRuns_eq_table_current cs, toAst, toAstL_eq_seq]
      rfl
/-- the suspended recursive calls on the elements of a tuple-valued attribute agree -/
theorem toAstRuns_eq_table_current : ∀ cs : List Expr,
    c13ModelRunsP cs
      = c13ToAstRunsT (M := Except AErr) c13LiftId classesCurrent toTableCurrent c13NoMemo cs
  | [] => rfl
  | c :: cs => by
      simp only [c13ModelRunsP, c13ToAstRunsT, ← toAst_eq_table_current c,
        toAstRuns_eq_table_current cs]
end

example : toAstTP (.nary .sum [.var "a", .const (.int (-2)), .var "c"])
    = .ok (.binop (.name "a") .add (.binop (.unop .usub (.const (.int 2))) .add (.name "c"))) := rfl

mutual
/-- **The exporter AS CODED (a `CachedMapper`) is the regenerated table, run**: the same handlers
in the state-passing reading, every `self.rec(child)` wrapped in the memo protocol
(`withAstCache`: key hashed, hit returned, result stored), for every expression and every state
of the memo table.  This is the function the driver executes for the `to-ast` stream. -/
theorem toAstNode_eq_table_current : ∀ e : Expr, toAstNode e = toAstTC e
  | .const c => by
      cases c with
      | int n =>
        show AstM.lift (constToAst (.int n)) = (match (some (decide (n < 0)) : Option Bool) with
          | some true => AstM.lift (pure (PyAst.unop .usub (.const (.int (-n)))))
          | some false => AstM.lift (pure (PyAst.const (.int n)))
          | none => AstM.lift (throw .noClaim))
        by_cases h : n < 0 <;> simp [constToAst, h]
      | bool b => rfl
      | flt r n d =>
        show AstM.lift (constToAst (.flt r n d))
          = (match (some (decide ((d = 0 ∧ r = "-inf") ∨ (d ≠ 0 ∧ n < 0))) : Option Bool) with
          | some true => AstM.lift (pure (PyAst.unop .usub (.const (.flt (r.drop 1).toString (-n) d))))
          | some false => AstM.lift (pure (PyAst.const (.flt r n d)))
          | none => AstM.lift (throw .noClaim))
        by_cases h : (d = 0 ∧ r = "-inf") ∨ (d ≠ 0 ∧ n < 0) <;> simp only [constToAst, h] <;> rfl
      | str s => rfl
      | none => rfl
  | .var _ => rfl
  | .nary o cs => by
      simp only [toAstTC, c13ToAstT, ← toAstRunsC_eq_table_current cs]
      cases o <;> simp only [toAstNode, toAstCL_eq_seq, foldBin_eq_table] <;> rfl
  | .bin o a b => by
      simp only [toAstTC, c13ToAstT, ← toAstNode_eq_table_current a, ← toAstNode_eq_table_current b,
        toAstNode]
      show (withAstCache a (toAstNode a) >>= fun x => withAstCache b (toAstNode b) >>= fun y =>
        AstM.pure (PyAst.binop x o.pyBin y)) = _
      rw [← seq2_fold_astM]
      cases o <;> rfl
  | .un o a => by
      simp only [toAstTC, c13ToAstT, ← toAstNode_eq_table_current a]
      cases o <;> simp only [toAstNode] <;> rfl
  | .cmp .. => rfl
  | .ite c t e => by
      simp only [toAstTC, c13ToAstT, ← toAstNode_eq_table_current c, ← toAstNode_eq_table_current t,
        ← toAstNode_eq_table_current e, toAstNode]
      rfl
  | .call f as => by
      simp only [toAstTC, c13ToAstT, ← toAstNode_eq_table_current f,
        ← toAstRunsC_eq_table_current as, toAstNode, toAstCL_eq_seq]
      rfl
  | .callKw f as ns vs => by
      simp only [toAstTC, c13ToAstT, ← toAstNode_eq_table_current f,
        ← toAstRunsC_eq_table_current as, ← toAstRunsC_eq_table_current vs, toAstNode,
        toAstCL_eq_seq, mapIdxM_eq, toAstCNth_eq_run]
      rfl
  | .subscript a i => by
      simp only [toAstTC, c13ToAstT, ← toAstNode_eq_table_current a, ← toAstNode_eq_table_current i,
        toAstNode]
      rfl
  | .lookup a _ => by
      simp only [toAstTC, c13ToAstT, ← toAstNode_eq_table_current a, toAstNode]
      rfl
  | .cse .. => rfl
  | .subst .. => rfl
  | .deriv .. => rfl
  | .slice cs => by
      simp only [toAstTC, c13ToAstT, ← toAstRunsC_eq_table_current cs, toAstNode, toAstCL_eq_seq,
        liftMkSlice_eq_table]
      rfl
  | .nan => rfl
  | .wildcard => rfl
  | .dotWild _ => rfl
  | .starWild _ => rfl
  | .funcSym => rfl
  | .tuple cs => by
      simp only [toAstTC, c13ToAstT, ← toAstRunsC_eq_table_current cs, toAstNode, toAstCL_eq_seq]
      rfl
  | .list cs => by
      simp only [toAstTC, c13ToAstT, ← toAstRunsC_eq_table_current cs, toAstNode, toAstCL_eq_seq]
      rfl
/-- the suspended, memoized recursive calls on the elements of a tuple-valued attribute agree -/
theorem toAstRunsC_eq_table_current : ∀ cs : List Expr,
    c13ModelRunsC cs = c13ToAstRunsT (M := AstM) AstM.lift classesCurrent toTableCurrent withAstCache cs
  | [] => rfl
  | c :: cs => by
      simp only [c13ModelRunsC, c13ToAstRunsT, ← toAstNode_eq_table_current c,
        toAstRunsC_eq_table_current cs]
end

/-- **`to_python_ast(expr)`**: a fresh instance of the mapper class the source names, called on the
expression — `toAstC` is the table interpreter started from the empty memo table -/
theorem toAstC_eq_table_current (e : Expr) :
    toAstC e = c13ToPythonAstT classesCurrent toTableCurrent e := by
  simp only [toAstC, c13ToPythonAstT, ← toAstNode_eq_table_current]
  rfl

example : c13ToPythonAstT classesCurrent toTableCurrent (.bin .pow (.const (.int (-2))) (.var "a"))
    = .ok (.binop (.unop .usub (.const (.int 2))) .pow (.name "a")) := rfl

/-! ## C. `CompileMapper` -/

/-- **The class body of `CompileMapper` in the current source**: `map_constant` (numpy-scalar
normalisation, `repr`, parenthesised iff not already wrapped, a sign in the text and the context
tighter than a sum), `map_common_subexpression` (the child at the enclosing precedence),
`rec_with_force_parens_around` (looks through the wrappers, then the base class's), the two
printers outside the tree model, `map_foreign` (the base class's) -/
theorem compile_mapper_overrides_current : compileMapperCurrent =
    { bases := ["StringifyMapper"],
      overrides := [
        ("map_constant", .constant true "repr" constCondExpected true false),
        ("map_common_subexpression", .recChild "child" true),
        ("rec_with_force_parens_around",
          .peelThenBase "CommonSubexpression" "child" "StringifyMapper" "rec_with_force_parens_around"),
        ("map_polynomial", .outside), ("map_numpy_array", .outside),
        ("map_foreign", .callBase "StringifyMapper" "map_foreign")] } := by decide

/-- the two parameters of the stringifier model these rows amount to -/
theorem printer_current (S : PrintPrec) :
    c13PrinterOf compileMapperCurrent S = some (c13ConstT S "repr" constCondExpected true false, true) :=
  rfl

/-- **`constPiecesRepr` is the `map_constant` row, run**, for every constant and enclosing
precedence (the text predicates on `repr(c)`: an int contains `-` iff negative, a float's `repr` is
part of the constant, no modelled text starts with a parenthesis) -/
theorem constPieces_eq_table_current (S : PrintPrec) (c : Const) (enc : Nat) :
    (c13PrinterOf compileMapperCurrent S).map (fun p => p.1 c enc) = some (constPiecesRepr S c enc) := by
  rw [printer_current, constPiecesRepr_eq_table]; rfl

/-- **The compile printer is the stringifier model with the overrides of the current class
body**: `CompileMapper()(e, enc)` as the table says = `strG` with the constant printer and the
common-subexpression handling the model was written with -/
theorem strG_eq_table_current (S : PrintPrec) (e : Expr) (enc : Nat) :
    strG S (constPiecesRepr S) true e enc = c13StrT compileMapperCurrent S e enc := by
  simp only [c13StrT, printer_current, constPiecesRepr_eq_table]

/-- `compilePieces` = the printer of the current class body at `PREC_NONE` -/
theorem compilePieces_eq_table_current (S : PrintPrec) (e : Expr) :
    compilePieces S e = c13StrT compileMapperCurrent S e S.none :=
  strG_eq_table_current S e S.none

example : (c13StrT compileMapperCurrent Generated.printPrec
    (.bin .pow (.const (.int (-2))) (.cse (.var "a") none "")) Generated.printPrec.none).map render
    = .ok "(-2)**a" := by decide

/-- WHAT AN EDIT DOES: a class body that drops `rec_with_force_parens_around` but keeps
`map_common_subexpression` (the first, rejected version of the repair) is not a printer the model
can express: the interpreter refuses, and `strG_eq_table_current` fails for that table -/
theorem cse_without_peel_table_cex :
    c13PrinterOf { compileMapperCurrent with overrides :=
      [("map_common_subexpression", .recChild "child" true)] } Generated.printPrec = none := rfl

/-! ## D. `CompiledExpression` -/

/-- the flags `DependencyMapper(composite_leaves=False)` ends up with, from the `__init__` table
of C09 -/
theorem compile_dep_flags_current :
    c09InitFlags Generated.c09DepInit {} (some false) = compileDepFlags := rfl

/-- **`CompiledExpression` of the current source, statement by statement** -/
theorem compiled_protocol_current : compiledCurrent =
    { initNoneDefault := true, initCallsCompile := true,
      compile := [
        .storeExpr "_Expression", .storeVars "_Variables" true, .ctxFromContext true,
        .ctxTryImport "numpy", .depsOf "DependencyMapper" (some false) "_Expression",
        .minusAttrSet "_Variables", .minusCtxVars, .toList, .sortByName, .allVars .listed .used,
        .body "CompileMapper" "_Expression" "PREC_NONE", .lambdaText ["lambda ", ": ", ""] ",",
        .evalCode "_code"],
      getstate := [.attr "_Expression", .attr "_Variables"],
      setstateCompileStar := true, callCodeStar := some "_code", contextKeys := ["math"] } := by
  decide

/-- **`compileModel` is `_compile` of the current source, run**: for every expression and every
list of listed variables — free-variable discovery (`DependencyMapper(composite_leaves=False)`),
the listed variables and the names bound in the eval globals (`context()` plus `numpy`) removed,
the rest sorted by name, `listed + rest` (listed FIRST), the body printed by `CompileMapper` at
`PREC_NONE` (class body of section C), errors in statement order. -/
theorem compileModel_eq_table_current (S : PrintPrec) (e : Expr) (listed : List String) :
    compileModel S e listed
      = c13CompileT Generated.c09DepInit (c13Printers compileMapperCurrent S) compiledCurrent S e
          listed := by
  rw [compileT_unfold, ← compilePieces_eq_table_current]
  simp only [compileModel, compileStr]
  cases deps compileDepFlags e with
  | error err => rfl
  | ok used =>
    cases compilePieces S e with
    | error err => rfl
    | ok ps =>
      simp [argOrder, contextNames, List.filter_filter, Except.map, pure, Except.pure, Bool.and_comm]

example : (c13CompileT Generated.c09DepInit (c13Printers compileMapperCurrent Generated.printPrec)
    compiledCurrent Generated.printPrec (.nary .sum [.var "b", .var "math", .var "a", .var "z"]) ["z"]).map
    (fun c => (c.args, c.src)) = .ok (["z", "a", "b"], "b + math + a + z") := by decide

/-- WHAT AN EDIT DOES: `all_variables = used_variables + self._Variables` puts the listed variables
last -/
theorem listed_last_table_cex :
    let T := { compiledCurrent with compile := compiledCurrent.compile.map fun s =>
      match s with | .allVars _ _ => .allVars .used .listed | s => s }
    (c13CompileT Generated.c09DepInit (c13Printers compileMapperCurrent Generated.printPrec) T
      Generated.printPrec (.nary .sum [.var "a", .var "z"]) ["z"]).map (·.args) = .ok ["a", "z"]
    ∧ (compileModel Generated.printPrec (.nary .sum [.var "a", .var "z"]) ["z"]).map (·.args)
      = .ok ["z", "a"] := by decide

/-- the text handed to `eval` is the format string of the current source, filled -/
theorem lambdaSrc_eq_table_current (c : Compiled) :
    some c.lambdaSrc = c13LambdaT compiledCurrent c.args c.src := by
  simp [c13LambdaT, compiledCurrent, Generated.c13CompiledTable, Compiled.lambdaSrc, List.find?]

/-- **the pickled state of the current source is (expression, listed variables)** -/
theorem getstate_eq_table_current (c : Compiled) :
    some c.getstate = c13GetstateT compiledCurrent c := by
  simp [c13GetstateT, compiledCurrent, Generated.c13CompiledTable, Compiled.getstate, c13ExprAttr,
    c13VarsAttr, List.findSome?]

/-- **`__setstate__` of the current source compiles the state again** -/
theorem setstate_eq_table_current (S : PrintPrec) (st : Expr × List String) :
    setstate S st
      = c13SetstateT Generated.c09DepInit (c13Printers compileMapperCurrent S) compiledCurrent S st := by
  simp only [setstate, c13SetstateT, compileModel_eq_table_current]
  rfl

/-- WHAT AN EDIT DOES: `return self._Expression, []` forgets the listed variables -/
theorem getstate_drops_vars_table_cex :
    let T := { compiledCurrent with getstate := [.attr "_Expression", .emptyList] }
    let c : Compiled := { expr := .var "a", vars := ["z", "a"], args := ["z", "a"], src := "a" }
    c13GetstateT T c = some (.var "a", []) ∧ c.getstate = (.var "a", ["z", "a"]) := by decide

/-! ## E. `to_evaluatable_python_function` -/

/-- what the current source does before `ast.unparse` -/
theorem func_source_current : funcSrcCurrent =
    { depMapper := "CachedDependencyMapper", compositeLeaves := some false, namesSortedSet := true,
      kwonlyOnly := true, bodyReturnsToPythonAst := true, nameFromArg := true,
      unparse := "ast.unparse" } := by decide

/-- **the keyword-only signature and the returned expression are the table's**: names of the free
variables (`composite_leaves=False`), as a sorted set; the body is `to_python_ast(expr)` -/
theorem funcSig_eq_table_current (e : Expr) :
    funcSigModel e
      = c13FuncSigT Generated.c09DepInit classesCurrent toTableCurrent funcSrcCurrent e := by
  simp only [funcSigModel, c13FuncSigT, ← toAstC_eq_table_current]
  rfl

/-! ## The C13 theorems, about the regenerated tables -/

/-- **What the current source says preserves the value**: the AST the regenerated handler table
builds for `e` means what the evaluator computes, on the fragment `AstOk`
(`toAst_value` transported along `toAst_eq_table_current`). -/
theorem toAst_value_current (env : Env) (e : Expr) (a : PyAst) (h : toAstTP e = .ok a)
    (hok : AstOk env e) : denAst env a = den env e :=
  toAst_value env e a (by rw [toAst_eq_table_current]; exact h) hok

/-- **Export then import with the two regenerated tables gives the expression back, up to binary
nesting** (`fromAst_toAst` transported) -/
theorem fromAst_toAst_current (e : Expr) (a : PyAst) (h : toAstTP e = .ok a) (hok : RtOk e) :
    ∃ e', c13FromAstT fromTableCurrent a = .ok e' ∧ flattenNest e' = flattenNest e := by
  rw [← fromAst_eq_table_current]
  exact fromAst_toAst e a (by rw [toAst_eq_table_current]; exact h) hok

/-- **Argument order of the current `_compile`**: whatever the table run returns stores the
expression and the listed variables and has the argument list `listed ++ tail`, the tail strictly
increasing and exactly the free variables that are neither listed nor context names
(`compile_args` transported) -/
theorem compile_args_current (S : PrintPrec) (e : Expr) (listed : List String) (c : Compiled)
    (h : c13CompileT Generated.c09DepInit (c13Printers compileMapperCurrent S) compiledCurrent S e
      listed = .ok c) :
    c.expr = e ∧ c.vars = listed ∧ ∃ tail, c.args = listed ++ tail ∧ tail.Pairwise (· < ·) ∧
      ∀ x, x ∈ tail ↔ (x ∈ C09.fv e ∧ x ∉ listed ∧ x ∉ contextNames) :=
  compile_args S e listed c (by rw [compileModel_eq_table_current]; exact h)

/-- **Pickling with the current `__getstate__` / `__setstate__`**: the state the table names, fed
to the table's `__setstate__`, compiles to the same object (`pickle_same` transported) -/
theorem pickle_same_current (S : PrintPrec) (e : Expr) (listed : List String) (c : Compiled)
    (h : c13CompileT Generated.c09DepInit (c13Printers compileMapperCurrent S) compiledCurrent S e
      listed = .ok c) :
    (c13GetstateT compiledCurrent c).map
      (c13SetstateT Generated.c09DepInit (c13Printers compileMapperCurrent S) compiledCurrent S)
      = some (.ok c) := by
  rw [← getstate_eq_table_current, Option.map_some, ← setstate_eq_table_current]
  exact congrArg some (pickle_same S e listed c (by rw [compileModel_eq_table_current]; exact h))

example : (c13CompileT Generated.c09DepInit (c13Printers compileMapperCurrent Generated.printPrec)
    compiledCurrent Generated.printPrec (.var "a") ["z"]).isOk = true := by decide

end PV.C13
