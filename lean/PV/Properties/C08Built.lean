import PV.Properties.C08
/-
  C08 — nodes that the substitution BUILDS are not looked up again, and whole-node keys are matched
  whatever their aggregate is.

  `SubstitutionMapper.map_subscript` / `map_lookup` ask `subst_func` about the node AS WRITTEN; when
  there is no entry the node is rebuilt from its substituted children and returned.  The rebuilt node
  may itself be a key of the map (`a[i]` with `{i ↦ j, a[j] ↦ 7}` is rebuilt as `a[j]`): it is NOT
  replaced — substitution is simultaneous, not iterated.
-/
namespace PV.C08
open PV

/-- **A rebuilt subscript is returned as built.**  If the subscript `a[i]` as written has no entry,
the result is the subscript of the substituted children — no matter whether THAT node has an entry
(no hypothesis about `σ.apply` on the rebuilt node). -/
theorem subst_built_subscript (σ : SubstMap) (a i : Expr)
    (h : σ.apply (.subscript a i) = none) :
    (substM σ (.subscript a i)).1 = .subscript (substM σ a).1 (substM σ i).1 := by
  have ha := subst_flag_sound σ a
  have hi := subst_flag_sound σ i
  simp only [substM, h]
  cases hca : (substM σ a).2 <;> cases hci : (substM σ i).2 <;> simp_all

/-- **A rebuilt look-up is returned as built.** -/
theorem subst_built_lookup (σ : SubstMap) (a : Expr) (n : String)
    (h : σ.apply (.lookup a n) = none) :
    (substM σ (.lookup a n)).1 = .lookup (substM σ a).1 n := by
  have ha := subst_flag_sound σ a
  simp only [substM, h]
  cases hca : (substM σ a).2 <;> simp_all

/-- the map `{i ↦ j, a[j] ↦ 7}` -/
def builtσ : SubstMap :=
  { byExpr := [(.var "i", .var "j"), (.subscript (.var "a") (.var "j"), .const (.int 7))] }

/-- non-vacuity: `a[i]` becomes `a[j]` although `a[j]` is a key (a second look-up would give `7`) -/
example : substM builtσ (.subscript (.var "a") (.var "i")) =
    (.subscript (.var "a") (.var "j"), true) := by decide

/-- … while an `a[j]` that is WRITTEN in the expression is replaced: `a[i] + a[j] ↦ a[j] + 7` -/
example : substM builtσ (.nary .sum [.subscript (.var "a") (.var "i"),
      .subscript (.var "a") (.var "j")]) =
    (.nary .sum [.subscript (.var "a") (.var "j"), .const (.int 7)], true) := by decide

/-- the value statement on this input (instance of `eval_subst_keys`): with `a = (10, 20, 30)`,
`i = 0`, `j = 2` the substituted tree evaluates to `a[2] = 30` = the original with `i` bound to the
value of `j` — not to `7`. -/
example :
    den [("a", .tuple [.int 10, .int 20, .int 30]), ("i", .int 0), ("j", .int 2)]
      (substM builtσ (.subscript (.var "a") (.var "i"))).1 = .ok (.int 30) := by rfl

/-- **Substituting the output again is a different function** (witness): on `a[b[i]]` with
`{i ↦ 0, b[0] ↦ 5, a[5] ↦ 100}` the substitution returns `a[b[0]]`; substituting that again gives
`a[5]`, and once more `100`. -/
theorem subst_not_iterated_cex :
    let σ : SubstMap := { byExpr := [(.var "i", .const (.int 0)),
      (.subscript (.var "b") (.const (.int 0)), .const (.int 5)),
      (.subscript (.var "a") (.const (.int 5)), .const (.int 100))] }
    let e : Expr := .subscript (.var "a") (.subscript (.var "b") (.var "i"))
    (substM σ e).1 = .subscript (.var "a") (.subscript (.var "b") (.const (.int 0))) ∧
    (substM σ (substM σ e).1).1 = .subscript (.var "a") (.const (.int 5)) ∧
    (substM σ (substM σ (substM σ e).1).1).1 = .const (.int 100) := by decide

/-- **Whole-node keys are matched whatever their aggregate is**: the aggregate of the key
`a[i][j]` is itself a subscript, that of `o.pos.x` a look-up (instances of
`subst_simultaneous_subscript` / `_lookup`, which put no condition on the aggregate). -/
example :
    let σ : SubstMap := { byExpr := [(.subscript (.subscript (.var "a") (.var "i")) (.var "j"), .var "y"),
      (.lookup (.lookup (.var "o") "pos") "x", .nary .sum [.var "x", .var "y"])] }
    substM σ (.nary .sum [.subscript (.subscript (.var "a") (.var "i")) (.var "j"),
        .lookup (.lookup (.var "o") "pos") "x",
        .subscript (.subscript (.var "a") (.var "i")) (.const (.int 0))]) =
      (.nary .sum [.var "y", .nary .sum [.var "x", .var "y"],
        .subscript (.subscript (.var "a") (.var "i")) (.const (.int 0))], true) := by decide

end PV.C08
