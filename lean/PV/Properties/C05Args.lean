import PV.Model.MemoArgs
import PV.Proofs.MemoTable
import PV.Generated.Caching
/-
  C05 — "results are never shared between calls with different extra arguments", for extra
  arguments that are arbitrary hashable VALUES (constants and nested tuples; PV/Model/MemoArgs.lean).

  The defects this file is about are cache keys that confuse DIFFERENT combinations of extra
  arguments: a positional `("k", 7)` pair with the keyword argument `k=7` (a key that splices the
  keyword items into the positional tuple), `(1, 2)` passed as one argument with `1, 2`, an empty
  tuple / `None` with no argument.  The stock key `(type(expr), expr, args, immutabledict(kwargs))`
  keeps the boundary between positional and keyword arguments, the order and the nesting of the
  positional ones; it identifies exactly the calls Python calls equal (same positional tuple under
  `==`, same keyword mapping — in any order).
-/
namespace PV.C05
open PV PV.Memo PV.Generated

/-! ### scalar arguments are the special case -/

theorem pyEqL_consts (as bs : List Const) :
    Expr.pyEqL (as.map .const) (bs.map .const) = constsEq as bs := by
  induction as generalizing bs with
  | nil => cases bs <;> simp [Expr.pyEqL, constsEq]
  | cons a as ih =>
    cases bs with
    | nil => simp [Expr.pyEqL, constsEq]
    | cons b bs => simp [Expr.pyEqL, constsEq, Expr.pyEq, ih]

theorem kwLookupV_consts (n : String) (kws : List (String × Const)) :
    kwLookupV n (kws.map fun p => (p.1, Expr.const p.2)) = (kwLookup n kws).map .const := by
  induction kws with
  | nil => simp [kwLookupV, kwLookup]
  | cons p kws ih =>
    obtain ⟨m, v⟩ := p
    by_cases h : m = n <;> simp [kwLookupV, kwLookup, h, ih]

theorem kwEqV_consts (a b : List (String × Const)) :
    kwEqV (a.map fun p => (p.1, Expr.const p.2)) (b.map fun p => (p.1, Expr.const p.2))
      = kwEq a b := by
  simp only [kwEqV, kwEq, List.length_map, List.all_map]
  congr 1
  apply List.all_congr rfl
  simp only [Function.comp, kwLookupV_consts]
  intro p
  cases kwLookup p.1 b <;> simp [Expr.pyEq]

/-- **The keys of Memo.lean are the special case** of scalar arguments: on them the key equalities
of this file are `Key.eq` / `Key.cseEq` (the `keq` of every `cachedSpec` / `cseMixinSpec`, about
which the transparency and at-most-once theorems of C05.lean speak). -/
theorem keyV_extends_key (a b : Key) :
    KeyV.eq a.toV b.toV = Key.eq a b ∧ KeyV.cseEq a.toV b.toV = Key.cseEq a b := by
  constructor
  · simp [KeyV.eq, Key.eq, Key.toV, ArgKey.toV, ArgKeyV.pyEq, ArgKey.pyEq, pyEqL_consts,
      kwEqV_consts]
  · simp [KeyV.cseEq, Key.cseEq, Key.toV, ArgKey.toV, Expr.pyEqL, pyEqL_consts]

/-! ### what an equal key says about the extra arguments -/

theorem pyEqL_length {as bs : List Expr} (h : Expr.pyEqL as bs = true) : as.length = bs.length := by
  induction as generalizing bs with
  | nil => cases bs <;> simp_all [Expr.pyEqL]
  | cons a as ih =>
    cases bs with
    | nil => simp [Expr.pyEqL] at h
    | cons b bs =>
      simp only [Expr.pyEqL, Bool.and_eq_true] at h
      simp [ih h.2]

/-- **The key keeps the boundary between positional and keyword arguments.**  Two calls with the
same key have the same NUMBER of positional and of keyword arguments, the positional ones are
pairwise `==` IN ORDER, and every keyword of the one is bound in the other to an `==` value.  So no
positional argument is ever taken for a keyword item, a nested tuple for its elements, or an empty
argument for a missing one. -/
theorem key_keeps_argument_boundary (a b : KeyV) (h : KeyV.eq a b = true) :
    a.args.args.length = b.args.args.length ∧
    a.args.kwargs.length = b.args.kwargs.length ∧
    Expr.pyEqL a.args.args b.args.args = true ∧
    ∀ p ∈ a.args.kwargs, ∃ w, kwLookupV p.1 b.args.kwargs = some w ∧ p.2.pyEq w = true := by
  simp only [KeyV.eq, ArgKeyV.pyEq, kwEqV, Bool.and_eq_true, beq_iff_eq, List.all_eq_true] at h
  obtain ⟨_, hp, hl, hk⟩ := h
  refine ⟨pyEqL_length hp, hl, hp, ?_⟩
  intro p hp'
  have := hk p hp'
  cases hw : kwLookupV p.1 b.args.kwargs with
  | none => simp [hw] at this
  | some w => exact ⟨w, rfl, by simpa [hw] using this⟩

/-- a positional `(name, value)` pair is never the keyword argument `name=value` (whatever the
other positional arguments, the expression and the value are) -/
theorem positional_pair_is_not_keyword (e e' : Expr) (as : List Expr) (n : String) (v : Expr) :
    KeyV.eq ⟨e, ⟨as ++ [.tuple [.const (.str n), v]], []⟩⟩ ⟨e', ⟨as, [(n, v)]⟩⟩ = false ∧
    KeyV.eq ⟨e, ⟨as, [(n, v)]⟩⟩ ⟨e', ⟨as ++ [.tuple [.const (.str n), v]], []⟩⟩ = false := by
  constructor <;>
  · apply Bool.eq_false_iff.mpr
    intro h
    have := (key_keeps_argument_boundary _ _ h).2.1
    simp at this

/-- a tuple passed as ONE argument is never its elements passed one by one (unless it has exactly
one element, where the two calls differ by `x` / `(x,)`) -/
theorem nested_is_not_flat (e e' : Expr) (xs : List Expr) (kw kw' : List (String × Expr))
    (h : xs.length ≠ 1) :
    KeyV.eq ⟨e, ⟨[.tuple xs], kw⟩⟩ ⟨e', ⟨xs, kw'⟩⟩ = false := by
  apply Bool.eq_false_iff.mpr
  intro hk
  have := (key_keeps_argument_boundary _ _ hk).1
  simp at this
  omega

/-- an argument that is present — `()`, `None`, `""`, anything — is never a missing one, neither
as a positional nor as a keyword argument -/
theorem present_is_not_missing (e e' : Expr) (as : List Expr) (kw : List (String × Expr))
    (n : String) (x : Expr) :
    KeyV.eq ⟨e, ⟨as ++ [x], kw⟩⟩ ⟨e', ⟨as, kw⟩⟩ = false ∧
    KeyV.eq ⟨e, ⟨x :: as, kw⟩⟩ ⟨e', ⟨as, kw⟩⟩ = false ∧
    KeyV.eq ⟨e, ⟨as, (n, x) :: kw⟩⟩ ⟨e', ⟨as, kw⟩⟩ = false := by
  refine ⟨?_, ?_, ?_⟩ <;>
  · apply Bool.eq_false_iff.mpr
    intro h
    have h1 := (key_keeps_argument_boundary _ _ h).1
    have h2 := (key_keeps_argument_boundary _ _ h).2.1
    simp at h1 h2

theorem kwLookupV_of_mem {kw : List (String × Expr)} (hn : (kw.map (·.1)).Nodup)
    {p : String × Expr} (hp : p ∈ kw) : kwLookupV p.1 kw = some p.2 := by
  induction kw with
  | nil => simp at hp
  | cons q kw ih =>
    obtain ⟨m, w⟩ := q
    simp only [List.map_cons, List.nodup_cons, List.mem_map, not_exists, not_and] at hn
    rcases List.mem_cons.mp hp with rfl | hp'
    · simp [kwLookupV]
    · have : m ≠ p.1 := fun hm => hn.1 p hp' hm.symm
      simp [kwLookupV, this, ih hn.2 hp']

/-- **Equal calls share one key**: the same keyword arguments passed in ANOTHER ORDER are the same
key (with the same expression and positional arguments; `e`, `as` and the values self-equal, i.e.
no NaN) — the later call is a hit, which is what "each distinct (expression, arguments) key is
computed at most once" needs. -/
theorem kwargs_order_irrelevant (e : Expr) (as : List Expr) (kw kw' : List (String × Expr))
    (hp : kw.Perm kw') (hn : (kw.map (·.1)).Nodup) (he : e.pyEq e = true)
    (ha : Expr.pyEqL as as = true) (hv : ∀ p ∈ kw, p.2.pyEq p.2 = true) :
    KeyV.eq ⟨e, ⟨as, kw⟩⟩ ⟨e, ⟨as, kw'⟩⟩ = true := by
  have hn' : (kw'.map (·.1)).Nodup := (hp.map _).nodup_iff.mp hn
  simp only [KeyV.eq, Expr.keyEq, ArgKeyV.pyEq, kwEqV, he, ha, hp.length_eq, beq_self_eq_true,
    Bool.true_and, List.all_eq_true]
  intro p hpm
  rw [kwLookupV_of_mem hn' (hp.mem_iff.mp hpm)]
  exact hv p hpm

/-- the shapes a sloppy key confuses, on `x` (non-vacuity of the theorems above, and the pairs the
`argkeys` / `keyeq-args` streams replay on the real code): `m(x, ("scale", 2))` / `m(x, scale=2)`,
`m(x, 1, ("k", 7))` / `m(x, 1, k=7)`, `m(x, (1, 2))` / `m(x, 1, 2)`, `m(x, 1, 2)` / `m(x, 2, 1)`,
`m(x, 1)` / `m(x, "1")`, `m(x, ())` / `m(x)`, `m(x, None)` / `m(x)`, `m(x, k=None)` / `m(x)`,
`m(x, a=1, b=2)` / `m(x, a=2, b=1)`, `m(x, k=1)` / `m(x, l=1)`, `m(x, 1)` / `m(x, k=1)` have
different keys; `m(x, a=1, b=2)` / `m(x, b=2, a=1)` have ONE key. -/
theorem key_separates_argument_shapes :
    let x : Expr := .var "x"
    let i (n : Int) : Expr := .const (.int n)
    let s (t : String) : Expr := .const (.str t)
    KeyV.eq ⟨x, ⟨[.tuple [s "scale", i 2]], []⟩⟩ ⟨x, ⟨[], [("scale", i 2)]⟩⟩ = false ∧
    KeyV.eq ⟨x, ⟨[i 1, .tuple [s "k", i 7]], []⟩⟩ ⟨x, ⟨[i 1], [("k", i 7)]⟩⟩ = false ∧
    KeyV.eq ⟨x, ⟨[.tuple [i 1, i 2]], []⟩⟩ ⟨x, ⟨[i 1, i 2], []⟩⟩ = false ∧
    KeyV.eq ⟨x, ⟨[i 1, i 2], []⟩⟩ ⟨x, ⟨[i 2, i 1], []⟩⟩ = false ∧
    KeyV.eq ⟨x, ⟨[i 1], []⟩⟩ ⟨x, ⟨[s "1"], []⟩⟩ = false ∧
    KeyV.eq ⟨x, ⟨[i 1], []⟩⟩ ⟨x, ⟨[.tuple [i 1]], []⟩⟩ = false ∧
    KeyV.eq ⟨x, ⟨[.tuple []], []⟩⟩ ⟨x, ⟨[], []⟩⟩ = false ∧
    KeyV.eq ⟨x, ⟨[.const .none], []⟩⟩ ⟨x, ⟨[], []⟩⟩ = false ∧
    KeyV.eq ⟨x, ⟨[], [("k", .const .none)]⟩⟩ ⟨x, ⟨[], []⟩⟩ = false ∧
    KeyV.eq ⟨x, ⟨[], [("a", i 1), ("b", i 2)]⟩⟩ ⟨x, ⟨[], [("a", i 2), ("b", i 1)]⟩⟩ = false ∧
    KeyV.eq ⟨x, ⟨[], [("k", i 1)]⟩⟩ ⟨x, ⟨[], [("l", i 1)]⟩⟩ = false ∧
    KeyV.eq ⟨x, ⟨[i 1], []⟩⟩ ⟨x, ⟨[], [("k", i 1)]⟩⟩ = false ∧
    KeyV.eq ⟨x, ⟨[], [("a", i 1), ("b", i 2)]⟩⟩ ⟨x, ⟨[], [("b", i 2), ("a", i 1)]⟩⟩ = true := by
  decide

/-- As for the scalars of Memo.lean, the TYPES of extra arguments are not part of the key, at any
depth: `m(x, (1, 2))` and `m(x, (True, 2.0))` look up the same entry (`(1, 2) == (True, 2.0)`). -/
example : KeyV.eq ⟨.var "x", ⟨[.tuple [.const (.int 1), .const (.int 2)]], []⟩⟩
    ⟨.var "x", ⟨[.tuple [.const (.bool true), .const (.flt "2.0" 2 1)]], []⟩⟩ = true := by
  decide

/-- **A flat key shares results between different calls** (the defect class of this file): with
`(type(expr), expr, *args, *sorted(kwargs.items()))` the calls `m(x, ("scale", 2))` and
`m(x, scale=2)` — and `m(x, 1, ("k", 7))` and `m(x, 1, k=7)` — have ONE key although their extra
arguments differ: the second call is answered from the entry of the first. -/
theorem flat_key_confuses_positional_keyword_cex :
    ∃ a b : KeyV, KeyV.flatEq a b = true ∧ KeyV.eq a b = false ∧
      a.args.args.length ≠ b.args.args.length := by
  refine ⟨⟨.var "x", ⟨[.const (.int 1), .tuple [.const (.str "k"), .const (.int 7)]], []⟩⟩,
          ⟨.var "x", ⟨[.const (.int 1)], [("k", .const (.int 7))]⟩⟩, ?_, ?_, ?_⟩ <;> decide

/-! ### the key of the current source, read on argument values -/

theorem tupleEqV_exprs (as bs : List Expr) :
    tupleEqV (as.map KValV.expr) (bs.map KValV.expr) = Expr.pyEqL as bs := by
  induction as generalizing bs with
  | nil => cases bs <;> simp [tupleEqV, Expr.pyEqL]
  | cons a as ih =>
    cases bs with
    | nil => simp [tupleEqV, Expr.pyEqL]
    | cons b bs => simp [tupleEqV, Expr.pyEqL, KValV.eq, ih]

/-- **The cache key of the current source, on arbitrary argument values.**  Python's `==` on the
tuples the regenerated `get_cache_key` builds for two calls is `KeyV.eq`: the positional arguments
are ONE component (a tuple), the keyword arguments another (a mapping).  A key that splices either
into the enclosing tuple changes the regenerated table and breaks this theorem (and
`key_shape_current`). -/
theorem key_shape_current_args (a b : KeyV) :
    c05TupleEqV c05GetCacheKey.items a b = KeyV.eq a b := by
  have h : c05GetCacheKey = c05ExpectedGetKey := by decide
  rw [h]
  simp [c05ExpectedGetKey, Code.stock, c05TupleEqV, c05KeyValsV, tupleEqV, KValV.eq, KeyV.eq,
    Expr.keyEq, ArgKeyV.pyEq, Bool.and_assoc]

/-- **The key of the CSE mix-in in the current source, on arbitrary argument values**, is
`KeyV.cseEq`: `(expr, *args)` — flat, but the method takes no keyword arguments, so there is nothing
the positional ones could be confused with. -/
theorem cse_key_shape_current_args (a b : KeyV) :
    c05TupleEqV c05CseMixinKey a b = KeyV.cseEq a b := by
  have h : c05CseMixinKey = [.part .expr, .splatArgs] := by decide
  rw [h]
  simp [c05TupleEqV, c05KeyValsV, tupleEqV, KValV.eq, KeyV.cseEq, Expr.pyEqL, tupleEqV_exprs]

/-- the regenerated key separates a positional pair from a keyword argument; the same tuple with
the positional arguments spliced in (`*args` for `args`) and no keyword component does not -/
example :
    let a : KeyV := ⟨.var "x", ⟨[.tuple [.const (.int 1), .const (.int 2)]], []⟩⟩
    let b : KeyV := ⟨.var "x", ⟨[.const (.int 1), .const (.int 2)], []⟩⟩
    c05TupleEqV c05GetCacheKey.items a b = false ∧
    c05TupleEqV c05GetCacheKey.items
      ⟨.var "x", ⟨[.tuple [.const (.str "k"), .const (.int 7)]], []⟩⟩
      ⟨.var "x", ⟨[], [("k", .const (.int 7))]⟩⟩ = false := by
  decide

/-! ### renaming the extra arguments of a history -/

/-- the index of the first related element identifies the class, for an equivalence relation -/
theorem firstIdx_eq_iff {α : Type} (r : α → α → Bool) (cs : List α) (a b : α)
    (hs : ∀ x y, r x y = true → r y x = true)
    (ht : ∀ x y z, r x y = true → r y z = true → r x z = true)
    (ha : ∃ c ∈ cs, r c a = true) (hb : ∃ c ∈ cs, r c b = true) :
    (firstIdx r a cs = firstIdx r b cs) ↔ r a b = true := by
  induction cs with
  | nil => simp at ha
  | cons c cs ih =>
    simp only [firstIdx]
    by_cases hca : r c a = true
    · by_cases hcb : r c b = true
      · simp only [hca, hcb, if_true, true_iff]
        exact ht _ _ _ (hs _ _ hca) hcb
      · have : r a b ≠ true := fun hab => hcb (ht _ _ _ hca hab)
        simp [hca, hcb, this]
    · by_cases hcb : r c b = true
      · have : r a b ≠ true := fun hab => hca (ht _ _ _ hcb (hs _ _ hab))
        simp [hca, hcb, this]
      · simp only [hca, hcb, if_false, Nat.add_right_cancel_iff, Bool.false_eq_true]
        apply ih
        · obtain ⟨d, hd, hda⟩ := ha
          rcases List.mem_cons.mp hd with rfl | hd'
          · exact absurd hda hca
          · exact ⟨d, hd', hda⟩
        · obtain ⟨d, hd, hdb⟩ := hb
          rcases List.mem_cons.mp hd with rfl | hd'
          · exact absurd hdb hcb
          · exact ⟨d, hd', hdb⟩

/-- **Renaming is faithful.**  On a history whose combinations of extra arguments `cs` are compared
by an equivalence (`==` on numbers, strings, `None` and tuples of these is one, NaN aside), the
renamed calls (`internKey`: one scalar argument, the index of the first `==` combination) have
equal `Key`s exactly when the original calls have equal `KeyV`s: the hit / miss behaviour of the
renamed history under `Key.eq` — what the handler families of Memo.lean and the theorems of
C05.lean are about — is that of the original one under `KeyV.eq`. -/
theorem intern_key_eq (cs : List ArgKeyV) (a b : KeyV)
    (hs : ∀ x y, ArgKeyV.pyEq x y = true → ArgKeyV.pyEq y x = true)
    (ht : ∀ x y z, ArgKeyV.pyEq x y = true → ArgKeyV.pyEq y z = true → ArgKeyV.pyEq x z = true)
    (ha : ∃ c ∈ cs, ArgKeyV.pyEq c a.args = true) (hb : ∃ c ∈ cs, ArgKeyV.pyEq c b.args = true) :
    Key.eq (internKey cs a) (internKey cs b) = KeyV.eq a b := by
  have h := firstIdx_eq_iff ArgKeyV.pyEq cs a.args b.args hs ht ha hb
  simp only [Key.eq, KeyV.eq, internKey, ArgKey.pyEq, constsEq, kwEq, Const.pyEq, Const.numVal?]
  by_cases hab : ArgKeyV.pyEq a.args b.args = true
  · have := h.mpr hab
    simp [hab, this]
  · have : firstIdx ArgKeyV.pyEq a.args cs ≠ firstIdx ArgKeyV.pyEq b.args cs := fun e => hab (h.mp e)
    simp only [Bool.not_eq_true] at hab
    simp [hab]
    omega

end PV.C05
