import PV.Proofs.UnifySound
import PV.Proofs.UnifyCex
import PV.Proofs.UnifySem
import PV.Proofs.UnifyComplete
/-
  C16 — pattern matching results are sound (the one-directional unifier of
  pymbolic/mapper/unifier.py; model: PV/Model/Unify.lean, tied to the code by the `unifier`
  correspondence stream of harness/props/c16.py).

  "Equal up to reordering and regrouping of sums and products" is the inductive congruence `ACEq`
  (PV/Proofs/UnifyAC.lean): Python equality, permutation of the operands of a sum / product, merging
  a nested sum into its parent sum (product into product), a one-operand sum / product is its
  operand — nothing else.

  On the current tree the instantiation law is FALSE in five shapes (each a `…_cex` theorem below,
  each replayed on the real code by the probes of harness/props/c16.py):
    * a sum / product pattern with exactly one free-variable operand against a target with one
      operand fewer: the variable is bound to 0 (to 1 for a product)            — arity guard
    * leftover target operands that are zero-valued (one-valued in a product) are dropped by
      `flattened_sum` / `flattened_product`, a zero factor collapses the share to 0  — target guard
    * an EMPTY sum / product pattern returns a fresh empty record                  — pattern guard
    * a length-1 index tuple is unpacked on either side (`a[x]` matches `a[(b,)]`)   — both guards
  `unify_sound_partial` proves the law for every pattern / target / candidate set outside these
  shapes (the decidable hypothesis `guards`).

  At FULL strength (no guard): `unify_binds_only_candidates`, `unify_functional` (every record binds
  only declared variables, each once) and `unify_complete_renaming` (a renamed copy of the pattern
  is matched, by the renaming).  `acEq_value`: AC-equal trees have equal values; `acEquiv_sound`: the
  executable normal-form test used by the driver (and mirrored by the Python oracle) only accepts
  AC-equal trees.

  Not covered by a theorem (independent oracles of harness/props/c16.py only): the matchpy bridge.
-/
namespace PV.C16
open PV PV.Unify

/-- **Soundness of the one-directional unifier** (all patterns, targets and candidate sets that
satisfy the guards): every record returned binds only candidate variables, binds each of them
once, binds every candidate variable that occurs in the pattern, and instantiating the pattern
with the record gives the target up to reordering and regrouping of sums and products. -/
theorem unify_sound_partial (cands : List String) (pattern target : Expr)
    (hg : guards cands pattern target = true) :
    ∀ r ∈ unify cands pattern target,
      (∀ x ∈ r.lmap.keys, x ∈ cands) ∧ r.lmap.keys.Nodup ∧
      (∀ x ∈ varsOf pattern, x ∈ cands → x ∈ r.lmap.keys) ∧
      ACEq (inst r.lmap pattern) target := by
  intro r hr
  simp only [guards, Bool.and_eq_true] at hg
  obtain ⟨hgood, _, _, _, hs⟩ :=
    unifyE_sound cands (arities target) pattern target [URec.empty] hg.1.1 hg.2
      ⟨List.Subset.refl _, hg.1.2⟩
      (fun u hu => by simp only [List.mem_singleton] at hu; subst hu; exact good_empty cands) r hr
  exact ⟨hgood.1, hgood.2, hs.1, hs.2⟩

/-- the same for a call with any incoming records (`unifier(pattern, target, urecs)`): the result
extends one of the incoming records -/
theorem unify_extends_partial (cands : List String) (pattern target : Expr) (urecs : List URec)
    (hg : guards cands pattern target = true)
    (hu : ∀ u ∈ urecs, (∀ x ∈ u.lmap.keys, x ∈ cands) ∧ u.lmap.keys.Nodup) :
    ∀ r ∈ unifyE cands pattern target urecs,
      ∃ u ∈ urecs, (∀ x v, AMap.get u.lmap x = some v →
          ∃ v', AMap.get r.lmap x = some v' ∧ ACEq v v') ∧
        ACEq (inst r.lmap pattern) target := by
  intro r hr
  simp only [guards, Bool.and_eq_true] at hg
  obtain ⟨_, u, hu', he, hs⟩ :=
    unifyE_sound cands (arities target) pattern target urecs hg.1.1 hg.2
      ⟨List.Subset.refl _, hg.1.2⟩ hu r hr
  exact ⟨u, hu', he, hs.2⟩

/-! ### full strength on ALL inputs: only declared variables are bound, each once -/

/-- **Every record binds only declared pattern variables** (every pattern, target, candidate
set; no guard). -/
theorem unify_binds_only_candidates (cands : List String) (pattern target : Expr) :
    ∀ r ∈ unify cands pattern target, ∀ x ∈ r.lmap.keys, x ∈ cands := by
  intro r hr
  exact (unifyE_good cands pattern target [URec.empty]
    (fun u hu => by simp only [List.mem_singleton] at hu; subst hu; exact good_empty cands) r hr).1

/-- **Every record binds each variable to one value**: the bindings form a function (the keys of
the association list are duplicate-free), for every pattern, target and candidate set. -/
theorem unify_functional (cands : List String) (pattern target : Expr) :
    ∀ r ∈ unify cands pattern target, r.lmap.keys.Nodup := by
  intro r hr
  exact (unifyE_good cands pattern target [URec.empty]
    (fun u hu => by simp only [List.mem_singleton] at hu; subst hu; exact good_empty cands) r hr).2

/-- a record with two bindings, found through the partitioning of the leftovers -/
example : (unify ["x", "y"] (.nary .sum [.var "x", .var "y"])
    (.nary .sum [.var "a", .var "b", .var "c"])).map (fun r => r.lmap.keys) =
    [["x", "y"], ["x", "y"], ["x", "y"], ["x", "y"], ["x", "y"], ["x", "y"]] := by rfl

/-! ### completeness under injective renamings -/

/-- **Whenever the target is the pattern under an injective renaming of its variables, at least
one record is returned** — and one of the records returned is (a piece of) the renaming.  `ρ` is
injective on the variables of the pattern and fixes those that are not candidates; the pattern
lies in the fragment `patC` (int / bool constants, variables, sums, products, binary and unary
operators, comparisons, conditionals, calls, subscripts with expression or tuple index, look-ups;
no guard on empty or one-operand sums: the statement is at full strength on this fragment). -/
theorem unify_complete_renaming (cands : List String) (pattern : Expr) (ρ : String → String)
    (hfrag : patC pattern = true)
    (hinj : ∀ x ∈ varsOf pattern, ∀ y ∈ varsOf pattern, ρ x = ρ y → x = y)
    (hfix : ∀ x ∈ varsOf pattern, x ∉ cands → ρ x = x) :
    ∃ r ∈ unify cands pattern (rename ρ pattern), ∀ p ∈ r.lmap, p.2 = .var (ρ p.1) := by
  obtain ⟨r, hr, hc⟩ := unifyE_complete (V := varsOf pattern) ⟨hinj, hfix⟩ pattern [URec.empty]
    hfrag (fun _ h => h) ⟨URec.empty, by simp, cons_empty _ _⟩
  exact ⟨r, hr, fun p hp => (hc.1 p hp).2⟩

/-- a renamed sum with a repeated variable, a nested product and a non-candidate symbol -/
example :
    let p : Expr := .nary .sum [.var "x", .nary .prod [.var "y", .var "c"], .var "x"]
    (unify ["x", "y"] p (rename (fun v => if v = "x" then "u" else if v = "y" then "x" else v) p)).length
      = 1 := by
  rfl

/-! ### the basic rules (no guard needed) -/

/-- `unify_var`: a candidate variable against anything but a tuple / list binds exactly it (and
notes the target variable it was bound to, if the target is a variable) -/
theorem unify_var_binds (cands : List String) (x : String) (t : Expr) (hx : x ∈ cands)
    (ht : ∀ cs, t ≠ .tuple cs ∧ t ≠ .list cs) :
    unify cands (.var x) t =
      [⟨[(x, t)], match t with | .var y => [(y, .var x)] | _ => []⟩] := by
  cases t with
  | tuple cs => exact absurd rfl (ht cs).1
  | list cs => exact absurd rfl (ht cs).2
  | _ =>
    simp [unify, unifyE, mapVariable, recFromEq, hx, unifyMany, URec.unify, unifyMap,
      unifyMapGo, URec.empty, AMap.get]

/-- a variable that is not a candidate matches only itself, and binds nothing -/
theorem unify_var_literal (cands : List String) (x : String) (hx : x ∉ cands) :
    unify cands (.var x) (.var x) = [URec.empty] ∧
    ∀ t, t ≠ .var x → unify cands (.var x) t = [] := by
  have hrec : ∀ t, recFromEq cands x t = none := by
    intro t; unfold recFromEq; split <;> simp [hx]
  refine ⟨by simp [unify, unifyE, mapVariable, hrec, hx], fun t ht => ?_⟩
  simp only [unify, unifyE, mapVariable, hrec]
  cases t <;> simp
  rename_i y
  intro h; exact absurd (by rw [h]) ht

/-- `unify_map` is the consistency check: a key of both maps must carry `==`-equal values -/
theorem unifyMap_consistent (m1 m2 out : AMap) (h : unifyMap m1 m2 = some out) :
    (∀ x v, AMap.get m1 x = some v → AMap.get out x = some v) ∧
    (∀ x v w, AMap.get m1 x = some v → (x, w) ∈ m2 → v.pyEq w = true) := by
  obtain ⟨added, h1, _, h3, h4⟩ := unifyMapGo_spec m1 m2 m1 out h
  refine ⟨fun x v hv => by rw [h1]; exact AMap.get_append_some hv, fun x v w hv hw => ?_⟩
  rcases h4 (x, w) hw with ⟨v1, hv1, hpy⟩ | hadd
  · simp only at hv1; rw [hv] at hv1; cases hv1; exact hpy
  · have := h3 (x, w) hadd
    simp only at this
    rw [hv] at this; cases this

/-! ### the decision procedure used by the driver and mirrored by the Python oracle -/

/-- the AC normal form stays in the AC class of the tree -/
theorem acNorm_sound (e : Expr) : ACEq e (acNorm e) := acNorm_ac e

/-- `acEquiv` (Python equality of the normal forms) only accepts AC-equal trees -/
theorem acEquiv_sound (a b : Expr) (h : acEquiv a b = true) : ACEq a b :=
  (acNorm_ac a).trans ((ACEq.py h).trans (acNorm_ac b).symm)

/-- `acEquiv` refutes the five witnesses below as well (here: the first) -/
example : acEquiv (.nary .sum [zero, .var "a", .var "b"]) (.nary .sum [.var "a", .var "b"]) = false := by
  rfl
example : acEquiv (.nary .sum [.var "b", .nary .sum [.var "c", .var "a"]])
    (.nary .sum [.nary .sum [.var "a", .var "b"], .var "c"]) = true := by
  rfl

/-! ### AC-equality means equal values -/

section
universe u
variable {K : Type u} [Field K] [CharZero K]

/-- **"Up to reordering and regrouping" is value-preserving**: AC-equal trees have the same value
(`evalC`: sums, products, quotients of ints / bools / exact floats and variables; undefined on both
sides otherwise) in every field of characteristic 0 under every assignment — the exact commutative
arithmetic that `Sum` / `Product` denote on Python ints, bools and Fractions. -/
theorem acEq_value (ρ : String → K) {a b : Expr} (h : ACEq a b) : evalC ρ a = evalC ρ b :=
  ACEq.evalC_eq ρ h

/-- the normal form has the value of the tree -/
theorem acNorm_value (ρ : String → K) (e : Expr) : evalC ρ (acNorm e) = evalC ρ e :=
  (ACEq.evalC_eq ρ (acNorm_ac e)).symm

/-- under the guards, the instantiated pattern has the value of the target -/
theorem unify_value_partial (ρ : String → K) (cands : List String) (pattern target : Expr)
    (hg : guards cands pattern target = true) :
    ∀ r ∈ unify cands pattern target, evalC ρ (inst r.lmap pattern) = evalC ρ target :=
  fun r hr => ACEq.evalC_eq ρ (unify_sound_partial cands pattern target hg r hr).2.2.2
end

/-- `evalC` is not vacuous: the value of `x + 3*y` -/
example {K : Type} [Field K] [CharZero K] (ρ : String → K) :
    evalC ρ (.nary .sum [.var "x", .nary .prod [.const (.int 3), .var "y"]])
      = some (ρ "x" + 3 * ρ "y") := by
  simp [evalC, evalCL, evalConst]

/-! ### the excluded shapes are real: negation witnesses -/

/-- `x + a + b` against `a + b` binds `x := 0`; `0 + a + b` is not `a + b` up to AC -/
theorem unify_sound_emptyLeftover_cex :
    ∃ (cands : List String) (p t : Expr) (r : URec),
      patGuard p = true ∧ tgtGuard t = true ∧ r ∈ unify cands p t ∧ ¬ ACEq (inst r.lmap p) t := by
  refine ⟨["x"], .nary .sum [.var "x", .var "a", .var "b"], .nary .sum [.var "a", .var "b"],
    ⟨[("x", zero)], []⟩, by rfl, by rfl, ?_, fun h => ?_⟩
  · have : unify ["x"] (.nary .sum [.var "x", .var "a", .var "b"])
        (.nary .sum [.var "a", .var "b"]) = [⟨[("x", zero)], []⟩] := by rfl
    rw [this]; simp
  · have := ACEq.cnt_eq (fun _ => 1) 1 0 h
    simp [inst, instL, AMap.get, cnt, cntL, zero] at this

/-- `x + b` against `b + 0 + a` binds `x := a`: the zero operand is lost -/
theorem unify_sound_dropsNeutral_cex :
    ∃ (cands : List String) (p t : Expr) (r : URec),
      patGuard p = true ∧ arityGuard cands (arities t) p = true ∧ r ∈ unify cands p t ∧
      ¬ ACEq (inst r.lmap p) t := by
  refine ⟨["x"], .nary .sum [.var "x", .var "b"], .nary .sum [.var "b", zero, .var "a"],
    ⟨[("x", .var "a")], [("a", .var "x")]⟩, by rfl, by rfl, ?_, fun h => ?_⟩
  · have : unify ["x"] (.nary .sum [.var "x", .var "b"])
        (.nary .sum [.var "b", zero, .var "a"]) = [⟨[("x", .var "a")], [("a", .var "x")]⟩] := by rfl
    rw [this]; simp
  · have := ACEq.cnt_eq (fun _ => 1) 1 0 h
    simp [inst, instL, AMap.get, cnt, cntL, zero] at this

/-- `x * b` against `b * 0 * a` binds `x := 0`: the factor `a` is lost -/
theorem unify_sound_zeroCollapse_cex :
    ∃ (cands : List String) (p t : Expr) (r : URec),
      patGuard p = true ∧ arityGuard cands (arities t) p = true ∧ r ∈ unify cands p t ∧
      ¬ ACEq (inst r.lmap p) t := by
  refine ⟨["x"], .nary .prod [.var "x", .var "b"], .nary .prod [.var "b", zero, .var "a"],
    ⟨[("x", zero)], []⟩, by rfl, by rfl, ?_, fun h => ?_⟩
  · have : unify ["x"] (.nary .prod [.var "x", .var "b"])
        (.nary .prod [.var "b", zero, .var "a"]) = [⟨[("x", zero)], []⟩] := by rfl
    rw [this]; simp
  · have := ACEq.cnt_eq (fun _ => 1) 1 0 h
    simp [inst, instL, AMap.get, cnt, cntL, zero] at this

/-- `f(x, Sum(()))` against `f(a, Sum(()))` returns the EMPTY record: `x` stays unbound -/
theorem unify_sound_emptyNary_cex :
    ∃ (cands : List String) (p t : Expr) (r : URec),
      arityGuard cands (arities t) p = true ∧ r ∈ unify cands p t ∧ ¬ ACEq (inst r.lmap p) t := by
  refine ⟨["x"], .call (.var "f") [.var "x", .nary .sum []],
    .call (.var "f") [.var "a", .nary .sum []], URec.empty, by rfl, ?_, fun h => ?_⟩
  · have : unify ["x"] (.call (.var "f") [.var "x", .nary .sum []])
        (.call (.var "f") [.var "a", .nary .sum []]) = [URec.empty] := by rfl
    rw [this]; simp
  · have := ACEq.cnt_eq (fun y => if y = "x" then 1 else 0) 0 0 h
    simp [inst, instL, AMap.get, cnt, cntL, URec.empty] at this

/-- `a[x]` against `a[(b,)]` binds `x := b`; `a[b]` is not `a[(b,)]` -/
theorem unify_sound_indexTuple_cex :
    ∃ (cands : List String) (p t : Expr) (r : URec),
      patGuard p = true ∧ arityGuard cands (arities t) p = true ∧ r ∈ unify cands p t ∧
      ¬ ACEq (inst r.lmap p) t := by
  refine ⟨["x"], .subscript (.var "a") (.var "x"), .subscript (.var "a") (.tuple [.var "b"]),
    ⟨[("x", .var "b")], [("b", .var "x")]⟩, by rfl, by rfl, ?_, fun h => ?_⟩
  · have : unify ["x"] (.subscript (.var "a") (.var "x"))
        (.subscript (.var "a") (.tuple [.var "b"])) = [⟨[("x", .var "b")], [("b", .var "x")]⟩] := by
      rfl
    rw [this]; simp
  · have := ACEq.cnt_eq (fun _ => 0) 0 1 h
    simp [inst, AMap.get, cnt, cntL] at this

/-! ### non-vacuity -/

/-- the guards hold and a record is returned: `x*2 + y + f(z)` against `f(c) + b + 2*a*d + e`
(`x := a*d`, `y := b + e`, `z := c`: the partition of the leftovers, the nested product and the call
all take part) -/
example :
    let p : Expr := .nary .sum [.nary .prod [.var "x", .const (.int 2)], .var "y",
      .call (.var "f") [.var "z"]]
    let t : Expr := .nary .sum [.call (.var "f") [.var "c"], .var "b",
      .nary .prod [.const (.int 2), .var "a", .var "d"], .var "e"]
    guards ["x", "y", "z"] p t = true ∧ (unify ["x", "y", "z"] p t).length = 1 := by
  constructor <;> rfl

example : guards ["x"] (.nary .sum [.var "x", .var "a", .var "b"])
    (.nary .sum [.var "a", .var "b"]) = false := by rfl

end PV.C16
