import PV.Proofs.UnifySound
import PV.Proofs.UnifyCex
import PV.Proofs.UnifySem
import PV.Proofs.UnifyComplete
import PV.Proofs.MatchpyValue
import PV.Proofs.MatchpyRepl
import PV.Proofs.MatchpyInj
import PV.Proofs.MatchpyWf
import PV.Proofs.MatchpyLogic
import PV.Generated.MatchpyOps
/-
  C16 — pattern matching results are sound (the one-directional unifier of
  pymbolic/mapper/unifier.py; model: PV/Model/Unify.lean, tied to the code by the `unifier`
  correspondence stream of harness/props/c16.py).

  "Equal up to reordering and regrouping of sums and products" is the inductive congruence `ACEq`
  (PV/Proofs/UnifyAC.lean): Python equality, permutation of the operands of a sum / product, merging
  a nested sum into its parent sum (product into product), a one-operand sum / product is its
  operand — nothing else.

  On the current tree the instantiation law is FALSE in five shapes (each a `…_cex` theorem below,
  each replayed on the real code by the probes of harness/props/c16.py):
    * a sum / product pattern with exactly one free-variable operand against a target with one
      operand fewer: the variable is bound to 0 (to 1 for a product)            — arity guard
    * leftover target operands that are zero-valued (one-valued in a product) are dropped by
      `flattened_sum` / `flattened_product`, a zero factor collapses the share to 0  — target guard
    * an EMPTY sum / product pattern returns a fresh empty record                  — pattern guard
    * a length-1 index tuple is unpacked on either side (`a[x]` matches `a[(b,)]`)   — both guards
  `unify_sound_partial` proves the law for every pattern / target / candidate set outside these
  shapes (the decidable hypothesis `guards`).

  At FULL strength (no guard): `unify_binds_only_candidates`, `unify_functional` (every record binds
  only declared variables, each once) and `unify_complete_renaming` (a renamed copy of the pattern
  is matched, by the renaming).  `acEq_value`: AC-equal trees have equal values; `acEquiv_sound`: the
  executable normal-form test used by the driver (and mirrored by the Python oracle) only accepts
  AC-equal trees.

  The matchpy BRIDGE (pymbolic/interop/matchpy; model PV/Model/Matchpy.lean, tied to the code by
  the `matchpy-convert`, `matchpy-from`, `matchpy-order`, `matchpy-tofrom-replacement` streams and
  by the flag table regenerated from the live classes) is the second half of this file: which trees
  convert, the conversion round trip (exact on `bridgeNormal` trees; up to `BridgeEq` and with the
  same value in general; four `…_cex` shapes that do not come back unchanged), soundness of the
  declared commutative / associative / one-identity flags for the arithmetic meaning `evalC`, and
  the multiplicity law of `ToFromReplacement`.  matchpy's matcher stays a trusted parameter.
-/
namespace PV.C16
open PV PV.Unify

/-- **Soundness of the one-directional unifier** (all patterns, targets and candidate sets that
satisfy the guards): every record returned binds only candidate variables, binds each of them
once, binds every candidate variable that occurs in the pattern, and instantiating the pattern
with the record gives the target up to reordering and regrouping of sums and products. -/
theorem unify_sound_partial (cands : List String) (pattern target : Expr)
    (hg : guards cands pattern target = true) :
    ∀ r ∈ unify cands pattern target,
      (∀ x ∈ r.lmap.keys, x ∈ cands) ∧ r.lmap.keys.Nodup ∧
      (∀ x ∈ varsOf pattern, x ∈ cands → x ∈ r.lmap.keys) ∧
      ACEq (inst r.lmap pattern) target := by
  intro r hr
  simp only [guards, Bool.and_eq_true] at hg
  obtain ⟨hgood, _, _, _, hs⟩ :=
    unifyE_sound cands (arities target) pattern target [URec.empty] hg.1.1 hg.2
      ⟨List.Subset.refl _, hg.1.2⟩
      (fun u hu => by simp only [List.mem_singleton] at hu; subst hu; exact good_empty cands) r hr
  exact ⟨hgood.1, hgood.2, hs.1, hs.2⟩

/-- the same for a call with any incoming records (`unifier(pattern, target, urecs)`): the result
extends one of the incoming records -/
theorem unify_extends_partial (cands : List String) (pattern target : Expr) (urecs : List URec)
    (hg : guards cands pattern target = true)
    (hu : ∀ u ∈ urecs, (∀ x ∈ u.lmap.keys, x ∈ cands) ∧ u.lmap.keys.Nodup) :
    ∀ r ∈ unifyE cands pattern target urecs,
      ∃ u ∈ urecs, (∀ x v, AMap.get u.lmap x = some v →
          ∃ v', AMap.get r.lmap x = some v' ∧ ACEq v v') ∧
        ACEq (inst r.lmap pattern) target := by
  intro r hr
  simp only [guards, Bool.and_eq_true] at hg
  obtain ⟨_, u, hu', he, hs⟩ :=
    unifyE_sound cands (arities target) pattern target urecs hg.1.1 hg.2
      ⟨List.Subset.refl _, hg.1.2⟩ hu r hr
  exact ⟨u, hu', he, hs.2⟩

/-! ### full strength on ALL inputs: only declared variables are bound, each once -/

/-- **Every record binds only declared pattern variables** (every pattern, target, candidate
set; no guard). -/
theorem unify_binds_only_candidates (cands : List String) (pattern target : Expr) :
    ∀ r ∈ unify cands pattern target, ∀ x ∈ r.lmap.keys, x ∈ cands := by
  intro r hr
  exact (unifyE_good cands pattern target [URec.empty]
    (fun u hu => by simp only [List.mem_singleton] at hu; subst hu; exact good_empty cands) r hr).1

/-- **Every record binds each variable to one value**: the bindings form a function (the keys of
the association list are duplicate-free), for every pattern, target and candidate set. -/
theorem unify_functional (cands : List String) (pattern target : Expr) :
    ∀ r ∈ unify cands pattern target, r.lmap.keys.Nodup := by
  intro r hr
  exact (unifyE_good cands pattern target [URec.empty]
    (fun u hu => by simp only [List.mem_singleton] at hu; subst hu; exact good_empty cands) r hr).2

/-- a record with two bindings, found through the partitioning of the leftovers -/
example : (unify ["x", "y"] (.nary .sum [.var "x", .var "y"])
    (.nary .sum [.var "a", .var "b", .var "c"])).map (fun r => r.lmap.keys) =
    [["x", "y"], ["x", "y"], ["x", "y"], ["x", "y"], ["x", "y"], ["x", "y"]] := by rfl

/-! ### completeness under injective renamings -/

/-- **Whenever the target is the pattern under an injective renaming of its variables, at least
one record is returned** — and one of the records returned is (a piece of) the renaming.  `ρ` is
injective on the variables of the pattern and fixes those that are not candidates; the pattern
lies in the fragment `patC` (int / bool constants, variables, sums, products, binary and unary
operators, comparisons, conditionals, calls, subscripts with expression or tuple index, look-ups;
no guard on empty or one-operand sums: the statement is at full strength on this fragment). -/
theorem unify_complete_renaming (cands : List String) (pattern : Expr) (ρ : String → String)
    (hfrag : patC pattern = true)
    (hinj : ∀ x ∈ varsOf pattern, ∀ y ∈ varsOf pattern, ρ x = ρ y → x = y)
    (hfix : ∀ x ∈ varsOf pattern, x ∉ cands → ρ x = x) :
    ∃ r ∈ unify cands pattern (rename ρ pattern), ∀ p ∈ r.lmap, p.2 = .var (ρ p.1) := by
  obtain ⟨r, hr, hc⟩ := unifyE_complete (V := varsOf pattern) ⟨hinj, hfix⟩ pattern [URec.empty]
    hfrag (fun _ h => h) ⟨URec.empty, by simp, cons_empty _ _⟩
  exact ⟨r, hr, fun p hp => (hc.1 p hp).2⟩

/-- a renamed sum with a repeated variable, a nested product and a non-candidate symbol -/
example :
    let p : Expr := .nary .sum [.var "x", .nary .prod [.var "y", .var "c"], .var "x"]
    (unify ["x", "y"] p (rename (fun v => if v = "x" then "u" else if v = "y" then "x" else v) p)).length
      = 1 := by
  rfl

/-- the renaming may PERMUTE the pattern's own names — no hypothesis above asks the names of the
target to be disjoint from those of the pattern (`hinj` / `hfix` speak about `ρ` on the variables of
the pattern only).  `f(a) + f(b) + g(a)` against `f(b) + f(a) + g(b)` (`a` and `b` exchanged): the
operand `f(a)` occurs verbatim in the target and has to be paired with `f(b)` all the same (stream
`unifier-renaming` of harness/props/c16.py runs the model and the code on these cases) -/
example :
    let p : Expr := .nary .sum [.call (.var "f") [.var "a"], .call (.var "f") [.var "b"],
      .call (.var "g") [.var "a"]]
    (unify ["a", "b"] p
      (rename (fun v => if v = "a" then "b" else if v = "b" then "a" else v) p)).map (·.lmap)
      = [[("a", .var "b"), ("b", .var "a")]] := by
  rfl

/-- … and a partial overlap (`a ↦ b`, `b ↦ x`) under a product with a nested sum -/
example :
    let p : Expr := .nary .prod [.nary .sum [.var "a", .call (.var "f") [.var "b"]],
      .nary .sum [.var "b", .call (.var "f") [.var "a"]], .call (.var "g") [.var "a"]]
    (unify ["a", "b"] p
      (rename (fun v => if v = "a" then "b" else if v = "b" then "x" else v) p)).map (·.lmap)
      = [[("a", .var "b"), ("b", .var "x")]] := by
  rfl

/-! ### the basic rules (no guard needed) -/

/-- `unify_var`: a candidate variable against anything but a tuple / list binds exactly it (and
notes the target variable it was bound to, if the target is a variable) -/
theorem unify_var_binds (cands : List String) (x : String) (t : Expr) (hx : x ∈ cands)
    (ht : ∀ cs, t ≠ .tuple cs ∧ t ≠ .list cs) :
    unify cands (.var x) t =
      [⟨[(x, t)], match t with | .var y => [(y, .var x)] | _ => []⟩] := by
  cases t with
  | tuple cs => exact absurd rfl (ht cs).1
  | list cs => exact absurd rfl (ht cs).2
  | _ =>
    simp [unify, unifyE, mapVariable, recFromEq, hx, unifyMany, URec.unify, unifyMap,
      unifyMapGo, URec.empty, AMap.get]

/-- a variable that is not a candidate matches only itself, and binds nothing -/
theorem unify_var_literal (cands : List String) (x : String) (hx : x ∉ cands) :
    unify cands (.var x) (.var x) = [URec.empty] ∧
    ∀ t, t ≠ .var x → unify cands (.var x) t = [] := by
  have hrec : ∀ t, recFromEq cands x t = none := by
    intro t; unfold recFromEq; split <;> simp [hx]
  refine ⟨by simp [unify, unifyE, mapVariable, hrec, hx], fun t ht => ?_⟩
  simp only [unify, unifyE, mapVariable, hrec]
  cases t <;> simp
  rename_i y
  intro h; exact absurd (by rw [h]) ht

/-- `unify_map` is the consistency check: a key of both maps must carry `==`-equal values -/
theorem unifyMap_consistent (m1 m2 out : AMap) (h : unifyMap m1 m2 = some out) :
    (∀ x v, AMap.get m1 x = some v → AMap.get out x = some v) ∧
    (∀ x v w, AMap.get m1 x = some v → (x, w) ∈ m2 → v.pyEq w = true) := by
  obtain ⟨added, h1, _, h3, h4⟩ := unifyMapGo_spec m1 m2 m1 out h
  refine ⟨fun x v hv => by rw [h1]; exact AMap.get_append_some hv, fun x v w hv hw => ?_⟩
  rcases h4 (x, w) hw with ⟨v1, hv1, hpy⟩ | hadd
  · simp only at hv1; rw [hv] at hv1; cases hv1; exact hpy
  · have := h3 (x, w) hadd
    simp only at this
    rw [hv] at this; cases this

/-! ### the decision procedure used by the driver and mirrored by the Python oracle -/

/-- the AC normal form stays in the AC class of the tree -/
theorem acNorm_sound (e : Expr) : ACEq e (acNorm e) := acNorm_ac e

/-- `acEquiv` (Python equality of the normal forms) only accepts AC-equal trees -/
theorem acEquiv_sound (a b : Expr) (h : acEquiv a b = true) : ACEq a b :=
  (acNorm_ac a).trans ((ACEq.py h).trans (acNorm_ac b).symm)

/-- `acEquiv` refutes the five witnesses below as well (here: the first) -/
example : acEquiv (.nary .sum [zero, .var "a", .var "b"]) (.nary .sum [.var "a", .var "b"]) = false := by
  rfl
example : acEquiv (.nary .sum [.var "b", .nary .sum [.var "c", .var "a"]])
    (.nary .sum [.nary .sum [.var "a", .var "b"], .var "c"]) = true := by
  rfl

/-! ### AC-equality means equal values -/

section
universe u
variable {K : Type u} [Field K] [CharZero K]

/-- **"Up to reordering and regrouping" is value-preserving**: AC-equal trees have the same value
(`evalC`: sums, products, quotients of ints / bools / exact floats and variables; undefined on both
sides otherwise) in every field of characteristic 0 under every assignment — the exact commutative
arithmetic that `Sum` / `Product` denote on Python ints, bools and Fractions. -/
theorem acEq_value (ρ : String → K) {a b : Expr} (h : ACEq a b) : evalC ρ a = evalC ρ b :=
  ACEq.evalC_eq ρ h

/-- the normal form has the value of the tree -/
theorem acNorm_value (ρ : String → K) (e : Expr) : evalC ρ (acNorm e) = evalC ρ e :=
  (ACEq.evalC_eq ρ (acNorm_ac e)).symm

/-- under the guards, the instantiated pattern has the value of the target -/
theorem unify_value_partial (ρ : String → K) (cands : List String) (pattern target : Expr)
    (hg : guards cands pattern target = true) :
    ∀ r ∈ unify cands pattern target, evalC ρ (inst r.lmap pattern) = evalC ρ target :=
  fun r hr => ACEq.evalC_eq ρ (unify_sound_partial cands pattern target hg r hr).2.2.2
end

/-- `evalC` is not vacuous: the value of `x + 3*y` -/
example {K : Type} [Field K] [CharZero K] (ρ : String → K) :
    evalC ρ (.nary .sum [.var "x", .nary .prod [.const (.int 3), .var "y"]])
      = some (ρ "x" + 3 * ρ "y") := by
  simp [evalC, evalCL, evalConst]

/-! ### the excluded shapes are real: negation witnesses -/

/-- `x + a + b` against `a + b` binds `x := 0`; `0 + a + b` is not `a + b` up to AC -/
theorem unify_sound_emptyLeftover_cex :
    ∃ (cands : List String) (p t : Expr) (r : URec),
      patGuard p = true ∧ tgtGuard t = true ∧ r ∈ unify cands p t ∧ ¬ ACEq (inst r.lmap p) t := by
  refine ⟨["x"], .nary .sum [.var "x", .var "a", .var "b"], .nary .sum [.var "a", .var "b"],
    ⟨[("x", zero)], []⟩, by rfl, by rfl, ?_, fun h => ?_⟩
  · have : unify ["x"] (.nary .sum [.var "x", .var "a", .var "b"])
        (.nary .sum [.var "a", .var "b"]) = [⟨[("x", zero)], []⟩] := by rfl
    rw [this]; simp
  · have := ACEq.cnt_eq (fun _ => 1) 1 0 h
    simp [inst, instL, AMap.get, cnt, cntL, zero] at this

/-- `x + b` against `b + 0 + a` binds `x := a`: the zero operand is lost -/
theorem unify_sound_dropsNeutral_cex :
    ∃ (cands : List String) (p t : Expr) (r : URec),
      patGuard p = true ∧ arityGuard cands (arities t) p = true ∧ r ∈ unify cands p t ∧
      ¬ ACEq (inst r.lmap p) t := by
  refine ⟨["x"], .nary .sum [.var "x", .var "b"], .nary .sum [.var "b", zero, .var "a"],
    ⟨[("x", .var "a")], [("a", .var "x")]⟩, by rfl, by rfl, ?_, fun h => ?_⟩
  · have : unify ["x"] (.nary .sum [.var "x", .var "b"])
        (.nary .sum [.var "b", zero, .var "a"]) = [⟨[("x", .var "a")], [("a", .var "x")]⟩] := by rfl
    rw [this]; simp
  · have := ACEq.cnt_eq (fun _ => 1) 1 0 h
    simp [inst, instL, AMap.get, cnt, cntL, zero] at this

/-- `x * b` against `b * 0 * a` binds `x := 0`: the factor `a` is lost -/
theorem unify_sound_zeroCollapse_cex :
    ∃ (cands : List String) (p t : Expr) (r : URec),
      patGuard p = true ∧ arityGuard cands (arities t) p = true ∧ r ∈ unify cands p t ∧
      ¬ ACEq (inst r.lmap p) t := by
  refine ⟨["x"], .nary .prod [.var "x", .var "b"], .nary .prod [.var "b", zero, .var "a"],
    ⟨[("x", zero)], []⟩, by rfl, by rfl, ?_, fun h => ?_⟩
  · have : unify ["x"] (.nary .prod [.var "x", .var "b"])
        (.nary .prod [.var "b", zero, .var "a"]) = [⟨[("x", zero)], []⟩] := by rfl
    rw [this]; simp
  · have := ACEq.cnt_eq (fun _ => 1) 1 0 h
    simp [inst, instL, AMap.get, cnt, cntL, zero] at this

/-- `f(x, Sum(()))` against `f(a, Sum(()))` returns the EMPTY record: `x` stays unbound -/
theorem unify_sound_emptyNary_cex :
    ∃ (cands : List String) (p t : Expr) (r : URec),
      arityGuard cands (arities t) p = true ∧ r ∈ unify cands p t ∧ ¬ ACEq (inst r.lmap p) t := by
  refine ⟨["x"], .call (.var "f") [.var "x", .nary .sum []],
    .call (.var "f") [.var "a", .nary .sum []], URec.empty, by rfl, ?_, fun h => ?_⟩
  · have : unify ["x"] (.call (.var "f") [.var "x", .nary .sum []])
        (.call (.var "f") [.var "a", .nary .sum []]) = [URec.empty] := by rfl
    rw [this]; simp
  · have := ACEq.cnt_eq (fun y => if y = "x" then 1 else 0) 0 0 h
    simp [inst, instL, AMap.get, cnt, cntL, URec.empty] at this

/-- `a[x]` against `a[(b,)]` binds `x := b`; `a[b]` is not `a[(b,)]` -/
theorem unify_sound_indexTuple_cex :
    ∃ (cands : List String) (p t : Expr) (r : URec),
      patGuard p = true ∧ arityGuard cands (arities t) p = true ∧ r ∈ unify cands p t ∧
      ¬ ACEq (inst r.lmap p) t := by
  refine ⟨["x"], .subscript (.var "a") (.var "x"), .subscript (.var "a") (.tuple [.var "b"]),
    ⟨[("x", .var "b")], [("b", .var "x")]⟩, by rfl, by rfl, ?_, fun h => ?_⟩
  · have : unify ["x"] (.subscript (.var "a") (.var "x"))
        (.subscript (.var "a") (.tuple [.var "b"])) = [⟨[("x", .var "b")], [("b", .var "x")]⟩] := by
      rfl
    rw [this]; simp
  · have := ACEq.cnt_eq (fun _ => 0) 0 1 h
    simp [inst, AMap.get, cnt, cntL] at this

/-! ### non-vacuity -/

/-- the guards hold and a record is returned: `x*2 + y + f(z)` against `f(c) + b + 2*a*d + e`
(`x := a*d`, `y := b + e`, `z := c`: the partition of the leftovers, the nested product and the call
all take part) -/
example :
    let p : Expr := .nary .sum [.nary .prod [.var "x", .const (.int 2)], .var "y",
      .call (.var "f") [.var "z"]]
    let t : Expr := .nary .sum [.call (.var "f") [.var "c"], .var "b",
      .nary .prod [.const (.int 2), .var "a", .var "d"], .var "e"]
    guards ["x", "y", "z"] p t = true ∧ (unify ["x", "y", "z"] p t).length = 1 := by
  constructor <;> rfl

example : guards ["x"] (.nary .sum [.var "x", .var "a", .var "b"])
    (.nary .sum [.var "a", .var "b"]) = false := by rfl

/-! ## The matchpy bridge -/

section bridge
open PV.Matchpy

/-! ### the tie to the live classes (T-gen) -/

/-- **The flag / arity table of the model is the table of the code**: `MOp.row` (class name,
`arity`, `commutative`, `associative`, `one_identity`, operand fields, `_mapper_method`) equals the
table regenerated from the live classes of `pymbolic.interop.matchpy` on every run. -/
theorem flag_table_current : Generated.matchpyOps = opTable := by decide

/-- the atom classes (`Scalar`, `Id`, `ComparisonOp`: dataclass fields, `_mapper_method`) and the
three wildcard constructors (`min_count`, `fixed_size`) of the model are those of the code -/
theorem atom_table_current :
    Generated.matchpyAtoms = atomTable ∧ Generated.matchpyWild = wildTable := by decide

/-- the `map_*` methods of the two mappers of the model are exactly those the code defines
(as sets): every other node type is refused -/
theorem handler_table_current :
    (Generated.matchpyToHandlers.all (· ∈ toHandlers) && toHandlers.all (· ∈ Generated.matchpyToHandlers)
      && Generated.matchpyFromHandlers.all (· ∈ fromHandlers)
      && fromHandlers.all (· ∈ Generated.matchpyFromHandlers)) = true := by decide

/-- **The declared flags, exactly**: an operation class is declared commutative iff it is declared
associative iff it stands for one of the seven n-ary node types (`Sum`, `Product`, logical and
bitwise `or` / `and` / `xor`); no class is declared one-identity. -/
theorem flags_exactly (mo : MOp) :
    mo.row.comm = mo.nary?.isSome ∧ mo.row.assoc = mo.nary?.isSome ∧ mo.row.oneId = false := by
  cases mo <;> decide

/-! ### which trees convert -/

/-- **Which trees convert**: `ToMatchpyExpressionMapper` returns a term exactly for the trees that
satisfy the syntactic predicate `convertible` (ints, bools, floats, variables, the seven n-ary
operators other than `Min` / `Max`, the binary / unary operators, comparisons, conditionals,
calls, subscripts, dot / star wildcards); every other node type is refused. -/
theorem converts_iff (e : Expr) : (∃ t, toM e = .ok t) ↔ convertible e = true := toM_ok_iff e

example : convertible (.nary .sum [.var "a", .subscript (.var "b") (.const (.int 1))]) = true := by rfl
example : toM (.nary .min [.var "a"]) = .error .unsupported := by rfl
example : toM (.lookup (.var "a") "n") = .error .notImplemented := by rfl
example : toM (.nary .sum [.const (.str "s"), .nary .min []]) = .error .foreign := by rfl

/-! ### the conversion round trip -/

/-- **Round trip, exact** (partial: the decidable hypothesis `bridgeNormal`): a convertible tree
without wildcards in which no operator declared associative is applied directly to an application
of itself, the operands of every operator declared commutative are already in `list.sort()` order
and every subscript index is a tuple comes back UNCHANGED.  The four excluded shapes are real
(`roundtrip_flatten_cex`, `roundtrip_order_cex`, `roundtrip_index_cex`, `roundtrip_wildcard_cex`). -/
theorem roundtrip_exact_partial (e : Expr) (h : bridgeNormal e = true) : roundtrip e = .ok e := by
  obtain ⟨t, ht, hf⟩ := (roundtrip_exact_aux e.size).1 e (Nat.le_refl _) h
  simp [roundtrip, ht, hf, bind, Except.bind]

example : bridgeNormal (.nary .sum [.call (.var "f") [.var "a"], .const (.int 3),
    .subscript (.var "a") (.tuple [.var "i"]), .var "b"]) = true := by decide

/-- **Round trip, every convertible tree**: a tree without wildcards that converts always comes
back, and what comes back differs from it at most by `BridgeEq`: operand order of the operators the
bridge declares commutative, merging of nested applications of an operator it declares
associative, and tuple-writing of subscript indices. -/
theorem roundtrip_equiv (e : Expr) (hc : convertible e = true) (hw : hasWild e = false) :
    ∃ e', roundtrip e = .ok e' ∧ BridgeEq e e' := by
  obtain ⟨t, ht⟩ := (toM_ok_iff e).2 hc
  obtain ⟨e', hf, hrel⟩ := (roundtrip_aux e.size).1 e (Nat.le_refl _) t ht hw
  exact ⟨e', by simp [roundtrip, ht, hf, bind, Except.bind], hrel⟩

section
set_option linter.unusedSectionVars false
universe u
variable {K : Type u} [Field K] [CharZero K]

/-- **Round trip, same value**: what comes back has the value of the original (`evalC`, every field
of characteristic 0, every assignment) — in particular the flattening matchpy performs is harmless
for the arithmetic meaning. -/
theorem roundtrip_value (ρ : String → K) (e : Expr) (hc : convertible e = true)
    (hw : hasWild e = false) : ∃ e', roundtrip e = .ok e' ∧ evalC ρ e' = evalC ρ e := by
  obtain ⟨e', h, hrel⟩ := roundtrip_equiv e hc hw
  exact ⟨e', h, (BridgeEq.evalC_eq ρ hrel).symm⟩

/-- everything `BridgeEq` identifies has the same value -/
theorem bridgeEq_value (ρ : String → K) {a b : Expr} (h : BridgeEq a b) : evalC ρ a = evalC ρ b :=
  BridgeEq.evalC_eq ρ h

/-! ### the declared flags are sound for the arithmetic meaning -/

/-- **commutative only where the value is order-independent**: every class declared commutative
stands for an n-ary node type whose value does not depend on the order of its operands. -/
theorem commutative_flag_sound (mo : MOp) (h : mo.row.comm = true) :
    ∃ o, mo.nary? = some o ∧ ∀ (ρ : String → K) (cs ds : List Expr), cs.Perm ds →
      evalC ρ (.nary o cs) = evalC ρ (.nary o ds) := by
  have := (flags_exactly mo).1
  rw [h] at this
  obtain ⟨o, ho⟩ := Option.isSome_iff_exists.1 this.symm
  exact ⟨o, ho, fun ρ _ _ hp => evalC_bridge_perm ρ (by simp [bridgeAC, nary?_mopOfNary ho]) hp⟩

/-- **associative only where regrouping preserves the value**: every class declared associative
stands for an n-ary node type for which merging a nested application into its parent (what
matchpy's constructor does) keeps the value. -/
theorem associative_flag_sound (mo : MOp) (h : mo.row.assoc = true) :
    ∃ o, mo.nary? = some o ∧ ∀ (ρ : String → K) (xs ys zs : List Expr),
      evalC ρ (.nary o (xs ++ .nary o ys :: zs)) = evalC ρ (.nary o (xs ++ ys ++ zs)) := by
  have := (flags_exactly mo).2.1
  rw [h] at this
  obtain ⟨o, ho⟩ := Option.isSome_iff_exists.1 this.symm
  exact ⟨o, ho, fun ρ xs ys zs =>
    evalC_bridge_flat ρ (by simp [bridgeAC, nary?_mopOfNary ho]) xs ys zs⟩

/-- **one-identity only where a one-operand node means its operand**: no class declares it (so
`Sum((a,))` stays a one-operand sum) … -/
theorem one_identity_flag_sound (mo : MOp) (h : mo.row.oneId = true) :
    ∃ o, mo.nary? = some o ∧ ∀ (ρ : String → K) (x : Expr), evalC ρ (.nary o [x]) = evalC ρ x := by
  rw [(flags_exactly mo).2.2] at h; cases h

/-- … although for sums and products the flag would be sound: a one-operand sum / product has the
value of its operand -/
theorem one_identity_would_be_sound (ρ : String → K) (x : Expr) :
    evalC ρ (.nary .sum [x]) = evalC ρ x ∧ evalC ρ (.nary .prod [x]) = evalC ρ x :=
  ⟨evalC_single ρ (Or.inl rfl) x, evalC_single ρ (Or.inr rfl) x⟩

/-- **what matchpy does with the flags keeps the meaning**: building an application of a flagged
class from operand terms (flatten, sort) yields a term whose image has the value of the n-ary node
over the images of the operands — this is why a match found by matchpy modulo the declared
commutativity / associativity is a match for pymbolic's meaning. -/
theorem mk_preserves_value (ρ : String → K) {mo : MOp} {o : NaryOp} (hn : mo.nary? = some o)
    {ts : List MTerm} {es : List Expr} (hes : fromML ts = .ok es) :
    ∃ e', fromM (mk mo ts) = .ok e' ∧ evalC ρ e' = evalC ρ (.nary o es) := by
  obtain ⟨e', h, hrel⟩ := mk_value hn hes
  exact ⟨e', h, (BridgeEq.evalC_eq ρ hrel).symm⟩

/-- the flag theorems are not vacuous: `Sum` is declared commutative and `2 + x = x + 2` -/
example (ρ : String → K) : MOp.sum.row.comm = true ∧
    evalC ρ (.nary .sum [.const (.int 2), .var "x"]) = evalC ρ (.nary .sum [.var "x", .const (.int 2)]) :=
  ⟨rfl, evalC_bridge_perm ρ (by decide) (List.Perm.swap _ _ _)⟩

end

/-! ### the flags on `LogicalOr` / `LogicalAnd`, for the evaluator's meaning

`evalC` gives the logical and bitwise operators no value, so for them the three flag theorems above
hold trivially.  For the two logical operators the statement is made against `den` (the exact
Python meaning the evaluator is proved to compute, C02): the flags are sound when every operand
evaluates and has a truth value — and not beyond, because `any` / `all` short-circuit. -/

/-- **commutative / associative are sound for `LogicalOr` / `LogicalAnd`** (partial: the
hypothesis `truths env … = .ok _`, computable: every operand evaluates without an exception to a
value with a truth value): reordering the operands, and merging a nested application into its
parent, keep the evaluator's value. -/
theorem logical_flags_den_partial (env : Env) {o : NaryOp} (ho : isLogical o) :
    (∀ (cs ds : List Expr) (bs : List Bool), truths env cs = .ok bs → cs.Perm ds →
      den env (.nary o cs) = den env (.nary o ds)) ∧
    (∀ (xs ys zs : List Expr) (bs : List Bool), truths env (xs ++ ys ++ zs) = .ok bs →
      den env (.nary o (xs ++ .nary o ys :: zs)) = den env (.nary o (xs ++ ys ++ zs))) :=
  ⟨fun _ _ _ h hp => den_logical_perm ho h hp, fun xs ys zs _ h => den_logical_flat ho xs ys zs h⟩

/-- non-vacuity: `x or 0 or y` with `x = 0`, `y = 2` -/
example : truths [("x", .int 0), ("y", .int 2)] [.var "x", .const (.int 0), .var "y"]
    = .ok [false, false, true] := by rfl

/-- **the flag is not sound beyond that**: `True or 1/0` is `True`, `1/0 or True` raises — the
sorting matchpy performs on an operation declared commutative can turn a tree that evaluates into
one that raises (the property allows the reordering; the meaning is kept only on operands that
evaluate) -/
theorem logical_commutative_den_cex :
    den [] (.nary .lor [.const (.bool true), .bin .quot (.const (.int 1)) (.const (.int 0))])
      = .ok (.bool true) ∧
    den [] (.nary .lor [.bin .quot (.const (.int 1)) (.const (.int 0)), .const (.bool true)])
      = .error .zeroDiv := by
  constructor <;> rfl

/-- **does not come back: nested associative operator** — `(a + b) + c` comes back as `a + b + c` -/
theorem roundtrip_flatten_cex :
    roundtrip (.nary .sum [.nary .sum [.var "a", .var "b"], .var "c"])
      = .ok (.nary .sum [.var "a", .var "b", .var "c"]) := by rfl

/-- **does not come back: operand order** — `b + a` comes back as `a + b` (allowed by the property) -/
theorem roundtrip_order_cex :
    roundtrip (.nary .sum [.var "b", .var "a"]) = .ok (.nary .sum [.var "a", .var "b"]) := by rfl

/-- **does not come back: index** — `a[b]` comes back as `a[(b,)]` (allowed by the property) -/
theorem roundtrip_index_cex :
    roundtrip (.subscript (.var "a") (.var "b"))
      = .ok (.subscript (.var "a") (.tuple [.var "b"])) := by rfl

/-- **does not come back: wildcards** — a dot / star wildcard converts to a matchpy wildcard, which
`FromMatchpyExpressionMapper` cannot map (`AttributeError: 'Wildcard' object has no attribute
'_mapper_method'`) -/
theorem roundtrip_wildcard_cex :
    convertible (.nary .sum [.dotWild "w_", .var "a"]) = true ∧
    roundtrip (.nary .sum [.dotWild "w_", .var "a"]) = .error .attrError := by
  constructor <;> rfl

/-- `list.sort()` as modelled only reorders, whatever `<` is … -/
theorem sort_is_permutation (ts : List MTerm) : (pySort MTerm.lt ts).Perm ts :=
  pySort_perm MTerm.lt ts

/-- … and the bridge's `<` is NOT an order: a dot wildcard is below a star wildcard and vice versa
(`Wildcard.__lt__` of matchpy), so the operand order of a pattern depends on the order it was
written in — which is why `pySort` models CPython's algorithm and not "the sorted list" -/
example : MTerm.lt (.wild .dot (some "d_")) (.wild .star (some "s_")) = true ∧
    MTerm.lt (.wild .star (some "s_")) (.wild .dot (some "d_")) = true ∧
    pySort MTerm.lt [.wild .dot (some "d_"), .wild .star (some "s_")]
      = [.wild .star (some "s_"), .wild .dot (some "d_")] ∧
    pySort MTerm.lt [.wild .star (some "s_"), .wild .dot (some "d_")]
      = [.wild .dot (some "d_"), .wild .star (some "s_")] := by
  refine ⟨by rfl, by rfl, by rfl, by rfl⟩

/-! ### `ToFromReplacement`: every captured operand reaches the callback with its multiplicity -/

/-- `ToFromReplacement(f, to, from)(**kwargs)` is `to(f(**converted))` -/
theorem toFromReplacement_spec (f : List (String × PArg) → Expr) (kwargs : List (String × MArg))
    {kw : List (String × PArg)} (h : convArgs kwargs = .ok kw) :
    toFromReplacement f kwargs = toM (f kw) := by
  simp [toFromReplacement, h, bind, Except.bind]

/-- a single captured term and a captured tuple (sequence wildcard below a non-commutative
operation) reach the callback as their images, in order (full strength) -/
theorem replacement_one_tuple {t : MTerm} {e : Expr} {ts : List MTerm} {es : List Expr}
    (ht : fromM t = .ok e) (hts : fromML ts = .ok es) :
    convArg (.one t) = .ok (.one e) ∧ convArg (.tuple ts) = .ok (.tuple es) := by
  simp [convArg, ht, hts, bind, Except.bind, pure, Except.pure]

/-- **the multiplicity law** (partial: the decidable hypothesis `pairwiseNe es` — the images of
the keys of the captured `Multiset` are pairwise different under Python `==`): the callback
receives the image of every captured operand with the multiplicity it was captured with.  This is
the statement behind the oracle key `matchpy-replacement-instantiation-differs`; the hypothesis
holds for everything matchpy captures from a converted subject (distinct keys of a `Multiset` of
subject terms have distinct images), and fails only for keys told apart by a `variable_name`
(`replacement_multiset_overwrite_cex`). -/
theorem replacement_receives_all_partial (items : List (MTerm × Nat)) (es : List Expr)
    (hes : fromML (items.map (·.1)) = .ok es) (hd : pairwiseNe es = true)
    (hpos : ∀ n ∈ items.map (·.2), n > 0) :
    convArg (.multiset items) = .ok (.multiset (es.zip (items.map (·.2)))) := by
  have h := convItems_distinct items [] es hes (by simpa using hd)
  simp only [convArg, h, bind, Except.bind, pure, Except.pure, List.nil_append]
  rw [filter_pos_zip hpos]

/-- **the multiplicity law for what matchpy captures**: the keys of a captured `Multiset` are
pairwise different terms (`pairwiseNeM`, decidable; a multiset has each key once); when they are
well-formed name-free terms (`MTerm.wf`, decidable: what a converted subject consists of), their
images are pairwise different as well (`fromM` reflects `==`), so the callback receives the image
of every captured operand with its multiplicity — no further hypothesis. -/
theorem replacement_receives_all_wf (items : List (MTerm × Nat))
    (hwf : ∀ t ∈ items.map (·.1), t.wf = true) (hkeys : pairwiseNeM (items.map (·.1)) = true)
    (hpos : ∀ n ∈ items.map (·.2), n > 0) :
    ∃ es, fromML (items.map (·.1)) = .ok es ∧
      convArg (.multiset items) = .ok (.multiset (es.zip (items.map (·.2)))) := by
  have hall : ∀ ts : List MTerm, (∀ t ∈ ts, t.wf = true) → ∃ es, fromML ts = .ok es := by
    intro ts
    induction ts with
    | nil => intro _; exact ⟨[], rfl⟩
    | cons t ts ih =>
      intro h
      obtain ⟨e, he, _, _⟩ := MTerm.wf_spec (h t (by simp))
      obtain ⟨es, hes⟩ := ih (fun u hu => h u (by simp [hu]))
      exact ⟨e :: es, fromML_cons_ok he hes⟩
  obtain ⟨es, hes⟩ := hall _ hwf
  exact ⟨es, hes, replacement_receives_all_partial items es hes
    (wf_images_distinct _ es hwf hes hkeys) hpos⟩

/-- **a converted subject consists of well-formed name-free terms**: every term
`ToMatchpyExpressionMapper` builds from a tree without wildcards satisfies `MTerm.wf`, so
`replacement_receives_all_wf` applies to whatever matchpy captures out of it. -/
theorem converted_subject_wf {e : Expr} {t : MTerm} (h : toM e = .ok t) (hw : hasWild e = false) :
    t.wf = true := toM_wf h hw

/-- the terms of a converted subject are well-formed and name-free; a term that carries a
`variable_name` is not -/
example : (match toM (.nary .sum [.bin .pow (.var "b") (.const (.int 2)),
      .call (.var "f") [.var "a", .subscript (.var "a") (.const (.int 1))]]) with
    | .ok t => t.wf | .error _ => false) = true := by decide
example : MTerm.wf (.op .variable [.id "a" none] (some "q")) = false := by decide

/-- non-vacuity: `{b: 2, c: 1}` captured, `{b: 2, c: 1}` received -/
example : convArg (.multiset [(.op .variable [.id "b" none] none, 2),
      (.op .variable [.id "c" none] none, 1)])
    = .ok (.multiset [(.var "b", 2), (.var "c", 1)]) := by rfl

/-- **the law is false without the hypothesis**: the dict comprehension
`{from_matchpy_expr(expr): count …}` OVERWRITES — two keys with the same image (here: the same
variable, once carrying a `variable_name`) captured 2 + 1 times reach the callback ONCE. -/
theorem replacement_multiset_overwrite_cex :
    convArg (.multiset [(.op .variable [.id "a" none] (some "q"), 2),
      (.op .variable [.id "a" none] none, 1)])
    = .ok (.multiset [(.var "a", 1)]) := by rfl

/-- `match` / `match_anywhere` convert dot-wildcard bindings only: a sequence binding (a
`Multiset` or a tuple) makes the conversion raise (`TypeError: unhashable type` /
`AttributeError`) — reported as a crash, not as a wrong match -/
theorem match_sequence_binding_raises (k : String) (items : List (MTerm × Nat)) (ts : List MTerm)
    (rest : List (String × MArg)) :
    matchConv ((k, .multiset items) :: rest) = .error .typeError ∧
    matchConv ((k, .tuple ts) :: rest) = .error .attrError := by
  constructor <;> rfl

end bridge

end PV.C16
