import PV.Properties.C19Table
import PV.Proofs.AlgoScalar
import PV.Proofs.AlgoTableScalar
/-!
  C19 — a `Polynomial` combined with an operand that is NOT a `Polynomial` (a Python int):
  quotient-with-remainder by a constant (`divmod(p, d)`, `p // d`, `p % d`), sums, differences and
  products with a constant on either side.  "The value of a sum, difference, product … or
  quotient-with-remainder … equals that operation on their values" — a constant is the polynomial
  of degree 0 with that value.

  * `divmod_scalar_spec` — the model `divmodScalar` (coefficient by coefficient, floor `divmod`)
    satisfies value(p) = value(q)·d + value(r) at every point;
  * `poly_divmod_scalar_eq_table_current` — the body of `Polynomial.__divmod__` re-read from the
    source on this run, called with an int divisor, IS `divmodScalar` (for ALL polynomials and
    divisors, `ZeroDivisionError` included), hence `poly_divmod_scalar_table_spec`: what the
    regenerated code returns satisfies the identity.  A change of that branch (terms dropped from
    one of the two results, quotient and remainder exchanged, …) changes the table and the proof
    of the run no longer checks;
  * `add_scalar_eval`, `sub_scalar_eval`, `mul_scalar_eval`, `rmul_scalar_eval` — the other
    operations with a constant (hand-written mirrors of the bodies; tied by stream `poly-scalar`);
  * `rsub_scalar_eval` — `Polynomial.__rsub__` as coded since repo fix 60a234e (`(-self) + other`)
    is homomorphic: value(c - p) = c - value(p).  `rsub_scalar_negated` / `rsub_scalar_cex` /
    `rsub_scalar_partial` are about `rsubScalarPy`, the code BEFORE that fix (`(-other) + self`
    computed `p - c`: finding `poly-scalar-rsub-negated`, status fixed), kept as the regression
    witness: if the old body ever returns, the driver disagrees and the oracle fires.
-/

namespace PV.Properties.C19

open PV.Algo PV.Generated

/-- **Quotient-with-remainder by a constant is homomorphic to values**: whenever
`divmod(p, d)` returns `(q, r)`, value(p) = value(q)·d + value(r) at every point `x`. -/
theorem divmod_scalar_spec (p q r : Poly) (d x : ℤ) (h : divmodScalar p d = some (q, r)) :
    evalSpec p x = evalSpec q x * d + evalSpec r x :=
  divmodScalar_spec p q r d x h

/-- it returns for every non-zero divisor (and for the empty polynomial) -/
theorem divmod_scalar_total (p : Poly) (d : ℤ) (hd : d ≠ 0) :
    divmodScalar p d = some (p.map fun t => (t.1, Int.fdiv t.2 d),
                             p.map fun t => (t.1, Int.fmod t.2 d)) := by
  simp [divmodScalar, hd]

-- 4x² + 1 by 2: quotient 2x² (+ a stored 0), remainder 1 (+ a stored 0): every term is kept
example : divmodScalar [(0, 1), (2, 4)] 2 = some ([(0, 0), (2, 2)], [(0, 1), (2, 0)]) := by decide
example : divmodScalar [(0, -1)] (-5) = some ([(0, 0)], [(0, -1)]) := by decide
example : divmodScalar [(0, 1)] 0 = none := by decide

section
variable {α : Type} (ops : C19Ops α) (ext : String → List (C19V α) → C19R (C19V α))

/-- **`Polynomial.__divmod__` as regenerated, called with an int divisor, IS `divmodScalar`** —
for all polynomials and all divisors (`ZeroDivisionError` for the divisor 0 as soon as there is a
term). -/
theorem poly_divmod_scalar_eq_table_current (b : String) (p : Poly) (d : ℤ) (n : ℕ) :
    c19RunFn ops tableCurrent ext (n + 1 + 1) "Polynomial.__divmod__" [c19EncPoly b p, .int d]
      = c19EncDivmod b (divmodScalar p d) :=
  c19_poly_divmod_scalar_run ops ext b p d n

/-- what the regenerated `__divmod__` returns for a non-zero int divisor satisfies
value(p) = value(q)·d + value(r) -/
theorem poly_divmod_scalar_table_spec (b : String) (p : Poly) (d : ℤ) (hd : d ≠ 0) (n : ℕ) :
    ∃ q r, c19RunFn ops tableCurrent ext (n + 1 + 1) "Polynomial.__divmod__"
        [c19EncPoly b p, .int d] = .ok (.tup [c19EncPoly b q, c19EncPoly b r])
      ∧ ∀ x : ℤ, evalSpec p x = evalSpec q x * d + evalSpec r x := by
  refine ⟨_, _, ?_, fun x => divmodScalar_spec p _ _ d x (divmod_scalar_total p d hd)⟩
  rw [poly_divmod_scalar_eq_table_current, divmod_scalar_total p d hd]
  rfl
end

/-- `p + c` and `c + p` -/
theorem add_scalar_eval (p : Poly) (k x : ℤ) : evalSpec (addScalar p k) x = evalSpec p x + k :=
  addScalar_eval p k x

/-- `p - c` -/
theorem sub_scalar_eval (p : Poly) (k x : ℤ) : evalSpec (subScalar p k) x = evalSpec p x - k :=
  subScalar_eval p k x

/-- `p * c` -/
theorem mul_scalar_eval (p : Poly) (k x : ℤ) : evalSpec (scale p k) x = evalSpec p x * k :=
  PV.Algo.scale_eval p k x

/-- `c * p` -/
theorem rmul_scalar_eval (p : Poly) (k x : ℤ) : evalSpec (rscale p k) x = k * evalSpec p x :=
  rscale_eval p k x

example : addScalar [(0, 1), (2, 4)] (-1) = [(2, 4)] := by decide +kernel
example : subScalar [(2, 4)] 3 = [(0, -3), (2, 4)] := by decide +kernel

/-- **`c - p` is homomorphic**: `Polynomial.__rsub__` (`(-self) + other`, repo fix 60a234e) has the
value `c - value(p)` at every point -/
theorem rsub_scalar_eval (p : Poly) (k x : ℤ) : evalSpec (rsubScalar p k) x = k - evalSpec p x :=
  rsubScalar_eval p k x

/-- the body before repo fix 60a234e, `(-other) + self`, computed `p - c` -/
theorem rsub_scalar_negated (p : Poly) (k x : ℤ) :
    evalSpec (rsubScalarPy p k) x = evalSpec p x - k :=
  rsubScalarPy_eval p k x

/-- … which is the required `c - p` exactly at the points where value(p) = c -/
theorem rsub_scalar_partial (p : Poly) (k x : ℤ) (h : evalSpec p x = k) :
    evalSpec (rsubScalarPy p k) x = k - evalSpec p x := by
  rw [rsub_scalar_negated, h]

/-- negation witness: `3 - (1 + 4x²)` comes back as `4x² - 2`; at `x = 1` that is `2`, not `-2` -/
theorem rsub_scalar_cex :
    rsubScalarPy [(0, 1), (2, 4)] 3 = [(0, -2), (2, 4)] ∧
    evalSpec (rsubScalarPy [(0, 1), (2, 4)] 3) 1 ≠ 3 - evalSpec [(0, 1), (2, 4)] 1 := by
  decide +kernel

example : rsubScalar [(0, 1), (2, 4)] 3 = [(0, 2), (2, -4)] := by decide +kernel

end PV.Properties.C19
