import PV.Proofs.CCodeTable
import PV.Properties.C14
import PV.Generated.CCode
import PV.Generated.Prec
/-
  C14 — T-gen tie of the C code mapper model to the source.

  `PV.Generated.c14CCodeTable` is rewritten on every run by `extract/ccode.py` from the source text
  of `pymbolic/mapper/c_code.py` and `pymbolic/mapper/stringifier.py` in the working tree: for every
  node class the handler the dispatch reaches on `CCodeMapper` (MRO resolved), and for every handler
  its body in the language of PV/Model/CCodeTable.lean — which attribute is printed under which
  precedence in which order, the format strings, the own precedence handed to
  `parenthesize_if_needed`, the classes forced into parentheses, the case distinction of
  `map_power`, the sorted sum with its negated products, `map_constant`, the allocator protocol of
  `map_common_subexpression` with both name generators, `__init__` / `copy` /
  `copy_with_mapped_cses`, and the helper methods (`format`, `join_rec`, `parenthesize_if_needed`, …).

  `c14CcodeET T S` RUNS a table; it knows no handler.  The theorems below prove that the
  hand-written model (`plan`, `assemble`, `ccodeCse`, `ccodeE`, `ccode`, `CSt.ofList`, `CSt.copy`,
  `runOps` of PV/Model/CCode.lean — the one the driver executes and the theorems of
  PV/Properties/C14.lean are about) IS that interpreter applied to the regenerated table: the same
  recursive calls in the same order under the same precedences, the same TEXT, the same hoisted
  names, the same allocator state, for all expressions, states, precedences, budgets and histories.
  An edit of the source that changes a table entry (the hoisted name keyed by the wrapper, a lost
  minus sign in the sorted sum, the argument order of `pow`, `map_floor_div` without its
  parentheses, `copy()` not passing the name list, …) makes the corresponding case fail to check.
-/
namespace PV.C14
open PV

/-- the table regenerated from the working tree -/
abbrev tableCurrent : C14Table := Generated.c14CCodeTable

/-! ### the sorted sum -/

/-- the row of `map_sum` in a table -/
def sumRowOf (T : C14Table) : C14SumRow :=
  match T.handlers.find? (fun h => h.name == "map_sum") with
  | some ⟨_, _, .sum r⟩ => r
  | _ => default

/-! ### `map_power` -/

/-- the program of a handler in a table -/
def progOf (T : C14Table) (h : String) : C14Prog :=
  match T.handlers.find? (fun x => x.name == h) with
  | some ⟨_, _, .prog p⟩ => p
  | _ => .ret (.lit "")

/-- the four cases of `CCodeMapper.map_power` (`x**0`, `x**1`, `x**2` through `base*base`, `pow(…)`):
the recursive calls of the model are those of the regenerated decision chain -/
theorem plan_pow_current (S : PrintPrec) (a b : Expr) (enc : Nat) :
    plan S (.bin .pow a b) enc = c14PlanT tableCurrent S (.bin .pow a b) enc := by
  have hu : c14PlanT tableCurrent S (.bin .pow a b) enc
      = (progOf tableCurrent "map_power").plan S (.bin .pow a b) enc := rfl
  rw [hu]
  cases b with
  | const c =>
    simp only [plan, powPlan_eq, bind, Except.bind]
    cases c <;>
    simp [progOf, tableCurrent, Generated.c14CCodeTable, C14Prog.plan, C14Cond.eval, c14Field,
      Expr.isConstant, c14ConstMinusIsZero, C14SE.plan, C14SE.planL, C14Arg.eval, C14Prec.eval,
      c14PrecNamed] <;>
    (try (generalize Const.truthy _ = t; generalize Const.isOne _ = o; generalize Const.isTwo _ = w
          cases t <;> cases o <;> cases w <;> try rfl)) <;>
    (simp only [pure, Except.pure]; generalize c14MulE a a = r; cases r <;> rfl)
  | _ => rfl

/-! ### which sub-expressions are printed, in which order, under which precedences -/

/-- the regenerated `get_neg_product` is the one the model's `negProd` was written from -/
theorem sumNeg_current : SumNegSpec (sumRowOf tableCurrent) := by
  constructor <;> rfl

/-- **The recursive calls of every handler are the regenerated table's.**  For every node that is
not a foreign constant, every precedence table and every enclosing precedence: the list of
(sub-expression, enclosing precedence) pairs the hand-written `plan` prints, in order, is what the
table interpreter reads off the handler body in the current source — which attribute, `rec` or
`join_rec`, `PREC_PRODUCT` or `PREC_POWER`, `+ 1` or not, the index of a subscript before its
aggregate, the negated products of a sum under `PREC_PRODUCT`, the four cases of `map_power`. -/
theorem plan_eq_table_current (S : PrintPrec) (enc : Nat) :
    ∀ e : Expr, (∀ c, e ≠ .const c) → plan S e enc = c14PlanT tableCurrent S e enc
  | .const c, h => absurd rfl (h c)
  | .var _, _ => rfl
  | .nary o cs, _ => by
      cases o
      case sum =>
        show sumPlan S cs = c14SumPlanL (sumRowOf tableCurrent) S enc cs
        exact sumPlan_eq_row S _ sumNeg_current rfl rfl enc cs
      all_goals rfl
  | .bin o a b, _ => by
      cases o
      case pow => exact plan_pow_current S a b enc
      all_goals rfl
  | .un o _, _ => by cases o <;> rfl
  | .cmp _ _ _, _ => rfl
  | .ite _ _ _, _ => rfl
  | .call f _, _ => by
      cases f with
      | nary o _ => cases o <;> rfl
      | bin o _ _ => cases o <;> rfl
      | un o _ => cases o <;> rfl
      | _ => rfl
  | .callKw _ _ _ _, _ => rfl
  | .subscript _ i, _ => by cases i <;> rfl
  | .lookup _ _, _ => rfl
  | .cse _ _ _, _ => rfl
  | .subst _ _ _, _ => rfl
  | .deriv _ _, _ => rfl
  | .slice _, _ => rfl
  | .nan, _ => rfl
  | .wildcard, _ => rfl
  | .dotWild _, _ => rfl
  | .starWild _, _ => rfl
  | .funcSym, _ => rfl
  | .tuple _, _ => rfl
  | .list _, _ => rfl

/-! ### the text every handler puts together -/

/-- **The helper methods resolved on `CCodeMapper` are the modelled ones**: `format` is `%`,
`join_rec` joins `rec_with_force_parens_around` of the elements, forced classes are tested with
`isinstance` and wrapped in `(`…`)`, `parenthesize_if_needed` wraps when `enclosing_prec >
my_prec`. -/
theorem helpers_current : HelpersSpec tableCurrent.helpers := by constructor <;> rfl

macro "asm_simp" h:ident : tactic => `(tactic|
  simp [progOf, tableCurrent, Generated.c14CCodeTable, C14Prog.asm, C14SE.asm, C14SE.asmL,
    C14Cond.eval, c14Field, c14Format, parenIfS_spec $h, C14Prec.eval, c14PrecNamed,
    C14Arg.eval, c14Elems, assemble, parenIfD_render, Doc.render, Except.map, forceWrapD_render $h,
    pure, Except.pure, COp.text, CUn.text, String.append_assoc, render_joinDocs, forceAll_nil, atomIf,
    joinText, c14IsInst, c14ClassOf, c14Lower, List.lookup, NaryOp.name, BinOp.name, UnOp.name])

/-- abstract the helper record of the current table, keeping what the model assumes about it,
then normalise both sides -/
macro "asm_case" : tactic => `(tactic|
  (have hH := helpers_current; revert hH; generalize tableCurrent.helpers = H; intro hH
   asm_simp hH))

/-- the text of the handlers with a fixed number of operands (variables, quotient, remainder,
floor division, shifts, `~`, `!`, comparisons, `?:`, attribute look-up) -/
theorem asm_fixed_current (S : PrintPrec) (rev : Bool) (enc : Nat) :
    ∀ (e : Expr) (ds : List Doc) (pl : List (Expr × Nat)),
      (∀ o cs, e ≠ .nary o cs) → (∀ a b, e ≠ .bin .pow a b) → (∀ f as, e ≠ .call f as) →
      (∀ a i, e ≠ .subscript a i) → (∀ c, e ≠ .const c) →
      plan S e enc = .ok pl → ds.length = pl.length →
      (assemble S rev e enc ds).map Doc.render
        = c14AsmT tableCurrent S rev e enc (ds.map Doc.render)
  | .const c, _, _, _, _, _, _, h, _, _ => absurd rfl (h c)
  | .nary o cs, _, _, h, _, _, _, _, _, _ => absurd rfl (h o cs)
  | .call f as, _, _, _, _, h, _, _, _, _ => absurd rfl (h f as)
  | .subscript a i, _, _, _, _, _, h, _, _, _ => absurd rfl (h a i)
  | .var x, ds, pl, _, _, _, _, _, hp, hl => by
      cases hp
      obtain rfl := len0 hl
      show _ = (progOf tableCurrent "map_variable").asm S tableCurrent.helpers (.var x) enc [] []
      asm_case
  | .bin o a b, ds, pl, _, hpow, _, _, _, hp, hl => by
      cases o
      case pow => exact absurd rfl (hpow a b)
      all_goals
        cases hp
        obtain ⟨x, y, rfl⟩ := len2 hl
      case quot =>
        show _ = (progOf tableCurrent "map_quotient").asm S tableCurrent.helpers (.bin .quot a b) enc []
          [x.render, y.render]
        asm_case
      case rem =>
        show _ = (progOf tableCurrent "map_remainder").asm S tableCurrent.helpers (.bin .rem a b) enc []
          [x.render, y.render]
        asm_case
      case floordiv =>
        show _ = (progOf tableCurrent "map_floor_div").asm S tableCurrent.helpers (.bin .floordiv a b) enc []
          [x.render, y.render]
        asm_case
      case lshift =>
        show _ = (progOf tableCurrent "map_left_shift").asm S tableCurrent.helpers (.bin .lshift a b) enc []
          [x.render, y.render]
        asm_case
      case rshift =>
        show _ = (progOf tableCurrent "map_right_shift").asm S tableCurrent.helpers (.bin .rshift a b) enc []
          [x.render, y.render]
        asm_case
  | .un o a, ds, pl, _, _, _, _, _, hp, hl => by
      cases o <;> cases hp <;> obtain ⟨x, rfl⟩ := len1 hl
      · show _ = (progOf tableCurrent "map_bitwise_not").asm S tableCurrent.helpers (.un .bnot a) enc []
          [x.render]
        asm_case
      · show _ = (progOf tableCurrent "map_logical_not").asm S tableCurrent.helpers (.un .lnot a) enc []
          [x.render]
        asm_case
  | .cmp o a b, ds, pl, _, _, _, _, _, hp, hl => by
      cases hp
      obtain ⟨x, y, rfl⟩ := len2 hl
      show _ = (progOf tableCurrent "map_comparison").asm S tableCurrent.helpers (.cmp o a b) enc []
        [x.render, y.render]
      asm_case
  | .ite c t e, ds, pl, _, _, _, _, _, hp, hl => by
      cases hp
      obtain ⟨x, y, z, rfl⟩ := len3 hl
      show _ = (progOf tableCurrent "map_if").asm S tableCurrent.helpers (.ite c t e) enc []
        [x.render, y.render, z.render]
      asm_case
  | .lookup a n, ds, pl, _, _, _, _, _, hp, hl => by
      cases hp
      obtain ⟨x, rfl⟩ := len1 hl
      show _ = (progOf tableCurrent "map_lookup").asm S tableCurrent.helpers (.lookup a n) enc []
        [x.render]
      asm_case
  | .callKw _ _ _ _, _, _, _, _, _, _, _, hp, _ => by cases hp
  | .cse _ _ _, _, _, _, _, _, _, _, hp, _ => by cases hp
  | .subst _ _ _, _, _, _, _, _, _, _, hp, _ => by cases hp
  | .deriv _ _, _, _, _, _, _, _, _, hp, _ => by cases hp
  | .slice _, _, _, _, _, _, _, _, hp, _ => by cases hp
  | .nan, _, _, _, _, _, _, _, hp, _ => by cases hp
  | .wildcard, _, _, _, _, _, _, _, hp, _ => by cases hp
  | .dotWild _, _, _, _, _, _, _, _, hp, _ => by cases hp
  | .starWild _, _, _, _, _, _, _, _, hp, _ => by cases hp
  | .funcSym, _, _, _, _, _, _, _, hp, _ => by cases hp
  | .tuple _, _, _, _, _, _, _, _, hp, _ => by cases hp
  | .list _, _, _, _, _, _, _, _, hp, _ => by cases hp

/-- the n-ary handlers that join their operands (everything but the sorted sum) -/
theorem asm_join_current (S : PrintPrec) (rev : Bool) (enc : Nat) (o : NaryOp) (cs : List Expr)
    (ds : List Doc) (ho : o ≠ .sum) (hl : ds.length = cs.length) :
    (assemble S rev (.nary o cs) enc ds).map Doc.render
      = c14AsmT tableCurrent S rev (.nary o cs) enc (ds.map Doc.render) := by
  cases o
  case sum => exact absurd rfl ho
  case prod =>
    show _ = (progOf tableCurrent "map_product").asm S tableCurrent.helpers (.nary .prod cs) enc []
      (ds.map Doc.render)
    asm_case
    simp [← hl, forceAll_nil, take_len_map, drop_len_map]
  case bor =>
    show _ = (progOf tableCurrent "map_bitwise_or").asm S tableCurrent.helpers (.nary .bor cs) enc []
      (ds.map Doc.render)
    asm_case
    simp [← hl, forceAll_nil, take_len_map, drop_len_map]
  case bxor =>
    show _ = (progOf tableCurrent "map_bitwise_xor").asm S tableCurrent.helpers (.nary .bxor cs) enc
      [] (ds.map Doc.render)
    asm_case
    simp [← hl, forceAll_nil, take_len_map, drop_len_map]
  case band =>
    show _ = (progOf tableCurrent "map_bitwise_and").asm S tableCurrent.helpers (.nary .band cs) enc
      [] (ds.map Doc.render)
    asm_case
    simp [← hl, forceAll_nil, take_len_map, drop_len_map]
  case lor =>
    show _ = (progOf tableCurrent "map_logical_or").asm S tableCurrent.helpers (.nary .lor cs) enc []
      (ds.map Doc.render)
    asm_case
    simp [← hl, forceAll_nil, take_len_map, drop_len_map]
  case land =>
    show _ = (progOf tableCurrent "map_logical_and").asm S tableCurrent.helpers (.nary .land cs) enc
      [] (ds.map Doc.render)
    asm_case
    simp [← hl, forceAll_nil, take_len_map, drop_len_map]
  case min =>
    show _ = (progOf tableCurrent "map_min").asm S tableCurrent.helpers (.nary .min cs) enc []
      (ds.map Doc.render)
    rcases ds with _ | ⟨d1, _ | ⟨d2, _ | ⟨d3, r⟩⟩⟩
    all_goals asm_case
    all_goals simp [← hl, forceAll_nil, take_len_map, drop_len_map]
    all_goals simp [c14Format, String.append_assoc]
    all_goals rw [show "min(" = "min" ++ "(" by decide, String.append_assoc]
  case max =>
    show _ = (progOf tableCurrent "map_max").asm S tableCurrent.helpers (.nary .max cs) enc []
      (ds.map Doc.render)
    rcases ds with _ | ⟨d1, _ | ⟨d2, _ | ⟨d3, r⟩⟩⟩
    all_goals asm_case
    all_goals simp [← hl, forceAll_nil, take_len_map, drop_len_map]
    all_goals simp [c14Format, String.append_assoc]
    all_goals rw [show "max(" = "max" ++ "(" by decide, String.append_assoc]

/-- the text of `CCodeMapper.map_call`: the bare name of a `Variable` callee, else the printed callee -/
theorem asm_call_current (S : PrintPrec) (rev : Bool) (enc : Nat) (g : Expr) (as : List Expr)
    (ds : List Doc) (pl : List (Expr × Nat)) (hp : plan S (.call g as) enc = .ok pl)
    (hl : ds.length = pl.length) :
    (assemble S rev (.call g as) enc ds).map Doc.render
      = c14AsmT tableCurrent S rev (.call g as) enc (ds.map Doc.render) := by
  show _ = (progOf tableCurrent "map_call").asm S tableCurrent.helpers (.call g as) enc []
    (ds.map Doc.render)
  by_cases hv : ∃ f, g = .var f
  · obtain ⟨f, rfl⟩ := hv
    cases hp
    simp only [List.length_map] at hl
    asm_case
    simp [← hl, forceAll_nil, take_len_map, drop_len_map, c14Format, String.append_assoc]
  · have hg : c14IsInst g "Variable" = false := by
      rw [isInst_variable]
      cases g <;> first | rfl | exact absurd ⟨_, rfl⟩ hv
    have hpl : pl = (g, S.call) :: as.map (·, S.none) := by
      cases g <;> first | (cases hp; rfl) | exact absurd ⟨_, rfl⟩ hv
    subst hpl
    simp only [List.length_cons, List.length_map] at hl
    obtain _ | ⟨d0, rest⟩ := ds
    · simp at hl
    have hl' : rest.length = as.length := by simpa using hl
    have ha : assemble S rev (.call g as) enc (d0 :: rest)
        = pure (.atom (d0.render ++ "(" ++ joinText ", " rest ++ ")")) := by
      cases g <;> first | rfl | exact absurd ⟨_, rfl⟩ hv
    rw [ha]
    have hH := helpers_current
    revert hH
    generalize tableCurrent.helpers = H
    intro hH
    simp [progOf, tableCurrent, Generated.c14CCodeTable, C14Prog.asm, C14SE.asm, C14SE.asmL,
      C14Cond.eval, c14Field, hg, c14Elems, List.lookup, Except.map, pure, Except.pure, Doc.render,
      joinText, ← hl', forceAll_nil, take_len_map, drop_len_map, c14Format, String.append_assoc]

/-- the text of `map_subscript` (index printed first, tuple indices joined by `, `) -/
theorem asm_subscript_current (S : PrintPrec) (rev : Bool) (enc : Nat) (a i : Expr)
    (ds : List Doc) (pl : List (Expr × Nat)) (hp : plan S (.subscript a i) enc = .ok pl)
    (hl : ds.length = pl.length) :
    (assemble S rev (.subscript a i) enc ds).map Doc.render
      = c14AsmT tableCurrent S rev (.subscript a i) enc (ds.map Doc.render) := by
  show _ = (progOf tableCurrent "map_subscript").asm S tableCurrent.helpers (.subscript a i) enc []
    (ds.map Doc.render)
  by_cases ht : ∃ cs, i = .tuple cs
  · obtain ⟨cs, rfl⟩ := ht
    cases hp
    simp only [List.length_append, List.length_map, List.length_cons, List.length_nil] at hl
    rcases List.eq_nil_or_concat ds with rfl | ⟨idx, x, rfl⟩
    · simp at hl
    have hl' : idx.length = cs.length := by simpa using hl
    asm_case
    have hlt : ¬ (idx.length + 1 < idx.length) := by omega
    simp [← hl', forceAll_nil, hlt, C14SE.asm]
    simp [pure, Except.pure, c14Format, String.append_assoc]
  · have hi : c14IsInst i "tuple" = false := by
      cases i <;> first | rfl | exact absurd ⟨_, rfl⟩ ht
    have hpl : pl = [(i, S.none), (a, S.call)] := by
      cases i <;> first | (cases hp; rfl) | exact absurd ⟨_, rfl⟩ ht
    subst hpl
    obtain ⟨x, y, rfl⟩ := len2 hl
    have ha : assemble S rev (.subscript a i) enc [x, y]
        = pure (atomIf (y.render ++ "[" ++ x.render ++ "]") enc S.call) := by
      cases i <;> first | rfl | exact absurd ⟨_, rfl⟩ ht
    rw [ha]
    have hH := helpers_current
    revert hH
    generalize tableCurrent.helpers = H
    intro hH
    simp [progOf, tableCurrent, Generated.c14CCodeTable, C14Prog.asm, C14SE.asm, C14SE.asmL,
      C14Cond.eval, c14Field, hi, List.lookup, Except.map, pure, Except.pure, Doc.render,
      atomIf, parenIfD_render, parenIfS_spec hH, C14Prec.eval, c14PrecNamed,
      c14Format, String.append_assoc]

macro "pow_simp" _h:ident k:ident : tactic => `(tactic|
  simp [progOf, tableCurrent, Generated.c14CCodeTable, C14Prog.asm, C14SE.asm, C14SE.asmL,
    C14Cond.eval, c14Field, c14Format, C14Prec.eval, c14PrecNamed, C14Arg.eval,
    Doc.render, Except.map, pure, Except.pure, String.append_assoc, $k:ident,
    c14ConstMinusIsZero])

/-- the text of `CCodeMapper.map_power`: `1`, the base, the printed `base*base`, or `pow(b, e)` -/
theorem asm_pow_current (S : PrintPrec) (rev : Bool) (enc : Nat) (a b : Expr)
    (ds : List Doc) (pl : List (Expr × Nat)) (hp : plan S (.bin .pow a b) enc = .ok pl)
    (hl : ds.length = pl.length) :
    (assemble S rev (.bin .pow a b) enc ds).map Doc.render
      = c14AsmT tableCurrent S rev (.bin .pow a b) enc (ds.map Doc.render) := by
  show _ = (progOf tableCurrent "map_power").asm S tableCurrent.helpers (.bin .pow a b) enc []
    (ds.map Doc.render)
  have hH := helpers_current
  revert hH
  generalize tableCurrent.helpers = H
  intro hH
  simp only [plan, assemble, powPlan_eq, bind, Except.bind] at hp ⊢
  cases b with
  | const c =>
    cases hk : (Expr.const c).isConstant
    · simp [hk, pure, Except.pure] at hp
      subst hp
      obtain ⟨x, y, rfl⟩ := len2 hl
      pow_simp hH hk
    · simp only [hk] at hp ⊢
      revert hp
      generalize htt : Const.truthy c = t
      generalize hoo : Const.isOne c = o
      generalize hww : Const.isTwo c = w
      intro hp
      cases t <;> cases o <;> cases w
      all_goals simp [pure, Except.pure] at hp
      -- x**0
      · subst hp
        obtain rfl := len0 hl
        pow_simp hH hk
        simp [htt]
        rfl
      · subst hp
        obtain rfl := len0 hl
        pow_simp hH hk
        simp [htt]
        rfl
      · subst hp
        obtain rfl := len0 hl
        pow_simp hH hk
        simp [htt]
        rfl
      · subst hp
        obtain rfl := len0 hl
        pow_simp hH hk
        simp [htt]
        rfl
      · subst hp
        obtain ⟨x, y, rfl⟩ := len2 hl
        pow_simp hH hk
        simp [htt, hoo, hww]
      · cases hr : c14MulE a a with
        | error err => simp [hr, Except.map] at hp
        | ok v =>
          simp [hr, Except.map] at hp
          subst hp
          obtain ⟨d, rfl⟩ := len1 hl
          pow_simp hH hk
          simp [htt, hoo, hww, hr]
      · subst hp
        obtain ⟨d, rfl⟩ := len1 hl
        pow_simp hH hk
        simp [htt, hoo, hww]
      · subst hp
        obtain ⟨d, rfl⟩ := len1 hl
        pow_simp hH hk
        simp [htt, hoo, hww]
  | _ =>
    simp [pure, Except.pure] at hp
    subst hp
    obtain ⟨x, y, rfl⟩ := len2 hl
    simp [progOf, tableCurrent, Generated.c14CCodeTable, C14Prog.asm, C14SE.asm, C14SE.asmL,
      C14Cond.eval, c14Field, c14Format, Doc.render, Except.map, pure, Except.pure,
      String.append_assoc, Expr.isConstant]

/-- the regenerated rest of `map_sum` (sorts, ` + `, ` - %s`, own precedence) is the modelled one -/
theorem sumAsm_current : SumAsmSpec (sumRowOf tableCurrent) := by constructor <;> rfl

/-- the row of `map_constant` in a table -/
def constRowOf (T : C14Table) : C14ConstRow :=
  match T.handlers.find? (fun h => h.name == "map_constant") with
  | some ⟨_, _, .constant r⟩ => r
  | _ => default

/-- the regenerated `map_constant` is the one the model's `constDoc` was written from -/
theorem constSpec_current : ConstSpec (constRowOf tableCurrent) := by constructor <;> rfl

/-- **The text of every handler is the regenerated table's.**  Given the printed operands `ds` (as
many as the handler's recursive calls), the text of the structure the hand-written `assemble`
builds is the string the table interpreter builds from the handler body in the current source with
Python's own string operations: the separators (` * `, ` && `, `/`, …), the format strings
(`pow(%s, %s)`, `(%s/%s)`, `(%s ? %s : %s)`, `%s[%s]`), the own precedence that decides the
parentheses, the classes forced into parentheses, the sorted positives joined by ` + ` followed by
the sorted negated products each behind ` - `, the sign test of constants. -/
theorem asm_eq_table_current (S : PrintPrec) (rev : Bool) (enc : Nat) (e : Expr) (ds : List Doc)
    (pl : List (Expr × Nat)) (hp : plan S e enc = .ok pl) (hl : ds.length = pl.length) :
    (assemble S rev e enc ds).map Doc.render
      = c14AsmT tableCurrent S rev e enc (ds.map Doc.render) := by
  cases e with
  | const c =>
    cases c with
    | str s => rfl
    | none => rfl
    | int n =>
      have h1 : assemble S rev (.const (.int n)) enc ds = constDoc S (.int n) enc := by
        simp only [assemble]
      rw [h1]
      exact constAsm_eq_row _ constSpec_current helpers_current S (.int n) enc
    | bool b =>
      have h1 : assemble S rev (.const (.bool b)) enc ds = constDoc S (.bool b) enc := by
        simp only [assemble]
      rw [h1]
      exact constAsm_eq_row _ constSpec_current helpers_current S (.bool b) enc
    | flt r n d =>
      have h1 : assemble S rev (.const (.flt r n d)) enc ds = constDoc S (.flt r n d) enc := by
        simp only [assemble]
      rw [h1]
      exact constAsm_eq_row _ constSpec_current helpers_current S (.flt r n d) enc
  | nary o cs =>
    by_cases ho : o = .sum
    · subst ho
      show _ = c14SumAsm (sumRowOf tableCurrent) S tableCurrent.helpers rev (.nary .sum cs) enc
        (ds.map Doc.render)
      exact sumAsm_eq_row _ sumNeg_current sumAsm_current helpers_current S rev enc cs ds
    · have : pl.length = cs.length := by
        cases o <;> first | exact absurd rfl ho | (cases hp; simp)
      exact asm_join_current S rev enc o cs ds ho (hl.trans this)
  | bin o a b =>
    by_cases ho : o = .pow
    · subst ho
      exact asm_pow_current S rev enc a b ds pl hp hl
    · exact asm_fixed_current S rev enc _ ds pl (fun _ _ h => by cases h)
        (fun _ _ h => by cases h; exact ho rfl) (fun _ _ h => by cases h) (fun _ _ h => by cases h)
        (fun _ h => by cases h) hp hl
  | call g as => exact asm_call_current S rev enc g as ds pl hp hl
  | subscript a i => exact asm_subscript_current S rev enc a i ds pl hp hl
  | _ =>
    exact asm_fixed_current S rev enc _ ds pl (fun _ _ h => by cases h)
      (fun _ _ h => by cases h) (fun _ _ h => by cases h) (fun _ _ h => by cases h)
      (fun _ h => by cases h) hp hl

/-- **Every handler except `map_common_subexpression`, run from the table.**  For any recursive
printer `f`, allocator state, node and precedence: the model's `ccodeGeneric` (plan, print the
planned operands left to right threading the allocator, assemble) returns the text, the hoisted
names and the state that the table interpreter returns on the regenerated table. -/
theorem generic_eq_table_current (S : PrintPrec) (f : CSt → Expr → Nat → Except CErr COut)
    (st : CSt) (e : Expr) (enc : Nat) :
    (ccodeGeneric S f st e enc).map outText
      = c14GenericT tableCurrent S (textPrinter f) st e enc := by
  have key : ∀ pl, plan S e enc = .ok pl → c14PlanT tableCurrent S e enc = .ok pl →
      (ccodeGeneric S f st e enc).map outText
        = c14GenericT tableCurrent S (textPrinter f) st e enc := by
    intro pl hp hpt
    simp only [ccodeGeneric, c14GenericT, hp, hpt, bind, Except.bind, ← printAll_text]
    cases hq : printAll f st pl with
    | error err => rfl
    | ok v =>
      obtain ⟨ds, refs, st'⟩ := v
      simp only [Except.map, outsText]
      have := asm_eq_table_current S st.reverse enc e ds pl hp (printAll_length f pl st ds refs st' hq)
      rw [← this]
      cases assemble S st.reverse e enc ds <;> rfl
  by_cases hc : ∃ c, e = .const c
  · obtain ⟨c, rfl⟩ := hc
    cases c with
    | str s => rfl
    | none => rfl
    | _ => exact key [] rfl rfl
  · have hne : ∀ c, e ≠ .const c := fun c h => hc ⟨c, h⟩
    have hpe := plan_eq_table_current S enc e hne
    cases hp : plan S e enc with
    | error err =>
      simp only [ccodeGeneric, c14GenericT, ← hpe, hp, bind, Except.bind]
      rfl
    | ok pl => exact key pl hp (hpe ▸ hp)

/-- the row of `map_common_subexpression` in a table -/
def cseRowOf (T : C14Table) : C14CseRow :=
  match T.handlers.find? (fun h => h.name == "map_common_subexpression") with
  | some ⟨_, _, .cse r⟩ => r
  | _ => default

/-- the regenerated `map_common_subexpression` (key, recursive call, name generators, stores) is
the one the model's `ccodeCse` / `candName` were written from -/
theorem cseSpec_current : CseSpec (cseRowOf tableCurrent) := by constructor <;> rfl

/-! ### the whole recursion -/

/-- the dispatch of the current table sends wrappers to the allocator protocol … -/
theorem cseT_dispatch (S : PrintPrec) (fuel : Nat) (st : CSt) (c : Expr) (p : Option String)
    (sc : String) (enc : Nat) :
    c14CcodeET tableCurrent S (fuel + 1) st (.cse c p sc) enc
      = c14CseT (cseRowOf tableCurrent) S (c14CcodeET tableCurrent S fuel) st c p sc enc := rfl

/-- … and every other node to the generic handler run -/
theorem genericT_dispatch (S : PrintPrec) (fuel : Nat) (st : CSt) (e : Expr) (enc : Nat)
    (h : ∀ c p sc, e ≠ .cse c p sc) :
    c14CcodeET tableCurrent S (fuel + 1) st e enc
      = c14GenericT tableCurrent S (c14CcodeET tableCurrent S fuel) st e enc := by
  cases e with
  | cse c p sc => exact absurd rfl (h c p sc)
  | const c => cases c <;> rfl
  | nary o _ => cases o <;> rfl
  | bin o _ _ => cases o <;> rfl
  | un o _ => cases o <;> rfl
  | _ => rfl

/-- the model dispatches the same way -/
theorem ccodeE_generic (S : PrintPrec) (fuel : Nat) (st : CSt) (e : Expr) (enc : Nat)
    (h : ∀ c p sc, e ≠ .cse c p sc) :
    ccodeE S (fuel + 1) st e enc = ccodeGeneric S (ccodeE S fuel) st e enc := by
  cases e with
  | cse c p sc => exact absurd rfl (h c p sc)
  | _ => rfl

/-- **`CCodeMapper.rec` is the regenerated table, run.**  For every recursion budget, allocator
state, expression and enclosing precedence the hand-written `ccodeE` returns the TEXT, the hoisted
names the text refers to, and the allocator state (`cse_to_name`, `cse_names`, `cse_name_list`)
that the table interpreter `c14CcodeET` returns on the table read from the current source —
dispatch (class ↦ handler along the MRO), every handler body, the allocator protocol of
`map_common_subexpression` with its name generators, the helper methods. -/
theorem ccodeE_eq_table_current (S : PrintPrec) :
    ∀ (fuel : Nat) (st : CSt) (e : Expr) (enc : Nat),
      (ccodeE S fuel st e enc).map outText = c14CcodeET tableCurrent S fuel st e enc := by
  intro fuel
  induction fuel with
  | zero => intro st e enc; rfl
  | succ fuel ih =>
    intro st e enc
    have hf : textPrinter (ccodeE S fuel) = c14CcodeET tableCurrent S fuel := by
      funext st e enc
      exact ih st e enc
    by_cases hc : ∃ c p sc, e = .cse c p sc
    · obtain ⟨c, p, sc, rfl⟩ := hc
      rw [cseT_dispatch, ← hf]
      exact cse_eq_row _ cseSpec_current S (ccodeE S fuel) st c p sc enc
    · have hne : ∀ c p sc, e ≠ .cse c p sc := fun c p sc h => hc ⟨c, p, sc, h⟩
      rw [genericT_dispatch S fuel st e enc hne, ccodeE_generic S fuel st e enc hne, ← hf]
      exact generic_eq_table_current S (ccodeE S fuel) st e enc

/-- `mapper(expr)` (`__call__` with its default `prec`): model = table, run -/
theorem ccode_eq_table_current (S : PrintPrec) (st : CSt) (e : Expr) :
    (ccode S st e).map outText = c14CcodeT tableCurrent S st e :=
  ccodeE_eq_table_current S (2 * e.size + 4) st e S.none

/-! ### `__init__`, `copy`, `copy_with_mapped_cses` -/

/-- **`CCodeMapper.__init__` as read from the source builds the modelled state**: `cse_to_name`
keyed by the SECOND component of every pair with the first as value, `cse_names` the set of second
components, `cse_name_list` a copy of the list — the quirk behind the known `copy()` findings. -/
theorem init_eq_table_current (reverse : Bool) (pfx : String) (l : List CEntry) :
    c14InitT tableCurrent.init { reverse := some reverse, pfx := some pfx, list := some l }
      = some (CSt.ofList reverse pfx l) := by
  simp [c14InitT, tableCurrent, Generated.c14CCodeTable, List.lookup, dictOf_second_first,
    c14SetOf, CSt.ofList, C14Sel.key]

/-- a mapper constructed with no arguments is the model's initial state -/
theorem init_default_current :
    c14InitT tableCurrent.init { reverse := none, pfx := none, list := none } = some {} := by
  simp [c14InitT, tableCurrent, Generated.c14CCodeTable, List.lookup, c14DictOf, c14SetOf]

/-- **`copy()` as read from the source is the modelled one**: a new `CCodeMapper` constructed from
`self.reverse`, `self.cse_prefix`, … and the name list, bound to the constructor's parameters by
position. -/
theorem copy_eq_table_current (st : CSt) :
    c14CopyT tableCurrent.init tableCurrent.copy tableCurrent.mapper st none = some st.copy := by
  have := init_eq_table_current st.reverse st.pfx st.nameList
  simp [c14CopyT, tableCurrent, Generated.c14CCodeTable, List.lookup, List.zip, CSt.copy] at this ⊢
  exact this

/-- **`copy_with_mapped_cses` as read from the source is the modelled one**: `copy` of the name
list extended by the given pairs. -/
theorem copyMapped_eq_table_current (st : CSt) (pairs : List (String × Expr)) :
    c14CopyMappedT tableCurrent.init tableCurrent.copy tableCurrent.copyMapped tableCurrent.mapper
      st pairs = some (st.copyWithMappedCses pairs) := by
  have := init_eq_table_current st.reverse st.pfx
    (st.nameList ++ pairs.map fun p => { name := p.1, val := .expr p.2 })
  simp [c14CopyMappedT, c14CopyT, tableCurrent, Generated.c14CCodeTable, List.lookup, List.zip,
    CSt.copyWithMappedCses] at this ⊢
  exact this

/-! ### histories -/

/-- any sequence of expressions through one mapper: model = table, run -/
theorem emits_eq_table_current (S : PrintPrec) :
    ∀ (es : List Expr) (st : CSt), emits S st es = c14EmitsT tableCurrent S st es := by
  intro es
  induction es with
  | nil => intro st; rfl
  | cons e es ih =>
    intro st
    simp only [emits, c14EmitsT, ← ccode_eq_table_current, ← ih, bind, Except.bind]
    cases ccode S st e with
    | error err => rfl
    | ok v =>
      obtain ⟨d, r, st1⟩ := v
      simp only [Except.map, outText]
      cases emits S st1 es with
      | error err => rfl
      | ok w => rfl

/-- **Any history of `emit` / `copy()` / `copy_with_mapped_cses(…)` on a pool of mappers: the model
is the regenerated table, run** — every returned text, the hoisted names it refers to, and the
complete allocator state of every mapper in the pool. -/
theorem runOps_eq_table_current (S : PrintPrec) :
    ∀ (ops : List COpn) (pool : List CSt),
      runOps S pool ops = c14RunOpsT tableCurrent S pool ops := by
  intro ops
  induction ops with
  | nil => intro pool; rfl
  | cons op ops ih =>
    intro pool
    cases op with
    | emit i e =>
      simp only [runOps, c14RunOpsT]
      cases pool[i]? with
      | none => rfl
      | some st =>
        simp only [← ccode_eq_table_current, ← ih, bind, Except.bind]
        cases ccode S st e with
        | error err => rfl
        | ok v =>
          obtain ⟨d, r, st1⟩ := v
          simp only [Except.map, outText]
          cases runOps S (pool.set i st1) ops with
          | error err => rfl
          | ok w => rfl
    | copy i =>
      simp only [runOps, c14RunOpsT]
      cases pool[i]? with
      | none => rfl
      | some st =>
        simp only [copy_eq_table_current, ← ih, bind, Except.bind]
        cases runOps S (pool ++ [st.copy]) ops with
        | error err => rfl
        | ok w => rfl
    | copyMapped i pairs =>
      simp only [runOps, c14RunOpsT]
      cases pool[i]? with
      | none => rfl
      | some st =>
        simp only [copyMapped_eq_table_current, ← ih, bind, Except.bind]
        cases runOps S (pool ++ [st.copyWithMappedCses pairs]) ops with
        | error err => rfl
        | ok w => rfl

/-! ### the C14 theorems, about the regenerated table -/

variable (S : PrintPrec)

/-- **Hoisted names are unique — for what the current source says.**  (`names_unique`
transported along `emits_eq_table_current`.) -/
theorem names_unique_current (reverse : Bool) (pfx : String) (es : List Expr)
    (outs : List (String × List String)) (st : CSt)
    (h : c14EmitsT tableCurrent S { reverse, pfx } es = .ok (outs, st)) : st.assigned.Nodup :=
  names_unique S reverse pfx es outs st (by rw [emits_eq_table_current]; exact h)

/-- **A wrapped subexpression is assigned once — for what the current source says.** -/
theorem assigned_once_current (reverse : Bool) (pfx : String) (es : List Expr)
    (outs : List (String × List String)) (st : CSt)
    (h : c14EmitsT tableCurrent S { reverse, pfx } es = .ok (outs, st)) :
    (st.nameList.map entryKey).Pairwise (fun a b => a.eq b = false) ∧
    (∀ e ∈ st.nameList, e.child.isSome = true) ∧
    st.toName = st.nameList.map (fun e => (entryKey e, e.name)) ∧
    st.names = st.nameList.map (fun e => CCKey.text e.name) :=
  assigned_once S reverse pfx es outs st (by rw [emits_eq_table_current]; exact h)

/-- **Assigned before use, copies included — for what the current source says.** -/
theorem assigned_before_use_current (reverse : Bool) (pfx : String) (ops : List COpn)
    (outs : List CStepOut) (pool : List CSt)
    (h : c14RunOpsT tableCurrent S [{ reverse, pfx }] ops = .ok (outs, pool)) :
    (∀ st ∈ pool, refsBefore [] st.nameList) ∧ OutsOK pool ops outs :=
  assigned_before_use S reverse pfx ops outs pool (by rw [runOps_eq_table_current]; exact h)

/-- **The C value of the text the current source prescribes** (`ccode_value_c_partial` transported):
the text `s` the table interpreter returns for an expression of the proved fragment is the text of
a printed structure whose C reading is the evaluator's value. -/
theorem ccode_value_c_current_partial (hS : PrecA S ∧ PrecB S) (env : Env) (e : Expr) (st : CSt)
    (s : String) (refs : List String) (st' : CSt) (w : CVal) (hfrag : cFrag e = true)
    (hrun : c14CcodeT tableCurrent S st e = .ok (s, refs, st')) (hv : denV env e = some w) :
    ∃ d : Doc, d.render = s ∧ denC env d = some w.toInt ∧ den env e = .ok w.toValue := by
  rw [← ccode_eq_table_current] at hrun
  cases hc : ccode S st e with
  | error err => simp [hc, Except.map] at hrun
  | ok v =>
    obtain ⟨d, r, st1⟩ := v
    simp only [hc, Except.map, outText, Except.ok.injEq, Prod.mk.injEq] at hrun
    obtain ⟨h1, h2, h3⟩ := hrun
    subst h2 h3
    exact ⟨d, h1, ccode_value_c_partial S hS env e st d r st1 w hfrag hc hv⟩

/-- … and C's grammar groups that text as the tree -/
theorem ccode_parens_sufficient_current (hS : PrecA S ∧ PrecB S) (e : Expr) (st : CSt) (s : String)
    (refs : List String) (st' : CSt) (hfrag : cFrag e = true)
    (hrun : c14CcodeT tableCurrent S st e = .ok (s, refs, st')) :
    ∃ d : Doc, d.render = s ∧ cwf d = true := by
  rw [← ccode_eq_table_current] at hrun
  cases hc : ccode S st e with
  | error err => simp [hc, Except.map] at hrun
  | ok v =>
    obtain ⟨d, r, st1⟩ := v
    simp only [hc, Except.map, outText, Except.ok.injEq, Prod.mk.injEq] at hrun
    exact ⟨d, hrun.1, ccode_parens_sufficient S hS e st d r st1 hfrag hc⟩

/-! ### what the regenerated table says about classes and dispatch -/

/-- the node classes the C model prints -/
def modelledClasses : List String :=
  ["Variable", "Sum", "Product", "BitwiseOr", "BitwiseXor", "BitwiseAnd", "LogicalOr",
   "LogicalAnd", "Min", "Max", "Quotient", "FloorDiv", "Remainder", "Power", "LeftShift",
   "RightShift", "BitwiseNot", "LogicalNot", "Comparison", "If", "Call", "Subscript", "Lookup",
   "CommonSubexpression"]

/-- **The dataclass fields the interpreter's attribute access knows are the fields of the current
node classes** (names, order, kinds), for every modelled class. -/
theorem class_fields_current :
    modelledClasses.all (fun n =>
      match tableCurrent.classes.find? (fun c => c.cls == n), c14ClassFields n with
      | some c, some fs => c.fields == fs
      | _, _ => false) = true := by decide

/-- **Every modelled class reaches a handler the table describes**, and the mapper's `rec` is
`Mapper.__call__` reached through `StringifyMapper.__call__` with `prec = PREC_NONE`. -/
theorem handlers_cover_current :
    modelledClasses.all (fun n =>
      match tableCurrent.classes.find? (fun c => c.cls == n) with
      | some c => match c.handler with
        | some h => tableCurrent.handlers.any (fun x => x.name == h)
        | none => false
      | none => false) = true ∧
    tableCurrent.recOwner = "Mapper" ∧ tableCurrent.callDefaultPrec = .named "PREC_NONE" ∧
    tableCurrent.mapper = "CCodeMapper" := by decide

/-! ### edits of the table change what the interpreter prints (witnesses) -/

def editHandler (T : C14Table) (name : String) (f : C14Body → C14Body) : C14Table :=
  { T with handlers := T.handlers.map fun h => if h.name == name then { h with body := f h.body } else h }

/-- the table of a source in which the hoisted name is keyed by the wrapper instead of its child -/
def tableKeyedByWrapper : C14Table :=
  editHandler tableCurrent "map_common_subexpression" fun b => match b with
    | .cse r => .cse { r with
        keyField := ""
        effects := [.appendList true, .storeToName "", .addName, .assertSameLen] }
    | b => b

def twoWrappers : Expr :=
  .nary .sum [.cse xPlus1 (some "u") "s", .cse xPlus1 (some "v") "s"]

def assignedT (r : Except CErr (String × List String × CSt)) : Option (String × List String) :=
  match r with
  | .ok (s, _, st) => some (s, st.assigned)
  | .error _ => none

/-- **keyed by the wrapper, the same child under two prefixes is assigned twice**: the edited table
prints `_cse_v + _cse_u` with two assignments, the current one `_cse_u + _cse_u` with one. -/
theorem keyed_by_wrapper_table_cex :
    assignedT (c14CcodeT tableKeyedByWrapper Generated.printPrec {} twoWrappers)
      = some ("_cse_v + _cse_u", ["_cse_u", "_cse_v"]) ∧
    assignedT (c14CcodeT tableCurrent Generated.printPrec {} twoWrappers)
      = some ("_cse_u + _cse_u", ["_cse_u"]) := by decide

def textT (r : Except CErr (String × List String × CSt)) : Option String :=
  match r with
  | .ok (s, _, _) => some s
  | .error _ => none

/-- the table of a source whose `map_power` hands `pow` its arguments in the other order -/
def tablePowSwapped : C14Table :=
  editHandler tableCurrent "map_power" fun _ =>
    .prog (.ret (.format ["pow(", ", ", ")"]
      [.recur (.field "exponent") (.named "PREC_NONE"), .recur (.field "base") (.named "PREC_NONE")]))

/-- **`pow` argument order is read from the table**: `x**y` -/
theorem pow_swapped_table_cex :
    textT (c14CcodeT tablePowSwapped Generated.printPrec {} (.bin .pow (.var "x") (.var "y")))
      = some "pow(y, x)" ∧
    textT (c14CcodeT tableCurrent Generated.printPrec {} (.bin .pow (.var "x") (.var "y")))
      = some "pow(x, y)" := by decide

/-- the table of a source whose `map_floor_div` lost its parentheses -/
def tableFloorDivBare : C14Table :=
  editHandler tableCurrent "map_floor_div" fun _ =>
    .prog (.ret (.format ["", "/", ""]
      [.recur (.field "numerator") (.named "PREC_PRODUCT"),
       .recur (.field "denominator") (.named "PREC_POWER")]))

/-- **the parentheses of `(a/b)` are read from the table**: `c % (a // b)` -/
theorem floor_div_bare_table_cex :
    textT (c14CcodeT tableFloorDivBare Generated.printPrec {}
        (.bin .rem (.var "c") (.bin .floordiv (.var "a") (.var "b")))) = some "c % (a/b)" ∧
    textT (c14CcodeT tableFloorDivBare Generated.printPrec {}
        (.bin .pow (.bin .floordiv (.var "a") (.var "b")) (.const (.int 1)))) = some "a/b" ∧
    textT (c14CcodeT tableCurrent Generated.printPrec {}
        (.bin .pow (.bin .floordiv (.var "a") (.var "b")) (.const (.int 1)))) = some "(a/b)" := by
  decide

/-- the table of a source whose sorted sum writes ` + ` before a negated product -/
def tableSumLostMinus : C14Table :=
  editHandler tableCurrent "map_sum" fun b => match b with
    | .sum r => .sum { r with negPieces := [" + ", ""] }
    | b => b

/-- **the minus sign of `a + -1*b ⇒ a - b` is read from the table** -/
theorem sum_lost_minus_table_cex :
    textT (c14CcodeT tableSumLostMinus Generated.printPrec {}
        (.nary .sum [.var "a", .nary .prod [.const (.int (-1)), .var "b"]])) = some "a + b" ∧
    textT (c14CcodeT tableCurrent Generated.printPrec {}
        (.nary .sum [.var "a", .nary .prod [.const (.int (-1)), .var "b"]])) = some "a - b" := by
  decide

/-- the table of a source whose `copy()` does not pass the name list to the constructor -/
def tableCopyDropsList : C14Table :=
  { tableCurrent with copy := { tableCurrent.copy with
      args := [.attr "reverse", .attr "cse_prefix", .attr "complex_constant_base_type"] } }

def oneHoisted : CSt :=
  match ccode Generated.printPrec {} (.cse xPlus1 (some "u") "s") with
  | .ok (_, _, st) => st
  | .error _ => {}

/-- **`copy()` passing the name list is read from the table**: without it the copy is empty -/
theorem copy_drops_list_table_cex :
    ((c14CopyT tableCopyDropsList.init tableCopyDropsList.copy "CCodeMapper" oneHoisted none).map
        CSt.assigned) = some [] ∧
    ((c14CopyT tableCurrent.init tableCurrent.copy "CCodeMapper" oneHoisted none).map
        CSt.assigned) = some ["_cse_u"] := by decide

/-! ### non-vacuity -/

/-- the table interpreter on the regenerated table prints a history with shared wrappers, repeated
prefixes and a copy exactly like the model (and like Python) -/
example :
    (match c14EmitsT tableCurrent Generated.printPrec {}
        [.nary .sum [.cse xPlus1 (some "u") "s", .cse xPlus1 (some "v") "s",
                      .cse (.var "y") (some "u") "s", .cse (.var "z") none "s"],
         .subscript (.cse (.var "a") (some "u_2") "s") (.cse (.var "b") none "s")] with
      | .ok (outs, st) => (outs.map (·.1), st.assigned)
      | .error _ => ([], [])) =
    (["_cse_u_2 + _cse_u + _cse_u + _cse0", "_cse_u_2_2[_cse1]"],
     ["_cse_u", "_cse_u_2", "_cse0", "_cse1", "_cse_u_2_2"]) := by decide

example :
    textT (c14CcodeT tableCurrent Generated.printPrec {}
      (.nary .sum [.var "c", .nary .prod [.const (.int (-1)), .var "b"],
        .bin .floordiv (.nary .prod [.var "a", .bin .pow (.var "x") (.const (.int 2))])
          (.nary .sum [.var "b", .const (.int 1)]),
        .bin .rem (.var "a") (.var "b"), .call (.var "f") [.bin .pow (.var "x") (.var "y")]]))
      = some "f(pow(x, y)) + c + a % b + (a * x * x/(b + 1)) - b" := by decide

example : (c14RunOpsT tableCurrent Generated.printPrec [{}] copyHistory).toOption.map
      (fun r => r.2.map CSt.assigned)
    = some [["_cse_u"], ["_cse_u", "_cse_u", "_cse_u_2"]] := by decide


end PV.C14
