import PV.Model.Parser
import PV.Generated.Prec
