import PV.Model.Parser
import PV.Generated.Prec
import PV.Proofs.SyntaxSuffix
import PV.Proofs.SyntaxGrouping
import PV.Proofs.SyntaxLexOrder
import PV.Generated.Lex
/-
  C07 — the parser groups operators as Python does, and consumes the whole input or raises.

  Proved about the parser model (`parseExpr …`, tied to `pymbolic.parser.Parser` by the
  correspondence stream), for an ARBITRARY precedence table `P`:
  * `rest_is_suffix`, `consumes_all_or_error`: a parse function only ever removes a prefix of its
    input, and `parseTop` succeeds only if nothing is left;
  * `two_operator_grouping`, `prefix_operator_grouping`: `a o1 b o2 c` and `p a o b` are grouped
    according to one comparison of table entries (`absorbs2`, `absorbsPre`);
  and, for the table regenerated from /repo, against Python's own grouping written down from the
  language reference (`pyGroup`, `pyPrefixWide`):
  * `grouping_deviations_current`, `prefix_deviations_current`: the operator pairs on which the
    parser deviates from Python are EXACTLY the listed ones;
  and about the LEXER model (`PV/Model/Lexer.lean`, tied to `pytools.lex.lex` on
  `Parser.lex_table` by the `lex` streams):
  * `lexer_partitions_input` (any table): the lexed items are non-empty and concatenate to the
    input; `parse_string_consumes_all`: a tree is returned only if lexer and parser consumed the
    whole string;
  * `operator_token_current`: every operator / keyword / punctuation token of the table is lexed
    as ONE item with its own tag whenever the next character cannot extend it (`**` before `*`,
    `//` before `/`, `<<` `<=` before `<`, `==` before `=`, keywords before identifiers);
  * `imaginary_rule_dead_current`: no lexed item ever carries the tag `imaginary`;
  * `lexer_order_current` (`decide` on the regenerated table): no literal rule hides a later
    one except the duplicated `==` entry, the float rule precedes the integer rule, the keyword
    and `True\b`/`False\b` rules (word boundary like the keywords) precede the identifier rule.
-/
namespace PV.C07
open PV PV.Syntax

/-! ### (a) the input is consumed from the left, completely or not at all -/

/-- whatever `parse_expression` leaves over is a suffix of what it was given -/
theorem rest_is_suffix (P : ParserPrec) (fuel m : Nat) (ts : List Tok) (e : Expr) (rest : List Tok)
    (h : parseExpr P fuel m ts = .ok (e, rest)) : rest <:+ ts :=
  (sufAll P fuel).1 m ts e rest h

/-- the same for the argument-list parser -/
theorem arglist_rest_is_suffix (P : ParserPrec) (fuel : Nat) (ts : List Tok) (a kn kv ca x)
    (rest : List Tok) (h : parseArglist P fuel ts a kn kv ca = .ok (x, rest)) : rest <:+ ts :=
  (sufAll P fuel).2.2.2 ts a kn kv ca x rest h

/-- **The parser consumes the whole input or raises.**  `parseTop` returns a tree only when
`parse_expression` stopped at the end of the token list; if tokens are left over the result is
the parse error. -/
theorem consumes_all_or_error (P : ParserPrec) (m : Nat) (ts : List Tok) :
    (∀ e, parseTop P m ts = .ok e → parseExpr P (2 * ts.length + 8) m ts = .ok (e, [])) ∧
    (∀ e t rest, parseExpr P (2 * ts.length + 8) m ts = .ok (e, t :: rest) →
      parseTop P m ts = .error .parse ∧ t :: rest <:+ ts) := by
  constructor
  · intro e h
    unfold parseTop at h
    split at h
    · simp only [pure, Except.pure, Except.ok.injEq] at h; subst h; assumption
    · cases h
    · cases h
  · intro e t rest h
    refine ⟨by simp [parseTop, h, throw, throwThe, MonadExceptOf.throw], ?_⟩
    exact rest_is_suffix P _ m ts e _ h

example : parseTop Generated.parserPrec 0 [.ident "a", .sym ")", .ident "b"] = .error .parse := by
  decide +kernel

/-! ### (b) the grouping of two operators, from the table -/

/-- the 16 binary operator tokens shared with Python:
`+ - * / // % ** << >> & | ^ == < and or` -/
def binToks : List BinTok :=
  [.op .plus, .minus, .op .times, .op .quot, .op .floordiv, .op .rem, .op .pow, .op .lshift,
   .op .rshift, .op .band, .op .bor, .op .bxor, .op (.cmp .eq), .op (.cmp .lt), .op .land,
   .op .lor]

example : binToks.map BinTok.sym =
    ["+", "-", "*", "/", "//", "%", "**", "<<", ">>", "&", "|", "^", "==", "<", "and", "or"] := by
  decide

/-- the right operand of `o1` swallows a following `o2`: the guard of `o2` exceeds the level
at which the right operand of `o1` is parsed -/
def absorbs2 (P : ParserPrec) (o1 o2 : BinTok) : Bool := decide (o2.guard P > o1.rhs P)

/-- the operand of a prefix operator swallows a following `o` -/
def absorbsPre (P : ParserPrec) (o : BinTok) : Bool := decide (o.guard P > P.unary)

/-- every binary operator is absorbed at the outermost level -/
def guardsPositive (P : ParserPrec) : Bool := binToks.all fun o => decide (o.guard P > 0)

theorem guards_pos {P : ParserPrec} (h : guardsPositive P = true) (o : BinTok) : o.guard P > 0 := by
  simp only [guardsPositive, binToks, List.all_cons, List.all_nil, Bool.and_true,
    Bool.and_eq_true, decide_eq_true_eq] at h
  rcases o with o | _
  · cases o <;> simp_all [BinTok.guard, Infix.guard]
  · simp_all [BinTok.guard, Infix.guard]

/-- **Two-operator grouping, generic in the table.**  `a o1 b o2 c` parses to the right
grouping `a o1 (b o2 c)` if `absorbs2 P o1 o2`, and to the left grouping `(a o1 b) o2 c`
otherwise (the nodes are built by `BinTok.build`: sums and products are spliced, `-` negates
its right operand). -/
theorem two_operator_grouping {P : ParserPrec} (hP : guardsPositive P = true) (o1 o2 : BinTok)
    (a b c : String) :
    parseTop P 0 [.ident a, .sym o1.sym, .ident b, .sym o2.sym, .ident c] =
      if absorbs2 P o1 o2 then o2.build (.var b) (.var c) >>= o1.build (.var a)
      else o1.build (.var a) (.var b) >>= fun l => o2.build l (.var c) := by
  rw [grouping (guards_pos hP) o1 o2 a b c]
  simp [absorbs2]

/-- **Prefix-operator grouping, generic in the table.**  `p a o b` (`p` one of `-`, `~`, `not`)
parses to `p (a o b)` if `absorbsPre P o`, and to `(p a) o b` otherwise. -/
theorem prefix_operator_grouping {P : ParserPrec} (hP : guardsPositive P = true) (p : PreTok)
    (o : BinTok) (a b : String) :
    parseTop P 0 [.sym p.sym, .ident a, .sym o.sym, .ident b] =
      if absorbsPre P o then o.build (.var a) (.var b) >>= p.build
      else p.build (.var a) >>= fun l => o.build l (.var b) := by
  rw [prefix_grouping (guards_pos hP) p o a b]
  simp [absorbsPre]

theorem guards_positive_current : guardsPositive Generated.parserPrec = true := by decide

example : parseTop Generated.parserPrec 0 [.ident "a", .sym "*", .ident "b", .sym "/", .ident "c"]
    = .ok (.nary .prod [.var "a", .bin .quot (.var "b") (.var "c")]) := by
  rw [show "*" = (BinTok.op .times).sym from rfl, show "/" = (BinTok.op .quot).sym from rfl,
    two_operator_grouping guards_positive_current]
  decide +kernel

/-! ### Python's own grouping (The Python Language Reference, 6.17 "Operator precedence") -/

/-- binding strength in Python, weakest first: `or`, `and`, `not`, comparisons, `|`, `^`, `&`,
shifts, `+ -`, `* / // %`, unary `- ~`, `**` -/
def pyPrec : BinTok → Nat
  | .op .lor => 1 | .op .land => 2 | .op (.cmp _) => 4 | .op .bor => 5 | .op .bxor => 6
  | .op .band => 7 | .op .lshift | .op .rshift => 8 | .op .plus | .minus => 9
  | .op .times | .op .quot | .op .floordiv | .op .rem => 10 | .op .pow => 12

def pyPrecPre : PreTok → Nat
  | .lnot => 3 | .neg | .bnot => 11

inductive Grouping where
  | left     -- `(a o1 b) o2 c`
  | right    -- `a o1 (b o2 c)`
  | chain    -- `a < b < c` means `(a < b) and (b < c)`
  deriving Repr, DecidableEq

def isCmp : BinTok → Bool
  | .op (.cmp _) => true
  | _ => false

/-- Python: all binary operators associate to the left except `**`; comparisons chain -/
def pyGroup (o1 o2 : BinTok) : Grouping :=
  if isCmp o1 && isCmp o2 then .chain
  else if pyPrec o2 > pyPrec o1 then .right
  else if pyPrec o2 = pyPrec o1 ∧ o1 = .op .pow then .right
  else .left

def parserGroup (P : ParserPrec) (o1 o2 : BinTok) : Grouping :=
  if absorbs2 P o1 o2 then .right else .left

/-- Python: `p a o b` is `p (a o b)` iff `o` binds tighter than `p` (`**` binds tighter than a
unary operator on its left) -/
def pyPrefixWide (p : PreTok) (o : BinTok) : Bool := decide (pyPrec o > pyPrecPre p)

def allPairs : List (BinTok × BinTok) := binToks.flatMap fun a => binToks.map fun b => (a, b)

/-- operator pairs `(o1, o2)` on which `a o1 b o2 c` is grouped differently from Python -/
def groupingDeviations (P : ParserPrec) : List (BinTok × BinTok) :=
  allPairs.filter fun p => parserGroup P p.1 p.2 != pyGroup p.1 p.2

def prefixDeviations (P : ParserPrec) : List (PreTok × BinTok) :=
  ([PreTok.neg, .bnot, .lnot].flatMap fun p => binToks.map fun o => (p, o)).filter
    fun po => absorbsPre P po.2 != pyPrefixWide po.1 po.2

open PV.Generated in
/-- **The grouping matrix of the current code against Python's.**  Of the 256 pairs of binary
operators, the parser groups `a o1 b o2 c` differently from Python on exactly these 21:
* the right operand of `*` is parsed at the level of a sum, so it swallows a following
  `* / // %` (`a*b/c` is `a*(b/c)`; for `a*b*c` the difference disappears once products are
  flattened);
* comparisons rank ABOVE `& | ^` (`a & b == c` is `a & (b == c)`, `a == b & c` is
  `(a == b) & c`);
* `|` and `^` share one level (`a | b ^ c` is `(a | b) ^ c`);
* comparisons nest to the left instead of chaining. -/
theorem grouping_deviations_current :
    (groupingDeviations parserPrec).map (fun p => (p.1.sym, p.2.sym)) =
      [("*", "*"), ("*", "/"), ("*", "//"), ("*", "%"),
       ("&", "=="), ("&", "<"), ("|", "^"), ("|", "=="), ("|", "<"), ("^", "=="), ("^", "<"),
       ("==", "&"), ("==", "|"), ("==", "^"), ("==", "=="), ("==", "<"),
       ("<", "&"), ("<", "|"), ("<", "^"), ("<", "=="), ("<", "<")] := by
  decide

open PV.Generated in
/-- **Prefix operators against binary operators, current code against Python.**  The operand of
a prefix operator is parsed at `_PREC_UNARY`, above every binary operator: `-a**b` is `(-a)**b`,
`~a**b` is `(~a)**b`, and `not a o b` is `(not a) o b` for every binary `o` — Python agrees only
for `and` / `or`. -/
theorem prefix_deviations_current :
    (prefixDeviations parserPrec).map (fun p => (p.1.sym, p.2.sym)) =
      [("-", "**"), ("~", "**"),
       ("not", "+"), ("not", "-"), ("not", "*"), ("not", "/"), ("not", "//"), ("not", "%"),
       ("not", "**"), ("not", "<<"), ("not", ">>"), ("not", "&"), ("not", "|"), ("not", "^"),
       ("not", "=="), ("not", "<")] := by
  decide

open PV.Generated in
/-- on every other pair of binary operators the parser model returns Python's grouping -/
theorem grouping_agrees_current (o1 o2 : BinTok) (h1 : o1 ∈ binToks) (h2 : o2 ∈ binToks)
    (hd : (o1, o2) ∉ groupingDeviations parserPrec) (a b c : String) :
    parseTop parserPrec 0 [.ident a, .sym o1.sym, .ident b, .sym o2.sym, .ident c] =
      match pyGroup o1 o2 with
      | .right => o2.build (.var b) (.var c) >>= o1.build (.var a)
      | _ => o1.build (.var a) (.var b) >>= fun l => o2.build l (.var c) := by
  rw [two_operator_grouping guards_positive_current]
  have hmem : (o1, o2) ∈ allPairs := by
    simp only [allPairs, List.mem_flatMap, List.mem_map]
    exact ⟨o1, h1, o2, h2, rfl⟩
  have : parserGroup parserPrec o1 o2 = pyGroup o1 o2 := by
    by_cases hne : parserGroup parserPrec o1 o2 = pyGroup o1 o2
    · exact hne
    · exact absurd (List.mem_filter.mpr ⟨hmem, by simpa using hne⟩) hd
  have hnc : pyGroup o1 o2 ≠ .chain := by
    rw [← this]; unfold parserGroup; split <;> simp
  unfold parserGroup at this
  split at this
  · rw [← this]; simp [*]
  · revert hnc
    rw [← this]; simp [*]

/-- a pair on which parser and Python agree, and one on which they do not -/
example : parserGroup Generated.parserPrec (.op .plus) (.op .times) = pyGroup (.op .plus) (.op .times) := by
  decide
example : parserGroup Generated.parserPrec (.op .bor) (.op .bxor) = .left ∧
    pyGroup (.op .bor) (.op .bxor) = .right := by decide

/-- the deviations as parses: `a | b ^ c`, `a & b == c`, `a * b / c`, `a == b == c`, `-a ** b` -/
theorem bor_bxor_grouping_cex :
    parseTop Generated.parserPrec 0 [.ident "a", .sym "|", .ident "b", .sym "^", .ident "c"]
      = .ok (.nary .bxor [.nary .bor [.var "a", .var "b"], .var "c"]) := by decide +kernel
theorem band_cmp_grouping_cex :
    parseTop Generated.parserPrec 0 [.ident "a", .sym "&", .ident "b", .sym "==", .ident "c"]
      = .ok (.nary .band [.var "a", .cmp .eq (.var "b") (.var "c")]) := by decide +kernel
theorem times_quot_grouping_cex :
    parseTop Generated.parserPrec 0 [.ident "a", .sym "*", .ident "b", .sym "/", .ident "c"]
      = .ok (.nary .prod [.var "a", .bin .quot (.var "b") (.var "c")]) := by decide +kernel
theorem chained_comparison_cex :
    parseTop Generated.parserPrec 0 [.ident "a", .sym "==", .ident "b", .sym "==", .ident "c"]
      = .ok (.cmp .eq (.cmp .eq (.var "a") (.var "b")) (.var "c")) := by decide +kernel
theorem neg_pow_grouping_cex :
    parseTop Generated.parserPrec 0 [.sym "-", .ident "a", .sym "**", .ident "b"]
      = .ok (.bin .pow (.nary .prod [.const (.int (-1)), .var "a"]) (.var "b")) := by decide +kernel
theorem not_cmp_grouping_cex :
    parseTop Generated.parserPrec 0 [.sym "not", .ident "a", .sym "==", .ident "b"]
      = .ok (.cmp .eq (.un .lnot (.var "a")) (.var "b")) := by decide +kernel


/-! ### (d) the lexer -/

section lexer
open PV.Lexer

/-- the regenerated rule table is the table the lexer model was written against (the C06
obligation `PV.C06.lex_table_current`, restated here: the statements below about the current
table go through it, so an edited table breaks THIS theorem and nothing else) -/
theorem lexer_table_current : Generated.lexTable = Lexer.table := by decide

/-- **`lex` partitions the input** (for every rule table): the texts of the lexed items, in
order and with the whitespace items, concatenate to the input, and no item is empty. -/
theorem lexer_partitions_input (tbl : LexTable) (cs : List Char) (ls : List Lexed)
    (h : lexRawWith tbl cs = .ok ls) : (ls.map (·.2)).flatten = cs ∧ ∀ l ∈ ls, l.2 ≠ [] :=
  lexRawWith_partition h

/-- **A string is parsed completely or not at all**: `parseString` (`Parser.__call__`) returns a
tree only if the lexer split the WHOLE string into items and the parser consumed ALL their
tokens. -/
theorem parse_string_consumes_all (tbl : LexTable) (P : ParserPrec) (m : Nat) (s : String)
    (e : Expr) (h : parseStringWith tbl P m s = .ok e) :
    ∃ ls ts, lexRawWith tbl s.toList = .ok ls ∧ (ls.map (·.2)).flatten = s.toList ∧
      toksOf ls = .ok ts ∧ parseExpr P (2 * ts.length + 8) m ts = .ok (e, []) := by
  unfold parseStringWith at h
  split at h
  · cases h
  · rename_i ts hl
    split at h
    · rename_i e' hp
      simp only [Except.ok.injEq] at h; subst h
      unfold lexWith at hl
      cases hr : lexRawWith tbl s.toList with
      | error err => rw [hr] at hl; simp [bind, Except.bind] at hl
      | ok ls =>
        rw [hr] at hl
        simp only [bind, Except.bind] at hl
        exact ⟨ls, ts, rfl, (lexRawWith_partition hr).1, hl, (consumes_all_or_error P m ts).1 _ hp⟩
    · cases h

/-- **Operator tokens.**  Every operator, keyword and punctuation token of the current table
(`symTable`: text, tag, characters that must not follow) is matched as ONE item carrying its own
tag, at the head of any input, provided the next character cannot extend it: `**` is not two
`*`, `//` not two `/`, `<<` `<=` `>>` `>=` `==` `!=` are not split, a keyword is not the start of
a longer name. -/
theorem operator_token_current {s : List Char} {tag : String} {bad : Char → Bool}
    (hm : (s, tag, bad) ∈ symTable) (rest : List Char) (hn : nextNot bad rest.head? = true) :
    firstMatch Generated.lexTable Generated.lexTable (s ++ rest) = some (tag, s.length) := by
  have ht : Generated.lexTable = Lexer.table := lexer_table_current
  rw [ht, firstMatch_table]
  exact sym_step hm rest hn

/-- **Rule order of the current table** (`decide` on the regenerated table): the only literal
rule that hides a later literal rule is the first `==` entry (it hides its own duplicate); the
float rule comes before the integer rule; the five keyword rules and `True` / `False` (all seven with a
word boundary `\b` since the repair of the `Truex` defect) come before
the identifier rule. -/
theorem lexer_order_current :
    shadowedIn Generated.lexTable = [("equal", "equal")] ∧
    ruleIndex Generated.lexTable "float" < ruleIndex Generated.lexTable "int" ∧
    (["and", "or", "not", "if", "else", "True", "False"].all fun t =>
      decide (ruleIndex Generated.lexTable t < ruleIndex Generated.lexTable "identifier")) = true ∧
    (["and", "or", "not", "if", "else", "True", "False"].all
      (hasBoundary Generated.lexTable)) = true := by
  decide

/-- **The `imaginary` rule of the current table never fires**: every form of the `float` rule ends
in a greedy run of letters, so the `j` that the `imaginary` rule wants after a float is always
inside the float item (`1.5j`, `1j`, `1e5j` are float items with a letter tag, and
`parse_float` raises ValueError on them): complex literals are outside the text syntax, and no
lexed item ever carries the tag `imaginary`. -/
theorem imaginary_rule_dead_current (cs : List Char) (ls : List Lexed)
    (h : lexRawWith Generated.lexTable cs = .ok ls) : ∀ l ∈ ls, l.1 ≠ "imaginary" := by
  have ht : Generated.lexTable = Lexer.table := lexer_table_current
  rw [ht] at h
  exact lexRaw_no_imaginary h

example : lexRawWith Generated.lexTable "1.5j".toList = .ok [("float", "1.5j".toList)] := by
  rw [lexer_table_current]; decide +kernel

example : lexWith Generated.lexTable "a**b//c<<d<=e==f" =
    .ok [.ident "a", .sym "**", .ident "b", .sym "//", .ident "c", .sym "<<", .ident "d",
      .sym "<=", .ident "e", .sym "==", .ident "f"] := by
  rw [lexer_table_current]; decide +kernel
example : lexWith Generated.lexTable "android or x" =
    .ok [.ident "android", .sym "or", .ident "x"] := by
  rw [lexer_table_current]; decide +kernel
/-- numeric literals shared with Python: value and `repr` are computed by the model -/
example : lexWith Generated.lexTable "0.1+1e22" =
    .ok [.flt "0.1" 3602879701896397 36028797018963968, .sym "+",
      .flt "1e+22" 10000000000000000000000 1] := by
  rw [lexer_table_current]; decide +kernel
/-- `parse("1e400")`: the literal overflows (no claim), `1.5x`: letter tag (ValueError) -/
example : lexWith Generated.lexTable "1e400" = .error .nonFinite := by
  rw [lexer_table_current]; decide +kernel
example : lexWith Generated.lexTable "1.5x" = .error .floatText := by
  rw [lexer_table_current]; decide +kernel

end lexer

end PV.C07
