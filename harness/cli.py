from __future__ import annotations

import argparse
import importlib
import os
import sys


def main():
    ap = argparse.ArgumentParser()
    ap.add_argument("prop", nargs="?")
    ap.add_argument("--tier", default=os.environ.get("VERIF_TIER", "quick"))
    ap.add_argument("--replay")
    ap.add_argument("--setup", action="store_true")
    ns = ap.parse_args()
    from . import core, leanio
    if ns.setup:
        from .setup import setup
        sys.exit(setup())
    seed = int(os.environ.get("VERIF_SEED", "0"))
    mod = importlib.import_module(f"harness.props.{ns.prop.lower()}")
    try:
        rc = core.run_check(mod.PROP, ns.tier, seed, ns.replay)
    except Exception:
        import traceback
        traceback.print_exc()
        print(f"check {ns.prop}: harness error (exit 2, not a verdict)")
        sys.exit(2)
    sys.exit(rc)


if __name__ == "__main__":
    main()
