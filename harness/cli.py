from __future__ import annotations

import argparse
import importlib
import os
import sys


def main():
    ap = argparse.ArgumentParser()
    ap.add_argument("prop", nargs="?")
    ap.add_argument("--tier", default=os.environ.get("VERIF_TIER", "quick"))
    ap.add_argument("--replay")
    ap.add_argument("--setup", action="store_true")
    ns = ap.parse_args()
    from . import core, leanio
    if ns.setup:
        from .setup import setup
        sys.exit(setup())
    seed = int(os.environ.get("VERIF_SEED", "0"))
    pid = ns.prop.upper()
    try:
        mod = importlib.import_module(f"harness.props.{ns.prop.lower()}")
        rc = core.run_check(mod.PROP, ns.tier, seed, ns.replay)
    except Exception:
        # The harness itself could not run against this tree (the package does not import, a class
        # of the harness's user hierarchy is rejected, a stream crashes on a changed interface …):
        # the tie between model and code is broken, so the property is no longer shown to hold.
        import json
        import traceback
        tb = traceback.format_exc()
        sys.stderr.write(tb)
        os.makedirs(os.path.join(core.VERIF, "replays"), exist_ok=True)
        rp = os.path.join("replays", f"{pid}-{seed}-harness.json")
        with open(os.path.join(core.VERIF, rp), "w") as f:
            json.dump({"property": pid, "kind": "correspondence_broken",
                       "what": "the harness could not be run against this tree",
                       "traceback": tb.strip().split("\n")[-12:], "seed": seed}, f, indent=1)
        print(f"VIOLATION property={pid} replay={rp} no-failing-input-found")
        sys.exit(1)
    sys.exit(rc)


if __name__ == "__main__":
    main()
