"""C17 support: one expression STRUCTURE, many OBJECT GRAPHS.

The persistent key of an expression "depends only on its structure" (C17).  An expression object
is a DAG: the same subexpression object may be reachable along several paths (`u = x + 1; u*u`,
the output of a caching mapper, of `substitute`, of pickle - whose memo preserves sharing), or
every occurrence may be a separate, equal object (the parser's output, constructor calls written
out).  Everything here builds objects of ONE given S-expression (harness/sexp.py wire format) that
differ only in which occurrences of equal subtrees are the same Python object, and by which route
the object came about.  Importable by the check and by the producer / consumer subprocesses; every
choice is a function of the explicit integer seed (random.Random(int) is the same in every
process), never of hash values, ids or set order.
"""
from __future__ import annotations

import copy
import dataclasses
import pickle
import random
import warnings
from collections.abc import Mapping

import pymbolic.primitives as p

from .sexp import A, Atom, dumps, expr_to_sx, loads, sx_children, sx_replace, sx_to_expr

# routes that need nothing but the S-expression and a seed
PLAIN_ROUTES = ("shared", "partial", "leaves-too", "pickled", "deepcopied", "cached-identity",
                "identity-of-shared", "unpickled-then-shared")


def structure(o) -> str:
    """exact structure (constant TYPES included: 1, 1.0 and True are different structures)"""
    return dumps(expr_to_sx(o))


def share(o, rng, q=1.0, leaves=False, memo=None):
    """rebuild `o` bottom-up; every time a subtree with an already seen structure is met again it
    is, with probability `q`, the SAME object as before (q = 1: maximal sharing, one object per
    structure).  Composite nodes, tuples and lists are shared; leaves only if `leaves`.
    Structures are told apart by an exact key (class names, scalar types and reprs, keyword
    insertion order), composed bottom-up."""
    if memo is None:
        memo = {}

    def scalar(v):
        return f"{type(v).__name__}:{v!r}"

    def rec(o):
        """-> (object, structure key)"""
        if isinstance(o, (tuple, list)):
            pairs = [rec(c) for c in o]
            new = type(o)(c for c, _ in pairs) if type(o) in (tuple, list) else o
            key = ("T(" if isinstance(o, tuple) else "L(") + ",".join(k for _, k in pairs) + ")"
            if isinstance(o, tuple) and not o:
                return new, key
        elif isinstance(o, p.Expression) and dataclasses.is_dataclass(o):
            vals, keys, composite = [], [], False
            for f in dataclasses.fields(o):
                v = getattr(o, f.name)
                if isinstance(v, Mapping):
                    pairs = {k: rec(c) for k, c in v.items()}
                    v = {k: c for k, (c, _) in pairs.items()}
                    keys.append("{" + ",".join(f"{k!r}={ck}" for k, (_, ck) in pairs.items()) + "}")
                    composite = True
                elif isinstance(v, (tuple, list, p.Expression)):
                    v, k = rec(v)
                    keys.append(k)
                    composite = True
                else:
                    keys.append(scalar(v))
                vals.append(v)
            new = type(o)(*vals)
            key = type(o).__name__ + "(" + ",".join(keys) + ")"
            if not composite and not leaves:
                return new, key
        else:
            return o, scalar(o)
        if key in memo and rng.random() < q:
            return memo[key], key
        memo[key] = new
        return new, key

    return rec(o)[0]


def n_shared(o) -> int:
    """number of composite objects (expression nodes with children, tuples, lists) that are
    reachable along more than one path"""
    seen, multi = {}, set()

    def rec(o):
        if isinstance(o, (tuple, list)):
            kids = list(o)
        elif isinstance(o, p.Expression) and dataclasses.is_dataclass(o):
            kids = []
            for f in dataclasses.fields(o):
                v = getattr(o, f.name)
                if isinstance(v, Mapping):
                    kids += list(v.values())
                elif isinstance(v, (tuple, list, p.Expression)):
                    kids.append(v)
            if not kids:
                return
        else:
            return
        if isinstance(o, tuple) and not o:
            return                        # the empty tuple is a singleton of the interpreter
        if id(o) in seen:
            multi.add(id(o))
            return
        seen[id(o)] = o
        for c in kids:
            rec(c)

    rec(o)
    return len(multi)


def build(sx, route, seed, extra=None):
    """an object with the structure `sx` made by `route`; None if the route does not apply or does
    not reproduce the structure exactly (then there is nothing to compare)"""
    rng = random.Random(seed)
    tree = sx_to_expr(sx)
    with warnings.catch_warnings():
        warnings.simplefilter("ignore")
        try:
            if route == "tree":
                o = tree
            elif route == "shared":
                o = share(tree, rng)
            elif route == "partial":
                o = share(tree, rng, q=rng.choice([0.3, 0.5, 0.8]))
            elif route == "leaves-too":
                o = share(tree, rng, leaves=True)
            elif route == "pickled":
                o = pickle.loads(pickle.dumps(share(tree, rng), rng.randrange(0, 6)))
            elif route == "deepcopied":
                o = copy.deepcopy(share(tree, rng, q=0.7))
            elif route == "cached-identity":
                from pymbolic.mapper import CachedIdentityMapper
                o = CachedIdentityMapper()(tree)
            elif route == "identity-of-shared":
                from pymbolic.mapper import IdentityMapper
                o = IdentityMapper()(share(tree, rng))
            elif route == "unpickled-then-shared":
                o = share(pickle.loads(pickle.dumps(tree, rng.randrange(0, 6))), rng, q=0.6)
            elif route == "substituted":
                # extra = {"template": sx, "names": [...], "parts": [sx...]}: the library's own
                # substitution puts ONE object per placeholder into every place it occurs
                from pymbolic.mapper.substitutor import substitute
                parts = {n: sx_to_expr(loads(s)) for n, s in zip(extra["names"], extra["parts"])}
                o = substitute(sx_to_expr(loads(extra["template"])), parts)
            elif route == "operators":
                # extra as above: Python-level assembly `u = <part>; template(u, u)`
                parts = {n: sx_to_expr(loads(s)) for n, s in zip(extra["names"], extra["parts"])}
                o = sx_to_expr_with(loads(extra["template"]), parts)
            else:
                raise ValueError(route)
        except RecursionError:
            raise
        except Exception:
            return None
    try:
        if structure(o) != dumps(sx):
            return None
    except Exception:
        return None
    return o


def sx_to_expr_with(s, parts):
    """sx_to_expr, with the variables named in `parts` replaced by the given OBJECTS (each used as
    is wherever it occurs: that is what `u = x + 1; u*u` does)"""
    if isinstance(s, list) and s and s[0] == "Var" and s[1] in parts:
        return parts[s[1]]
    kids = sx_children(s)
    if not kids:
        return sx_to_expr(s)
    # build the node around placeholder leaves, then put the objects in by field
    marks = {}
    t = s
    for i, (path, c) in enumerate(kids):
        name = f"__part{i}__"
        marks[name] = sx_to_expr_with(c, parts)
        t = sx_replace(t, path, [A("Var"), name])
    node = sx_to_expr(t)

    def put(v):
        if isinstance(v, p.Variable) and v.name in marks:
            return marks[v.name]
        if isinstance(v, tuple):
            return tuple(put(c) for c in v)
        if isinstance(v, list):
            return [put(c) for c in v]
        if isinstance(v, Mapping):
            return {k: put(c) for k, c in v.items()}
        return v

    if isinstance(node, (tuple, list)):
        return put(node)
    return type(node)(*[put(getattr(node, f.name)) for f in dataclasses.fields(node)])


# {{{ generator: structures with repeated composite subtrees

def sx_substitute(s, parts):
    """textual substitution on the wire format: the TREE with a separate copy per occurrence"""
    if isinstance(s, Atom) or not isinstance(s, list) or not s:
        return s
    if s[0] == "Var" and s[1] in parts:
        return parts[s[1]]
    t = s
    for path, c in sx_children(s):
        t = sx_replace(t, path, sx_substitute(c, parts))
    return t


def var_paths(s, prefix=()):
    """paths of the variable leaves of an expression S-expression"""
    if isinstance(s, list) and s and s[0] == "Var":
        return [prefix]
    out = []
    for path, c in sx_children(s):
        out += var_paths(c, prefix + tuple(path))
    return out


def gen_repeating(rng, g, depth=None):
    """-> (sx, extra): an expression in which 1-3 composite subexpressions occur several times
    (a template whose variable leaves are replaced, with repetition, by the parts), and the
    template / parts it was made of"""
    names = [f"u{k}_" for k in range(rng.randint(1, 3))]
    parts = []
    for _ in names:
        for _try in range(20):
            e = g.gen(rng.choice(["num", "any", "bool", "int"]), rng.randint(1, 3))
            if isinstance(e, (p.Expression, tuple)) and sx_children(expr_to_sx(e)):
                break
        else:
            e = p.Sum((p.Variable("x"), 1))
        parts.append(expr_to_sx(e))
    if len(parts) > 1 and rng.random() < 0.4:
        # a part that contains another part: nested sharing
        inner = parts[0]
        vp = var_paths(parts[1])
        if vp:
            parts[1] = sx_replace(parts[1], rng.choice(vp), inner)
    for _try in range(20):
        t = expr_to_sx(g.gen(rng.choice(["num", "any", "bool", "int"]),
                             depth if depth is not None else rng.randint(2, 4)))
        vp = var_paths(t)
        if len(vp) >= 2:
            break
    else:
        t = expr_to_sx(p.Product((p.Variable("x"), p.Variable("y"), p.Variable("z"))))
        vp = var_paths(t)
    rng.shuffle(vp)
    k = rng.randint(2, min(len(vp), 5))
    for j, path in enumerate(vp[:k]):
        # every part at least once where possible, the first at least twice
        n = names[0] if j < 2 else rng.choice(names)
        t = sx_replace(t, path, [A("Var"), n])
    # through the wire format: in-memory S-expressions hold Python bools, parsed ones atoms
    t = loads(dumps(t))
    parts = [loads(dumps(s)) for s in parts]
    pmap = dict(zip(names, parts))
    full = sx_substitute(t, pmap)
    extra = {"template": dumps(t), "names": names, "parts": [dumps(s) for s in parts]}
    return full, extra

# }}}


# {{{ reused mapper

def chunks_with_one_mapper(objs):
    """the strings ONE PersistentHashWalkMapper instance feeds while it is applied to the objects
    one after the other: [[str]] per object (['err:<Type>'] where the walk raises)"""
    from pymbolic.mapper.persistent_hash import PersistentHashWalkMapper

    from .c17_classes import Recorder
    with warnings.catch_warnings():
        warnings.simplefilter("ignore")
        r = Recorder()
        m = PersistentHashWalkMapper(r)
        out = []
        for o in objs:
            n0 = len(r.chunks)
            try:
                m(o)
            except RecursionError:
                raise
            except Exception as ex:
                out.append(["err:" + type(ex).__name__])
                continue
            out.append(r.chunks[n0:])
    return out

# }}}
