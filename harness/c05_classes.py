"""Mapper classes used by harness/props/c05.py.

They live in a module of their own because `pymbolic.mapper.optimize.optimize_mapper` re-reads the
SOURCE of the class it rewrites (and of every inherited method) from the module file, and compiles
the rewritten class in a namespace made of the globals of these modules.  Keep this module free of
names that clash with globals of `pymbolic.mapper` (the optimizer refuses "symbol disagreement").

Four user classes for the optimizer, one per combination of "uses extra positional arguments" /
"uses extra keyword arguments"; each overrides `get_cache_key` to take and return exactly the
extra arguments its handlers take (the shape `test/testlib.py: OptimizedRenamer` uses):

    Opt00   map_*(self, expr)                      key (type(expr), expr)
    Opt10   map_*(self, expr, *args)               key (type(expr), expr, args)
    Opt01   map_*(self, expr, **kwargs)            key (type(expr), expr, immutabledict(kwargs))
    Opt11   map_*(self, expr, *args, **kwargs)     the stock key of CachedMapper

`Plain00` … `Plain11` are their non-memoizing counterparts (same handlers on `IdentityMapper`).
"""
from __future__ import annotations

from immutabledict import immutabledict

from pymbolic.mapper import CachedIdentityMapper, CSECachingMapperMixin, IdentityMapper
from pymbolic.primitives import CommonSubexpression, Product, Sum, Variable


def sfx(args, kwargs):
    return "".join(f"_{a}" for a in args) + "".join(f"_{k}{kwargs[k]}" for k in sorted(kwargs))


# {{{ optimizer subjects

class Opt00(CachedIdentityMapper):
    def map_variable(self, expr):
        return Variable(expr.name + "_r")

    def map_sum(self, expr):
        return Sum(tuple([self.rec(child) for child in expr.children]))

    def map_product(self, expr):
        return Product(tuple([self.rec(child) for child in expr.children]))

    def get_cache_key(self, expr):
        return (type(expr), expr)


class Opt10(CachedIdentityMapper):
    def map_variable(self, expr, *args):
        return Variable(expr.name + sfx(args, {}))

    def map_sum(self, expr, *args):
        return Sum(tuple([self.rec(child, *args) for child in expr.children]))

    def map_product(self, expr, *args):
        return Product(tuple([self.rec(child, *args) for child in expr.children]))

    def get_cache_key(self, expr, *args):
        return (type(expr), expr, args)


class Opt01(CachedIdentityMapper):
    def map_variable(self, expr, **kwargs):
        return Variable(expr.name + sfx((), kwargs))

    def map_sum(self, expr, **kwargs):
        return Sum(tuple([self.rec(child, **kwargs) for child in expr.children]))

    def map_product(self, expr, **kwargs):
        return Product(tuple([self.rec(child, **kwargs) for child in expr.children]))

    def get_cache_key(self, expr, **kwargs):
        return (type(expr), expr, immutabledict(kwargs))


class Opt11(CachedIdentityMapper):
    def map_variable(self, expr, *args, **kwargs):
        return Variable(expr.name + sfx(args, kwargs))

    def map_sum(self, expr, *args, **kwargs):
        return Sum(tuple([self.rec(child, *args, **kwargs) for child in expr.children]))

    def map_product(self, expr, *args, **kwargs):
        return Product(tuple([self.rec(child, *args, **kwargs) for child in expr.children]))


class Plain00(IdentityMapper):
    def map_variable(self, expr):
        return Variable(expr.name + "_r")


class Plain10(IdentityMapper):
    def map_variable(self, expr, *args):
        return Variable(expr.name + sfx(args, {}))


class Plain01(IdentityMapper):
    def map_variable(self, expr, **kwargs):
        return Variable(expr.name + sfx((), kwargs))


class Plain11(IdentityMapper):
    def map_variable(self, expr, *args, **kwargs):
        return Variable(expr.name + sfx(args, kwargs))


OPT_CLASSES = {(False, False): (Opt00, Plain00), (True, False): (Opt10, Plain10),
               (False, True): (Opt01, Plain01), (True, True): (Opt11, Plain11)}

# }}}


# {{{ CSE mix-in user with extra arguments

class TagHandlers:
    """variables are renamed by the extra arguments (so answers depend on them)"""

    def map_variable(self, expr, *args, **kwargs):
        return Variable(expr.name + sfx(args, kwargs))


class CseTagger(CSECachingMapperMixin, TagHandlers, IdentityMapper):
    """a user mapper with the CSE mix-in and extra positional arguments"""

    def map_common_subexpression_uncached(self, expr, *args):
        return IdentityMapper.map_common_subexpression(self, expr, *args)


class PlainTagger(TagHandlers, IdentityMapper):
    pass


class CachedCseTagger(CSECachingMapperMixin, TagHandlers, CachedIdentityMapper):
    """both caches"""

    def map_common_subexpression_uncached(self, expr, *args):
        return IdentityMapper.map_common_subexpression(self, expr, *args)

# }}}
