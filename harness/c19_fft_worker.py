"""C19: call HISTORIES of `fft` / `ifft` / `sym_fft`, each run in a pristine process.

The property says the transform equals the DFT definition "for every length" — whatever was
transformed before in the same process.  State that survives between calls (module-level caches,
memo tables, attributes on functions, ...) can only be seen by running SEVERAL calls in ONE
process and judging every one of them; and it can only be seen reliably when that process starts
from a known state, not from whatever the other streams of the check happened to call before.

This worker imports numpy and the `pymbolic` of the tree under test (whatever PYTHONPATH puts
first, the same as in the parent), calls nothing, and then serves requests: one JSON line

    {"calls": [{"fn": "fft"|"ifft"|"sym_fft", "sign": 1|-1, "dtype": "c64"|"c128"|"f32"|"f64"|"i64",
                "cd": null|"c64"|"c128", "den": 8, "x": [[re, im], ...]}, ...]}

per history.  For every request the server FORKS; the child runs the calls in order in its own
copy of the freshly imported state and prints one JSON line

    {"results": [{"ok": [[re, im], ...]} | {"raise": "TypeName", "msg": "..."}, ...]}

The input vector of a call is `(re + 1j*im) / den` (exactly representable in every dtype used:
multiples of 1/8 below 64 in magnitude, or integers for `i64`), converted to `dtype`;
`complex_dtype=` is passed only when `cd` is given.  `sym_fft` gets an object array of variables
`v0 ...` and its result trees are evaluated at those values.  Nothing is judged here: the oracle
(harness/props/c19.py: FftHistory) compares with the O(n^2) definition in the parent.
"""
from __future__ import annotations

import json
import os
import sys
import warnings

DTYPES = {"c64": "complex64", "c128": "complex128", "f32": "float32", "f64": "float64",
          "i64": "int64"}


def run_call(call):
    import numpy as np

    from pymbolic import algorithm as al
    den = call.get("den", 1)
    vals = [complex(re, im) / den for re, im in call["x"]]
    fn = call["fn"]
    if fn == "sym_fft":
        from pymbolic import var
        from pymbolic.mapper.evaluator import EvaluationMapper
        vs = np.empty(len(vals), dtype=object)
        for i in range(len(vals)):
            vs[i] = var(f"v{i}")
        trees = al.sym_fft(vs, sign=call.get("sign", 1))
        ev = EvaluationMapper({f"v{i}": v for i, v in enumerate(vals)})
        out = [complex(ev(t)) if not isinstance(t, (int, float, complex)) else complex(t)
               for t in trees]
        return [[c.real, c.imag] for c in out]
    dt = np.dtype(DTYPES[call["dtype"]])
    if dt.kind == "c":
        x = np.array(vals, dtype=dt)
    elif dt.kind == "f":
        x = np.array([v.real for v in vals], dtype=dt)
    else:
        x = np.array([int(v.real) for v in vals], dtype=dt)
    kw = {}
    if call.get("cd"):
        kw["complex_dtype"] = np.dtype(DTYPES[call["cd"]])
    if fn == "fft":
        res = al.fft(x, sign=call.get("sign", 1), **kw)
    else:
        res = al.ifft(x, **kw)
    return [[float(complex(c).real), float(complex(c).imag)] for c in res]


def run_history(req):
    warnings.simplefilter("ignore")
    results = []
    for call in req["calls"]:
        try:
            results.append({"ok": run_call(call)})
        except Exception as ex:     # noqa: BLE001  (reported to the oracle, never swallowed)
            results.append({"raise": type(ex).__name__, "msg": str(ex)[:200]})
    return {"results": results}


def _send(obj):
    os.write(1, (json.dumps(obj) + "\n").encode())


def main():
    import numpy  # noqa: F401

    import pymbolic
    import pymbolic.algorithm  # noqa: F401
    import pymbolic.mapper.evaluator  # noqa: F401
    _send({"ok": True, "pymbolic": os.path.dirname(os.path.realpath(pymbolic.__file__)),
           "fork": hasattr(os, "fork")})
    for line in sys.stdin:
        line = line.strip()
        if not line:
            continue
        req = json.loads(line)
        if not hasattr(os, "fork"):
            _send({"error": "no fork on this platform"})
            continue
        pid = os.fork()
        if pid == 0:
            code = 0
            try:
                _send(run_history(req))
            except BaseException as ex:     # noqa: BLE001
                try:
                    _send({"error": f"{type(ex).__name__}: {ex}"[:300]})
                except BaseException:       # noqa: BLE001
                    code = 1
            os._exit(code)
        _, status = os.waitpid(pid, 0)
        if status != 0:
            _send({"error": f"history process ended with status {status}"})


if __name__ == "__main__":
    main()
