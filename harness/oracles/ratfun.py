"""Independent references for C11, written from the property text and school algebra only
(nothing from pymbolic's mappers is used):

* exact multivariate polynomial / rational-function arithmetic over Fraction
  (`ratfun(e)` -> (N, D): the "exact rational-function normal form" of the property's quantifier;
  two expressions are equal as rational functions iff N1*D2 == N2*D1 as polynomials),
* an exact evaluator `xeval` (Python semantics, except that `/` and negative integer powers of
  integers are exact: the property speaks about exact commutative arithmetic),
* normal-form scans for flatten / fold / expand.
"""
from __future__ import annotations

from fractions import Fraction

import pymbolic.primitives as p


class NotRational(Exception):
    """the expression is outside the polynomial/rational fragment"""


class TooBig(Exception):
    pass


# {{{ polynomials: dict monomial -> coefficient; monomial = tuple of (var, exp) sorted by var

MAX_TERMS = 4000


def p_const(c):
    c = Fraction(c)
    return {(): c} if c != 0 else {}


def p_var(name):
    return {((name, 1),): Fraction(1)}


def p_add(a, b):
    r = dict(a)
    for m, c in b.items():
        s = r.get(m, 0) + c
        if s == 0:
            r.pop(m, None)
        else:
            r[m] = s
    return r


def m_mul(m1, m2):
    d = dict(m1)
    for v, k in m2:
        d[v] = d.get(v, 0) + k
    return tuple(sorted(d.items()))


def p_mul(a, b):
    if len(a) * len(b) > MAX_TERMS * 50:
        raise TooBig
    r = {}
    for m1, c1 in a.items():
        for m2, c2 in b.items():
            m = m_mul(m1, m2)
            s = r.get(m, 0) + c1 * c2
            if s == 0:
                r.pop(m, None)
            else:
                r[m] = s
    if len(r) > MAX_TERMS:
        raise TooBig
    return r


def p_pow(a, n):
    r = p_const(1)
    for _ in range(n):
        r = p_mul(r, a)
    return r


def p_degree(a, var=None):
    """total degree, or degree in `var`"""
    best = 0
    for m in a:
        d = sum(k for v, k in m if var is None or v == var)
        best = max(best, d)
    return best


def p_vars(a):
    return sorted({v for m in a for v, _ in m})

# }}}


def _is_int(c):
    return isinstance(c, int) and not isinstance(c, bool)


def ratfun(e, allow_quotients=True):
    """(N, D) with e = N/D as rational functions.  Raises NotRational outside the fragment
    {int constants, variables, Sum, Product, Quotient, Power with literal int exponent, CSE}.
    D may be the zero polynomial (the expression is then defined nowhere)."""
    if _is_int(e) or isinstance(e, Fraction):
        # (Fraction constants never occur in pymbolic trees: they are how the C11 stream
        # `rewrites-collapsing` writes an exactly representable float such as 0.5 before asking
        # for the exact normal form)
        return p_const(e), p_const(1)
    if isinstance(e, p.Variable):
        return p_var(e.name), p_const(1)
    if isinstance(e, p.Sum):
        n, d = p_const(0), p_const(1)
        for c in e.children:
            cn, cd = ratfun(c, allow_quotients)
            n, d = p_add(p_mul(n, cd), p_mul(cn, d)), p_mul(d, cd)
        return n, d
    if isinstance(e, p.Product):
        n, d = p_const(1), p_const(1)
        for c in e.children:
            cn, cd = ratfun(c, allow_quotients)
            n, d = p_mul(n, cn), p_mul(d, cd)
        return n, d
    if isinstance(e, p.Quotient):
        if not allow_quotients:
            raise NotRational("quotient")
        an, ad = ratfun(e.numerator, allow_quotients)
        bn, bd = ratfun(e.denominator, allow_quotients)
        return p_mul(an, bd), p_mul(ad, bn)
    if isinstance(e, p.Power):
        if not _is_int(e.exponent):
            raise NotRational("exponent")
        k = e.exponent
        if abs(k) > 60:
            raise TooBig
        bn, bd = ratfun(e.base, allow_quotients)
        if k >= 0:
            return p_pow(bn, k), p_pow(bd, k)
        if not allow_quotients:
            raise NotRational("negative power")
        return p_pow(bd, -k), p_pow(bn, -k)
    if isinstance(e, p.CommonSubexpression):
        return ratfun(e.child, allow_quotients)
    raise NotRational(type(e).__name__)


def same_ratfun(a, b):
    """exact decision: equal as rational functions"""
    an, ad = a
    bn, bd = b
    return p_mul(an, bd) == p_mul(bn, ad)


def is_polynomial_expr(e, min_exp=1):
    """int constants, variables, sums, products, literal int powers >= min_exp"""
    if _is_int(e) or isinstance(e, p.Variable):
        return True
    if isinstance(e, (p.Sum, p.Product)):
        return all(is_polynomial_expr(c, min_exp) for c in e.children)
    if isinstance(e, p.Power):
        return (_is_int(e.exponent) and e.exponent >= min_exp
                and is_polynomial_expr(e.base, min_exp))
    return False


def poly_to_expr(poly, rng=None):
    """an expression tree (sum of coefficient * powers) denoting `poly` (integer coefficients)"""
    terms = []
    for m, c in sorted(poly.items()):
        assert c.denominator == 1
        fs = []
        if c != 1 or not m:
            fs.append(int(c))
        for v, k in m:
            fs.append(p.Variable(v) if k == 1 else p.Power(p.Variable(v), k))
        terms.append(fs[0] if len(fs) == 1 else p.Product(tuple(fs)))
    if rng is not None:
        rng.shuffle(terms)
    if not terms:
        return 0
    return terms[0] if len(terms) == 1 else p.Sum(tuple(terms))


# {{{ exact evaluation

class Undefined(Exception):
    """the expression has no value in this environment (division by zero, unknown node, ...)"""


def rat_eval(e, env):
    """value in Q of an expression of the rational fragment, None where undefined"""
    try:
        return _rat_eval(e, env)
    except (ZeroDivisionError, Undefined):
        return None


def _rat_eval(e, env):
    if _is_int(e) or isinstance(e, Fraction):
        return Fraction(e)
    if isinstance(e, p.Variable):
        return Fraction(env[e.name])
    if isinstance(e, p.Sum):
        acc = Fraction(0)
        for c in e.children:
            acc += _rat_eval(c, env)
        return acc
    if isinstance(e, p.Product):
        acc = Fraction(1)
        for c in e.children:
            acc *= _rat_eval(c, env)
        return acc
    if isinstance(e, p.Quotient):
        a = _rat_eval(e.numerator, env)
        b = _rat_eval(e.denominator, env)
        return a / b
    if isinstance(e, p.Power) and _is_int(e.exponent):
        return _rat_eval(e.base, env) ** e.exponent
    if isinstance(e, p.CommonSubexpression):
        return _rat_eval(e.child, env)
    raise Undefined(type(e).__name__)


def has_float(v):
    if isinstance(v, (float, complex)):
        return True
    if isinstance(v, (tuple, list)):
        return any(has_float(c) for c in v)
    from ..sexp import App
    if isinstance(v, App):
        return any(has_float(c) for c in v.args) or any(has_float(c) for c in v.kw.values())
    return False


def xeval(e, env):
    """Python semantics of every node (as in oracles/pyeval.py) with exact `/` and exact
    negative integer powers.  Raises on anything that has no value."""
    from . import pyeval as pe

    def ev(c):
        return xeval(c, env)
    if isinstance(e, p.Quotient):
        a, b = ev(e.numerator), ev(e.denominator)
        if isinstance(a, int) and isinstance(b, int):
            return Fraction(int(a), int(b))
        return a / b
    if isinstance(e, p.Power):
        a, b = ev(e.base), ev(e.exponent)
        pe._guard_pow(a, b)
        if isinstance(a, int) and isinstance(b, int) and b < 0:
            return Fraction(int(a)) ** int(b)
        return a ** b
    def num(v):
        # `+` and `*` on sequences / strings are not ring arithmetic: no value is claimed
        if isinstance(v, (tuple, list, str)):
            raise Undefined("sequence operand")
        return v
    if isinstance(e, p.Sum):
        acc = 0
        for c in e.children:
            acc = acc + num(ev(c))
        return acc
    if isinstance(e, p.Product):
        acc = 1
        for c in e.children:
            acc = acc * num(ev(c))
        return acc
    if isinstance(e, p.CommonSubexpression):
        return ev(e.child)
    if isinstance(e, (tuple, list)):
        return type(e)(ev(c) for c in e)
    if isinstance(e, p.Expression) and type(e).__name__ in (
            "FloorDiv", "Remainder", "LeftShift", "RightShift", "BitwiseNot", "BitwiseOr",
            "BitwiseXor", "BitwiseAnd", "LogicalNot", "LogicalOr", "LogicalAnd", "Comparison",
            "If", "Min", "Max", "Call", "CallWithKwargs", "Subscript", "Lookup"):
        # evaluate the children exactly, then apply the node's own Python operator to the values
        import dataclasses
        n = type(e).__name__
        if n == "If":
            return ev(e.then) if ev(e.condition) else ev(e.else_)
        if n == "LogicalOr":
            for c in e.children:
                if ev(c):
                    return True
            return False
        if n == "LogicalAnd":
            for c in e.children:
                if not ev(c):
                    return False
            return True
        # strict nodes: substitute evaluated children by fresh variables and reuse pyeval
        env2 = dict(env)
        counter = [0]

        def fresh(c):
            v = ev(c)
            name = f"__v{len(env2)}_{counter[0]}"
            counter[0] += 1
            env2[name] = v
            return p.Variable(name)
        kw = {}
        for f in dataclasses.fields(e):
            val = getattr(e, f.name)
            if f.name in ("operator", "name"):
                kw[f.name] = val
            elif isinstance(val, tuple) and f.name in ("children", "parameters"):
                kw[f.name] = tuple(fresh(c) for c in val)
            elif hasattr(val, "items"):
                kw[f.name] = {k: fresh(c) for k, c in val.items()}
            else:
                kw[f.name] = fresh(val)
        return pe.pyeval(type(e)(**kw), env2, guard=True)
    return pe.pyeval(e, env, guard=True)

# }}}


# {{{ normal-form scans (from the property text)

def _is_num(c):
    return isinstance(c, (int, float, complex))


def subterms(e, acc=None):
    from .scan import children
    if acc is None:
        acc = []
    acc.append(e)
    for c in children(e):
        subterms(c, acc)
    return acc


def flatten_nf_violation(e):
    """no sum directly under a sum, no product directly under a product, no literal 0 in a sum,
    no literal 0/1 in a product"""
    for s in subterms(e):
        if isinstance(s, p.Sum):
            for c in s.children:
                if isinstance(c, p.Sum):
                    return "sum-under-sum"
                if _is_num(c) and c == 0:
                    return "zero-in-sum"
        if isinstance(s, p.Product):
            for c in s.children:
                if isinstance(c, p.Product):
                    return "product-under-product"
                if _is_num(c) and c == 1:
                    return "one-in-product"
                if _is_num(c) and c == 0:
                    return "zero-in-product"
    return None


def fold_nf_violation(e, commutative, root_only=False):
    """at most one constant operand in each folded sum (and product, commutative folder)"""
    for s in ([e] if root_only else subterms(e)):
        if isinstance(s, p.Sum) or (commutative and isinstance(s, p.Product)):
            if sum(1 for c in s.children if _is_num(c)) > 1:
                return "two-constants-in-" + type(s).__name__.lower()
    return None


def expand_nf_violation(e):
    """no sum beneath a product or an integer power; like terms merged (pairwise distinct power
    products, no zero term)"""
    def has_sum(t):
        return any(isinstance(s, p.Sum) for s in subterms(t))
    for s in subterms(e):
        if isinstance(s, p.Product) and any(has_sum(c) for c in s.children):
            return "sum-beneath-product"
        if isinstance(s, p.Power) and _is_int(s.exponent) and has_sum(s.base):
            return "sum-beneath-power"
    if _is_int(e) and e == 0:
        return None
    terms = e.children if isinstance(e, p.Sum) else (e,)
    seen = set()
    for t in terms:
        n, d = ratfun(t, allow_quotients=False)
        if len(n) != 1:
            return "term-not-monomial" if n else "zero-term"
        (m, _c), = n.items()
        if m in seen:
            return "like-terms-unmerged"
        seen.add(m)
    return None


def term_multiset(e):
    """multiset (as a sorted list) of (power product, coefficient) of the terms of a sum"""
    terms = e.children if isinstance(e, p.Sum) else (e,)
    out = []
    for t in terms:
        n, _d = ratfun(t, allow_quotients=False)
        out.append(tuple(sorted(n.items())))
    return sorted(out)

# }}}
