"""Independent reference interpreter: applies the plain Python operator each node denotes.

Written from the Python language semantics and the property text (C02), not from
pymbolic/mapper/evaluator.py.  Used only to search for failing inputs.
"""
from __future__ import annotations

import operator as op
from functools import reduce

import pymbolic.primitives as p


class Unknown(Exception):
    def __init__(self, name):
        self.name = name


class Unsupported(Exception):
    pass


class TooBig(Exception):
    """raised by the guarded interpreter before an astronomically large power/shift"""


def _guard_pow(a, b):
    from fractions import Fraction
    if isinstance(b, (int, Fraction)) and not isinstance(b, bool) and abs(b) > 256:
        raise TooBig
    if isinstance(a, int) and isinstance(b, int) and a.bit_length() * max(abs(b), 1) > 200000:
        raise TooBig
    if isinstance(a, Fraction) and isinstance(b, (int, Fraction)):
        if (a.numerator.bit_length() + a.denominator.bit_length()) * max(abs(b), 1) > 200000:
            raise TooBig


def _guard_shift(a, b):
    if isinstance(b, int) and b > 4096:
        raise TooBig


def is_safe(e, env) -> bool:
    """False if evaluating `e` in `env` would attempt an astronomically large power or shift."""
    try:
        pyeval(e, env, guard=True)
    except TooBig:
        return False
    except RecursionError:
        return False
    except Exception:
        return True
    return True


_CMP = {"==": op.eq, "!=": op.ne, "<": op.lt, "<=": op.le, ">": op.gt, ">=": op.ge}


def pyeval(e, env, guard=False):
    ev = lambda c: pyeval(c, env, guard)  # noqa: E731
    if isinstance(e, (bool, int, float, complex)):
        return e
    if isinstance(e, tuple):
        return tuple([ev(c) for c in e])
    if isinstance(e, list):
        return [ev(c) for c in e]
    if not isinstance(e, p.Expression):
        raise Unsupported("foreign")
    n = type(e).__name__
    if n == "Variable":
        if e.name not in env:
            raise Unknown(e.name)
        return env[e.name]
    if n == "Sum":
        acc = 0
        for c in e.children:
            acc = acc + ev(c)
        return acc
    if n == "Product":
        acc = 1
        for c in e.children:
            acc = acc * ev(c)
        return acc
    if n == "Quotient":
        a = ev(e.numerator); b = ev(e.denominator)
        return a / b
    if n == "FloorDiv":
        a = ev(e.numerator); b = ev(e.denominator)
        return a // b
    if n == "Remainder":
        a = ev(e.numerator); b = ev(e.denominator)
        return a % b
    if n == "Power":
        a = ev(e.base); b = ev(e.exponent)
        if guard:
            _guard_pow(a, b)
        return a ** b
    if n == "LeftShift":
        a = ev(e.shiftee); b = ev(e.shift)
        if guard:
            _guard_shift(a, b)
        return a << b
    if n == "RightShift":
        a = ev(e.shiftee); b = ev(e.shift)
        return a >> b
    if n == "BitwiseNot":
        return ~ev(e.child)
    if n in ("BitwiseOr", "BitwiseXor", "BitwiseAnd"):
        f = {"BitwiseOr": op.or_, "BitwiseXor": op.xor, "BitwiseAnd": op.and_}[n]
        if not e.children:
            raise TypeError("empty")
        acc = ev(e.children[0])
        for c in e.children[1:]:
            acc = f(acc, ev(c))
        return acc
    if n == "LogicalNot":
        return not ev(e.child)
    if n == "LogicalOr":
        for c in e.children:
            if ev(c):
                return True
        return False
    if n == "LogicalAnd":
        for c in e.children:
            if not ev(c):
                return False
        return True
    if n == "Comparison":
        a = ev(e.left); b = ev(e.right)
        return _CMP[e.operator](a, b)
    if n == "If":
        return ev(e.then) if ev(e.condition) else ev(e.else_)
    if n in ("Min", "Max"):
        if not e.children:
            raise ValueError("empty")
        m = ev(e.children[0])
        for c in e.children[1:]:
            v = ev(c)
            if (v < m) if n == "Min" else (v > m):
                m = v
        return m
    if n == "Call":
        f = ev(e.function)
        args = [ev(c) for c in e.parameters]
        return f(*args)
    if n == "CallWithKwargs":
        args = [ev(c) for c in e.parameters]
        kw = {k: ev(v) for k, v in e.kw_parameters.items()}
        f = ev(e.function)
        return f(*args, **kw)
    if n == "Subscript":
        a = ev(e.aggregate); i = ev(e.index)
        return a[i]
    if n == "Lookup":
        return getattr(ev(e.aggregate), e.name)
    if n == "CommonSubexpression":
        return ev(e.child)
    if n == "NaN":
        return float("nan")
    raise Unsupported(n)


def same_value(a, b) -> bool:
    """== and same type, recursively through tuples/lists; nan equals nan."""
    if type(a) is not type(b):
        return False
    if isinstance(a, (tuple, list)):
        return len(a) == len(b) and all(same_value(x, y) for x, y in zip(a, b))
    from ..sexp import App
    if isinstance(a, App):
        return (a.f == b.f and same_value(a.args, b.args) and a.kw.keys() == b.kw.keys()
                and all(same_value(a.kw[k], b.kw[k]) for k in a.kw))
    if isinstance(a, float):
        return a == b or (a != a and b != b)
    if isinstance(a, complex):
        return a == b or (a != a and b != b)
    return a == b


def outcome(fn):
    """('ok', value) or ('err', kind, payload)."""
    try:
        return ("ok", fn())
    except Unknown as ex:
        return ("err", "UnknownVariable", ex.name)
    except Unsupported:
        return ("err", "Unsupported", None)
    except ZeroDivisionError:
        return ("err", "ZeroDivisionError", None)
    except RecursionError:
        raise
    except Exception as ex:
        from pymbolic.mapper.evaluator import UnknownVariableError
        from pymbolic.mapper import UnsupportedExpressionError
        if isinstance(ex, UnknownVariableError):
            return ("err", "UnknownVariable", ex.args[0] if ex.args else None)
        if isinstance(ex, (UnsupportedExpressionError, NotImplementedError)):
            return ("err", "Unsupported", None)
        if isinstance(ex, ValueError) and "invalid foreign object" in str(ex):
            return ("err", "Unsupported", None)
        return ("err", type(ex).__name__, None)


def same_outcome(a, b) -> bool:
    if a[0] != b[0]:
        return False
    if a[0] == "ok":
        return same_value(a[1], b[1])
    return a[1:] == b[1:]


def loosely_equal(a, b) -> bool:
    """Python ==, with nan equal to nan, recursively through tuples, lists and App values."""
    from ..sexp import App
    try:
        if isinstance(a, float) and a != a:
            return isinstance(b, float) and b != b
        if isinstance(a, (tuple, list)) and isinstance(b, (tuple, list)):
            return (type(a) is type(b) and len(a) == len(b)
                    and all(loosely_equal(x, y) for x, y in zip(a, b)))
        if isinstance(a, App) and isinstance(b, App):
            return (a.f == b.f and loosely_equal(a.args, b.args) and a.kw.keys() == b.kw.keys()
                    and all(loosely_equal(a.kw[k], b.kw[k]) for k in a.kw))
        return bool(a == b)
    except Exception:
        return False
