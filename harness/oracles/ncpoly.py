"""Exact non-commutative polynomials (elements of a free algebra over Q): an INDEPENDENT value
domain in which multiplication does not commute, used to decide "operands are never reordered".

A value is a finite map  word (tuple of generator names) -> non-zero Fraction.  `+`, `-`, unary
`-`, `*` (concatenation of words, distributive), `**` with a non-negative integer exponent (NCTooBig beyond the size limits) and
`/` by a number are defined; everything else raises TypeError, so a computation that needs more
has no value here and the oracle that uses this domain has no verdict on it.  Two polynomials are
equal iff the maps are equal; a number is the polynomial with that coefficient at the empty word.
Two products of the same generators in different order are DIFFERENT values (`x*y != y*x`).
"""
from __future__ import annotations

from fractions import Fraction
from numbers import Rational


class NCTooBig(Exception):
    """the value would have too many terms / too long words: no value in this domain"""


LIMIT_TERMS = 400
LIMIT_DEGREE = 24


class NCPoly:
    __slots__ = ("terms",)
    __array_priority__ = 1000

    def __init__(self, terms=None):
        self.terms = {w: c for w, c in (terms or {}).items() if c != 0}

    @staticmethod
    def gen(name):
        return NCPoly({(name,): Fraction(1)})

    @staticmethod
    def lift(v):
        if isinstance(v, NCPoly):
            return v
        if isinstance(v, bool):
            return NCPoly({(): Fraction(int(v))})
        if isinstance(v, Rational):
            return NCPoly({(): Fraction(v)})
        return None

    def _bin(self, other, f):
        o = NCPoly.lift(other)
        if o is None:
            return NotImplemented
        return f(self, o)

    @staticmethod
    def _add(a, b):
        t = dict(a.terms)
        for w, c in b.terms.items():
            t[w] = t.get(w, 0) + c
        return NCPoly(t)

    @staticmethod
    def _mul(a, b):
        if len(a.terms) * len(b.terms) > LIMIT_TERMS:
            raise NCTooBig()
        t = {}
        for w1, c1 in a.terms.items():
            for w2, c2 in b.terms.items():
                if len(w1) + len(w2) > LIMIT_DEGREE:
                    raise NCTooBig()
                t[w1 + w2] = t.get(w1 + w2, 0) + c1 * c2
        return NCPoly(t)

    def __neg__(self):
        return NCPoly({w: -c for w, c in self.terms.items()})

    def __pos__(self):
        return self

    def __add__(self, other):
        return self._bin(other, NCPoly._add)

    def __radd__(self, other):
        return self._bin(other, lambda a, b: NCPoly._add(b, a))

    def __sub__(self, other):
        return self._bin(other, lambda a, b: NCPoly._add(a, -b))

    def __rsub__(self, other):
        return self._bin(other, lambda a, b: NCPoly._add(b, -a))

    def __mul__(self, other):
        return self._bin(other, NCPoly._mul)

    def __rmul__(self, other):
        return self._bin(other, lambda a, b: NCPoly._mul(b, a))

    def __truediv__(self, other):
        if isinstance(other, bool) or not isinstance(other, Rational):
            return NotImplemented
        if other == 0:
            raise ZeroDivisionError("division by zero")
        return NCPoly({w: c / Fraction(other) for w, c in self.terms.items()})

    def __pow__(self, n):
        if isinstance(n, bool) or not isinstance(n, int) or n < 0:
            return NotImplemented
        if n > LIMIT_DEGREE:
            raise NCTooBig()          # defined, but outside what this domain computes: no verdict
        r = NCPoly({(): Fraction(1)})
        for _ in range(n):
            r = NCPoly._mul(r, self)
        return r

    def __eq__(self, other):
        o = NCPoly.lift(other)
        if o is None:
            return NotImplemented
        return self.terms == o.terms

    def __ne__(self, other):
        r = self.__eq__(other)
        return r if r is NotImplemented else not r

    __hash__ = None

    def __bool__(self):
        raise TypeError("an NCPoly has no truth value")

    def __repr__(self):
        if not self.terms:
            return "NC(0)"
        return "NC(" + " + ".join(
            (f"{c}" if not w else (("" if c == 1 else f"{c}*") + "*".join(w)))
            for w, c in sorted(self.terms.items())) + ")"
