"""Independent structural scans over expression trees using only dataclass field iteration
(no mapper code is involved)."""
from __future__ import annotations

import dataclasses

import pymbolic.primitives as p


def fields_of(e):
    """[(field name, value)] of expression-valued (or container) fields, in field order."""
    if isinstance(e, p.Expression) and dataclasses.is_dataclass(e):
        return [(f.name, getattr(e, f.name)) for f in dataclasses.fields(e)]
    return []


def children(e):
    """Direct child expressions (constants included), in field order; None parts skipped."""
    out = []
    if isinstance(e, (tuple, list)):
        return [c for c in e if c is not None]
    for name, v in fields_of(e):
        if isinstance(v, str) or v is None:
            continue
        if isinstance(e, (p.Substitution, p.Derivative)) and name == "variables":
            continue
        if isinstance(e, p.CommonSubexpression) and name in ("prefix", "scope"):
            continue
        if isinstance(e, p.Comparison) and name == "operator":
            continue
        if isinstance(e, p.NaN):
            continue
        if isinstance(v, tuple) and name in ("children", "parameters", "values"):
            out.extend(c for c in v if c is not None)
        elif hasattr(v, "items"):
            out.extend(v.values())
        else:
            out.append(v)
    return out


def subterms(e, acc=None):
    if acc is None:
        acc = []
    acc.append(e)
    for c in children(e):
        subterms(c, acc)
    return acc


def dependencies(e, subscripts=True, lookups=True, calls=True, cses=False):
    """The property's own definition: outermost selected composites + variables outside them."""
    if isinstance(e, p.Variable):
        return {e}
    if isinstance(e, p.Subscript) and subscripts:
        return {e}
    if isinstance(e, p.Lookup) and lookups:
        return {e}
    if isinstance(e, (p.Call, p.CallWithKwargs)):
        if calls == "descend_args":
            res = set()
            for c in e.parameters:
                res |= dependencies(c, subscripts, lookups, calls, cses)
            if isinstance(e, p.CallWithKwargs):
                for c in e.kw_parameters.values():
                    res |= dependencies(c, subscripts, lookups, calls, cses)
            return res
        if calls:
            return {e}
    if isinstance(e, p.CommonSubexpression) and cses:
        return {e}
    res = set()
    for c in children(e):
        res |= dependencies(c, subscripts, lookups, calls, cses)
    return res


def count_flops(e, seen=None):
    """additions, multiplications, divisions (true and floor) and powers; with `seen` a set, each
    distinct CommonSubexpression is counted once."""
    if isinstance(e, p.CommonSubexpression) and seen is not None:
        if e in seen:
            return 0
        seen.add(e)
    n = 0
    if isinstance(e, (p.Sum, p.Product)) and e.children:
        n += len(e.children) - 1
    elif isinstance(e, (p.Quotient, p.FloorDiv, p.Power)):
        n += 1
    for c in children(e):
        n += count_flops(c, seen)
    return n


def structural_id(e):
    """Identity of a subexpression in the FINEST sense: class, field-wise structure, and for
    constants the Python type and repr (`1`, `1.0`, `True` differ; so do `0.0` and `-0.0`).
    Keyword mappings are compared as mappings (sorted by name).  A float nan is only identical to
    itself as an object (it is not `==` to anything)."""
    if e is None:
        return ("NoneType",)
    if isinstance(e, float) and e != e:
        return ("float", "nan", id(e))
    if isinstance(e, (bool, int, float, complex, str, bytes)):
        return (type(e).__name__, repr(e))
    if isinstance(e, (tuple, list)):
        return (type(e).__name__, tuple(structural_id(c) for c in e))
    if isinstance(e, p.Expression) and dataclasses.is_dataclass(e):
        out = [type(e).__module__ + "." + type(e).__qualname__]
        for f in dataclasses.fields(e):
            v = getattr(e, f.name)
            if hasattr(v, "items"):
                out.append((f.name, "map",
                            tuple(sorted((str(k), structural_id(x)) for k, x in v.items()))))
            else:
                out.append((f.name, structural_id(v)))
        return tuple(out)
    return ("object", type(e).__name__, id(e))


def distinct_counts(e):
    """(coarsest, finest) number of distinct subexpressions of `e`: classes of the subterms under
    Python `==` alone (no hashing involved; `is` counts as equal, as in Python containers), and
    number of different `structural_id`s."""
    subs = subterms(e)
    fine = len({structural_id(s) for s in subs})
    reps = []
    for s in subs:
        for r in reps:
            if r is s:
                break
            try:
                if type(r == s) is bool and r == s:
                    break
            except Exception:
                pass
        else:
            reps.append(s)
    return len(reps), fine
