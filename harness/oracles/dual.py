"""Independent reference for C10: forward-mode automatic differentiation (dual numbers).

Written from calculus and the Python meaning of the node types, not from
pymbolic/mapper/differentiator.py and not using any pymbolic mapper.

Two number systems:
  * exact: `fractions.Fraction` (sums, products, quotients, integer-literal powers, conditionals);
  * float with a running first-order rounding-error bound (`E`): everything else.  Comparisons of
    two `E` results use `close`: relative tolerance 1e-6 plus the accumulated rounding bounds, so
    that cancellation in either formula cannot produce a false alarm.

`OutOfDomain` is raised at points where the expression is not (safely) differentiable: zero
denominators, non-positive bases of non-integer powers, log of a non-positive number, arguments
of fabs/copysign at 0, conditions at (or numerically too close to) their switching surface,
overflow.
"""
from __future__ import annotations

import math
from fractions import Fraction

import pymbolic.primitives as p


class OutOfDomain(Exception):
    pass


class NotInFragment(Exception):
    pass


U = 2.0 ** -52


class E:
    """float value with an absolute error bound (running error analysis, first order, generous)"""
    __slots__ = ("v", "e")

    def __init__(self, v, e=None):
        try:
            self.v = float(v)
        except OverflowError:
            raise OutOfDomain from None
        if e is None:
            e = 0.0 if (isinstance(v, int) and abs(v) < 2 ** 52) else U * abs(self.v)
        self.e = e
        if not (math.isfinite(self.v) and math.isfinite(self.e)) or abs(self.v) > 1e100:
            raise OutOfDomain

    @staticmethod
    def lift(x):
        return x if isinstance(x, E) else E(x)

    def __add__(self, o):
        o = E.lift(o)
        v = self.v + o.v
        return E(v, self.e + o.e + U * abs(v))

    __radd__ = __add__

    def __neg__(self):
        return E(-self.v, self.e)

    def __sub__(self, o):
        return self + (-E.lift(o))

    def __rsub__(self, o):
        return E.lift(o) + (-self)

    def __mul__(self, o):
        o = E.lift(o)
        v = self.v * o.v
        return E(v, abs(self.v) * o.e + abs(o.v) * self.e + self.e * o.e + U * abs(v))

    __rmul__ = __mul__

    def __truediv__(self, o):
        o = E.lift(o)
        if abs(o.v) <= 4 * o.e or o.v == 0:
            raise OutOfDomain
        v = self.v / o.v
        return E(v, (self.e + abs(v) * o.e) / (abs(o.v) - o.e) + U * abs(v))

    def __rtruediv__(self, o):
        return E.lift(o) / self

    def ipow(self, n: int):
        if n == 0:
            return E(1)
        if n < 0:
            return E(1) / self.ipow(-n)
        try:
            v = self.v ** n
            dv = n * (abs(self.v) + self.e) ** (n - 1)
        except OverflowError:
            raise OutOfDomain from None
        return E(v, 2 * dv * self.e + (n + 1) * U * abs(v))

    def fn(self, f, df_bound):
        """f applied with |f'| bounded near the argument by df_bound(v, e)"""
        try:
            v = f(self.v)
            b = df_bound(self.v, self.e)
        except (OverflowError, ValueError, ZeroDivisionError):
            raise OutOfDomain from None
        return E(v, 2 * b * self.e + 8 * U * abs(v) + 1e-300)

    def sign_known(self):
        """+1 / -1 when the sign is certain, else OutOfDomain"""
        if abs(self.v) <= 4 * self.e + 1e-9:
            raise OutOfDomain
        return 1 if self.v > 0 else -1


def _sgn_exact(x):
    if x == 0:
        raise OutOfDomain
    return 1 if x > 0 else -1


class ExactNum:
    """number operations on Fractions"""
    name = "exact"

    @staticmethod
    def const(c):
        if isinstance(c, float):
            raise NotInFragment("float constant in exact mode")
        return Fraction(c)

    @staticmethod
    def div(a, b):
        if b == 0:
            raise OutOfDomain
        return a / b

    @staticmethod
    def ipow(a, n):
        if n < 0 and a == 0:
            raise OutOfDomain
        if abs(n) > 64:
            raise OutOfDomain
        return a ** n

    sign = staticmethod(_sgn_exact)

    @staticmethod
    def cmp_sign(a, b):
        """sign of a-b; OutOfDomain on the switching surface"""
        return _sgn_exact(a - b)

    @staticmethod
    def fn(name, a):
        raise NotInFragment("transcendental function in exact mode")

    @staticmethod
    def powgen(a, b):
        raise NotInFragment("general power in exact mode")


def _cosh_bound(v, e):
    return math.cosh(abs(v) + e)


_FUNCS = {
    # name: (f, bound on |f'| near v, derivative as a function of (x: E, fx: E))
    "sin": (math.sin, lambda v, e: 1.0),
    "cos": (math.cos, lambda v, e: 1.0),
    "tan": (math.tan, lambda v, e: 1.0 + max(math.tan(v - e) ** 2, math.tan(v + e) ** 2,
                                             math.tan(v) ** 2)),
    "exp": (math.exp, lambda v, e: math.exp(v + e)),
    "expm1": (math.expm1, lambda v, e: math.exp(v + e)),
    "log": (math.log, lambda v, e: 1.0 / (v - e) if v - e > 0 else float("inf")),
    "sinh": (math.sinh, _cosh_bound),
    "cosh": (math.cosh, _cosh_bound),
    "tanh": (math.tanh, lambda v, e: 1.0),
}


class FloatNum:
    name = "float"

    @staticmethod
    def const(c):
        if isinstance(c, Fraction):
            if c.denominator == 1:
                return E(c.numerator)
            return E(c.numerator) / E(c.denominator)
        return E(c)

    @staticmethod
    def div(a, b):
        return E.lift(a) / b

    @staticmethod
    def ipow(a, n):
        if abs(n) > 64:
            raise OutOfDomain
        if n < 0 and abs(a.v) <= 4 * a.e:
            raise OutOfDomain
        return a.ipow(n)

    @staticmethod
    def sign(a):
        return a.sign_known()

    @staticmethod
    def cmp_sign(a, b):
        return (E.lift(a) - b).sign_known()

    @staticmethod
    def fn(name, a):
        f, bound = _FUNCS[name]
        if name == "log" and a.v - 4 * a.e <= 1e-9:
            raise OutOfDomain
        if name == "tan" and abs(math.cos(a.v)) < 1e-3:
            raise OutOfDomain
        return a.fn(f, bound)

    @staticmethod
    def powgen(a, b):
        """a ** b for a > 0 as exp(b log a)"""
        if a.v - 4 * a.e <= 1e-9:
            raise OutOfDomain
        return FloatNum.fn("exp", b * FloatNum.fn("log", a))


def _exact_int(x):
    """the integer `x` is exactly (a Fraction with denominator 1, an error-free float value), else None"""
    if isinstance(x, Fraction):
        return int(x) if x.denominator == 1 else None
    if isinstance(x, E):
        return int(x.v) if x.e == 0 and float(x.v).is_integer() else None
    return None


def _exact_zero(x):
    if isinstance(x, Fraction):
        return x == 0
    if isinstance(x, E):
        return x.v == 0 and x.e == 0
    return False


def _mentions(e, wrt):
    """does the leaf `wrt` occur anywhere in `e` (conditions of `If` included)?"""
    if wrt is None:
        return False
    return any(leaf_key(s) == wrt for s in subterms(e))


class D:
    """dual number over one of the two number systems"""
    __slots__ = ("v", "d")

    def __init__(self, v, d):
        self.v, self.d = v, d


def leaf_key(e):
    """identity of a differentiation variable / environment entry"""
    if isinstance(e, p.Variable):
        return ("var", e.name)
    if isinstance(e, p.Subscript) and isinstance(e.aggregate, p.Variable) \
            and isinstance(e.index, int) and not isinstance(e.index, bool):
        return ("sub", e.aggregate.name, e.index)
    return None


def math_name(f):
    """name if `f` is `math.<name>` (or the bare variable `log` the power rule emits)"""
    if isinstance(f, p.Lookup) and f.aggregate == p.Variable("math") \
            and type(f.aggregate) is p.Variable:
        return f.name
    return None


def dual(e, env, wrt, N, allow_bare_log=False):
    """(value, partial derivative w.r.t. the leaf `wrt`) of `e` at `env` as a `D` over `N`."""
    ev = lambda c: dual(c, env, wrt, N, allow_bare_log)  # noqa: E731
    if isinstance(e, (bool, int, float)):
        return D(N.const(e), N.const(0))
    if not isinstance(e, p.Expression):
        raise NotInFragment(type(e).__name__)
    k = leaf_key(e)
    if k is not None:
        if k not in env:
            raise NotInFragment(f"unbound {k}")
        return D(N.const(env[k]), N.const(1 if k == wrt else 0))
    n = type(e).__name__
    if n == "Sum":
        acc = D(N.const(0), N.const(0))
        for c in e.children:
            x = ev(c)
            acc = D(acc.v + x.v, acc.d + x.d)
        return acc
    if n == "Product":
        acc = D(N.const(1), N.const(0))
        for c in e.children:
            x = ev(c)
            acc = D(acc.v * x.v, acc.d * x.v + acc.v * x.d)
        return acc
    if n == "Quotient":
        a, b = ev(e.numerator), ev(e.denominator)
        q = N.div(a.v, b.v)
        # (a/b)' = (a' - q b') / b
        return D(q, N.div(a.d - q * b.d, b.v))
    if n == "Power":
        ex = e.exponent
        if isinstance(ex, int) and not isinstance(ex, bool):
            a = ev(e.base)
            if ex == 0:
                return D(N.const(1), N.const(0))
            return D(N.ipow(a.v, ex), N.const(ex) * N.ipow(a.v, ex - 1) * a.d)
        a, b = ev(e.base), ev(ex)
        k = _exact_int(b.v)
        if k is not None and 1 <= k <= 64 and _exact_zero(b.d) and not _mentions(ex, wrt):
            # the exponent does not depend on the variable — SYNTACTICALLY: the leaf does not occur
            # in it at all (a vanishing derivative at this point only, or an `If` whose other branch
            # mentions the variable, is not enough: no rule-based differentiator can know the
            # point) — and is a positive integer at this point: a ** k is the k-fold product,
            # differentiable for every value of the base (0 included)
            return D(N.ipow(a.v, k), N.const(k) * N.ipow(a.v, k - 1) * a.d)
        v = N.powgen(a.v, b.v)
        # (a^b)' = a^b (b' log a + b a'/a)
        return D(v, v * (b.d * N.fn("log", a.v) + N.div(b.v * a.d, a.v)))
    if n == "CommonSubexpression":
        return ev(e.child)
    if n == "If":
        return ev(e.then) if truth(e.condition, env, wrt, N, allow_bare_log) else ev(e.else_)
    if n == "Call":
        name = math_name(e.function)
        if name is None and allow_bare_log and e.function == p.Variable("log"):
            name = "log"
        pars = e.parameters
        if name in _FUNCS and len(pars) == 1:
            a = ev(pars[0])
            v = N.fn(name, a.v)
            if name == "sin":
                dv = N.fn("cos", a.v)
            elif name == "cos":
                dv = -N.fn("sin", a.v)
            elif name == "tan":
                c = N.fn("cos", a.v)
                dv = N.div(N.const(1), c * c)
            elif name in ("exp", "expm1"):
                dv = N.fn("exp", a.v)
            elif name == "log":
                dv = N.div(N.const(1), a.v)
            elif name == "sinh":
                dv = N.fn("cosh", a.v)
            elif name == "cosh":
                dv = N.fn("sinh", a.v)
            else:  # tanh
                c = N.fn("cosh", a.v)
                dv = N.div(N.const(1), c * c)
            return D(v, dv * a.d)
        if name == "fabs" and len(pars) == 1:
            a = ev(pars[0])
            s = N.sign(a.v)
            return D(a.v * s, a.d * s)
        if name == "copysign" and len(pars) == 2:
            a, b = ev(pars[0]), ev(pars[1])
            s = N.sign(a.v) * N.sign(b.v)          # |a| sgn(b); locally constant in b
            return D(a.v * s, a.d * s)
        raise NotInFragment("unknown function")
    raise NotInFragment(n)


def truth(c, env, wrt, N, allow_bare_log=False):
    """truth value of a condition; OutOfDomain on its switching surface"""
    if isinstance(c, p.Comparison):
        a = dual(c.left, env, wrt, N, allow_bare_log).v
        b = dual(c.right, env, wrt, N, allow_bare_log).v
        s = N.cmp_sign(a, b)
        return {"<": s < 0, "<=": s < 0, ">": s > 0, ">=": s > 0, "==": False, "!=": True}[c.operator]
    if isinstance(c, p.LogicalNot):
        return not truth(c.child, env, wrt, N, allow_bare_log)
    if isinstance(c, p.LogicalAnd):
        return all([truth(x, env, wrt, N, allow_bare_log) for x in c.children])
    if isinstance(c, p.LogicalOr):
        return any([truth(x, env, wrt, N, allow_bare_log) for x in c.children])
    if isinstance(c, bool):
        return c
    v = dual(c, env, wrt, N, allow_bare_log).v
    N.sign(v)           # a number used as a condition switches at 0
    return True


def close(a, b, rel=1e-6):
    """a, b: Fractions (exact comparison) or E (tolerance + rounding bounds)"""
    if isinstance(a, E) or isinstance(b, E):
        a, b = E.lift(a), E.lift(b)
        return abs(a.v - b.v) <= rel * max(abs(a.v), abs(b.v)) + 16 * (a.e + b.e) + 1e-12
    return a == b


def subterms(e):
    """all expression subterms, children first (independent of pymbolic's walkers)"""
    import dataclasses
    out = []

    def go(x):
        if isinstance(x, p.Expression):
            if dataclasses.is_dataclass(x):
                for f in dataclasses.fields(x):
                    go(getattr(x, f.name))
            out.append(x)
        elif isinstance(x, (tuple, list)):
            for c in x:
                go(c)
        elif hasattr(x, "values") and not isinstance(x, str):
            for c in x.values():
                go(c)

    go(e)
    return out


def has_float(e):
    import dataclasses
    if isinstance(e, float):
        return True
    if isinstance(e, p.Expression) and dataclasses.is_dataclass(e):
        return any(has_float(getattr(e, f.name)) for f in dataclasses.fields(e))
    if isinstance(e, (tuple, list)):
        return any(has_float(c) for c in e)
    return False


def is_algebraic(e):
    """only +, *, /, integer-literal powers, conditionals, CSE over int constants and leaves"""
    if isinstance(e, float):
        return False
    if isinstance(e, (bool, int)):
        return True
    if leaf_key(e) is not None:
        return True
    n = type(e).__name__
    if n in ("Sum", "Product"):
        return all(is_algebraic(c) for c in e.children)
    if n == "Quotient":
        return is_algebraic(e.numerator) and is_algebraic(e.denominator)
    if n == "Power":
        return (isinstance(e.exponent, int) and not isinstance(e.exponent, bool)
                and is_algebraic(e.base))
    if n == "CommonSubexpression":
        return is_algebraic(e.child)
    if n == "If":
        return all(is_algebraic(c) for c in (e.then, e.else_)) and cond_algebraic(e.condition)
    return False


def cond_algebraic(c):
    if isinstance(c, p.Comparison):
        return is_algebraic(c.left) and is_algebraic(c.right)
    if isinstance(c, p.LogicalNot):
        return cond_algebraic(c.child)
    if isinstance(c, (p.LogicalAnd, p.LogicalOr)):
        return all(cond_algebraic(x) for x in c.children)
    return is_algebraic(c)


SMOOTH = ("sin", "cos", "tan", "log", "exp", "sinh", "cosh", "tanh", "expm1")


def refusal_reasons(e, cfg):
    """Why the property demands a refusal of `e` under `allowed_nonsmoothness=cfg`: a set of
    "nonsmooth" / "discontinuous" / "unknown" (empty: `e` must be differentiated); None when `e`
    lies outside the fragment the property speaks about (no demand either way)."""
    reasons = set()

    def cond(c):
        # conditions are kept, not differentiated: nothing in them needs to be refused (whether
        # they can be evaluated is decided when the value oracle evaluates them)
        return True

    def val(x):
        if isinstance(x, (bool, int, float)):
            return True
        if not isinstance(x, p.Expression):
            return False
        if leaf_key(x) is not None:
            return True
        n = type(x).__name__
        if n in ("Sum", "Product"):
            return all([val(c) for c in x.children])
        if n == "Quotient":
            return all([val(x.numerator), val(x.denominator)])
        if n == "Power":
            return all([val(x.base), val(x.exponent)])
        if n == "CommonSubexpression":
            return val(x.child)
        if n == "If":
            if cfg != "discontinuous":
                reasons.add("discontinuous")
            return all([cond(x.condition), val(x.then), val(x.else_)])
        if n == "Call":
            name = math_name(x.function)
            k = len(x.parameters)
            if name in SMOOTH and k == 1:
                pass
            elif name == "fabs" and k == 1:
                if cfg == "none":
                    reasons.add("nonsmooth")
            elif name == "copysign" and k == 2:
                if cfg != "discontinuous":
                    reasons.add("discontinuous")
            elif k >= 1:
                reasons.add("unknown")
            # a call without arguments is a constant
            return all([val(c) for c in x.parameters])
        return False

    return reasons if val(e) else None
