"""Independent reference for C16: instantiation of a pattern and equality "up to reordering and
regrouping of sums and products", written on the wire-format trees (nested lists produced by
`harness.sexp.expr_to_sx`) and never touching pymbolic's own substitution / flattening code.

  inst(tree, bindings)        replace every (Var x) with x in bindings (one simultaneous pass)
  ac_key(tree, level)         canonical string of the AC normal form

level 0 (the property's words): nested applications of the SAME operator (Sum in Sum, Product in
  Product) are flattened, an application to exactly one operand is the operand ("regrouping"), the
  operands are sorted ("reordering"); Python equality of constants (True == 1) is respected.
levels 1, 2 are used ONLY to classify a level-0 failure (which known finding is it?):
  1: additionally drops neutral operands (zero-valued terms of a sum, factors equal to one) and reads
     the empty sum / product as 0 / 1
  2: additionally a product with a zero-valued factor is 0
"""
from __future__ import annotations

from ..sexp import Atom, dumps

AC = ("Sum", "Product")


def inst(t, b):
    if isinstance(t, list):
        if t and t[0] == "Var" and isinstance(t[0], Atom):
            return b.get(t[1], t)
        return [inst(c, b) for c in t]
    return t


def variables(t, acc=None):
    acc = set() if acc is None else acc
    if isinstance(t, list):
        if t and isinstance(t[0], Atom) and t[0] == "Var":
            acc.add(t[1])
        else:
            for c in t:
                variables(c, acc)
    return acc


def _is_head(t, h):
    return isinstance(t, list) and t and isinstance(t[0], Atom) and t[0] == h


def _const_value(t):
    if _is_head(t, "Int"):
        return int(t[1])
    if _is_head(t, "Bool"):
        return 1 if str(t[1]) == "true" or t[1] is True else 0
    return None


def _zeroish(t):
    """value is certainly zero (what a neutral term of a sum looks like), on normalised trees"""
    v = _const_value(t)
    if v is not None:
        return v == 0
    if _is_head(t, "Quotient") or _is_head(t, "FloorDiv") or _is_head(t, "Remainder"):
        return _zeroish(t[1])
    if _is_head(t, "Product"):
        return any(_zeroish(c) for c in t[1:])
    return False


def norm(t, level=0, index1=False):
    """index1: identify the subscript index `i` with the 1-tuple `(i,)` (allowed for the matchpy
    bridge only, which writes every index as a tuple)"""
    if not isinstance(t, list) or not t or not isinstance(t[0], Atom):
        if isinstance(t, list):
            return [norm(c, level, index1) for c in t]
        return t
    h = t[0]
    if h == "Bool":
        return [Atom("Int"), _const_value(t)]
    if h == "Int":
        return [Atom("Int"), int(t[1])]
    if h in ("Var", "Str", "Flt"):
        return t
    if h == "Subscript":
        idx = norm(t[2], level, index1)
        if index1 and _is_head(idx, "Tuple") and len(idx) == 2:
            idx = idx[1]
        return [h, norm(t[1], level, index1), idx]
    if h in AC:
        ops = []
        for c in t[1:]:
            c = norm(c, level, index1)
            if _is_head(c, h):
                ops.extend(c[1:])
            else:
                ops.append(c)
        if level >= 2 and h == "Product" and any(_zeroish(c) for c in ops):
            return [Atom("Int"), 0]
        if level >= 1:
            if h == "Sum":
                ops = [c for c in ops if not _zeroish(c)]
            else:
                ops = [c for c in ops if _const_value(c) != 1]
            if not ops:
                return [Atom("Int"), 0 if h == "Sum" else 1]
        if len(ops) == 1:
            return ops[0]
        ops.sort(key=dumps)
        return [h, *ops]
    return [h, *[norm(c, level, index1) for c in t[1:]]]


def ac_key(t, level=0, index1=False):
    return dumps(norm(t, level, index1))


def nodes(t):
    if isinstance(t, list):
        return 1 + sum(nodes(c) for c in t)
    return 0


def has_empty_ac(t):
    if isinstance(t, list):
        if t and isinstance(t[0], Atom) and t[0] in AC and len(t) == 1:
            return True
        return any(has_empty_ac(c) for c in t)
    return False


# {{{ matchpy bridge helpers

COMMUTATIVE = ("Sum", "Product", "LogicalOr", "LogicalAnd", "BitwiseOr", "BitwiseAnd", "BitwiseXor")


def order_norm(t, flatten=False):
    """normal form for the conversion round trip: operands of commutative operators sorted, every
    subscript index written as a tuple, constants up to Python equality; `flatten=True` additionally
    merges nested applications of one associative operator (used only to classify a failure)"""
    if not isinstance(t, list) or not t or not isinstance(t[0], Atom):
        if isinstance(t, list):
            return [order_norm(c, flatten) for c in t]
        return t
    h = t[0]
    if h == "Bool":
        return [Atom("Int"), _const_value(t)]
    if h in ("Int", "Var", "Str", "Flt"):
        return t
    if h == "Subscript":
        idx = order_norm(t[2], flatten)
        if not _is_head(idx, "Tuple"):
            idx = [Atom("Tuple"), idx]
        return [h, order_norm(t[1], flatten), idx]
    if h in COMMUTATIVE:
        ops = []
        for c in t[1:]:
            c = order_norm(c, flatten)
            if flatten and _is_head(c, h):
                ops.extend(c[1:])
            else:
                ops.append(c)
        ops.sort(key=dumps)
        return [h, *ops]
    return [h, *[order_norm(c, flatten) for c in t[1:]]]


def inst_wild(t, b):
    """instantiate dot wildcards (one tree each) and star wildcards (a sequence of trees, spliced
    into the surrounding operand list); unbound wildcards stay"""
    if not isinstance(t, list):
        return t
    if _is_head(t, "DotWildcard"):
        return b.get(t[1], t)
    out = []
    for c in t:
        if _is_head(c, "StarWildcard") and c[1] in b:
            out.extend(b[c[1]])
        else:
            out.append(inst_wild(c, b))
    return out


def subtree_keys(t, level=0, index1=False):
    """AC keys of all subtrees of the AC normal form of t"""
    acc = set()

    def walk(s):
        if isinstance(s, list):
            if s and isinstance(s[0], Atom):
                acc.add(dumps(s))
            for c in s:
                walk(c)
    walk(norm(t, level, index1))
    return acc

# }}}
