"""Worker process of the C01 interpreter-mode stream.

    python [-O] -m harness.c01_worker <job.json> <out.json>

The job lists `setattr`/`delattr` attempts, histories and object lists (S-expressions, see
harness/props/c01.py: ModeStream).  The worker builds every object from source IN THIS PROCESS —
under `python -O` the decorator `expr_dataclass` creates the classes with `frozen=__debug__`, i.e.
not frozen — runs the operations on the real objects and writes the replies in the format of the
in-process streams, together with the property's own statement (the oracles of c01.py) evaluated
in this process where it applies in every mode.
"""
from __future__ import annotations

import json
import sys
import warnings

warnings.simplefilter("ignore")


def main(jobfile, outfile):
    from .props import c01
    with open(jobfile) as f:
        job = json.load(f)
    out = {"debug": __debug__, "attr": [], "hist": [], "objs": []}
    fs = c01.FrozenStream()
    for pl in job.get("attr", []):
        try:
            out["attr"].append(fs.run_impl(pl))
        except Exception as ex:     # noqa: BLE001
            out["attr"].append(f"(harness-error {type(ex).__name__})")
    for pl in job.get("hist", []):
        replies = []
        try:
            h = c01.Hist(pl["pool"])
            for op in pl["ops"]:
                replies.append(h.step(op))
            rep = "(" + " ".join(replies) + ")"
        except Exception as ex:     # noqa: BLE001
            rep = f"(harness-error {type(ex).__name__} after {len(replies)} steps)"
        fail = None
        if pl.get("oracle"):
            try:
                f = c01.hist_oracle({"pool": pl["pool"], "ops": pl["ops"]})
            except Exception as ex:     # noqa: BLE001
                f = c01.Failure("oracle-crash", f"{type(ex).__name__}: {ex}")
            if f is not None:
                fail = [f.key, f.detail]
        out["hist"].append({"reply": rep, "fail": fail})
    for pl in job.get("objs", []):
        try:
            objs = [c01.C.sx_to_obj(c01.loads(s)) for s in pl["objs"]]
            m = c01.matrices(objs)
            hashes = [hash(o) for o in objs]
            f = c01.triple_oracle(objs, lambda i: c01.C.sx_to_obj(c01.loads(pl["objs"][i])))    # noqa: B023
            fail = None if f is None else [f.key, f.detail]
        except Exception as ex:     # noqa: BLE001
            m, hashes, fail = f"(harness-error {type(ex).__name__})", [], None
        out["objs"].append({"m": m, "hashes": hashes, "fail": fail})
    with open(outfile, "w") as f:
        json.dump(out, f)


if __name__ == "__main__":
    main(sys.argv[1], sys.argv[2])
