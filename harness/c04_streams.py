"""Two history streams of harness/props/c04.py (C04 — mapper dispatch and the stock traversals).

`foreign-registry`   foreign-object routing under a registry of number classes that is edited AT
                     RUN TIME (`register_constant_class` / `unregister_constant_class`)
`cached-args`        the memoizing stock traversals pass extra arguments through unchanged — on
                     histories of one instance and below handlers that change the arguments they
                     hand to their children
"""
from __future__ import annotations

import json
from contextlib import contextmanager

import pymbolic.primitives as p

from .core import Failure, Stream
from .sexp import dumps, expr_to_sx, loads, q, sx_shrinks, sx_to_expr

ARG_SETS = [((), {}), ((7,), {"flag": "k"}), ((1, "two"), {}), ((), {"kw": (3,), "other": "o"})]


# {{{ foreign-object routing under a run-time registry of number classes

class UserNum:
    """a user-defined number class (registered with pymbolic at run time, or not)"""

    def __init__(self, v):
        self.v = v

    def __repr__(self):
        return f"{type(self).__name__}({self.v})"


class UserSub(UserNum):
    pass


def base_classes():
    """the number classes of a fresh pymbolic (the documentation of `is_constant`): Python's
    numbers and numpy's scalars"""
    import numpy as np
    return [("int", int), ("float", float), ("complex", complex), ("numpy.number", np.number),
            ("numpy.bool_", np.bool_)]


def registrable_classes():
    import numbers
    from decimal import Decimal
    from fractions import Fraction
    return [("Fraction", Fraction), ("Decimal", Decimal), ("UserNum", UserNum), ("UserSub", UserSub),
            ("numbers.Rational", numbers.Rational)]


def universe():
    return dict(base_classes() + registrable_classes())


BASE_NAMES = ["int", "float", "complex", "numpy.number", "numpy.bool_"]
REG_NAMES = ["Fraction", "Decimal", "UserNum", "UserSub", "numbers.Rational"]
#: base classes a case may take OUT of the registry (and puts back before it ends)
BASE_REMOVABLE = ["float", "complex"]

FOREIGN_HANDLERS = ("map_constant", "map_numpy_array", "map_list", "map_tuple")

OBJECTS = ["int", "bool", "float", "complex", "np.float64", "np.int32", "np.bool_", "Fraction",
           "Decimal", "UserNum", "UserSub", "ndarray", "list", "tuple", "empty-tuple", "str", "None",
           "dict", "bytes", "object", "frozenset", "range"]
#: the objects whose kind a registration can change
NUMBERISH = ["Fraction", "Decimal", "UserNum", "UserSub", "float", "complex", "np.float64", "int"]

CONTAINERS = ["top", "sum", "call", "subscript", "if", "power", "tuple", "list", "objarray"]
UNHASHABLE_CONTAINERS = ("list", "objarray")

STUB_KINDS = ["mapper", "cached-mapper", "callback"]
STOCK_KINDS = ["identity", "cached-identity", "walk", "cached-walk", "collector", "cached-collector"]
ENTRIES = ["call", "rec", "fallback"]


def make_object(name):
    """a FRESH object per use (its identity is what the trace is filtered by)"""
    import numpy as np
    from decimal import Decimal
    from fractions import Fraction
    x, y = p.Variable("x"), p.Variable("y")
    return {
        "int": lambda: 3, "bool": lambda: True, "float": lambda: 2.5, "complex": lambda: 2j,
        "np.float64": lambda: np.float64(3.0), "np.int32": lambda: np.int32(4),
        "np.bool_": lambda: np.bool_(True), "Fraction": lambda: Fraction(1, 2),
        "Decimal": lambda: Decimal("1.5"), "UserNum": lambda: UserNum(3), "UserSub": lambda: UserSub(4),
        "ndarray": lambda: np.array([1, 2]), "list": lambda: [x, y], "tuple": lambda: (x, y),
        "empty-tuple": lambda: (), "str": lambda: "a string", "None": lambda: None,
        "dict": lambda: {1: 2}, "bytes": lambda: b"b", "object": lambda: object(),
        "frozenset": lambda: frozenset(), "range": lambda: range(2),
    }[name]()


def embed(container, obj):
    import numpy as np
    x, y, f = p.Variable("x"), p.Variable("y"), p.Variable("f")
    if container == "top":
        return obj
    if container == "sum":
        return p.Sum((x, p.Product((obj, y))))
    if container == "call":
        return p.Call(f, (x, obj))
    if container == "subscript":
        return p.Subscript(x, obj)
    if container == "if":
        return p.If(p.Comparison(x, "<", obj), y, x)
    if container == "power":
        return p.Power(x, obj)
    if container == "tuple":
        return (x, obj)
    if container == "list":
        return [x, obj]
    if container == "objarray":
        a = np.empty(2, dtype=object)
        a[0] = x
        a[1] = obj
        return a
    raise ValueError(container)


def is_hashable(v):
    try:
        hash(v)
    except TypeError:
        return False
    return True


def compatible(kind, obj_name, container):
    """can this mapper kind be given this object in this position at all (hashing for the memoizing
    kinds, numpy's own treatment of sequences inside object arrays)"""
    if kind in STUB_KINDS:
        return container == "top" and (kind == "mapper" or kind == "callback"
                                       or is_hashable(make_object(obj_name)))
    if container == "objarray" and obj_name in ("list", "tuple", "empty-tuple", "ndarray"):
        return False
    if kind.startswith("cached-"):
        return container not in UNHASHABLE_CONTAINERS and is_hashable(make_object(obj_name))
    return True


def shape_of(obj):
    import numpy as np
    if isinstance(obj, np.ndarray):
        return "array"
    if isinstance(obj, list):
        return "list"
    if isinstance(obj, tuple):
        return "tuple"
    return "none"


def expected_route(obj, registry, uni):
    """the property's words, from the definition: a number (an instance of a class that is
    registered NOW) -> map_constant, else array / list / tuple -> their handlers, else rejected"""
    if any(isinstance(obj, uni[c]) for c in registry):
        return "map_constant"
    return {"array": "map_numpy_array", "list": "map_list", "tuple": "map_tuple"}.get(shape_of(obj))


@contextmanager
def registry_sandbox():
    """whatever a case does to the registry of number classes is undone when it ends"""
    saved = p.VALID_CONSTANT_CLASSES
    try:
        yield
    finally:
        p.VALID_CONSTANT_CLASSES = saved


def make_foreign_logger(kind, log):
    """an instance of the mapper kind whose four foreign-object handlers log (handler, object,
    args, kwargs) and then do what the stock class does"""
    from pymbolic.mapper import (
        CachedCollector,
        CachedIdentityMapper,
        CachedMapper,
        CachedWalkMapper,
        CallbackMapper,
        Collector,
        IdentityMapper,
        Mapper,
        WalkMapper,
    )
    base = {"mapper": Mapper, "cached-mapper": CachedMapper, "callback": CallbackMapper,
            "identity": IdentityMapper, "cached-identity": CachedIdentityMapper,
            "walk": WalkMapper, "cached-walk": CachedWalkMapper,
            "collector": Collector, "cached-collector": CachedCollector}[kind]
    stub = kind in ("mapper", "cached-mapper")
    holder = []

    def mk(name):
        def handler(self, expr, *args, **kwargs):
            log.append((name, expr, args, dict(kwargs)))
            if stub:
                return name
            return getattr(super(holder[0], self), name)(expr, *args, **kwargs)
        handler.__name__ = name
        return handler
    cls = type("ForeignLog_" + kind.replace("-", "_"), (base,), {n: mk(n) for n in FOREIGN_HANDLERS})
    holder.append(cls)
    if kind == "callback":
        def function(expr, mapper, *args, **kwargs):
            return ("function", expr, args, kwargs)
        return cls(function, IdentityMapper())
    return cls()


def valid_steps(steps):
    """every `unreg` names a class that is in the registry at that moment"""
    reg = list(BASE_NAMES)
    for s in steps:
        if s[0] == "reg":
            reg.append(s[1])
        elif s[0] == "unreg":
            if s[1] not in reg:
                return False
            reg.remove(s[1])
    return True


class ForeignRegistryStream(Stream):
    """Which objects are numbers is decided by a registry that the user edits AT RUN TIME
    (`pymbolic.primitives.register_constant_class` / `unregister_constant_class`, the functions
    the `Mapper` documentation points to).  A case is a history: register -> dispatch -> register
    another -> dispatch -> unregister -> dispatch ..., on ONE mapper instance (a fresh one per
    dispatch for the memoizing kinds), for `Mapper` / `CachedMapper` / `CallbackMapper`
    subclasses given the object itself (through `__call__`, `rec`, `rec_fallback`) and for the
    stock traversals (identity, walk, collector, plain and cached) reaching the object INSIDE a
    tree, with and without extra arguments.

    oracle: every dispatch of the object goes where the definition says for the registry OF THAT
    MOMENT — instance of a registered class -> `map_constant`, numpy array -> `map_numpy_array`,
    list -> `map_list`, tuple -> `map_tuple`, anything else rejected with an error — exactly once,
    the object itself, the extra arguments unchanged.
    model: the chain of `map_foreign` REGENERATED from the source (`c04ForeignSource`), run by
    `fHistory` in the compiled driver on the same history."""
    name = "foreign-registry"

    # ---- generation
    def _pick_position(self, rng, kind, obj_name):
        cands = [c for c in CONTAINERS if compatible(kind, obj_name, c)]
        return rng.choice(cands) if cands else None

    def _call(self, rng, kind, obj_name, container=None):
        if container is None or not compatible(kind, obj_name, container):
            container = self._pick_position(rng, kind, obj_name)
        if container is None:
            return None
        entry = rng.choice(ENTRIES) if kind in ("mapper", "cached-mapper") else "call"
        return ["call", obj_name, container, rng.randrange(len(ARG_SETS)), entry]

    def _systematic(self, rng):
        others = ["str", "tuple", "int", "np.float64", "list", "None", "ndarray"]
        for kind in STUB_KINDS + STOCK_KINDS:
            for c, d in [("Fraction", "Decimal"), ("Decimal", "UserNum"), ("UserNum", "Fraction"),
                         ("UserSub", "Decimal"), ("numbers.Rational", "UserNum")]:
                oc = "Fraction" if c == "numbers.Rational" else c
                pos = self._pick_position(rng, kind, oc)
                plan = [("call", oc), ("reg", c), ("call", oc), ("call", rng.choice(others)),
                        ("call", d), ("reg", d), ("call", d), ("call", oc), ("unreg", c),
                        ("call", oc), ("call", d), ("unreg", d), ("call", d), ("call", oc)]
                steps = []
                for what, a in plan:
                    if what == "call":
                        s = self._call(rng, kind, a, pos)
                        if s is not None:
                            steps.append(s)
                    else:
                        steps.append([what, a])
                yield {"kind": kind, "reuse": True, "steps": steps}
        # a class of the initial registry taken out and put back
        for kind in ("mapper", "identity", "walk", "cached-collector"):
            for c, inst, still in (("float", "float", "np.float64"), ("complex", "complex", "int")):
                steps = [self._call(rng, kind, inst), ["unreg", c], self._call(rng, kind, inst),
                         self._call(rng, kind, still), ["reg", c], self._call(rng, kind, inst)]
                yield {"kind": kind, "reuse": True, "steps": steps}

    def _random(self, rng):
        kind = rng.choice(STUB_KINDS + STOCK_KINDS + STOCK_KINDS)
        reg = list(BASE_NAMES)
        steps = []
        for _ in range(rng.randint(5, 14)):
            r = rng.random()
            if r < 0.22:
                c = rng.choice(REG_NAMES)
                steps.append(["reg", c])
                reg.append(c)
            elif r < 0.40:
                out = [c for c in reg if c in REG_NAMES or c in BASE_REMOVABLE]
                if out:
                    c = rng.choice(out)
                    steps.append(["unreg", c])
                    reg.remove(c)
            elif r < 0.44:
                c = rng.choice(BASE_REMOVABLE)
                if c not in reg:
                    steps.append(["reg", c])
                    reg.append(c)
            else:
                o = rng.choice(NUMBERISH) if rng.random() < 0.7 else rng.choice(OBJECTS)
                s = self._call(rng, kind, o)
                if s is not None:
                    steps.append(s)
        return {"kind": kind, "reuse": rng.random() < 0.8, "steps": steps}

    def cases(self, rng, tier):
        yield from self._systematic(rng)
        for _ in range(1200 if tier == "quick" else 20000):
            pl = self._random(rng)
            if any(s[0] == "call" for s in pl["steps"]):
                yield pl

    # ---- running
    def _run(self, pl):
        """-> [(step index, want, got, phase, args ok?, same object?, detail)] for the dispatches"""
        uni = universe()
        kind = pl["kind"]
        sim = list(BASE_NAMES)
        ever = set()                 # (object name) that has been a number at some point
        edited = False
        log = []
        out = []
        with registry_sandbox():
            m = make_foreign_logger(kind, log)
            for si, s in enumerate(pl["steps"]):
                if s[0] == "reg":
                    p.register_constant_class(uni[s[1]])
                    sim.append(s[1])
                    edited = True
                    continue
                if s[0] == "unreg":
                    p.unregister_constant_class(uni[s[1]])
                    sim.remove(s[1])
                    edited = True
                    continue
                _c, obj_name, container, argsel, entry = s
                obj = make_object(obj_name)
                tree = embed(container, obj)
                args, kwargs = ARG_SETS[argsel]
                want = expected_route(obj, sim, uni)
                base_want = expected_route(obj, BASE_NAMES, uni)
                if want == "map_constant":
                    ever.add(obj_name)
                if not edited:
                    phase = "as-imported"
                elif want == "map_constant" and base_want != "map_constant":
                    phase = "after-register"
                elif want != "map_constant" and (base_want == "map_constant" or obj_name in ever):
                    phase = "after-unregister"
                else:
                    phase = "other-class-edited"
                if not pl["reuse"] or kind.startswith("cached-"):
                    # (a memoizing mapper that has seen an EQUAL object before answers from its
                    # memo without calling a handler: a fresh instance per dispatch)
                    m = make_foreign_logger(kind, log)
                del log[:]
                fn = {"call": m, "rec": m.rec, "fallback": m.rec_fallback}[entry]
                raised = None
                try:
                    fn(tree, *args, **kwargs)
                except RecursionError:
                    raise
                except Exception as ex:     # noqa: BLE001
                    raised = ex
                events = [(n, a, k) for n, e, a, k in log if e is obj]
                args_ok = all(a == tuple(args) and k == kwargs for _n, a, k in events)
                if raised is not None and not events:
                    if isinstance(raised, ValueError) and "foreign" in str(raised):
                        got = None
                    else:
                        got = f"raised-{type(raised).__name__}"
                elif not events:
                    got = "not-reached"
                elif len(events) > 1:
                    got = "reached-twice"
                else:
                    got = events[0][0]
                detail = (f"step {si}: {kind} mapper, {obj!r} at position `{container}` via {entry}, "
                          f"extra arguments {args} {kwargs}, registry {sim}")
                out.append((si, want, got, phase, args_ok, detail,
                            repr(raised)[:120] if raised is not None else None))
        return out

    @staticmethod
    def _route_sx(r):
        if r is None:
            return "invalid-foreign"
        if r.startswith("map_"):
            return f'(foreign {q(r)})'
        return r

    def request(self, pl):
        uni = universe()
        base = " ".join(q(c) for c in BASE_NAMES)
        steps = []
        for s in pl["steps"]:
            if s[0] in ("reg", "unreg"):
                steps.append(f"({s[0]} {q(s[1])})")
            else:
                obj = make_object(s[1])
                cls = " ".join(q(n) for n, k in uni.items() if isinstance(obj, k))
                steps.append(f"(call (({cls}) {shape_of(obj)}))")
        return f"(c04foreignreg ({base}) ({' '.join(steps)}))"

    def run_impl(self, pl):
        return "(" + " ".join(self._route_sx(got) for _si, _w, got, *_ in self._run(pl)) + ")"

    def oracle(self, pl):
        if not valid_steps(pl["steps"]):
            return None
        for si, want, got, phase, args_ok, detail, raised in self._run(pl):
            if want is None:
                # rejected with an error: any error will do, the object must not reach a handler
                if got is None or (got.startswith("raised-")):
                    continue
                return Failure(f"foreign-route:{phase}:reject->{got}",
                               f"{detail}: is no number, array, list or tuple and must be rejected; "
                               f"it went to {got}", pl)
            if got != want:
                shown = "rejected as invalid foreign object" if got is None else got
                return Failure(f"foreign-route:{phase}:{want}->{'rejected' if got is None else got}",
                               f"{detail}: the definition sends it to {want}; observed: {shown}"
                               + (f" ({raised})" if raised else ""), pl)
            if not args_ok:
                return Failure(f"foreign-args-changed:{pl['kind']}",
                               f"{detail}: the handler received other extra arguments", pl)
        return None

    def shrink(self, pl):
        steps = pl["steps"]
        for i in range(len(steps)):
            cand = steps[:i] + steps[i + 1:]
            if valid_steps(cand) and any(s[0] == "call" for s in cand):
                yield {**pl, "steps": cand}
        for i, s in enumerate(steps):
            if s[0] == "call" and (s[2] != "top" or s[3] != 0 or s[4] != "call"):
                if s[2] != "top" and compatible(pl["kind"], s[1], "top"):
                    yield {**pl, "steps": steps[:i] + [[s[0], s[1], "top", s[3], s[4]]] + steps[i + 1:]}
                if s[3] != 0:
                    yield {**pl, "steps": steps[:i] + [[s[0], s[1], s[2], 0, s[4]]] + steps[i + 1:]}
                if s[4] != "call":
                    yield {**pl, "steps": steps[:i] + [[s[0], s[1], s[2], s[3], "call"]] + steps[i + 1:]}
        if not pl["reuse"]:
            yield {**pl, "reuse": True}

    def nontrivial_key(self, pl, model, impl):
        return json.dumps(pl, sort_keys=True) if any(s[0] != "call" for s in pl["steps"]) else None

    def stats(self, pl, mo, io, acc):
        acc[pl["kind"]] = acc.get(pl["kind"], 0) + 1
        acc["dispatches"] = acc.get("dispatches", 0) + sum(1 for s in pl["steps"] if s[0] == "call")
        acc["registry_edits"] = acc.get("registry_edits", 0) + sum(1 for s in pl["steps"] if s[0] != "call")
        acc["to_map_constant"] = acc.get("to_map_constant", 0) + io.count("map_constant")
        acc["rejected"] = acc.get("rejected", 0) + io.count("invalid-foreign")

# }}}


# {{{ the memoizing stock traversals pass extra arguments through unchanged

CACHED_KINDS = ["identity", "walk", "collector", "combine"]
VARY = ["none", "kwval", "kwadd", "posval", "posadd"]
KW_NAMES = ["tag", "flag", "ctx"]
ARG_VALUES = ["a", "b", "c", 2, 3, ["a", 2], ["b"]]


def dec(v):
    return tuple(dec(x) for x in v) if isinstance(v, list) else v


def enc(v):
    return [enc(x) for x in v] if isinstance(v, tuple) else v


def bump(v):
    return v + "'" if isinstance(v, str) else (v, "'")


def vary(how, args, kwargs):
    """the arguments a varying handler hands to SOME of its children, as a function of its own"""
    args, kwargs = tuple(args), dict(kwargs)
    if how == "kwval":
        if kwargs:
            n = sorted(kwargs)[0]
            kwargs[n] = bump(kwargs[n])
        else:
            kwargs["ctx"] = "e"
    elif how == "kwadd":
        kwargs["ctx"] = bump(kwargs.get("ctx", "e"))
    elif how == "posval":
        args = args[:-1] + (bump(args[-1]),) if args else ("e",)
    elif how == "posadd":
        args = args + ("e",)
    return args, kwargs


def tag(args, kwargs):
    return repr((tuple(args), sorted(kwargs.items(), key=lambda kv: kv[0])))


def event_key(ev):
    what, node, args, kwargs = ev
    return (what, type(node), node, args, frozenset(kwargs.items()))


def make_traced(kind, cached, how, log):
    """(mapper instance): a stock traversal — memoizing or not — whose leaf handlers (and `visit` /
    `post_visit`) log (node, args, kwargs) and answer with something that SHOWS the arguments, and
    whose handlers for `Power` / `Call` / `If` hand `vary(how, …)` of their arguments to the
    exponent / the parameters / the condition"""
    import pymbolic.mapper as pm

    def note(what, expr, args, kwargs):
        log.append((what, expr, tuple(args), dict(kwargs)))

    if kind == "identity":
        base = pm.CachedIdentityMapper if cached else pm.IdentityMapper

        class Traced(base):
            def map_variable(self, expr, *args, **kwargs):
                note("leaf", expr, args, kwargs)
                return p.Variable(expr.name + "@" + tag(args, kwargs))

            def map_constant(self, expr, *args, **kwargs):
                note("leaf", expr, args, kwargs)
                return expr

            def map_power(self, expr, *args, **kwargs):
                note("node", expr, args, kwargs)
                a2, k2 = vary(how, args, kwargs)
                return p.Power(self.rec(expr.base, *args, **kwargs),
                               self.rec(expr.exponent, *a2, **k2))

            def map_call(self, expr, *args, **kwargs):
                note("node", expr, args, kwargs)
                a2, k2 = vary(how, args, kwargs)
                return p.Call(self.rec(expr.function, *args, **kwargs),
                              tuple(self.rec(c, *a2, **k2) for c in expr.parameters))

            def map_if(self, expr, *args, **kwargs):
                note("node", expr, args, kwargs)
                a2, k2 = vary(how, args, kwargs)
                return p.If(self.rec(expr.condition, *a2, **k2),
                            self.rec(expr.then, *args, **kwargs),
                            self.rec(expr.else_, *args, **kwargs))
        return Traced()

    if kind == "walk":
        base = pm.CachedWalkMapper if cached else pm.WalkMapper

        class TracedWalk(base):
            def visit(self, expr, *args, **kwargs):
                note("visit", expr, args, kwargs)
                return True

            def post_visit(self, expr, *args, **kwargs):
                note("post", expr, args, kwargs)

            def map_power(self, expr, *args, **kwargs):
                if not self.visit(expr, *args, **kwargs):
                    return
                a2, k2 = vary(how, args, kwargs)
                self.rec(expr.base, *args, **kwargs)
                self.rec(expr.exponent, *a2, **k2)
                self.post_visit(expr, *args, **kwargs)

            def map_call(self, expr, *args, **kwargs):
                if not self.visit(expr, *args, **kwargs):
                    return
                a2, k2 = vary(how, args, kwargs)
                self.rec(expr.function, *args, **kwargs)
                for c in expr.parameters:
                    self.rec(c, *a2, **k2)
                self.post_visit(expr, *args, **kwargs)

            def map_if(self, expr, *args, **kwargs):
                if not self.visit(expr, *args, **kwargs):
                    return
                a2, k2 = vary(how, args, kwargs)
                self.rec(expr.condition, *a2, **k2)
                self.rec(expr.then, *args, **kwargs)
                self.rec(expr.else_, *args, **kwargs)
                self.post_visit(expr, *args, **kwargs)
        return TracedWalk()

    if kind == "collector":
        base = pm.CachedCollector if cached else pm.Collector
        wrap = lambda s_: {s_}      # noqa: E731
        extra = {}
    else:
        base = pm.CachedCombineMapper if cached else pm.CombineMapper
        wrap = lambda s_: [s_]      # noqa: E731

        def combine(self, values):
            out = []
            for v in values:
                out.extend(v)
            return out
        extra = {"combine": combine}

    class TracedCombine(base):
        def map_variable(self, expr, *args, **kwargs):
            note("leaf", expr, args, kwargs)
            return wrap(f"{expr.name}@{tag(args, kwargs)}")

        def map_constant(self, expr, *args, **kwargs):
            note("leaf", expr, args, kwargs)
            return wrap(f"{expr!r}@{tag(args, kwargs)}")

        def map_power(self, expr, *args, **kwargs):
            note("node", expr, args, kwargs)
            a2, k2 = vary(how, args, kwargs)
            return self.combine([self.rec(expr.base, *args, **kwargs),
                                 self.rec(expr.exponent, *a2, **k2)])

        def map_call(self, expr, *args, **kwargs):
            note("node", expr, args, kwargs)
            a2, k2 = vary(how, args, kwargs)
            return self.combine([self.rec(expr.function, *args, **kwargs)]
                                + [self.rec(c, *a2, **k2) for c in expr.parameters])

        def map_if(self, expr, *args, **kwargs):
            note("node", expr, args, kwargs)
            a2, k2 = vary(how, args, kwargs)
            return self.combine([self.rec(expr.condition, *a2, **k2),
                                 self.rec(expr.then, *args, **kwargs),
                                 self.rec(expr.else_, *args, **kwargs)])
    for n, f in extra.items():
        setattr(TracedCombine, n, f)
    return TracedCombine()


def arg_difference(a1, k1, a2, k2):
    """how two argument sets of the same node differ"""
    if a1 == a2 and k1 == k2:
        return "same"
    if a1 == a2:
        return "kw-value" if set(k1) == set(k2) else "kw-names"
    if k1 == k2:
        return "pos-value" if len(a1) == len(a2) else "pos-count"
    return "mixed"


class CachedArgsStream(Stream):
    """"... and all pass extra arguments through unchanged" for the MEMOIZING stock traversals
    (`CachedIdentityMapper`, `CachedWalkMapper`, `CachedCollector`, `CachedCombineMapper`): a
    history of calls on ONE instance — the same trees again under other argument values, other
    keyword names, another number of positional arguments, the keywords in another order — with
    handlers for `Power` / `Call` / `If` that hand CHANGED arguments to some of their children, so
    that one subexpression is reached under several argument sets inside one call.

    oracle: the non-memoizing twin of the mapper (same handlers, a fresh instance per call) says
    which (node, args, kwargs) the handlers must observe.  The memoizing one may leave out what
    it has observed before on this instance (that is what memoizing means) and nothing else:
    every (node, args, kwargs) of the twin's trace is observed now or was observed earlier, every
    observation is one the twin makes, and the result of every call equals the twin's.
    (`CachedSubstitutionMapper` is not here: its leaf handlers take no extra arguments.)"""
    name = "cached-args"
    has_model = False

    # ---- generation
    def _tree(self, rng, depth, pool):
        x, y, z, f, a = (p.Variable(n) for n in "xyzfa")
        leaves = [x, y, z, 2, 3]
        if pool and rng.random() < 0.3:
            return rng.choice(pool)
        if depth <= 0 or rng.random() < 0.2:
            return rng.choice(leaves)
        k = rng.choice(["Sum", "Product", "Power", "Power", "Quotient", "Call", "Call", "Subscript",
                        "If", "If", "Min"])
        sub = lambda: self._tree(rng, depth - 1, pool)      # noqa: E731
        if k == "Sum":
            return p.Sum(tuple(sub() for _ in range(rng.randint(2, 3))))
        if k == "Product":
            return p.Product(tuple(sub() for _ in range(rng.randint(2, 3))))
        if k == "Power":
            return p.Power(sub(), sub())
        if k == "Quotient":
            return p.Quotient(sub(), sub())
        if k == "Call":
            return p.Call(f, tuple(sub() for _ in range(rng.randint(1, 2))))
        if k == "Subscript":
            return p.Subscript(a, sub())
        if k == "If":
            return p.If(p.Comparison(sub(), "<", sub()), sub(), sub())
        return p.Min(tuple(sub() for _ in range(2)))

    def _args(self, rng):
        args = [rng.choice(ARG_VALUES) for _ in range(rng.choice([0, 0, 1, 1, 2]))]
        names = rng.sample(KW_NAMES, rng.choice([0, 1, 1, 2, 2, 3]))
        return args, [[n, rng.choice(ARG_VALUES)] for n in names]

    def _mutate(self, rng, args, kw):
        args, kw = list(args), [list(x) for x in kw]
        r = rng.random()
        if r < 0.4 and kw:
            i = rng.randrange(len(kw))
            kw[i][1] = rng.choice([v for v in ARG_VALUES if v != kw[i][1]])
        elif r < 0.55 and args:
            i = rng.randrange(len(args))
            args[i] = rng.choice([v for v in ARG_VALUES if v != args[i]])
        elif r < 0.65:
            rng.shuffle(kw)
        elif r < 0.75:
            free = [n for n in KW_NAMES if n not in [k for k, _v in kw]]
            if free:
                kw.append([rng.choice(free), rng.choice(ARG_VALUES)])
        elif r < 0.82 and kw:
            kw.pop(rng.randrange(len(kw)))
        elif r < 0.9:
            args.append(rng.choice(ARG_VALUES))
        elif args:
            args.pop()
        return args, kw

    def cases(self, rng, tier):
        x, y, f = p.Variable("x"), p.Variable("y"), p.Variable("f")
        fixed = [p.Sum((x, p.Product((2, y)), p.Call(f, (x,)))),
                 p.Sum((x, p.Power(y, p.Sum((x, 2))))),
                 p.If(p.Comparison(x, "<", y), p.Sum((x, y)), p.Call(f, (x, p.Power(y, x))))]
        fx = [dumps(expr_to_sx(t)) for t in fixed]
        for kind in CACHED_KINDS:
            for how in VARY:
                yield {"kind": kind, "vary": how, "trees": fx,
                       "calls": [[0, ["p"], [["tag", "a"]]], [0, ["p"], [["tag", "b"]]],
                                 [1, [], [["tag", "a"], ["flag", 2]]], [1, [], [["flag", 2], ["tag", "a"]]],
                                 [2, ["p"], []], [2, ["r"], []], [2, ["p", "r"], []],
                                 [0, ["p"], [["tag", "a"]]], [1, [], [["tag", "b"], ["flag", 2]]]]}
        n = 800 if tier == "quick" else 12000
        for i in range(n):
            kind = CACHED_KINDS[i % len(CACHED_KINDS)]
            how = rng.choice(VARY)
            pool = []
            for _ in range(rng.randint(1, 3)):
                pool.append(self._tree(rng, rng.randint(1, 2), pool))
            trees = [self._tree(rng, rng.randint(2, 4), pool) for _ in range(rng.randint(1, 2))]
            try:
                sx = [dumps(expr_to_sx(t)) for t in trees]
            except Exception:     # noqa: BLE001
                continue
            args, kw = self._args(rng)
            calls = []
            for _ in range(rng.randint(2, 6)):
                calls.append([rng.randrange(len(sx)), list(args), [list(kv) for kv in kw]])
                args, kw = self._mutate(rng, args, kw)
            yield {"kind": kind, "vary": how, "trees": sx, "calls": calls}

    # ---- running
    def _run(self, pl):
        """-> per call: (tree, args, kwargs, cached events, twin events, cached result, twin result)"""
        trees = [sx_to_expr(loads(t)) for t in pl["trees"]]
        clog = []
        cm = make_traced(pl["kind"], True, pl["vary"], clog)
        rows = []
        for ti, args, kw in pl["calls"]:
            args = tuple(dec(a) for a in args)
            kwargs = {n: dec(v) for n, v in kw}
            ulog = []
            um = make_traced(pl["kind"], False, pl["vary"], ulog)
            want = um(trees[ti], *args, **kwargs)
            del clog[:]
            got = cm(trees[ti], *args, **kwargs)
            rows.append((trees[ti], args, kwargs, list(clog), ulog, got, want))
        return rows

    def run_impl(self, pl):
        try:
            rows = self._run(pl)
        except RecursionError:
            raise
        except Exception as ex:     # noqa: BLE001
            return f"(err {type(ex).__name__})"
        return "(" + " ".join(f"({len(c)} {len(u)})" for _t, _a, _k, c, u, _g, _w in rows) + ")"

    def oracle(self, pl):
        try:
            rows = self._run(pl)
        except RecursionError:
            raise
        except Exception as ex:     # noqa: BLE001
            return Failure(f"cached-args-crash:{pl['kind']}", repr(ex)[:300], pl)
        kind = pl["kind"]
        earlier = {}          # key -> call index of the first observation on the memoizing instance
        for ci, (tree, args, kwargs, cev, uev, got, want) in enumerate(rows):
            ukeys = {}
            for ev in uev:
                ukeys[event_key(ev)] = ukeys.get(event_key(ev), 0) + 1
            ckeys = {}
            for ev in cev:
                ckeys[event_key(ev)] = ckeys.get(event_key(ev), 0) + 1
            here = f"call {ci}: {tree!r} with {args} {kwargs}"
            for ev in cev:
                k = event_key(ev)
                if ckeys[k] > ukeys.get(k, 0):
                    return Failure(f"cached-args-changed:{kind}",
                                   f"{here}: a handler of the memoizing mapper observed {ev[1]!r} with "
                                   f"{ev[2]} {ev[3]} ({ev[0]}), which the plain mapper never passes", pl)
            for ev in uev:
                k = event_key(ev)
                if k in ckeys or k in earlier:
                    continue
                # never delivered: which earlier observation of the same node was taken for it?
                best = None
                for k2, cj in list(earlier.items()) + [(event_key(e2), ci) for e2 in cev]:
                    if k2[0] == k[0] and k2[1] is k[1] and k2[2] == k[2]:
                        d = arg_difference(ev[2], ev[3], k2[3], dict(k2[4]))
                        scope = "within-call" if cj == ci else "later-call"
                        rank = ["kw-value", "pos-value", "kw-names", "pos-count", "mixed"].index(d)
                        if best is None or rank < best[0]:
                            best = (rank, d, scope, k2)
                if best is None:
                    return Failure(f"cached-args-lost:{kind}:node-not-reached",
                                   f"{here}: {ev[1]!r} is never reached ({ev[0]}) with {ev[2]} {ev[3]}", pl)
                return Failure(f"cached-args-lost:{kind}:{best[1]}:{best[2]}",
                               f"{here}: {ev[1]!r} must be reached ({ev[0]}) with {ev[2]} {ev[3]} (the "
                               f"plain mapper does); the memoizing mapper never delivers these — it "
                               f"observed this node only with {best[3][3]} {dict(best[3][4])}", pl)
            if kind != "walk" and got != want:
                return Failure(f"cached-result-differs:{kind}",
                               f"{here}: memoizing mapper -> {got!r}, plain mapper -> {want!r}", pl)
            for k in ckeys:
                earlier.setdefault(k, ci)
        return None

    def shrink(self, pl):
        calls = pl["calls"]
        for i in range(len(calls)):
            if len(calls) > 1:
                yield {**pl, "calls": calls[:i] + calls[i + 1:]}
        used = sorted({c[0] for c in calls})
        if len(used) < len(pl["trees"]):
            yield {**pl, "trees": [pl["trees"][ti] for ti in used],
                   "calls": [[used.index(c[0]), c[1], c[2]] for c in calls]}
        for ti in used:
            for s_ in sx_shrinks(loads(pl["trees"][ti])):
                ts = list(pl["trees"])
                ts[ti] = dumps(s_)
                yield {**pl, "trees": ts}
        for i, (ti, args, kw) in enumerate(calls):
            for j in range(len(args)):
                if all(len(c[1]) == len(args) for c in calls):
                    yield {**pl, "calls": [[c[0], c[1][:j] + c[1][j + 1:], c[2]] for c in calls]}
                    break
            for n in [k for k, _v in kw]:
                if all(n in [k for k, _v in c[2]] for c in calls):
                    yield {**pl, "calls": [[c[0], c[1], [kv for kv in c[2] if kv[0] != n]] for c in calls]}
            break
        if pl["vary"] != "none":
            yield {**pl, "vary": "none"}

    def nontrivial_key(self, pl, model, impl):
        return json.dumps(pl, sort_keys=True) if len(pl["calls"]) > 1 else None

    def stats(self, pl, mo, io, acc):
        acc[pl["kind"]] = acc.get(pl["kind"], 0) + 1
        acc["vary:" + pl["vary"]] = acc.get("vary:" + pl["vary"], 0) + 1
        acc["calls"] = acc.get("calls", 0) + len(pl["calls"])
        same_names = 0
        for c1, c2 in zip(pl["calls"], pl["calls"][1:]):
            if c1[0] == c2[0] and c1[1] == c2[1] and sorted(k for k, _ in c1[2]) == sorted(
                    k for k, _ in c2[2]) and sorted(map(json.dumps, c1[2])) != sorted(map(json.dumps, c2[2])):
                same_names += 1
        acc["same_names_other_values"] = acc.get("same_names_other_values", 0) + same_names

# }}}
