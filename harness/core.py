"""Check runner shared by all properties.

Verdict logic (DESIGN §1):
  1. extract tables from the working tree of $REPO into lean/PV/Generated (T-gen)
  2. lake build of the property's modules + axiom audit + source grep  (the proof)
  3. correspondence: model (compiled Lean driver) vs. implementation on the same inputs (T-corr)
  4. search for a failing input with the property's own oracle on the real code; always run on the
     generated inputs, so that a broken proof / correspondence is reported together with a
     concrete replay when one exists
  5. classification against known_findings.jsonl
  6. evidence/<id>.json
"""
from __future__ import annotations

import json
import os
import random
import sys
import time
import traceback
from dataclasses import dataclass, field
from typing import Any, Iterable

from . import leanio

VERIF = leanio.VERIF
REPO = os.environ.get("REPO", "/repo")


@dataclass
class Failure:
    key: str            # classification used to match known findings (stable, small)
    detail: str         # human-readable: what was observed vs expected
    payload: Any = None


class Stream:
    """One correspondence / oracle stream.  Payloads must be JSON-serialisable."""
    name = "stream"
    #: if False the stream has no Lean model side (oracle only: runtime parts)
    has_model = True

    def cases(self, rng: random.Random, tier: str) -> Iterable[Any]:
        raise NotImplementedError

    def request(self, payload) -> str:
        raise NotImplementedError

    def run_impl(self, payload) -> str:
        raise NotImplementedError

    def agree(self, model: str, impl: str, payload) -> str:
        """'ok' | 'trivial' (model abstains) | 'diff'"""
        if model == impl:
            return "ok"
        if "(noclaim)" in model:
            return "trivial"
        return "diff"

    def oracle(self, payload) -> Failure | None:
        return None

    def shrink(self, payload) -> Iterable[Any]:
        return ()

    def nontrivial_key(self, payload, model: str, impl: str) -> str | None:
        """Key under which a case counts as distinct & non-trivial (None = trivial)."""
        return impl if False else json.dumps(payload, sort_keys=True, default=str)

    def stats(self, payload, model, impl, acc: dict) -> None:
        pass


@dataclass
class Prop:
    id: str
    title: str = ""
    lean_targets: list = field(default_factory=list)      # modules to build
    theorems: list = field(default_factory=list)          # full-strength theorems (audited)
    partial: dict = field(default_factory=dict)           # name -> what is missing (audited too)
    witnesses: list = field(default_factory=list)         # negation witnesses (audited)
    extractors: list = field(default_factory=list)        # callables(ctx) regenerating tables
    streams: list = field(default_factory=list)
    probes: list = field(default_factory=list)            # known-finding probes: callables -> [(key, fails?, detail)]
    trusted_base: list = field(default_factory=list)
    assumptions: list = field(default_factory=list)
    level: str = "proof"
    level_text: str = ""
    level_note: str = ""
    technique: str = "Lean 4 theorem about an executable model + correspondence run against the code"
    design_ref: str = "DESIGN.md §4"


def load_known_findings():
    """known_findings.jsonl and known_findings.<id>.jsonl (committed; never written at run time)"""
    import glob
    res = []
    for path in sorted(glob.glob(os.path.join(VERIF, "known_findings*.jsonl"))):
        with open(path) as f:
            for line in f:
                line = line.strip()
                if line and not line.startswith("#"):
                    res.append(json.loads(line))
    return res


def repo_head():
    import subprocess
    try:
        return subprocess.run(["git", "-C", REPO, "rev-parse", "HEAD"], capture_output=True,
                              text=True).stdout.strip()
    except Exception:
        return "?"


def write_replay(pid, seed, n, obj):
    os.makedirs(os.path.join(VERIF, "replays"), exist_ok=True)
    path = os.path.join(VERIF, "replays", f"{pid}-{seed}-{n}.json")
    with open(path, "w") as f:
        json.dump(obj, f, indent=1, default=str)
    return os.path.relpath(path, VERIF)


def shrink_failure(stream: Stream, fail: Failure, budget=400) -> Failure:
    """Greedy shrinking that preserves the failure *key*."""
    cur = fail
    steps = 0
    improved = True
    while improved and steps < budget:
        improved = False
        for cand in stream.shrink(cur.payload):
            steps += 1
            if steps > budget:
                break
            try:
                f = stream.oracle(cand)
            except Exception:
                f = None
            if f is not None and f.key == cur.key:
                f.payload = cand
                cur = f
                improved = True
                break
    return cur


def run_check(prop: Prop, tier: str, seed: int, replay: str | None = None) -> int:
    t0 = time.time()
    pid = prop.id
    out = sys.stdout
    known = [k for k in load_known_findings() if k.get("property") == pid]
    known_keys = {k["key"] for k in known if k.get("status") == "known"}
    violations: list[tuple[str, str]] = []     # (replay path, suffix)
    notes: list[str] = []
    ctx = {"repo": REPO, "tier": tier, "seed": seed}
    # obligations recorded in lean/obligations.json (tools/mkobligations.py) are merged in
    try:
        with open(os.path.join(VERIF, "lean", "obligations.json")) as f:
            ob = json.load(f).get(pid, {})
    except FileNotFoundError:
        ob = {}
    prop.theorems = list(dict.fromkeys(list(prop.theorems) + ob.get("theorems", [])))
    prop.witnesses = list(dict.fromkeys(list(prop.witnesses) + ob.get("witnesses", [])))
    for n in ob.get("partial", []):
        prop.partial.setdefault(n, "see the docstring of the theorem and DESIGN.md")

    if replay is not None:
        return run_replay(prop, replay)

    # 1. extraction --------------------------------------------------------------------------
    extract_errors = []
    with leanio.BuildLock():
        for ex in prop.extractors:
            try:
                ex(ctx)
            except Exception as err:
                extract_errors.append(f"{type(err).__name__}: {err}".replace("\n", " ")[:400])
        # 2. proof ---------------------------------------------------------------------------
        build_ok, build_log = leanio.lake_build(prop.lean_targets + ["driver"])
    obligations = list(prop.theorems) + list(prop.partial) + list(prop.witnesses)
    broken: list[str] = []
    axioms_seen: dict[str, list[str] | None] = {}
    if extract_errors:
        broken.append("extraction: " + extract_errors[0])
    if not build_ok:
        broken.append("lake build: " + "; ".join(leanio.failing_decls(build_log)[:6]))
        notes.append(build_log[-3000:])
    else:
        axioms_seen, audit_text = leanio.audit_axioms(obligations, prop.lean_targets)
        for name, ax in axioms_seen.items():
            if ax is None:
                broken.append(f"missing theorem {name}")
            else:
                bad = [a for a in ax if a not in leanio.ALLOWED_AXIOMS]
                if bad:
                    broken.append(f"{name} depends on {bad}")
        hits = leanio.source_grep(leanio.lean_sources())
        if hits:
            broken.append("forbidden construct: " + hits[0])
        if tier == "thorough":
            # independent re-check of every compiled module the property's theorems rest on
            mods = leanio.pv_closure(prop.lean_targets)
            ok, log = leanio.leanchecker(mods)
            rechecked = mods if ok else []
            if not ok:
                broken.append("leanchecker: " + log.strip().split("\n")[-1][:300])
    discharged = sum(1 for n in obligations
                     if axioms_seen.get(n) is not None
                     and all(a in leanio.ALLOWED_AXIOMS for a in axioms_seen[n])) if build_ok else 0

    # 3./4. correspondence and oracle -----------------------------------------------------------
    rng = random.Random(seed)
    evaluations = 0
    nontrivial: set = set()
    diffs: list[tuple[Stream, Any, str, str]] = []
    failures: list[tuple[Stream, Failure]] = []
    stream_stats: dict[str, dict] = {}
    samples = []
    driver_ok = build_ok and os.path.exists(leanio.DRIVER)
    if not build_ok:
        # a broken PROOF module does not stop the correspondence run: the driver (model only, no
        # proof files, no regenerated tables behind theorems) is built on its own, so that the
        # disagreeing / failing inputs are reported together with the broken obligation
        with leanio.BuildLock():
            drv_ok, _ = leanio.lake_build(["driver"])
        driver_ok = drv_ok and os.path.exists(leanio.DRIVER)
    for st in prop.streams:
        srng = random.Random(rng.random())
        acc: dict = {}
        n_ok = n_triv = n_diff = n_fail = 0
        payloads = list(st.cases(srng, tier))
        impl_out = []
        for pl in payloads:
            try:
                impl_out.append(st.run_impl(pl))
            except Exception as ex:  # the harness itself failed: never a silent pass
                impl_out.append(f"(harness-error {type(ex).__name__} {str(ex)[:200]!r})")
        if st.has_model and driver_ok:
            try:
                model_out = leanio.run_driver([st.request(pl) for pl in payloads])
            except Exception as ex:
                broken.append(f"driver on stream {st.name}: {str(ex)[:300]}")
                model_out = ["(driver-error)"] * len(payloads)
        else:
            model_out = [None] * len(payloads)
        for pl, mo, io in zip(payloads, model_out, impl_out):
            evaluations += 1
            if mo is not None:
                verdict = st.agree(mo, io, pl)
                if verdict == "ok":
                    n_ok += 1
                    k = st.nontrivial_key(pl, mo, io)
                    if k is not None:
                        nontrivial.add((st.name, k))
                elif verdict == "trivial":
                    n_triv += 1
                else:
                    n_diff += 1
                    diffs.append((st, pl, mo, io))
            try:
                f = st.oracle(pl)
            except Exception:
                f = Failure("oracle-crash", traceback.format_exc()[-800:], pl)
            if f is not None:
                f.payload = pl if f.payload is None else f.payload
                n_fail += 1
                failures.append((st, f))
            elif mo is None:
                k = st.nontrivial_key(pl, mo, io)
                if k is not None:
                    nontrivial.add((st.name, k))
                n_ok += 1
            st.stats(pl, mo, io, acc)
            if len(samples) < 6 and (evaluations % 97 == 1):
                samples.append({"stream": st.name, "input": pl, "model": mo, "impl": io})
        stream_stats[st.name] = {"cases": len(payloads), "agree": n_ok, "model_abstains": n_triv,
                                 "disagree": n_diff, "oracle_failures": n_fail, **acc}

    # known-finding probes ------------------------------------------------------------------
    known_lines = []
    for probe in prop.probes:
        try:
            results = probe()
        except Exception:
            results = [("probe-crash", True, traceback.format_exc()[-500:])]
        for key, fails, detail in results:
            entry = next((k for k in known if k["key"] == key), None)
            if fails:
                if entry is not None and entry.get("status") == "known":
                    known_lines.append(f"KNOWN-FINDING: property={pid} {key}: {entry.get('what', detail)}")
                else:
                    rp = write_replay(pid, seed, len(violations), {
                        "property": pid, "kind": "failing_input", "key": key, "detail": detail,
                        "probe": True, "repo_head": repo_head(), "seed": seed})
                    violations.append((rp, ""))

    # classification ---------------------------------------------------------------------------
    reported_keys = set()
    for st, f in failures:
        if f.key in known_keys:
            line = f"KNOWN-FINDING: property={pid} {f.key}"
            if f.key not in reported_keys and not any(f.key in kl for kl in known_lines):
                entry = next(k for k in known if k["key"] == f.key)
                known_lines.append(f"{line}: {entry.get('what', '')}")
            reported_keys.add(f.key)
            continue
        if f.key in reported_keys:
            continue
        reported_keys.add(f.key)
        small = shrink_failure(st, f)
        rp = write_replay(pid, seed, len(violations), {
            "property": pid, "kind": "failing_input", "stream": st.name, "key": small.key,
            "input": small.payload, "detail": small.detail, "repo_head": repo_head(), "seed": seed})
        violations.append((rp, ""))

    unexplained = [d for d in diffs]
    if (broken or unexplained) and not violations:
        # the proof or the correspondence no longer checks and no failing input was found
        rp = write_replay(pid, seed, 0, {
            "property": pid, "kind": "no_failing_input_found",
            "broken": broken,
            "disagreements": [{"stream": st.name, "input": pl, "model": mo, "impl": io}
                              for st, pl, mo, io in unexplained[:20]],
            "repo_head": repo_head(), "seed": seed})
        violations.append((rp, " no-failing-input-found"))
    elif (broken or unexplained) and violations:
        notes.append("broken obligations / disagreements accompany the failing input: "
                     + json.dumps(broken)[:500])

    # evidence -------------------------------------------------------------------------------------
    wall = time.time() - t0
    ev = {
        "property_id": pid, "tier": tier, "seed": seed, "level": prop.level,
        "coverage": {
            "obligations": len(obligations), "discharged": discharged,
            "checker_cmd": "cd lean && lake build " + " ".join(prop.lean_targets)
                           + "  # then #print axioms on every obligation (harness/leanio.py)",
            "trusted_base": prop.trusted_base,
            "theorems": {n: axioms_seen.get(n) for n in obligations},
            "partial_theorems": prop.partial,
            "evaluations": evaluations, "distinct_nontrivial": len(nontrivial),
            "rule": "a case counts when model and implementation agree on it (or, for oracle-only "
                    "streams, the oracle accepts it), the model does not abstain, and its input "
                    "is distinct from all earlier ones",
            "samples": samples, "streams": stream_stats,
            "broken": broken, "disagreements": len(diffs),
            "known_findings_reported": known_lines,
        },
        "assumptions": prop.assumptions,
        "wall_s": round(wall, 2),
        "violations": len(violations),
    }
    evdir = os.environ.get("VERIF_EVIDENCE_DIR") or os.path.join(VERIF, "evidence")
    os.makedirs(evdir, exist_ok=True)
    with open(os.path.join(evdir, f"{pid}.json"), "w") as f:
        json.dump(ev, f, indent=1, default=str)

    for kl in known_lines:
        print(kl)
    for n in notes:
        print("NOTE:", n[:2000])
    print(f"{pid} tier={tier} seed={seed}: obligations {discharged}/{len(obligations)}, "
          f"cases {evaluations}, nontrivial {len(nontrivial)}, disagreements {len(diffs)}, "
          f"oracle failures {len(failures)}, wall {wall:.1f}s")
    for name, s in stream_stats.items():
        print(f"  stream {name}: {json.dumps(s, default=str)[:300]}")
    if violations:
        for rp, suffix in violations:
            print(f"VIOLATION property={pid} replay={rp}{suffix}")
        return 1
    return 0


def run_replay(prop: Prop, path: str) -> int:
    with open(path if os.path.isabs(path) else os.path.join(VERIF, path)) as f:
        rp = json.load(f)
    if rp.get("kind") != "failing_input" or "stream" not in rp:
        print(json.dumps(rp, indent=1)[:4000])
        print("replay: nothing executable recorded (see 'broken' / 'disagreements')")
        return 1
    st = next(s for s in prop.streams if s.name == rp["stream"])
    f = st.oracle(rp["input"])
    if f is None:
        print(f"replay: input no longer fails on {REPO}")
        return 0
    print(f"replay: still fails: {f.key}: {f.detail}")
    print(f"VIOLATION property={prop.id} replay={path}")
    return 1
