"""Directed input families of C14 (pure tree builders; every random choice comes from the `rng`
handed in).

* `rebuilt_*`: trees as REBUILDING mappers leave them (substitution of a placeholder, derivatives,
  distribution): the node the placeholder stood in is rebuilt around the substituted tree, nothing
  is flattened and no sign is simplified.  The overloaded operators never build these shapes
  (`-(-y)` becomes `Product((-1, -1, y))`), `substitute(-t, {t: -y})` does: a negation directly
  under a negation, a negated product as the first / a later factor of a product, a difference
  whose subtrahend is a negation or a difference, a sum inside a sum, negative constants next to
  negations.  In C text these are the places where two sign characters meet (`--y` is a
  pre-decrement, `- -y` is not) and where a missing parenthesis changes the grouping.
* `repeated_*`: n-ary nodes whose operands REPEAT: one flat sum in which the same term occurs with
  both signs and with every small pair of multiplicities (`x + x - x`), the negated occurrence
  spelled `Product((-1, t))` or, for a product `t`, with the factor -1 joined to its factors;
  repeated factors, repeated operands of `&` `^` `|` `&&` `||` `min` `max`.
"""
from __future__ import annotations

import pymbolic.primitives as p

CSE = p.CommonSubexpression


def V(n):
    return p.Variable(n)


def neg(e):
    """-e as a rebuilding mapper leaves it: a product of -1 and the (unflattened) operand"""
    return p.Product((-1, e))


def sub(a, b):
    return p.Sum((a, neg(b)))


def neg_joined(e):
    """-e as the overloaded operators build it: the factor -1 joins the factors of a product"""
    if isinstance(e, p.Product):
        return p.Product((-1,) + tuple(e.children))
    return neg(e)


# {{{ rebuilt trees

def rebuilt_templates():
    """[(name, t -> tree)]: one node (or two) around a placeholder, integer- and float-safe (no
    division: the value may be negative)"""
    x, z = V("x"), V("z")
    return [
        ("neg", lambda t: neg(t)),
        ("negneg", lambda t: neg(neg(t))),
        ("sub-r", lambda t: sub(x, t)),
        ("sub-l", lambda t: sub(t, x)),
        ("sum-l", lambda t: p.Sum((t, x))),
        ("sum-r", lambda t: p.Sum((x, t))),
        ("sum-allneg", lambda t: p.Sum((neg(t), neg(x)))),
        ("sum-one", lambda t: p.Sum((neg(t),))),
        ("prod-r", lambda t: p.Product((z, t))),
        ("prod-l", lambda t: p.Product((t, z))),
        ("negprod-first", lambda t: p.Product((-1, t, z))),
        ("negprod-last", lambda t: p.Product((-1, z, t))),
        ("prod-neg", lambda t: p.Product((z, neg(t)))),
        ("scale", lambda t: p.Product((2, t))),
        ("scale-neg", lambda t: p.Product((-2, t))),
        ("axpy", lambda t: p.Sum((p.Product((z, neg(t))), x))),
        ("sub-prod", lambda t: sub(x, p.Product((z, t)))),
        ("sub-scaled", lambda t: sub(x, p.Product((2, t)))),
        ("square", lambda t: p.Power(t, 2)),
        ("pow1", lambda t: p.Power(t, 1)),
        ("less", lambda t: p.Comparison(t, "<", x)),
        ("abs", lambda t: p.If(p.Comparison(t, "<", 0), neg(t), t)),
        ("max", lambda t: p.Max((t, neg(t)))),
    ]


def rebuilt_fillers():
    """[(name, tree)]: what gets substituted for the placeholder"""
    y, z = V("y"), V("z")
    return [
        ("var", y),
        ("neg", neg(y)),
        ("negneg", neg(neg(y))),
        ("diff", sub(y, z)),
        ("negdiff", neg(sub(y, z))),
        ("negsum", p.Sum((neg(y), z))),
        ("allneg", p.Sum((neg(y), neg(z)))),
        ("prod", p.Product((y, z))),
        ("negprod", p.Product((-1, y, z))),
        ("minus-minus", p.Product((-1, -1, y))),
        ("negconst", -3),
        ("neg-of-const", p.Product((-1, 3))),
        ("neg-of-negconst", p.Product((-1, -3))),
        ("scaled", p.Product((-2, y))),
        ("shifted", p.Sum((y, -3))),
        ("square", p.Power(y, 2)),
        ("negsquare", neg(p.Power(y, 2))),
        ("square-of-neg", p.Power(neg(y), 2)),
    ]


def rebuilt_single():
    """every template around every filler: [(name, tree)]"""
    for tn, t in rebuilt_templates():
        for fn, f in rebuilt_fillers():
            yield f"{tn}({fn})", t(f)


def rebuilt_double(rng, n=None):
    """template around template around filler; all of them (`n is None`) or `n` random ones"""
    ts, fs = rebuilt_templates(), rebuilt_fillers()
    if n is None:
        for an, a in ts:
            for bn, b in ts:
                for fn, f in fs:
                    yield f"{an}({bn}({fn}))", a(b(f))
        return
    for _ in range(n):
        (an, a), (bn, b), (fn, f) = rng.choice(ts), rng.choice(ts), rng.choice(fs)
        yield f"{an}({bn}({fn}))", a(b(f))


def rebuilt_random(rng, depth):
    """a random tower of templates over a filler"""
    ts, fs = rebuilt_templates(), rebuilt_fillers()
    name, e = rng.choice(fs)
    for _ in range(depth):
        tn, t = rng.choice(ts)
        name, e = f"{tn}({name})", t(e)
    return name, e

# }}}


# {{{ repeated operands

def repeated_terms():
    x, y, z = V("x"), V("y"), V("z")
    return [x, p.Product((x, y)), p.Product((2, z)), p.Power(z, 2), p.Sum((x, 1)),
            p.If(p.Comparison(x, "<", y), y, z), p.Min((x, y))]


def signed_sum(rng, counts, joined, bystanders=()):
    """one FLAT sum: term t_i occurs counts[i] = (positive, negative) times, the bystanders once;
    order shuffled.  `joined`: negated products carry -1 as a joined factor"""
    cs = list(bystanders)
    for t, (npos, nneg) in counts:
        cs += [t] * npos
        cs += [(neg_joined if joined else neg)(t)] * nneg
    rng.shuffle(cs)
    return p.Sum(tuple(cs))


def repeated_sums_small(rng, top=3):
    """every term of `repeated_terms` with every pair of multiplicities 0 … `top` (not both 0, more
    than one operand), alone and next to a bystander: [(name, tree)]"""
    y = V("y")
    for k, t in enumerate(repeated_terms()):
        for npos in range(top + 1):
            for nneg in range(top + 1):
                if npos + nneg < 2:
                    continue
                for joined in ((False, True) if isinstance(t, p.Product) else (False,)):
                    for by in ((), (p.Sum((y, 2)),), (7,)):
                        if by and rng.random() < 0.5:
                            continue
                        yield (f"t{k}:+{npos}-{nneg}{'j' if joined else ''}{'+w' if by else ''}",
                               signed_sum(rng, [(t, (npos, nneg))], joined, by))


def repeated_sum_random(rng):
    """two or three distinct terms, each with random multiplicities of both signs"""
    ts = rng.sample(repeated_terms(), rng.randint(2, 3))
    counts = [(t, (rng.randint(0, 3), rng.randint(0, 3))) for t in ts]
    if sum(a + b for _t, (a, b) in counts) < 2:
        counts[0] = (counts[0][0], (2, 1))
    by = rng.choice([(), (V("b"),), (5,), (-4,)])
    e = signed_sum(rng, counts, rng.random() < 0.5, by)
    k = rng.random()
    z, a = V("z"), V("a")
    if k < 0.15:
        e = p.Product((e, 3))
    elif k < 0.3:
        e = sub(a, e)
    elif k < 0.4:
        e = p.Sum((z, e))           # a sum inside a sum (unflattened)
    elif k < 0.5:
        e = p.Comparison(e, "<=", a)
    return "random", e


def repeated_operands():
    """other n-ary nodes with a repeated operand: [(name, tree)]"""
    x, y, a, b = V("x"), V("y"), V("a"), V("b")
    t, u = p.Sum((x, 1)), p.Product((a, b))
    for cls in (p.Product, p.BitwiseAnd, p.BitwiseOr, p.BitwiseXor, p.LogicalAnd, p.LogicalOr):
        for cs in ((x, x), (x, x, x), (x, y, x), (u, u), (u, x, u)):
            yield f"{cls.__name__}:{len(cs)}", cls(tuple(cs))
    for cls in (p.Min, p.Max):
        for cs in ((x, x), (t, t), (u, u)):
            yield f"{cls.__name__}:{len(cs)}", cls(tuple(cs))
    for e in (p.Comparison(t, "==", t), p.Comparison(u, "<", u), p.If(x, t, t),
              sub(t, t), sub(u, u), p.Sum((t, t)), p.Product((t, t)), p.Power(t, 2),
              p.Product((neg(x), neg(x))), p.Sum((neg(u), neg(u))), p.Product((-1, -1)),
              p.Product((-1, x, -1, x))):
        yield "same-both-sides", e

# }}}
