"""C16 — correspondence streams for the model of the matchpy BRIDGE
(lean/PV/Model/Matchpy.lean vs pymbolic/interop/matchpy/{__init__,tofrom,mapper}.py).

matchpy terms are printed STRUCTURALLY (class name, operand list, variable_name; never `str`):
  (Scalar <const> vn) (Id "s" vn) (ComparisonOp "s" vn) (Wildcard min_count fixed_size vn)
  (<ClassName> (<operand>…) vn)            vn = nil | "name"
"""
from __future__ import annotations

import itertools

import pymbolic.primitives as p

from .core import Failure, Stream
from .oracles import acnorm
from .sexp import A, dumps, expr_to_sx, loads, sx_shrinks, sx_to_expr

AC_NAMES = ["Sum", "Product", "LogicalOr", "LogicalAnd", "BitwiseOr", "BitwiseAnd", "BitwiseXor"]
ERRS = ("UnsupportedExpressionError", "NotImplementedError", "ValueError", "AttributeError",
        "TypeError")


def err_sx(ex):
    return f"(err {type(ex).__name__})"


def _vn(v):
    return A("nil") if v is None else str(v)


class Unprintable(Exception):
    pass


def term_to_sx(t):
    """structural wire form of a real matchpy term of the bridge"""
    import matchpy

    import pymbolic.interop.matchpy as m
    if isinstance(t, matchpy.Wildcard):
        if type(t) is not m.Wildcard and type(t) is not matchpy.Wildcard or t.optional is not None:
            raise Unprintable(repr(t))
        return [A("Wildcard"), int(t.min_count), bool(t.fixed_size), _vn(t.variable_name)]
    if isinstance(t, m.Scalar):
        return [A("Scalar"), expr_to_sx(t.value), _vn(t.variable_name)]
    if isinstance(t, m.Id):
        if not isinstance(t.value, str):
            raise Unprintable(repr(t))
        return [A("Id"), t.value, _vn(t.variable_name)]
    if isinstance(t, m.ComparisonOp):
        if not isinstance(t.value, str):
            raise Unprintable(repr(t))
        return [A("ComparisonOp"), t.value, _vn(t.variable_name)]
    if isinstance(t, matchpy.Operation):
        ops = t.operands
        if not isinstance(ops, (tuple, list)):
            raise Unprintable(repr(t))
        return [A(type(t).__name__), [term_to_sx(o) for o in ops], _vn(t.variable_name)]
    raise Unprintable(repr(t))


def sx_to_term(s):
    """the real object for a wire term, built WITHOUT matchpy's simplification (operands stay in
    the order given: re-sorting is not idempotent for the bridge's `<`)"""
    import matchpy

    import pymbolic.interop.matchpy as m
    h = s[0]
    vn = None if isinstance(s[-1], A) else s[-1]
    if h == "Wildcard":
        return m.Wildcard(min_count=int(s[1]), fixed_size=(s[2] == "true"), variable_name=vn)
    if h == "Scalar":
        return m.Scalar(sx_to_expr(s[1]), vn)
    if h == "Id":
        return m.Id(s[1], vn)
    if h == "ComparisonOp":
        return m.ComparisonOp(s[1], vn)
    cls = getattr(m, str(h))
    ops = [sx_to_term(c) for c in s[1]]
    obj = matchpy.Expression.__new__(cls)
    if h == "TupleOp":
        obj.__init__(tuple(ops), variable_name=vn)
    else:
        obj.__init__(*ops, variable_name=vn)
    return obj


def mappers():
    from pymbolic.interop.matchpy.tofrom import (FromMatchpyExpressionMapper,
                                                 ToMatchpyExpressionMapper)
    return ToMatchpyExpressionMapper(), FromMatchpyExpressionMapper()


# {{{ generators

VARS = ["a", "b", "c", "ab"]
CMP = ["==", "!=", "<", "<=", ">", ">="]


def every_node_type():
    a, b, f = p.Variable("a"), p.Variable("b"), p.Variable("f")
    out = [3, True, 2.5, -1, "s", None, a, f(a, b), f(), p.Subscript(a, b), p.Subscript(a, (b,)),
           p.Subscript(a, (a, b)), p.Subscript(a, ()), p.Lookup(a, "n"),
           p.CallWithKwargs(f, (a,), {"k": b}), p.NaN(), p.Wildcard(), p.DotWildcard("d_"),
           p.StarWildcard("s_"), p.FunctionSymbol(), p.CommonSubexpression(a),
           p.Substitution(a, ("a",), (b,)), p.Derivative(a, ("a",)), p.Slice((a,)),
           p.Comparison(a, "<", b), p.If(p.Comparison(a, "<", b), a, b), p.LogicalNot(a),
           p.BitwiseNot(a), (a, b), [a, b]]
    for cls in (p.Sum, p.Product, p.BitwiseOr, p.BitwiseXor, p.BitwiseAnd, p.LogicalOr,
                p.LogicalAnd, p.Min, p.Max):
        out += [cls(()), cls((a,)), cls((b, a)), cls((b, cls((b, a)), a)), cls((cls((cls((b,)),)),))]
    for cls in (p.Quotient, p.FloorDiv, p.Remainder, p.Power, p.LeftShift, p.RightShift):
        out += [cls(b, a)]
    return out


def refusal_orders():
    """which refusal comes first (operands are converted left to right)"""
    a, f = p.Variable("a"), p.Variable("f")
    bad = [p.Min((a,)), "s", p.Lookup(a, "n"), p.DotWildcard("d_")]
    out = []
    for x, y in itertools.permutations(bad, 2):
        out += [p.Sum((x, y)), f(x, y), p.Call(x, (y,)), p.Subscript(x, (y,)), p.Subscript(x, y),
                p.Power(x, y), p.Comparison(x, "<", y), p.If(x, y, a), p.If(a, x, y)]
    return out


class BGen:
    """random trees over the node types of the bridge, a few refused ones, wildcards, and
    `==`-confusable constants (1, True, 1.0)"""

    KINDS = ["sum", "sum", "prod", "prod", "lor", "land", "bor", "band", "bxor", "quot", "floordiv",
             "rem", "pow", "shift", "not", "call", "call", "subscript", "cmp", "if"]

    def __init__(self, rng, wild=0.0, refuse=0.0, floats=0.1):
        self.rng, self.wild, self.refuse, self.floats = rng, wild, refuse, floats

    def leaf(self):
        r = self.rng
        k = r.random()
        if k < self.wild:
            return r.choice([p.DotWildcard, p.DotWildcard, p.StarWildcard])(r.choice(["d_", "e_", "s_", ""]))
        if k < self.wild + self.refuse:
            return r.choice(["s", None, p.Lookup(p.Variable("a"), "n"), p.Min((p.Variable("a"),)),
                             p.NaN(), p.Slice(()), (1, 2), p.CommonSubexpression(p.Variable("a"))])
        k = r.random()
        if k < 0.55:
            return p.Variable(r.choice(VARS))
        if k < 0.55 + self.floats:
            return r.choice([1.0, 2.5, -0.5, 0.0, 10.0])
        if k < 0.9:
            return r.choice([0, 1, 2, 3, 10, 9, -1, -2, 7, 100])
        return r.choice([True, False])

    def kids(self, d, cls=None):
        r = self.rng
        n = r.choice([0, 1, 2, 2, 2, 3, 3, 4, 5])
        out = []
        for _ in range(n):
            if cls is not None and r.random() < 0.2:
                out.append(cls(self.kids(d - 1)))          # nested application of the same operator
            else:
                out.append(self.gen(d - 1))
        return tuple(out)

    def gen(self, d):
        r = self.rng
        if d <= 0 or r.random() < 0.2:
            return self.leaf()
        k = r.choice(self.KINDS)
        nary = {"sum": p.Sum, "prod": p.Product, "lor": p.LogicalOr, "land": p.LogicalAnd,
                "bor": p.BitwiseOr, "band": p.BitwiseAnd, "bxor": p.BitwiseXor}
        if k in nary:
            return nary[k](self.kids(d, nary[k]))
        if k in ("quot", "floordiv", "rem", "pow"):
            cls = {"quot": p.Quotient, "floordiv": p.FloorDiv, "rem": p.Remainder, "pow": p.Power}[k]
            return cls(self.gen(d - 1), self.gen(d - 1))
        if k == "shift":
            return r.choice([p.LeftShift, p.RightShift])(self.gen(d - 1), self.gen(d - 1))
        if k == "not":
            return r.choice([p.BitwiseNot, p.LogicalNot])(self.gen(d - 1))
        if k == "call":
            fn = p.Variable(r.choice(["f", "g"])) if r.random() < 0.85 else self.gen(d - 1)
            return p.Call(fn, tuple(self.gen(d - 1) for _ in range(r.choice([0, 1, 1, 2, 2, 3]))))
        if k == "subscript":
            agg = p.Variable(r.choice(VARS)) if r.random() < 0.8 else self.gen(d - 1)
            kk = r.random()
            if kk < 0.45:
                idx = self.gen(d - 1)
            elif kk < 0.65:
                idx = (self.gen(d - 1),)
            elif kk < 0.95:
                idx = (self.gen(d - 1), self.gen(d - 1))
            else:
                idx = ()
            return p.Subscript(agg, idx)
        if k == "cmp":
            return p.Comparison(self.gen(d - 1), r.choice(CMP), self.gen(d - 1))
        return p.If(self.gen(d - 1), self.gen(d - 1), self.gen(d - 1))


def term_pool():
    """real terms that exercise every branch of the three `__lt__`s and of `__eq__`"""
    import pymbolic.interop.matchpy as m
    T, _ = mappers()
    a, b, f = p.Variable("a"), p.Variable("b"), p.Variable("f")
    exprs = [1, True, 2, 10, 9, -1, 1.0, 2.5, False, 0, a, b, p.Variable("ab"), p.Variable("B"),
             p.Sum((a, b)), p.Sum((a,)), p.Sum(()), p.Sum((1, a)), p.Sum((True, a)), p.Sum((1.0, a)),
             p.Sum((2, a)), p.Product((a, b)), p.Product(()), p.LogicalOr((a, b)),
             p.BitwiseXor((a, b)), f(a), f(), f(a, b), f(b, a), p.Subscript(a, b), p.Subscript(a, (b, a)),
             p.Quotient(a, b), p.Quotient(b, a), p.Quotient(1, a), p.Quotient(True, a),
             p.Power(a, 2), p.Power(a, 10), p.FloorDiv(a, b), p.Remainder(a, b), p.LeftShift(a, b),
             p.Comparison(a, "<", b), p.Comparison(a, "<=", b), p.Comparison(a, "==", b),
             p.If(a, a, b), p.If(a, b, a), p.LogicalNot(a), p.BitwiseNot(a), p.BitwiseNot(b),
             p.DotWildcard("d_"), p.DotWildcard("e_"), p.StarWildcard("s_"), p.StarWildcard("d_"),
             p.DotWildcard(""), p.StarWildcard(""), p.Sum((p.DotWildcard("d_"), a)),
             p.Sum((p.StarWildcard("s_"), a))]
    pool = [T(e) for e in exprs]
    pool += [m.Wildcard.plus("p_"), m.Wildcard.plus("d_"), m.Wildcard.plus(None),
             m.Wildcard.dot(None), m.Wildcard.star(None),
             m.Variable(m.Id("a"), variable_name="q"), m.Variable(m.Id("a"), variable_name="r"),
             m.Variable(m.Id("a", "i"), variable_name=None), m.Scalar(1, "v"), m.Scalar(True, "w"),
             m.Scalar(1, "w"), m.Sum(T(a), T(b), variable_name="q"), m.Id("a"), m.Id("b"),
             m.Id("a", "x"), m.ComparisonOp("<"), m.ComparisonOp("<="), m.ComparisonOp("<", "x"),
             m.TrueDiv(T(a), T(b), variable_name="z")]
    return pool

# }}}


# {{{ to / from

class ConvertStream(Stream):
    """`ToMatchpyExpressionMapper` (structural term, or the refusal) and the round trip through
    `FromMatchpyExpressionMapper`, real code vs `toM` / `fromM` of the driver; the oracle states the
    property's round-trip clause on the real code"""
    name = "matchpy-convert"

    def cases(self, rng, tier):
        for e in every_node_type() + refusal_orders():
            yield {"expr": dumps(expr_to_sx(e))}
        # operand lists of every commutative / associative class over a small alphabet
        a, b, f = p.Variable("a"), p.Variable("b"), p.Variable("f")
        alpha = [a, b, 1, True, 1.0, 2, 10, -1, p.DotWildcard("d_"), p.StarWildcard("s_"),
                 p.DotWildcard("e_"), p.StarWildcard("d_"), f(a), p.Quotient(a, b), p.Sum((a, b)),
                 p.Product((b, a)), p.LogicalOr((b, a)), p.Sum((p.StarWildcard("s_"), b))]
        classes = [p.Sum, p.Product, p.LogicalOr, p.LogicalAnd, p.BitwiseOr, p.BitwiseAnd,
                   p.BitwiseXor]
        n_small = 1200 if tier == "quick" else 30000
        for _ in range(n_small):
            cls = rng.choice(classes)
            k = rng.choice([2, 2, 3, 3, 3, 4, 4, 5])
            yield {"expr": dumps(expr_to_sx(cls(tuple(rng.choice(alpha) for _ in range(k)))))}
        if tier != "quick":
            for cls in classes[:3]:
                for ops in itertools.product(alpha[:12], repeat=3):
                    yield {"expr": dumps(expr_to_sx(cls(ops)))}
        n = 2500 if tier == "quick" else 40000
        for i in range(n):
            g = BGen(rng, wild=0.08 if i % 3 == 0 else 0.0, refuse=0.04 if i % 5 == 0 else 0.0,
                     floats=0.1 if i % 2 else 0.0)
            yield {"expr": dumps(expr_to_sx(g.gen(rng.randint(1, 4))))}
        # a wide commutative node (still below the 64 operands where list.sort starts merging)
        for k in (20, 40, 63):
            ops = [rng.choice(alpha[:8] + [p.Variable(f"v{j}") for j in range(9)]) for _ in range(k)]
            yield {"expr": dumps(expr_to_sx(p.Sum(tuple(ops))))}
        yield {"expr": dumps(expr_to_sx(p.Sum(tuple(p.Variable(f"v{j % 7}") for j in range(70)))))}

    def request(self, pl):
        return f"(mp-to {pl['expr']})"

    def run_impl(self, pl):
        T, F = mappers()
        e = sx_to_expr(loads(pl["expr"]))
        try:
            t = T(e)
        except RecursionError:
            raise
        except Exception as ex:
            return f"({err_sx(ex)} {err_sx(ex)})"
        try:
            back = dumps(expr_to_sx(F(t)))
        except RecursionError:
            raise
        except Exception as ex:
            back = err_sx(ex)
        return f"({dumps(term_to_sx(t))} {back})"

    def oracle(self, pl):
        """the round-trip clause: a tree without wildcards that converts comes back equal up to
        operand order of commutative operators and tuple-writing of subscript indices"""
        T, F = mappers()
        subj = loads(pl["expr"])
        if "Wildcard" in pl["expr"]:
            return None
        try:
            t = T(sx_to_expr(subj))
        except RecursionError:
            raise
        except Exception:
            return None            # refused: nothing is claimed for trees that do not convert
        try:
            data = F(t)
        except RecursionError:
            raise
        except Exception as ex:
            return Failure("matchpy-roundtrip-raises",
                           f"{sx_to_expr(subj)!r} converts but does not come back: {ex!r}", pl)
        back = expr_to_sx(data)
        if dumps(acnorm.order_norm(back)) == dumps(acnorm.order_norm(subj)):
            return None
        if dumps(acnorm.order_norm(back, True)) == dumps(acnorm.order_norm(subj, True)):
            return Failure("matchpy-roundtrip-flattens-nested-associative",
                           f"{sx_to_expr(subj)!r} comes back as {data!r}", pl)
        return Failure("matchpy-roundtrip-differs", f"{sx_to_expr(subj)!r} comes back as {data!r}", pl)

    def shrink(self, pl):
        for s in sx_shrinks(loads(pl["expr"])):
            yield {"expr": dumps(s)}

    def nontrivial_key(self, pl, model, impl):
        return None if impl.startswith("((err") else pl["expr"]

    def stats(self, pl, mo, io, acc):
        if io.startswith("((err"):
            k = "refused " + io[6:io.index(")")]
        elif io.endswith("))") and "(err " in io[-30:]:
            k = "converted, no way back"
        else:
            k = "round trip"
        acc[k] = acc.get(k, 0) + 1
        if mo is not None and "(noclaim)" in mo:
            acc["model_abstains"] = acc.get("model_abstains", 0) + 1


def mutate_term(rng, s, pool_sx):
    """replace one random subterm / set a variable_name (ill-formed shapes included)"""
    paths = []

    def walk(t, path):
        paths.append(path)
        if t[0] not in ("Scalar", "Id", "ComparisonOp", "Wildcard"):
            for i, c in enumerate(t[1]):
                walk(c, (*path, i))
    walk(s, ())
    path = rng.choice(paths)

    def put(t, path):
        if not path:
            k = rng.random()
            if k < 0.4:
                return rng.choice(pool_sx)
            if k < 0.7 and t[0] not in ("Wildcard",):
                return [*t[:-1], rng.choice(["q", "r"])]
            if k < 0.85 and t[0] not in ("Scalar", "Id", "ComparisonOp", "Wildcard"):
                ops = list(t[1])
                if ops and rng.random() < 0.5:
                    ops.pop(rng.randrange(len(ops)))
                else:
                    ops.insert(rng.randint(0, len(ops)), rng.choice(pool_sx))
                return [t[0], ops, t[2]]
            return [A("TupleOp"), [t], A("nil")]
        t = list(t)
        ops = list(t[1])
        ops[path[0]] = put(ops[path[0]], path[1:])
        t[1] = ops
        return t
    return put(s, path)


def fixed_arity_ok(s):
    """can the raw constructor be called (Python argument binding) for every operation?"""
    import dataclasses

    import pymbolic.interop.matchpy as m
    if s[0] in ("Scalar", "Id", "ComparisonOp", "Wildcard"):
        return True
    cls = getattr(m, str(s[0]))
    if s[0] != "TupleOp" and s[0] not in AC_NAMES:
        n = len([f for f in dataclasses.fields(cls) if not f.metadata.get("not_an_operand")])
        if len(s[1]) != n:
            return False
    return all(fixed_arity_ok(c) for c in s[1])


class FromStream(Stream):
    """`FromMatchpyExpressionMapper` on terms built directly (canonical ones, terms carrying a
    variable_name, atoms / wildcards / TupleOp in operand position), real code vs `fromM`"""
    name = "matchpy-from"

    def cases(self, rng, tier):
        T, _ = mappers()
        pool_sx = [term_to_sx(t) for t in term_pool()]
        for s in pool_sx:
            yield {"term": dumps(s)}
        n = 1200 if tier == "quick" else 20000
        for i in range(n):
            g = BGen(rng, wild=0.05 if i % 4 == 0 else 0.0)
            try:
                s = term_to_sx(T(g.gen(rng.randint(1, 3))))
            except RecursionError:
                raise
            except Exception:
                continue
            for _ in range(rng.choice([0, 1, 1, 2])):
                s2 = mutate_term(rng, s, pool_sx)
                if fixed_arity_ok(s2):
                    s = s2
            yield {"term": dumps(s)}

    def request(self, pl):
        return f"(mp-from {pl['term']})"

    def run_impl(self, pl):
        _, F = mappers()
        t = sx_to_term(loads(pl["term"]))
        assert dumps(term_to_sx(t)) == pl["term"], "harness: raw construction changed the term"
        try:
            return dumps(expr_to_sx(F(t)))
        except RecursionError:
            raise
        except Exception as ex:
            return err_sx(ex)

    def nontrivial_key(self, pl, model, impl):
        return None if impl.startswith("(err") else pl["term"]

    def stats(self, pl, mo, io, acc):
        k = io[:io.index(")") + 1] if io.startswith("(err") else "converted"
        acc[k] = acc.get(k, 0) + 1

# }}}


# {{{ ordering, sorting, construction

class OrderStream(Stream):
    """`a < b`, `b < a`, `a == b`, `repr(a)`; `list.sort()` of operand lists; construction through
    matchpy's metaclass (`flatten`, `sort`) — real objects vs `MTerm.lt / eq / repr`, `pySort`, `mk`"""
    name = "matchpy-order"

    def cases(self, rng, tier):
        import pymbolic.interop.matchpy as m
        T, _ = mappers()
        pool = term_pool()
        pool_sx = [dumps(term_to_sx(t)) for t in pool]
        top = [s for s, t in zip(pool_sx, pool) if not isinstance(t, m.TupleOp)]
        sortable = [s for s, t in zip(pool_sx, pool)
                    if not isinstance(t, (m.TupleOp, m.Id, m.ComparisonOp))]
        pairs = list(itertools.product(top, repeat=2))
        if tier == "quick":
            pairs = rng.sample(pairs, 1500)
        for x, y in pairs:
            yield {"op": "cmp", "a": x, "b": y}
        wilds = [s for s in sortable if s.startswith("(Wildcard")]
        small = wilds[:6] + sortable[:3] + [s for s in sortable if s.startswith("(Sum")][:2]
        perms = [list(q) for k in (2, 3, 4) for q in itertools.permutations(small, k)]
        if tier == "quick":
            perms = rng.sample(perms, 700)
        for q in perms:
            yield {"op": "sort", "ts": q}
        n = 900 if tier == "quick" else 20000
        for i in range(n):
            k = rng.choice([2, 3, 3, 4, 5, 6, 8, 12])
            src = sortable
            if i % 3 == 0:
                g = BGen(rng, wild=0.15)
                src = []
                for _ in range(6):
                    try:
                        t = T(g.gen(rng.randint(0, 2)))
                        src.append(dumps(term_to_sx(t)))
                    except RecursionError:
                        raise
                    except Exception:
                        pass
                src = src or sortable
            ts = [rng.choice(src) for _ in range(k)]
            if i % 2:
                yield {"op": "sort", "ts": ts}
            else:
                yield {"op": "mk", "cls": rng.choice(AC_NAMES), "ts": ts}
        for cls, k in (("TrueDiv", 2), ("Power", 2), ("LogicalNot", 1), ("If", 3), ("Variable", 1),
                       ("Call", 2), ("Comparison", 3)):
            for _ in range(5):
                yield {"op": "mk", "cls": cls, "ts": [rng.choice(sortable) for _ in range(k)]}

    def request(self, pl):
        if pl["op"] == "cmp":
            return f"(mp-cmp {pl['a']} {pl['b']})"
        if pl["op"] == "sort":
            return f"(mp-sort ({' '.join(pl['ts'])}))"
        return f"(mp-mk {pl['cls']} ({' '.join(pl['ts'])}))"

    def run_impl(self, pl):
        import pymbolic.interop.matchpy as m
        if pl["op"] == "cmp":
            a, b = sx_to_term(loads(pl["a"])), sx_to_term(loads(pl["b"]))
            return f"({dumps(bool(a < b))} {dumps(bool(b < a))} {dumps(bool(a == b))} {dumps(repr(a))})"
        ts = [sx_to_term(loads(s)) for s in pl["ts"]]
        if pl["op"] == "sort":
            ts.sort()
            return "(" + " ".join(dumps(term_to_sx(t)) for t in ts) + ")"
        return dumps(term_to_sx(getattr(m, pl["cls"])(*ts)))

    def nontrivial_key(self, pl, model, impl):
        return dumps([pl["op"], pl.get("cls", ""), pl.get("a", ""), pl.get("b", ""), *pl.get("ts", [])])

    def stats(self, pl, mo, io, acc):
        acc[pl["op"]] = acc.get(pl["op"], 0) + 1
        if pl["op"] == "cmp" and io.startswith("(true true"):
            acc["a<b and b<a"] = acc.get("a<b and b<a", 0) + 1

# }}}


# {{{ ToFromReplacement, substitution conversion of match

def build_arg(spec):
    import multiset
    kind = spec[0]
    if kind == "one":
        return sx_to_term(loads(spec[1]))
    if kind == "multiset":
        ms = multiset.Multiset()
        for s, n in spec[1]:
            ms.add(sx_to_term(loads(s)), n)
        return ms
    if kind == "tuple":
        return tuple(sx_to_term(loads(s)) for s in spec[1])
    return 3


def arg_to_req(spec):
    """the request form of an argument, read back from the REAL object (a Multiset merges equal
    keys and fixes the iteration order)"""
    arg = build_arg(spec)
    if spec[0] == "one":
        return f"(one {dumps(term_to_sx(arg))})"
    if spec[0] == "multiset":
        return "(multiset " + " ".join(f"({dumps(term_to_sx(k))} {n})" for k, n in arg.items()) + ")"
    if spec[0] == "tuple":
        return "(tuple " + " ".join(dumps(term_to_sx(t)) for t in arg) + ")"
    return "(other)"


def received_to_sx(v):
    import multiset
    if isinstance(v, multiset.BaseMultiset):
        return "(" + " ".join(["multiset"] + [f"({dumps(expr_to_sx(k))} {n})" for k, n in v.items()]) + ")"
    if isinstance(v, tuple):
        return "(" + " ".join(["tuple"] + [dumps(expr_to_sx(k)) for k in v]) + ")"
    return f"(one {dumps(expr_to_sx(v))})"


def independent_image(s):
    """the pymbolic tree a wire term stands for, read off the term's STRUCTURE (not via the code
    under test); None if the term has no image (atoms, wildcards, ill-formed shapes)"""
    h = s[0]
    if h == "Scalar":
        return s[1]
    if h in ("Id", "ComparisonOp", "Wildcard", "TupleOp"):
        return None
    ops = s[1]
    names = {"TrueDiv": "Quotient", "FloorDiv": "FloorDiv", "Modulo": "Remainder", "Power": "Power",
             "LeftShift": "LeftShift", "RightShift": "RightShift"}
    if h == "Variable":
        return [A("Var"), ops[0][1]] if len(ops) == 1 and ops[0][0] == "Id" else None
    if h in ("Call", "Subscript"):
        if len(ops) != 2 or ops[1][0] != "TupleOp":
            return None
        f = independent_image(ops[0])
        xs = [independent_image(c) for c in ops[1][1]]
        if f is None or any(x is None for x in xs):
            return None
        return [A("Call"), f, xs] if h == "Call" else [A("Subscript"), f, [A("Tuple"), *xs]]
    if h == "Comparison":
        if len(ops) != 3 or ops[1][0] != "ComparisonOp":
            return None
        l, r = independent_image(ops[0]), independent_image(ops[2])
        return None if l is None or r is None else [A("Comparison"), l, ops[1][1], r]
    xs = [independent_image(c) for c in ops]
    if any(x is None for x in xs):
        return None
    if h in names:
        return [A(names[h]), *xs] if len(xs) == 2 else None
    if h in ("LogicalNot", "BitwiseNot"):
        return [A(h), *xs] if len(xs) == 1 else None
    if h == "If":
        return [A("If"), *xs] if len(xs) == 3 else None
    if h in AC_NAMES:
        return [A(h), *xs]
    return None


def strip_vn(s):
    """the wire term with every variable_name of an operation / atom removed"""
    if s[0] == "Wildcard":
        return s
    if s[0] in ("Scalar", "Id", "ComparisonOp"):
        return [*s[:-1], A("nil")]
    return [s[0], [strip_vn(c) for c in s[1]], A("nil")]


def keys_differ_only_by_name(keys):
    """are two of the (pairwise different) wire terms `==` once every variable_name is removed?"""
    plain = [sx_to_term(strip_vn(s)) for s in keys]
    return any(plain[i] == plain[j] for i in range(len(plain)) for j in range(i + 1, len(plain)))


class ReplacementStream(Stream):
    """`ToFromReplacement.__call__` called with the three kinds of values a matchpy substitution
    holds (term, Multiset, tuple): what the user's callback receives, real code vs `convArgs`; and
    the substitution conversion inside `match` (matchpy's matcher stubbed by the given substitution)
    vs `matchConv`.  Oracle: the callback receives every captured operand with its multiplicity."""
    name = "matchpy-tofrom-replacement"

    def cases(self, rng, tier):
        T, _ = mappers()
        pool = [dumps(term_to_sx(t)) for t in term_pool()]
        n = 700 if tier == "quick" else 12000
        for i in range(n):
            g = BGen(rng, wild=0.03 if i % 6 == 0 else 0.0)
            src = []
            for _ in range(5):
                try:
                    src.append(dumps(term_to_sx(T(g.gen(rng.randint(0, 2))))))
                except RecursionError:
                    raise
                except Exception:
                    pass
            if i % 4 == 0 or not src:
                src = src + rng.sample(pool, 6)
            kw = []
            for j in range(rng.choice([1, 1, 2, 3])):
                kind = rng.choice(["one", "multiset", "multiset", "tuple", "other"]
                                  if rng.random() < 0.1 else ["one", "multiset", "multiset", "tuple"])
                if kind == "one":
                    spec = ["one", rng.choice(src)]
                elif kind == "multiset":
                    items = [[rng.choice(src), rng.choice([1, 1, 1, 2, 3])]
                             for _ in range(rng.choice([0, 1, 2, 2, 3, 4]))]
                    if items and rng.random() < 0.12:
                        # the same term once more, told apart only by a variable_name
                        s = loads(rng.choice(items)[0])
                        if s[0] != "Wildcard":
                            items.append([dumps([*s[:-1], "q"]), rng.choice([1, 2])])
                    spec = ["multiset", items]
                elif kind == "tuple":
                    spec = ["tuple", [rng.choice(src) for _ in range(rng.choice([0, 1, 2, 3]))]]
                else:
                    spec = ["other"]
                kw.append([f"k{j}_", spec])
            yield {"op": "repl" if i % 5 else "matchconv", "kw": kw}

    def request(self, pl):
        body = " ".join(f"({dumps(k)} {arg_to_req(spec)})" for k, spec in pl["kw"])
        return f"({'mp-repl' if pl['op'] == 'repl' else 'mp-matchconv'} ({body}))"

    def _call(self, pl):
        """-> what the callback received (repl) / the converted substitution (matchconv)"""
        import matchpy

        import pymbolic.interop.matchpy as m
        from pymbolic.interop.matchpy.tofrom import ToFromReplacement
        T, F = mappers()
        kwargs = {k: build_arg(spec) for k, spec in pl["kw"]}
        if pl["op"] == "repl":
            got = []

            def f(**kw):
                got.append(kw)
                return p.Variable("R")
            ToFromReplacement(f, T, F)(**kwargs)
            return got[0]
        saved = matchpy.match
        matchpy.match = lambda subject, pattern: iter([kwargs])
        try:
            res = list(m.match(p.Variable("a"), p.Variable("a")))
        finally:
            matchpy.match = saved
        return res[0]

    def run_impl(self, pl):
        try:
            got = self._call(pl)
        except RecursionError:
            raise
        except Exception as ex:
            return err_sx(ex)
        if pl["op"] == "repl":
            return "(" + " ".join(f"({dumps(k)} {received_to_sx(v)})" for k, v in got.items()) + ")"
        return "(" + " ".join(f"({dumps(k)} {dumps(expr_to_sx(v))})" for k, v in got.items()) + ")"

    def oracle(self, pl):
        if pl["op"] != "repl":
            return None
        try:
            got = self._call(pl)
        except RecursionError:
            raise
        except Exception:
            return None
        import multiset
        for k, spec in pl["kw"]:
            arg = build_arg(spec)
            if spec[0] == "one":
                given = [(term_to_sx(arg), 1)]
            elif spec[0] == "multiset":
                given = [(term_to_sx(t), n) for t, n in arg.items()]
            else:
                given = [(term_to_sx(t), 1) for t in arg]
            given = [(loads(dumps(s)), n) for s, n in given]
            want = []
            for s, n in given:
                im = independent_image(s)
                if im is None:
                    return None
                want.append((sx_to_expr(im), n))
            v = got[k]
            if isinstance(v, multiset.BaseMultiset):
                have = list(v.items())
            elif isinstance(v, tuple):
                have = [(x, 1) for x in v]
            else:
                have = [(v, 1)]
            if spec[0] == "tuple" or spec[0] == "one":
                ok = len(have) == len(want) and all(type(x) is type(y) and x == y
                                                   for (x, _), (y, _) in zip(have, want))
            else:
                def count(lst, e):
                    return sum(n for x, n in lst if x == e)
                ok = all(count(have, e) == count(want, e) for e, _ in want + have)
            if not ok:
                key = "matchpy-replacement-callback-loses-multiplicity"
                if spec[0] == "multiset" and keys_differ_only_by_name([s for s, _ in given]):
                    # two captured keys differ only in a variable_name: same image, count overwritten
                    key = "matchpy-replacement-multiset-keys-differ-only-by-variable-name"
                return Failure(key,
                               f"captured {[(str(sx_to_expr(independent_image(s))), n) for s, n in given]}"
                               f" for {k}, the callback received {have}", pl)
        return None

    def shrink(self, pl):
        for i in range(len(pl["kw"])):
            if len(pl["kw"]) > 1:
                yield {**pl, "kw": pl["kw"][:i] + pl["kw"][i + 1:]}
            k, spec = pl["kw"][i]
            if spec[0] == "multiset":
                for j in range(len(spec[1])):
                    yield {**pl, "kw": pl["kw"][:i] + [[k, ["multiset", spec[1][:j] + spec[1][j + 1:]]]]
                           + pl["kw"][i + 1:]}

    def nontrivial_key(self, pl, model, impl):
        import json
        return None if impl.startswith("(err") else json.dumps(pl, sort_keys=True)

    def stats(self, pl, mo, io, acc):
        k = pl["op"] + (" " + io[:io.index(")") + 1] if io.startswith("(err") else " converted")
        acc[k] = acc.get(k, 0) + 1

# }}}
