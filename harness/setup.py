"""./check --setup : build the whole Lean project (model, proofs, driver) from files on disk."""
from __future__ import annotations

import importlib
import os
import pkgutil

from . import leanio


def all_props():
    from . import props
    res = []
    for m in sorted(pkgutil.iter_modules(props.__path__), key=lambda m: m.name):
        mod = importlib.import_module(f"harness.props.{m.name}")
        if hasattr(mod, "PROP"):
            res.append(mod.PROP)
    return res


def setup() -> int:
    ctx = {"repo": os.environ.get("REPO", "/repo"), "tier": "quick", "seed": 0}
    with leanio.BuildLock():
        for prop in all_props():
            for ex in prop.extractors:
                try:
                    ex(ctx)
                except Exception as e:  # extraction problems are reported by the checks
                    print(f"setup: extractor of {prop.id} failed: {e}")
        ok, log = leanio.lake_build([])
    print(log[-3000:])
    return 0 if ok else 1
