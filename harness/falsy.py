"""Generators for trees that contain FALSY expression objects.

In Python every object has a truth value, and pymbolic's expression classes define theirs
(`Sum.__bool__`, `Product.__bool__`, `QuotientBase.__bool__`): a product with a zero factor, a
quotient / floor division / remainder whose numerator is falsy and a one-element sum of a falsy
child are all *falsy objects* although they are perfectly good expressions with variables in them.
They are what substitution without constant folding leaves behind (`substitute(a[i*n:m], i=0)` is
`a[0*n:m]`) and what the parser yields for `0*n`.  A traversal that decides "is this optional part
present?" / "is there anything here?" by truthiness (`filter(None, children)`, `if child:`,
`child or default`, `any(children)`) instead of `is not None` silently skips such an operand and
everything below it.

The generators put such operands (each carrying variables / composites of its own) into every
child position of every node kind - first of all the OPTIONAL positions (slice bounds, where `None`
means "omitted") - and build "block access" trees the way a program does: an index expression in
a loop variable, specialised by substituting a constant for the variable, structurally.

`is_falsy` is the harness' own statement of the truth-value rules (written from the Python data
model and the documented `__bool__` methods); it is used for statistics and for building the
truthy twin (`truthy_twin`: the same tree with every zero constant replaced by a non-zero one),
never for judging an analysis.
"""
from __future__ import annotations

import pymbolic.primitives as p

from .sexp import A, Atom

ZEROS = [0, 0, 0, False, 0.0, -0.0]
QUOTS = [p.Quotient, p.FloorDiv, p.Remainder]


def is_falsy(e) -> bool:
    """truth value False, by the rules of the Python data model / the classes' `__bool__`"""
    if e is None:
        return True
    if isinstance(e, (bool, int, float, complex)):
        return e == 0
    if isinstance(e, (tuple, list, str)):
        return len(e) == 0
    if isinstance(e, p.Product):
        return any(is_falsy(c) for c in e.children)
    if isinstance(e, p.Sum):
        return len(e.children) == 1 and is_falsy(e.children[0])
    if isinstance(e, (p.Quotient, p.FloorDiv, p.Remainder)):
        return is_falsy(e.numerator)
    return False


class Names:
    """variable names for one tree: fresh ones (so that a variable occurs in ONE place only and a
    skipped operand is visible in the result) mixed with a few recurring ones"""

    def __init__(self, rng, fresh=0.8):
        self.rng, self.fresh, self.n = rng, fresh, 0

    def var(self, pool=("x", "y", "n", "m", "k")):
        if self.rng.random() < self.fresh:
            self.n += 1
            return p.Variable(f"{self.rng.choice(['v', 'n', 'bs', 'lo'])}{self.n}")
        return p.Variable(self.rng.choice(pool))


def carrier(r, names, depth=1):
    """a small subtree with at least one variable / composite of its own in it"""
    k = r.random()
    if depth <= 0 or k < 0.45:
        return names.var()
    if k < 0.55:
        return p.Subscript(names.var(("a", "t")), carrier(r, names, depth - 1))
    if k < 0.62:
        return p.Lookup(names.var(("r",)), r.choice(["u", "v"]))
    if k < 0.72:
        return p.Call(names.var(("f", "g")), (carrier(r, names, depth - 1),))
    if k < 0.78:
        return p.CommonSubexpression(carrier(r, names, depth - 1), r.choice([None, "cs"]))
    if k < 0.9:
        return p.Sum((carrier(r, names, depth - 1), r.randint(1, 4)))
    return p.Product((r.randint(2, 4), carrier(r, names, depth - 1)))


FALSY_SHAPES = ["product", "product", "product", "quotient", "floordiv", "remainder", "sum1",
                "nested"]


def falsy_operand(r, names, depth=2, shape=None):
    """an expression object that is falsy and carries variables"""
    shape = shape or r.choice(FALSY_SHAPES)
    zero = r.choice(ZEROS)
    if depth <= 0 and shape in ("sum1", "nested"):
        shape = "product"
    if shape == "product":
        kids = [carrier(r, names) for _ in range(r.randint(1, 3))]
        kids.insert(r.randint(0, len(kids)), zero)
        return p.Product(tuple(kids))
    if shape in ("quotient", "floordiv", "remainder"):
        cls = {"quotient": p.Quotient, "floordiv": p.FloorDiv, "remainder": p.Remainder}[shape]
        num = zero if r.random() < 0.5 else falsy_operand(r, names, depth - 1, "product")
        return cls(num, carrier(r, names))
    if shape == "sum1":
        return p.Sum((falsy_operand(r, names, depth - 1),))
    # nested: a falsy operand as the zero factor / numerator of another one
    inner = falsy_operand(r, names, depth - 1)
    if r.random() < 0.5:
        kids = [carrier(r, names), inner]
        r.shuffle(kids)
        return p.Product(tuple(kids))
    return r.choice(QUOTS)(inner, carrier(r, names))


def slice_patterns():
    """(length, position of the operand) for every slot of every slice length"""
    return [(n, k) for n in (1, 2, 3) for k in range(n)]


def slice_with(r, names, operand, length, pos):
    """a Slice of `length` parts with `operand` at `pos`; the other parts are omitted (None), a
    constant, a variable or (rarely) another falsy operand"""
    parts = []
    for i in range(length):
        if i == pos:
            parts.append(operand)
            continue
        k = r.random()
        if k < 0.35:
            parts.append(None)
        elif k < 0.5:
            parts.append(r.choice([0, 1, 2, -1]))
        elif k < 0.85:
            parts.append(carrier(r, names, 0))
        else:
            parts.append(falsy_operand(r, names, 1))
    return p.Slice(tuple(parts))


SLICE_HOSTS = ["bare", "subscript", "subscript", "subscript", "index-tuple", "index-tuple",
               "call-arg", "kwarg", "lookup", "cse", "nested-subscript", "tuple"]


def host_slice(r, names, sl, host=None):
    """the slice where slices occur: as the index of a subscript (alone or in an index tuple),
    and that subscript below the other composite kinds"""
    host = host or r.choice(SLICE_HOSTS)
    agg = names.var(("a", "t", "u"))
    if host == "bare":
        return sl
    if host == "tuple":
        return (sl, carrier(r, names, 0))
    if host == "index-tuple":
        idx = [carrier(r, names, 0) if r.random() < 0.6 else r.randint(0, 3)
               for _ in range(r.randint(1, 2))]
        idx.insert(r.randint(0, len(idx)), sl)
        return p.Subscript(agg, tuple(idx))
    sub = p.Subscript(agg, sl)
    if host == "subscript":
        return sub
    if host == "call-arg":
        return p.Call(names.var(("f", "g")), (sub, carrier(r, names, 0)))
    if host == "kwarg":
        return p.CallWithKwargs(names.var(("f", "g")), (carrier(r, names, 0),),
                                {r.choice(["k", "w"]): sub})
    if host == "lookup":
        return p.Lookup(sub, r.choice(["real", "u"]))
    if host == "cse":
        return p.CommonSubexpression(sub, r.choice([None, "cs"]))
    # nested-subscript
    return p.Subscript(names.var(("b", "t")), sub)


HOLES = ["index", "index-tuple", "call-arg", "kwarg", "lookup-agg", "subscript-agg", "if-cond",
         "if-then", "if-else", "cmp-left", "cmp-right", "sum", "product", "minmax", "logical",
         "bitwise", "power-base", "power-exp", "quot-num", "quot-den", "floordiv-den", "rem-den",
         "shift", "not", "cse", "derivative", "substitution-child", "substitution-value", "tuple",
         "list"]


def place(r, names, op, hole=None):
    """`op` as a child of every node kind that has children (the non-optional positions)"""
    hole = hole or r.choice(HOLES)
    c = lambda: carrier(r, names, 0)  # noqa: E731
    f = names.var(("f", "g"))
    if hole == "index":
        return p.Subscript(names.var(("a", "t")), op)
    if hole == "index-tuple":
        idx = [c(), op]
        r.shuffle(idx)
        return p.Subscript(names.var(("a", "t")), tuple(idx))
    if hole == "call-arg":
        args = [c(), op]
        r.shuffle(args)
        return p.Call(f, tuple(args))
    if hole == "kwarg":
        return p.CallWithKwargs(f, (c(),), {"k": op, "w": c()})
    if hole == "lookup-agg":
        return p.Lookup(op, "u")
    if hole == "subscript-agg":
        return p.Subscript(op, c())
    if hole == "if-cond":
        return p.If(op, c(), c())
    if hole == "if-then":
        return p.If(p.Comparison(c(), "<", c()), op, c())
    if hole == "if-else":
        return p.If(p.Comparison(c(), "<", c()), c(), op)
    if hole == "cmp-left":
        return p.Comparison(op, r.choice(["<", "==", "!="]), c())
    if hole == "cmp-right":
        return p.Comparison(c(), r.choice(["<", "==", "!="]), op)
    if hole in ("sum", "product", "minmax", "logical", "bitwise"):
        cls = {"sum": [p.Sum], "product": [p.Product], "minmax": [p.Min, p.Max],
               "logical": [p.LogicalOr, p.LogicalAnd],
               "bitwise": [p.BitwiseOr, p.BitwiseXor, p.BitwiseAnd]}[hole]
        kids = [c() for _ in range(r.randint(1, 2))]
        kids.insert(r.randint(0, len(kids)), op)
        return r.choice(cls)(tuple(kids))
    if hole == "power-base":
        return p.Power(op, r.choice([2, 3]))
    if hole == "power-exp":
        return p.Power(c(), op)
    if hole == "quot-num":
        return p.Quotient(op, c())
    if hole == "quot-den":
        return p.Quotient(c(), op)
    if hole == "floordiv-den":
        return p.FloorDiv(c(), op)
    if hole == "rem-den":
        return p.Remainder(c(), op)
    if hole == "shift":
        return r.choice([p.LeftShift, p.RightShift])(*r.sample([op, c()], 2))
    if hole == "not":
        return r.choice([p.LogicalNot, p.BitwiseNot])(op)
    if hole == "cse":
        return p.CommonSubexpression(op, r.choice([None, "cs"]))
    if hole == "derivative":
        return p.Derivative(op, ("x",))
    if hole == "substitution-child":
        return p.Substitution(op, ("x",), (c(),))
    if hole == "substitution-value":
        return p.Substitution(c(), ("x",), (op,))
    if hole == "tuple":
        return (c(), op)
    return [op, c()]


# {{{ block accesses specialised by structural substitution

def index_expr(r, names, loop, depth=2):
    """an integer index expression in the loop variable `loop`, the way block accesses are
    written: i*n, (i+1)*n, lo + i*stride, i // k, i % k, n*i + j"""
    k = r.random()
    if depth <= 0 or k < 0.1:
        return loop if r.random() < 0.7 else names.var()
    if k < 0.45:
        kids = [loop, names.var()]
        if r.random() < 0.3:
            kids.append(names.var())
        r.shuffle(kids)
        return p.Product(tuple(kids))
    if k < 0.6:
        return p.Product((p.Sum((loop, r.randint(1, 2))), names.var()))
    if k < 0.75:
        kids = [index_expr(r, names, loop, depth - 1), names.var()]
        r.shuffle(kids)
        return p.Sum(tuple(kids))
    if k < 0.85:
        return p.FloorDiv(index_expr(r, names, loop, depth - 1), names.var())
    if k < 0.93:
        return p.Remainder(index_expr(r, names, loop, depth - 1), names.var())
    return p.Quotient(index_expr(r, names, loop, depth - 1), names.var())


def block_access(r, names, loop):
    """a[<index expr>:<index expr>:<step>] with omitted parts, in an index tuple, in an
    expression around it"""
    def part(prob_none):
        k = r.random()
        if k < prob_none:
            return None
        if k < prob_none + 0.12:
            return r.randint(0, 3)
        if k < prob_none + 0.24:
            return names.var()
        return index_expr(r, names, loop)

    length = r.choice([1, 2, 2, 2, 3, 3])
    parts = [part(0.2 if length > 1 else 0.0) for _ in range(length)]
    if all(q is None or isinstance(q, int) for q in parts):
        parts[r.randrange(length)] = index_expr(r, names, loop)
    sl = p.Slice(tuple(parts))
    agg = names.var(("a", "u"))
    if r.random() < 0.3:
        idx = [sl, index_expr(r, names, loop, 1) if r.random() < 0.5 else r.randint(0, 3)]
        r.shuffle(idx)
        acc = p.Subscript(agg, tuple(idx))
    else:
        acc = p.Subscript(agg, sl)
    k = r.random()
    if k < 0.4:
        return acc
    if k < 0.55:
        return p.Sum((acc, p.Subscript(names.var(("b",)), index_expr(r, names, loop, 1))))
    if k < 0.7:
        return p.Call(names.var(("f", "g")), (acc, names.var()))
    if k < 0.8:
        return p.CallWithKwargs(names.var(("f",)), (names.var(),), {"w": acc})
    if k < 0.9:
        return p.CommonSubexpression(acc, r.choice([None, "blk"]))
    return p.Product((p.Lookup(acc, "real"), names.var()))


def sx_substitute(s, name, value_sx):
    """structural substitution on the S-expression of a tree: every occurrence of the variable
    `name` is replaced by `value_sx`; nothing is folded (what `substitute` promises to do)"""
    if isinstance(s, list):
        if s and isinstance(s[0], Atom) and s[0] == "Var" and s[1] == name:
            return value_sx
        return [sx_substitute(c, name, value_sx) for c in s]
    return s

# }}}


def _is_zero_const_sx(s):
    if not (isinstance(s, list) and s and isinstance(s[0], Atom)):
        return False
    if s[0] == "Int":
        return int(s[1]) == 0
    if s[0] == "Bool":
        return s[1] in (False, "false")
    if s[0] == "Flt":
        try:
            return float(s[1]) == 0.0
        except ValueError:
            return False
    return False


def truthy_twin(s):
    """the same tree (S-expression) with every zero constant replaced by the integer 7: the
    variables and composites in it are the same, no operand is falsy because of a zero any more"""
    if _is_zero_const_sx(s):
        return [A("Int"), 7]
    if isinstance(s, list):
        return [truthy_twin(c) for c in s]
    return s


def falsy_subterms(e, acc=None):
    """the falsy expression OBJECTS (not constants / None) inside `e`"""
    from .oracles import scan
    return [s for s in scan.subterms(e) if isinstance(s, p.Expression) and is_falsy(s)]
