"""Temporaries: inputs that exist only for the duration of ONE call on a long-lived object.

A cache that is keyed by object identity / address (``id(expr)``), or that holds its keys weakly,
is invisible as long as every input stays alive: no two live objects share an address.  It shows
when one mapper instance is used for a whole series of inputs that are TEMPORARIES (built, passed,
dropped): CPython's allocator hands the block of a freed node to the next node of the same size, a
new node lands on the address of a dead one and hits the dead one's entry.

This module has the reusable part for streams that look for this class of defect:

* `build(sx_text)`: a fresh expression from its S-expression payload (every node a new object);
* `feed(fn, sx_text, …)`: build the expression INSIDE the call and hand it to `fn` as a temporary:
  no reference to it survives the call (not in a local of this module, not in a list, not in a
  traceback: exceptions are reduced to their class name before the frame is left);
* `run_family(fn, payloads, judge, …)`: feed a whole family to ONE callable, judging every answer
  immediately and dropping it before the next member is built, with `gc.collect()` at the steps
  the payload names;
* `TemplateGen` / `family(rng, …)`: families of structurally identical expressions (same shapes, same
  node sizes, same construction order, so that the freed blocks of one member are exactly what the
  next member asks the allocator for) with different CONTENTS (integer constants / variable names
  at the holes), so that an entry answered for the wrong member is a wrong answer.

Everything random comes from the `random.Random` passed in.  Whether a given member lands on a
recycled address is up to the allocator; the construction makes it practically certain within a
family of a few dozen members (every earlier member leaves its addresses behind in the cache under
test), and nothing here can make a correct implementation fail: the judged facts are the answers.
"""
from __future__ import annotations

import gc

from .sexp import A, dumps, expr_to_sx, hashcons, loads, sx_to_expr


# {{{ building and feeding temporaries

def build(sx_text: str, share: bool = False):
    """a new expression object graph for the payload `sx_text`; `share`: equal subtrees become ONE
    object (`hashcons`), the intermediate unshared tree is dropped before returning"""
    if share:
        return hashcons(sx_to_expr(loads(sx_text)))
    return sx_to_expr(loads(sx_text))


def tree(e) -> str:
    """canonical text of an answer that is an expression (`(unencodable <type>)` otherwise)"""
    try:
        return dumps(expr_to_sx(e))
    except Exception:
        return f"(unencodable {type(e).__name__})"


def feed(fn, sx_text: str, *args, share: bool = False, post=None, **kwargs):
    """`fn(<the expression of sx_text>, *args, **kwargs)` with the expression as a temporary.

    Returns `("ok", answer)` (`post(answer)` if `post` is given: use it to serialise the answer when
    the answer itself must not outlive the call, since an answer may reference nodes of the input
    and keep them alive) or `("err", <exception class name>)`.  The exception object, and with it the
    traceback whose frames reference the input, is gone when this function returns."""
    try:
        # the expression is referenced by the evaluation stack of this frame (and the callee's
        # arguments) only; it dies when the call returns
        res = fn(build(sx_text, share), *args, **kwargs)
        if post is not None:
            res = post(res)
        return ("ok", res)
    except RecursionError:
        raise
    except Exception as ex:
        name = type(ex).__name__
    return ("err", name)


def run_family(fn, payloads, judge, collect_at=(), hold=True, share=False, post=None,
               args_of=None):
    """Feed the members of `payloads` (S-expression texts) to the ONE callable `fn`, in order.

    After each call `judge(i, sx_text, outcome)` is asked for a verdict (anything not None stops the
    run and is returned).  `hold`: the answer object is alive while it is judged (and dropped right
    after); otherwise only `post(answer)` (default: its canonical text) survives the call.
    `collect_at`: member indices after which the cyclic collector is run (frees what reference
    cycles — tracebacks, closures — may still hold).  `args_of(i)` -> (args, kwargs) of call i."""
    collect_at = set(collect_at)
    if not hold and post is None:
        post = tree
    for i, sx_text in enumerate(payloads):
        a, kw = args_of(i) if args_of is not None else ((), {})
        out = feed(fn, sx_text, *a, share=share, post=post, **kw)
        verdict = judge(i, sx_text, out)
        del out
        if verdict is not None:
            return verdict
        if i in collect_at:
            gc.collect()
    return None

# }}}


# {{{ families of structurally identical expressions

HOLE = A("Hole")


class Template:
    """An expression S-expression with holes `(Hole int k)` / `(Hole var k)`; `fill(values)` gives
    the payload text of one member.  All members have the same shape and the same node sizes."""

    def __init__(self, sx, n_int, n_var):
        self.sx = sx
        self.n_int = n_int
        self.n_var = n_var

    def fill(self, ints, names) -> str:
        def go(s):
            if isinstance(s, list):
                if s and s[0] == HOLE:
                    if s[1] == "int":
                        return [A("Int"), ints[s[2]]]
                    return [A("Var"), names[s[2]]]
                return [go(c) for c in s]
            return s
        return dumps(go(self.sx))


class TemplateGen:
    """Random templates.  `ops`: the inner node kinds to draw from (sum, prod, quot, pow, fn
    (`math.<f>` of one argument), call (`f`/`g` of one or two arguments), subscript, cse; repeat a
    kind to weight it); `fixed_vars`: variables that are part of the shape (not holes; names or
    leaf S-expressions); `var_holes`: whether variable names may be holes too.  Every `cse` node gets a child that contains a "carrier": a hole in a position where it changes what
    the node MEANS (its derivative w.r.t. `carrier_var`, its value, its dependencies, its text), and
    carrier holes get pairwise different values across the members of a family."""

    FNS = ["sin", "cos", "exp", "tanh"]

    def __init__(self, rng, ops, fixed_vars=("x",), carrier_var="x", var_holes=False,
                 cse_scopes=("pymbolic_eval", "pymbolic_expr"), carrier_kinds=None):
        self.rng = rng
        self.ops = list(ops)
        self.fixed_vars = list(fixed_vars)
        self.carrier_var = carrier_var
        self.var_holes = var_holes
        self.cse_scopes = list(cse_scopes)
        # 0..3: an integer carrier; 4: an integer and a variable-name carrier
        self.carrier_kinds = list(carrier_kinds) if carrier_kinds is not None else \
            list(range(5 if var_holes else 4))
        self.n_int = 0
        self.n_var = 0
        self.carriers = []          # indices of int holes that must differ between members
        self.var_carriers = []
        self.n_cse = 0

    def int_hole(self, carrier=False):
        k = self.n_int
        self.n_int += 1
        if carrier:
            self.carriers.append(k)
        return [HOLE, "int", k]

    def var_hole(self, carrier=False):
        k = self.n_var
        self.n_var += 1
        if carrier:
            self.var_carriers.append(k)
        return [HOLE, "var", k]

    def var(self, name):
        """a fixed variable: a name, or the S-expression of a leaf (e.g. a subscripted variable)"""
        return name if isinstance(name, list) else [A("Var"), name]

    def leaf(self):
        r = self.rng
        k = r.random()
        if k < 0.5:
            return self.var(r.choice(self.fixed_vars))
        if k < 0.65 and self.var_holes:
            return self.var_hole()
        return self.int_hole()

    def carrier(self):
        """a small subtree with a carrier hole: its derivative w.r.t. the carrier variable, its
        value and its text all depend on the hole"""
        r = self.rng
        v = self.var(self.carrier_var)
        k = r.choice(self.carrier_kinds)
        if k == 0:
            return [A("Product"), self.int_hole(True), v]
        if k == 1:
            return [A("Power"), [A("Sum"), v, self.int_hole(True)], [A("Int"), 2]]
        if k == 2:
            return [A("Product"), v, [A("Sum"), v, self.int_hole(True)]]
        if k == 3:
            return [A("Sum"), [A("Product"), self.int_hole(True), v, v], self.int_hole()]
        return [A("Product"), self.int_hole(True), v, self.var_hole(True)]

    def gen(self, depth):
        r = self.rng
        if depth <= 0 or r.random() < 0.12:
            return self.leaf()
        d = depth - 1
        op = r.choice(self.ops)
        if op == "sum":
            return [A("Sum"), *[self.gen(d) for _ in range(r.randint(2, 3))]]
        if op == "prod":
            return [A("Product"), *[self.gen(d) for _ in range(r.randint(2, 3))]]
        if op == "quot":
            return [A("Quotient"), self.gen(d), self.gen(d)]
        if op == "pow":
            return [A("Power"), self.gen(d), [A("Int"), r.choice([2, 2, 3])]]
        if op == "fn":
            return [A("Call"), [A("Lookup"), self.var("math"), r.choice(self.FNS)], [self.gen(d)]]
        if op == "call":
            return [A("Call"), self.var(r.choice(["f", "g"])), [self.gen(d) for _ in range(r.randint(1, 2))]]
        if op == "subscript":
            return [A("Subscript"), self.var("a"), self.gen(min(d, 1))]
        if op == "cse":
            return self.cse(d)
        raise ValueError(op)

    def cse(self, depth):
        r = self.rng
        self.n_cse += 1
        body = [A("Sum"), self.gen(depth), self.carrier()]
        if r.random() < 0.3:
            body = [A("Sum"), self.cse(max(depth - 1, 0)), body[2]]      # nested
        pref = r.choice([A("nil"), "cs", "u"])
        return [A("CSE"), body, pref, r.choice(self.cse_scopes)]

    def template(self, depth, min_cse=2):
        """a template with at least `min_cse` CommonSubexpression nodes"""
        parts = [self.gen(depth)]
        while self.n_cse < min_cse:
            parts.append(self.cse(max(depth - 1, 1)))
        r = self.rng
        if len(parts) == 1:
            sx = parts[0]
        else:
            # the shape of the demo: s*t + k/s, a sum of products, …
            head = A(r.choice(["Sum", "Product"]))
            sx = [head, *parts]
        if r.random() < 0.5 and self.n_cse:
            # the same CSE payload a second time (an equal node; ONE object under `share`)
            first = find_first(sx, "CSE")
            if first is not None:
                sx = [A("Sum"), sx, [A("Product"), first, self.var(self.carrier_var)]]
        return Template(sx, self.n_int, self.n_var)


def find_first(sx, head):
    if isinstance(sx, list):
        if sx and sx[0] == head:
            return sx
        for c in sx:
            f = find_first(c, head)
            if f is not None:
                return f
    return None


NAME_POOL = ["x", "y", "z", "u", "v", "w", "p", "q", "r", "s", "t", "k", "m", "n", "c", "d"]


def family(rng, gen: TemplateGen, depth, n_members, int_range=(1, 180), names=None, repeat=0.0):
    """`n_members` payload texts of one template.  Carrier holes get pairwise different values
    (sampled without replacement), the other holes arbitrary ones; with probability `repeat` a
    member is an exact repetition of an earlier one (a legitimate hit)."""
    t = gen.template(depth)
    names = list(names or NAME_POOL)
    lo, hi = int_range
    # small ints only (1..256 are preallocated objects in CPython): every member makes exactly the
    # same allocation requests
    per_carrier = {k: rng.sample(range(lo, hi + 1), n_members) for k in gen.carriers}
    # variable-name carriers: pairwise different names of one length
    per_vcarrier = {k: [f"q{j}" for j in rng.sample(range(100, 1000), n_members)]
                    for k in gen.var_carriers}
    members = []
    for i in range(n_members):
        if members and rng.random() < repeat:
            members.append(rng.choice(members))
            continue
        ints = [per_carrier[k][i] if k in per_carrier else rng.randint(lo, hi)
                for k in range(t.n_int)]
        nms = [per_vcarrier[k][i] if k in per_vcarrier else rng.choice(names)
               for k in range(t.n_var)]
        members.append(t.fill(ints, nms))
    return members


def first_difference(text_a: str, text_b: str):
    """Where two answer trees (canonical texts) first differ: `(site, part_a, part_b)`.
    `site` is a short classification: `under-CSE` when the first difference lies below a
    CommonSubexpression node (heads as in the wire format), else `at-<Head>` (the innermost node
    both trees share on the path), `same` when they do not differ.  `part_a` / `part_b`: the texts
    of the innermost enclosing CSE subtrees (of the differing subtrees themselves when there is no
    enclosing CSE)."""
    if text_a == text_b:
        return "same", None, None
    a, b = loads(text_a), loads(text_b)
    cse = None
    last = "top"
    while True:
        if not (isinstance(a, list) and isinstance(b, list)) or not a or not b \
                or isinstance(a[0], list) != isinstance(b[0], list) \
                or (not isinstance(a[0], list) and a[0] != b[0]) or len(a) != len(b):
            break
        if not isinstance(a[0], list):
            last = str(a[0])
            if last == "CSE":
                cse = (a, b)
        nxt = next(((x, y) for x, y in zip(a, b) if x != y), None)
        if nxt is None:
            break
        a, b = nxt
    if cse is not None:
        return "under-CSE", dumps(cse[0]), dumps(cse[1])
    return f"at-{last}", dumps(a), dumps(b)


def diff_site(text_a: str, text_b: str) -> str:
    return first_difference(text_a, text_b)[0]


# Shrinking: do NOT remove members of a failing family.  Which member lands on a recycled address
# is up to the allocator (measured: about one member in ten on an `id`-keyed CSE cache); a family
# cut down to the few members that showed the failure in the running process does not show it again
# in a new process, a whole family of 20..60 does (the replay files keep the whole family).

# }}}
