"""C19 — exact-arithmetic helpers and number types compute what they claim."""
from __future__ import annotations

import cmath
import itertools
import math
import warnings
from fractions import Fraction

from ..core import Failure, Prop, Stream


def poly_sx(terms):
    return "(" + " ".join(f"({int(e)} {int(c)})" for e, c in terms) + ")"


def rpoly(rng, maxlen=4, maxe=5, maxc=3):
    exps = sorted(rng.sample(range(maxe + 1), rng.randint(0, maxlen)))
    return [[e, rng.choice([c for c in range(-maxc, maxc + 1) if c])] for e in exps]


def P(terms):
    from pymbolic import var
    from pymbolic.polynomial import Polynomial
    return Polynomial(var("x"), tuple((int(e), int(c)) for e, c in terms))


def peval(terms, x):
    return sum(c * x ** e for e, c in terms)


class Arith(Stream):
    """integer_power, extended_euclidean, gcd, lcm, find_factors: model vs code + direct oracles"""
    name = "integer-arith"

    def cases(self, rng, tier):
        big = tier != "quick"
        for x in range(-3, 4):
            for n in range(-2, 65 if big else 33):
                yield {"what": "intpow", "a": x, "b": n}
        rng2 = rng
        span = range(-50, 51) if big else range(-20, 21)
        for q in span:
            for r in span:
                yield {"what": "euclid", "a": q, "b": r}
                if (q + r) % 3 == 0:
                    yield {"what": "lcm", "a": q, "b": r}
        for _ in range(300 if not big else 5000):
            q = rng2.choice([0, 1, -1, rng2.randint(-10**6, 10**6), rng2.randint(-10**18, 10**18)])
            r = rng2.choice([0, q, -q, rng2.randint(-10**6, 10**6), rng2.randint(-10**18, 10**18)])
            yield {"what": "euclid", "a": q, "b": r}
            yield {"what": "lcm", "a": q, "b": r}
        for n in range(0, 200 if not big else 2000):
            yield {"what": "findfactors", "a": n, "b": 0}

    def request(self, pl):
        w = pl["what"]
        if w == "findfactors":
            return f"(algo-findfactors {pl['a']})"
        return f"(algo-{w} {pl['a']} {pl['b']})"

    def run_impl(self, pl):
        from pymbolic import algorithm as al
        w, a, b = pl["what"], pl["a"], pl["b"]
        try:
            if w == "intpow":
                return str(al.integer_power(a, b))
            if w == "euclid":
                return "(" + " ".join(str(v) for v in al.extended_euclidean(a, b)) + ")"
            if w == "lcm":
                return str(al.lcm(a, b))
            n1, n2 = al.find_factors(a)
            return f"({n1} {n2})"
        except (RuntimeError, ZeroDivisionError) as ex:
            return type(ex).__name__

    def oracle(self, pl):
        from pymbolic import algorithm as al
        w, a, b = pl["what"], pl["a"], pl["b"]
        if w == "intpow":
            if b < 0:
                try:
                    al.integer_power(a, b)
                except RuntimeError:
                    return None
                return Failure("intpow-negative-accepted", f"integer_power({a},{b}) did not raise", pl)
            got = al.integer_power(a, b)
            if got != a ** b:
                return Failure("intpow", f"integer_power({a},{b}) = {got}", pl)
        elif w == "euclid":
            g, s, t = al.extended_euclidean(a, b)
            if g != s * a + t * b or abs(g) != math.gcd(a, b):
                return Failure("euclid", f"extended_euclidean({a},{b}) = {(g, s, t)}", pl)
        elif w == "lcm":
            if a == 0 and b == 0:
                return None
            got = al.lcm(a, b)
            if abs(got) != math.lcm(a, b):
                return Failure("lcm", f"lcm({a},{b}) = {got}", pl)
        else:
            if a == 0:
                return None
            n1, n2 = al.find_factors(a)
            if n1 * n2 != a:
                return Failure("find-factors", f"find_factors({a}) = {(n1, n2)}", pl)
        return None

    def nontrivial_key(self, pl, model, impl):
        return f"{pl['what']} {pl['a']} {pl['b']}"

    def stats(self, pl, mo, io, acc):
        acc[pl["what"]] = acc.get(pl["what"], 0) + 1


class Polys(Stream):
    """sparse polynomial arithmetic and evaluation: model vs code, homomorphism oracle"""
    name = "polynomials"

    def cases(self, rng, tier):
        n = 800 if tier == "quick" else 15000
        for i in range(n):
            p, q = rpoly(rng), rpoly(rng)
            op = ["add", "sub", "mul", "divmod", "pow", "horner", "sortuniq"][i % 7]
            if op == "sortuniq":
                p = [[rng.randint(0, 4), rng.randint(-2, 2)] for _ in range(rng.randint(0, 8))]
            yield {"op": op, "p": p, "q": q, "n": rng.randint(0, 5), "x": rng.randint(-4, 4)}
        # products with cancelling middle terms (three or more equal exponents)
        fixed = [([[0, 1], [1, 1], [2, 1]], [[0, 1], [1, -1], [2, 1]]),
                 ([[0, -1], [1, -1], [2, 1]], [[0, -1], [1, 1], [2, -1], [3, 1]]),
                 ([[0, 1], [1, -1]], [[0, 1], [1, 1], [2, 1], [3, 1]])]
        for p, q in fixed:
            yield {"op": "mul", "p": p, "q": q, "n": 0, "x": 2}
            yield {"op": "pow", "p": p, "q": q, "n": 4, "x": 2}

    def request(self, pl):
        op = pl["op"]
        if op in ("add", "sub", "mul", "divmod"):
            return f"(algo-poly {op} {poly_sx(pl['p'])} {poly_sx(pl['q'])})"
        if op == "pow":
            return f"(algo-polypow {poly_sx(pl['p'])} {pl['n']})"
        if op == "horner":
            return f"(algo-horner {poly_sx(pl['p'])} {pl['x']})"
        return f"(algo-sortuniq {poly_sx(pl['p'])})"

    def _compute(self, pl):
        from pymbolic.mapper.evaluator import EvaluationMapper
        from pymbolic.polynomial import _sort_uniq
        op = pl["op"]
        if op == "sortuniq":
            return _sort_uniq([tuple(t) for t in pl["p"]])
        a, b = P(pl["p"]), P(pl["q"])
        if op == "add":
            return (a + b).data
        if op == "sub":
            return (a - b).data
        if op == "mul":
            return (a * b).data
        if op == "divmod":
            qq, rr = divmod(a, b)
            return (qq.data, rr.data)
        if op == "pow":
            return (a ** pl["n"]).data
        return EvaluationMapper({"x": pl["x"]})(a)

    def run_impl(self, pl):
        try:
            r = self._compute(pl)
        except (ZeroDivisionError, IndexError) as ex:
            return type(ex).__name__
        if pl["op"] == "horner":
            return str(r)
        if pl["op"] == "divmod":
            return f"({poly_sx(r[0])} {poly_sx(r[1])})"
        return poly_sx(r)

    def oracle(self, pl):
        op = pl["op"]
        try:
            r = self._compute(pl)
        except ZeroDivisionError:
            if op == "divmod" and not pl["q"]:
                return None
            return Failure("poly-raises", f"{op} raised ZeroDivisionError", pl)
        except Exception as ex:
            return Failure("poly-raises", f"{op} raised {ex!r}", pl)
        for x in (-3, -1, 0, 1, 2, Fraction(1, 2)):
            vp, vq = peval(pl["p"], x), peval(pl["q"], x)
            if op == "horner":
                want, got = peval(pl["p"], pl["x"]), r
            elif op == "divmod":
                want, got = vp, peval(r[0], x) * vq + peval(r[1], x)
            else:
                want = {"add": vp + vq, "sub": vp - vq, "mul": vp * vq, "pow": vp ** pl["n"],
                        "sortuniq": vp}[op]
                got = peval(r, x)
            if want != got:
                return Failure(f"poly-{op}", f"{op} on {pl['p']} {pl['q']}: value {got} vs {want} at x={x}", pl)
        if op in ("mul", "add", "sub", "pow", "sortuniq"):
            exps = [e for e, _ in r]
            if exps != sorted(set(exps)):
                return Failure(f"poly-{op}-unsorted", f"result exponents {exps}", pl)
        return None

    def nontrivial_key(self, pl, model, impl):
        return f"{pl['op']} {pl['p']} {pl['q']} {pl['n']} {pl['x']}" if pl["p"] else None

    def stats(self, pl, mo, io, acc):
        acc[pl["op"]] = acc.get(pl["op"], 0) + 1


class Runtime(Stream):
    """parts with no exact model (oracle only): FFT vs the O(n^2) DFT, inverse FFT, symbolic FFT,
    integer_power on matrices, mapper traversal of polynomials, the exact quotient node"""
    name = "runtime-oracles"
    has_model = False

    def cases(self, rng, tier):
        maxn = 24 if tier == "quick" else 64
        for n in range(1, maxn + 1):
            yield {"what": "fft", "n": n, "seed": rng.randint(0, 10**6)}
        for n in ([97, 128] if tier == "quick" else [97, 128, 210, 360, 509]):
            yield {"what": "fft", "n": n, "seed": rng.randint(0, 10**6)}
        for n in (1, 2, 3, 4, 6, 8):
            yield {"what": "symfft", "n": n, "seed": rng.randint(0, 10**6)}
        for _ in range(40):
            yield {"what": "matpow", "n": rng.randint(0, 12), "seed": rng.randint(0, 10**6)}
        for _ in range(60 if tier == "quick" else 600):
            yield {"what": "polymap", "n": 0, "seed": rng.randint(0, 10**6)}
        for a in range(-6, 7):
            for b in range(-6, 7):
                if b:
                    yield {"what": "quotient", "n": a, "seed": b}

    def run_impl(self, pl):
        return "(oracle-only)"

    def oracle(self, pl):
        import random

        import numpy as np
        rng = random.Random(pl["seed"])
        w = pl["what"]
        warnings.simplefilter("ignore")
        from pymbolic import algorithm as al
        if w == "fft":
            n = pl["n"]
            x = np.array([complex(rng.uniform(-1, 1), rng.uniform(-1, 1)) for _ in range(n)])
            got = al.fft(x, complex_dtype=np.complex128)
            want = [sum(cmath.exp(-2j * math.pi * k * j / n) * x[j] for j in range(n))
                    for k in range(n)]
            err = max(abs(g - w_) for g, w_ in zip(got, want))
            if not err < 1e-9 * max(1, n):
                return Failure("fft-vs-dft", f"n={n}: max error {err}", pl)
            back = al.ifft(got, complex_dtype=np.complex128)
            err = max(abs(g - w_) for g, w_ in zip(back, x))
            if not err < 1e-9 * max(1, n):
                return Failure("ifft-inverts", f"n={n}: max error {err}", pl)
        elif w == "symfft":
            from pymbolic import evaluate, var
            n = pl["n"]
            vs = np.array([var(f"v{i}") for i in range(n)], dtype=object)
            sym = al.sym_fft(vs)
            vals = {f"v{i}": complex(rng.uniform(-1, 1), rng.uniform(-1, 1)) for i in range(n)}
            got = [evaluate(s, vals) for s in sym]
            want = [sum(cmath.exp(-2j * math.pi * k * j / n) * vals[f"v{j}"] for j in range(n))
                    for k in range(n)]
            err = max(abs(g - w_) for g, w_ in zip(got, want))
            if not err < 1e-9 * max(1, n):
                return Failure("symfft-vs-dft", f"n={n}: max error {err}", pl)
        elif w == "matpow":
            m = np.array([[rng.randint(-2, 2) for _ in range(3)] for _ in range(3)], dtype=object)
            got = al.integer_power(m, pl["n"], one=np.eye(3, dtype=object).astype(int).astype(object)) \
                if False else None
            # integer_power multiplies with `*`; use a wrapper so that `*` is the matrix product
            class M:
                def __init__(self, a):
                    self.a = a

                def __mul__(self, o):
                    return M(self.a.dot(o.a))
            got = al.integer_power(M(m), pl["n"], one=M(np.eye(3, dtype=int).astype(object))).a
            want = np.eye(3, dtype=int).astype(object)
            for _ in range(pl["n"]):
                want = want.dot(m)
            if not (got == want).all():
                return Failure("matpow", f"integer_power on a matrix, n={pl['n']}", pl)
        elif w == "polymap":
            from pymbolic import evaluate, var
            from pymbolic.mapper.substitutor import substitute
            from pymbolic.polynomial import Polynomial
            a, b = var("a"), var("b")
            coeff_pool = [a, b, a * b, a + 1, 2, 3 * b, a - b]
            exps = sorted(rng.sample(range(6), rng.randint(1, 4)))
            terms = tuple((e, rng.choice(coeff_pool)) for e in exps)
            p = Polynomial(var("x"), terms)
            env = {"x": rng.randint(-3, 3), "a": rng.randint(-3, 3), "b": rng.randint(-3, 3)}
            want = sum(evaluate(c, env) * env["x"] ** e for e, c in terms)
            try:
                got = evaluate(p, env)
            except Exception as ex:
                return Failure("poly-evaluate-raises", repr(ex), pl)
            if got != want:
                return Failure("poly-evaluate", f"{terms} at {env}: {got} vs {want}", pl)
            sub = {a: rng.randint(-2, 2) * var("c") + 1}
            env2 = dict(env, c=rng.randint(-2, 2))
            try:
                mapped = substitute(p, sub)
                got = evaluate(mapped, env2)
            except Exception as ex:
                return Failure("poly-mapped-raises", repr(ex), pl)
            aval = evaluate(sub[a], env2)
            want = sum(evaluate(c, dict(env2, a=aval)) * env["x"] ** e for e, c in terms)
            if got != want:
                return Failure("poly-mapped-value", f"{terms} after {sub}: {got} vs {want}", pl)
        elif w == "quotient":
            from pymbolic import evaluate
            from pymbolic.primitives import quotient
            num, den = pl["n"], pl["seed"]
            try:
                got = evaluate(quotient(num, den))
            except Exception as ex:
                return Failure("quotient-raises", repr(ex), pl)
            if abs(got - num / den) > 1e-12:
                return Failure("quotient-value", f"quotient({num},{den}) evaluates to {got}", pl)
        return None

    def nontrivial_key(self, pl, model, impl):
        return f"{pl['what']} {pl['n']} {pl['seed']}"

    def stats(self, pl, mo, io, acc):
        acc[pl["what"]] = acc.get(pl["what"], 0) + 1


def probes():
    """Defects repaired by fix: commits — reported again if they ever return."""
    from pymbolic import evaluate, var
    from pymbolic.mapper.substitutor import SubstitutionMapper, make_subst_func
    from pymbolic.polynomial import Polynomial, _sort_uniq
    x, a, b = var("x"), var("a"), var("b")
    res = []
    try:
        bad = _sort_uniq([(0, 1), (1, 2), (1, -2), (1, 5)]) != [(0, 1), (1, 5)]
    except Exception:
        bad = True
    res.append(("sort-uniq-stale-exponent", bad, "_sort_uniq([(0,1),(1,2),(1,-2),(1,5)])"))
    try:
        bad = evaluate((Polynomial(x) + 1) ** 3, {"x": 2}) != 27
    except Exception:
        bad = True
    res.append(("polynomial-unhashable", bad, "evaluate((X+1)**3, {'x': 2}) with the default evaluator"))
    pp = Polynomial(x, ((0, a), (1, b), (2, a * b)))
    try:
        bad = len(SubstitutionMapper(make_subst_func({a: 5}))(pp).data) != 3
    except Exception:
        bad = True
    res.append(("identity-map-polynomial-drops-terms", bad, "SubstitutionMapper({a:5})(Polynomial(x,((0,a),(1,b),(2,a*b))))"))
    try:
        bad = evaluate(pp, {"x": 2, "a": 3, "b": 4}) != 3 + 8 + 48
    except Exception:
        bad = True
    res.append(("evaluator-polynomial-coefficients", bad, "evaluate(Polynomial(x,((0,a),(1,b),(2,a*b))), x=2,a=3,b=4)"))
    return res


PROP = Prop(
    id="C19",
    title="Exact-arithmetic helpers and number types compute what they claim",
    lean_targets=["PV.Properties.C19"],
    theorems=[],
    streams=[Arith(), Polys(), Runtime()],
    probes=[probes],
    trusted_base=["Lean 4.33 kernel; axioms propext, Classical.choice, Quot.sound only",
                  "harness/props/c19.py; CPython big integers",
                  "FFT on floats, numpy, symbolic FFT: runtime, checked against the O(n^2) DFT with a tolerance only"],
    level_text='Lean theorems (unbounded): integer_power = x^n in every monoid (negative n refused); extended Euclid satisfies Bezout and returns a gcd up to sign (sign rule proved), lcm consistent; find_factors factorises, FFT index splitting is a bijection; sparse polynomial +,-,*,**,divmod are homomorphic to evaluation, _sort_uniq preserves value and sorts, Horner evaluation equals the sum of terms. Tied to the code by correspondence on big integers and random sparse polynomials; FFT/ifft/sym_fft are compared with the O(n^2) DFT numerically (runtime part, partial).',
    level_note='Trusted: Lean kernel; harness; CPython big integers. The FFT arithmetic (floating-point complex, numpy), polynomial division over fields and mixed bases are not modelled; matrices and mapper traversal of polynomials are checked by oracles on the real code only.',
    technique='Lean 4 proofs about loop-faithful models (well-founded recursion, Mathlib Monoid/Int lemmas) + differential correspondence + numeric DFT oracle',
    design_ref="DESIGN.md §4 C19",
)
